(* C06 — the linear core of composition: Heisenberg duality, outcome layout of the list-valued compositions,
   associativity of the (repaired) MProcess o MProcess, trace preservation of products.  Generic in the ordered field, axiom-free. *)
From Coq Require Import List Arith Bool Lia Ring.
From QV.Core Require Import OF Sums Mat.
From QV.Model Require Import QObj C06_Compose.
Import ListNotations.

Section Lists.
Context {A B : Type}.
(* entry (i, j) of a flat_map whose inner lists all have length m sits at the row-major position i*m + j *)
Lemma nth_flat_map_const (f : A -> list B) (m : nat) (da : A) (db : B) :
  forall (l : list A) (i j : nat), (forall a, length (f a) = m) -> (i < length l)%nat -> (j < m)%nat ->
  nth (i * m + j) (flat_map f l) db = nth j (f (nth i l da)) db.
Proof. induction l as [|a l IH]; intros i j Hm Hi Hj; [inversion Hi|]. cbn [flat_map].
  destruct i as [|i].
  - cbn [Nat.mul Nat.add nth]. rewrite app_nth1 by (rewrite Hm; exact Hj). reflexivity.
  - cbn [nth]. replace (S i * m + j)%nat with (length (f a) + (i * m + j))%nat by (rewrite Hm; lia).
    rewrite app_nth2_plus. apply IH; [exact Hm| cbn in Hi; lia|exact Hj]. Qed.
Lemma nth_map' (f : A -> B) (da : A) (db : B) : forall (l : list A) i, (i < length l)%nat -> nth i (map f l) db = f (nth i l da).
Proof. induction l as [|a l IH]; intros i Hi; [inversion Hi|]. destruct i; cbn; [reflexivity|]. apply IH. cbn in Hi. lia. Qed.
Lemma length_flat_map_const (f : A -> list B) (m : nat) (l : list A) :
  (forall a, length (f a) = m) -> length (flat_map f l) = (length l * m)%nat.
Proof. intros Hm. induction l as [|a l IH]; [reflexivity|]. cbn [flat_map length]. rewrite app_length, IH, Hm. lia. Qed.
End Lists.

Section Linear.
Context (F : OF).
Add Ring Fr : (c_ring F).
Notation "0" := (c0 F). Notation "1" := (c1 F).
Infix "+" := (cadd F). Infix "*" := (cmul F). Infix "-" := (csub F).
Notation RM := (rmat F). Notation RV := (rvec F).
Variable n : nat.

(* ---- Heisenberg duality: POVM after gate / after an instrument element *)
Lemma heisenberg (G : RM) (p s : RV) : dot n (mv n (mT G) p) s = dot n p (mv n G s).
Proof. rewrite dot_mv. apply dot_ext; [apply veq_refl|]. intros i Hi. reflexivity. Qed.

Lemma povm_gate_born (P : list RV) (G : RM) (s : RV) :
  born_list F n (povm_gate F n P G) s = born_list F n P (gate_state F n G s).
Proof. unfold born_list, povm_gate, gate_state. rewrite map_map. apply map_ext. intros p. apply heisenberg. Qed.

Definition dv : RV := fun _ => 0.
Definition dm : RM := fun _ _ => 0.

(* Povm o MProcess: element (x, y) at position x*|P| + y (instrument outcome major = earlier measurement first) is the
   Heisenberg dual of P_y through H_x *)
Lemma povm_hss_nth (P : list RV) (hss : list RM) x y : (x < length hss)%nat -> (y < length P)%nat ->
  nth (x * length P + y) (povm_hss F n P hss) dv = mv n (mT (nth x hss dm)) (nth y P dv).
Proof. intros Hx Hy. unfold povm_hss.
  rewrite (nth_flat_map_const (fun H => map (fun p => mv n (mT H) p) P) (length P) dm dv) by (try assumption; intros; apply map_length).
  now rewrite (nth_map' _ dv dv) by exact Hy. Qed.
Lemma povm_hss_length (P : list RV) (hss : list RM) : length (povm_hss F n P hss) = (length hss * length P)%nat.
Proof. unfold povm_hss. apply length_flat_map_const. intros; apply map_length. Qed.
Lemma povm_hss_born (P : list RV) (hss : list RM) (s : RV) x y : (x < length hss)%nat -> (y < length P)%nat ->
  dot n (nth (x * length P + y) (povm_hss F n P hss) dv) s = dot n (nth y P dv) (mv n (nth x hss dm) s).
Proof. intros Hx Hy. rewrite povm_hss_nth by assumption. apply heisenberg. Qed.

(* ---- MProcess.to_povm and the probability rule sd * (H v)_0 *)
Lemma to_povm_born (sd : F) (H : RM) (v : RV) : sd * mv n H v 0%nat = dot n (fun b => sd * H 0%nat b) v.
Proof. unfold mv, dot. rewrite <- sumn_scale_l. apply sumn_ext; intros; ring. Qed.
Lemma to_povm_nth (sd : F) (hss : list RM) x : (x < length hss)%nat ->
  nth x (to_povm F sd hss) dv = (fun b => sd * nth x hss dm 0%nat b).
Proof. intros Hx. unfold to_povm.
  now rewrite (nth_map' _ dm dv) by exact Hx. Qed.

(* ---- the two MProcess o MProcess formulas.  hss1 = later operand (elem1), hss2 = earlier operand (elem2) *)
Lemma hss_hss_fixed_nth (hss1 hss2 : list RM) x2 x1 : (x2 < length hss2)%nat -> (x1 < length hss1)%nat ->
  nth (x2 * length hss1 + x1) (hss_hss_fixed F n hss1 hss2) dm = mmul n (nth x1 hss1 dm) (nth x2 hss2 dm).
Proof. intros H2 H1. unfold hss_hss_fixed.
  rewrite (nth_flat_map_const (fun H2 => map (fun H1 => mmul n H1 H2) hss1) (length hss1) dm dm) by (try assumption; intros; apply map_length).
  now rewrite (nth_map' _ dm dm) by exact H1. Qed.
Lemma hss_hss_coded_nth (hss1 hss2 : list RM) x2 x1 : (x2 < length hss2)%nat -> (x1 < length hss1)%nat ->
  nth (x2 * length hss1 + x1) (hss_hss_coded F n hss1 hss2) dm = mmul n (nth x2 hss2 dm) (nth x1 hss1 dm).
Proof. intros H2 H1. unfold hss_hss_coded.
  rewrite (nth_flat_map_const (fun H2 => map (fun H1 => mmul n H2 H1) hss1) (length hss1) dm dm) by (try assumption; intros; apply map_length).
  now rewrite (nth_map' _ dm dm) by exact H1. Qed.
Lemma hss_hss_fixed_length (hss1 hss2 : list RM) : length (hss_hss_fixed F n hss1 hss2) = (length hss2 * length hss1)%nat.
Proof. unfold hss_hss_fixed. apply length_flat_map_const. intros; apply map_length. Qed.
Lemma hss_hss_coded_length (hss1 hss2 : list RM) : length (hss_hss_coded F n hss1 hss2) = (length hss2 * length hss1)%nat.
Proof. unfold hss_hss_coded. apply length_flat_map_const. intros; apply map_length. Qed.

(* applying the repaired composite to a vector = applying the earlier element, then the later one; position = earlier outcome major *)
Lemma hss_hss_fixed_action (hss1 hss2 : list RM) (v : RV) x2 x1 i : (x2 < length hss2)%nat -> (x1 < length hss1)%nat ->
  mv n (nth (x2 * length hss1 + x1) (hss_hss_fixed F n hss1 hss2) dm) v i = mv n (nth x1 hss1 dm) (mv n (nth x2 hss2 dm) v) i.
Proof. intros H2 H1. rewrite hss_hss_fixed_nth by assumption. apply mv_mmul. Qed.
(* AS CODED the same position holds the product in the OPPOSITE order: the later element is applied first *)
Lemma hss_hss_coded_action (hss1 hss2 : list RM) (v : RV) x2 x1 i : (x2 < length hss2)%nat -> (x1 < length hss1)%nat ->
  mv n (nth (x2 * length hss1 + x1) (hss_hss_coded F n hss1 hss2) dm) v i = mv n (nth x2 hss2 dm) (mv n (nth x1 hss1 dm) v) i.
Proof. intros H2 H1. rewrite hss_hss_coded_nth by assumption. apply mv_mmul. Qed.

(* ---- pointwise equality of lists of matrices / vectors *)
Definition lmeq (l l' : list RM) := Forall2 (meq n n) l l'.
Definition lveq (l l' : list RV) := Forall2 (veq n) l l'.
Lemma lmeq_refl l : lmeq l l. Proof. induction l; constructor; [apply meq_refl|assumption]. Qed.
Lemma lveq_refl l : lveq l l. Proof. induction l; constructor; [apply veq_refl|assumption]. Qed.
Lemma lmeq_sym l l' : lmeq l l' -> lmeq l' l.
Proof. induction 1; constructor; [now apply meq_sym|assumption]. Qed.
Lemma lmeq_trans l l' l'' : lmeq l l' -> lmeq l' l'' -> lmeq l l''.
Proof. intros H. revert l''. induction H as [|a b l l' Hab H IH]; intros l'' H2; inversion H2; subst; constructor.
  - eapply meq_trans; eassumption.
  - now apply IH. Qed.
Lemma lveq_sym l l' : lveq l l' -> lveq l' l.
Proof. induction 1; constructor; [now apply veq_sym|assumption]. Qed.
Lemma lveq_trans l l' l'' : lveq l l' -> lveq l' l'' -> lveq l l''.
Proof. intros H. revert l''. induction H as [|a b l l' Hab H IH]; intros l'' H2; inversion H2; subst; constructor.
  - eapply veq_trans; eassumption.
  - now apply IH. Qed.
Lemma lmeq_app l1 l1' l2 l2' : lmeq l1 l1' -> lmeq l2 l2' -> lmeq (l1 ++ l2) (l1' ++ l2').
Proof. apply Forall2_app. Qed.
Lemma lveq_app l1 l1' l2 l2' : lveq l1 l1' -> lveq l2 l2' -> lveq (l1 ++ l2) (l1' ++ l2').
Proof. apply Forall2_app. Qed.
Lemma lmeq_length l l' : lmeq l l' -> length l = length l'.
Proof. induction 1; cbn; congruence. Qed.
Lemma lveq_length l l' : lveq l l' -> length l = length l'.
Proof. induction 1; cbn; congruence. Qed.
Lemma lmeq_map (f g : RM -> RM) l l' : (forall a b, meq n n a b -> meq n n (f a) (g b)) -> lmeq l l' -> lmeq (map f l) (map g l').
Proof. intros H. induction 1; cbn; constructor; auto. Qed.

Lemma mmul_meq (A A' B B' : RM) : meq n n A A' -> meq n n B B' -> meq n n (mmul n A B) (mmul n A' B').
Proof. apply mmul_ext. Qed.
Lemma mmul_assoc_meq (A B D : RM) : meq n n (mmul n (mmul n A B) D) (mmul n A (mmul n B D)).
Proof. intros i j _ _. apply mmul_assoc. Qed.

(* congruence of the repaired composition *)
Lemma hss_hss_fixed_ext (A A' B B' : list RM) : lmeq A A' -> lmeq B B' ->
  lmeq (hss_hss_fixed F n A B) (hss_hss_fixed F n A' B').
Proof. intros HA HB. unfold hss_hss_fixed. induction HB as [|b b' B B' Hb HB IH]; cbn [flat_map]; [constructor|].
  apply lmeq_app; [|exact IH]. clear IH HB.
  induction HA as [|a a' A A' Ha HA IH]; cbn [map]; constructor; [now apply mmul_meq|exact IH]. Qed.

Lemma flat_map_app' {X Y} (f : X -> list Y) l1 l2 : flat_map f (l1 ++ l2) = flat_map f l1 ++ flat_map f l2.
Proof. induction l1; cbn; [reflexivity|]. now rewrite IHl1, app_assoc. Qed.

(* ASSOCIATIVITY of the repaired MProcess o MProcess (A latest, C earliest):  (A o B) o C = A o (B o C),
   same matrices (up to mmul associativity) at the same positions *)
Lemma hss_hss_fixed_assoc (A B C : list RM) :
  lmeq (hss_hss_fixed F n (hss_hss_fixed F n A B) C) (hss_hss_fixed F n A (hss_hss_fixed F n B C)).
Proof. unfold hss_hss_fixed at 1 3. induction C as [|c C IH]; cbn [flat_map]; [constructor|].
  unfold hss_hss_fixed at 3. cbn [flat_map]. rewrite flat_map_app'. apply lmeq_app; [|exact IH]. clear IH.
  unfold hss_hss_fixed. induction B as [|b B IHB]; cbn [flat_map map]; [constructor|].
  rewrite map_app. apply lmeq_app; [|exact IHB]. clear IHB.
  rewrite map_map. induction A as [|a A IHA]; cbn [map]; constructor; [apply mmul_assoc_meq|exact IHA]. Qed.

(* a gate is the one-outcome instrument: Gate o MProcess and MProcess o Gate are instances of the repaired formula *)
Lemma gate_hss_as_fixed (G : RM) (hss : list RM) : gate_hss F n G hss = hss_hss_fixed F n [G] hss.
Proof. unfold gate_hss, hss_hss_fixed. induction hss as [|H t IH]; [reflexivity|]. cbn [map flat_map app]. now f_equal. Qed.
Lemma hss_gate_as_fixed (hss : list RM) (G : RM) : hss_gate F n hss G = hss_hss_fixed F n hss [G].
Proof. unfold hss_gate, hss_hss_fixed. cbn. now rewrite app_nil_r. Qed.
Lemma gate_gate_as_fixed (G1 G2 : RM) : [gate_gate F n G1 G2] = hss_hss_fixed F n [G1] [G2].
Proof. reflexivity. Qed.

(* ---- action on (lists of) vectors, and its compatibility with composition *)
Notation act := (act F n).
Lemma act_ext hss hss' vs vs' : lmeq hss hss' -> lveq vs vs' -> lveq (act hss vs) (act hss' vs').
Proof. intros Hh Hv. unfold C06_Compose.act. induction Hv as [|v v' vs vs' Hv Hvs IH]; cbn [flat_map]; [constructor|].
  apply lveq_app; [|exact IH]. clear IH Hvs.
  induction Hh as [|a a' A A' Ha HA IH]; cbn [map]; constructor; [now apply mv_ext|exact IH]. Qed.
(* (later o earlier) acting = later acting on (earlier acting) — positions included *)
Lemma act_fixed (A B : list RM) (vs : list RV) : lveq (act (hss_hss_fixed F n A B) vs) (act A (act B vs)).
Proof. induction vs as [|v vs IH]. { constructor. }
  unfold C06_Compose.act in *. cbn [flat_map]. rewrite flat_map_app'. apply lveq_app; [|exact IH]. clear IH.
  unfold hss_hss_fixed. induction B as [|b B IHB]; cbn [flat_map map]; [constructor|].
  rewrite map_app. apply lveq_app; [|exact IHB]. clear IHB.
  rewrite map_map. induction A as [|a A IHA]; cbn [map]; constructor; [|exact IHA].
  intros i _. apply mv_mmul. Qed.

(* effects pulled back through an instrument (Heisenberg picture), earlier outcome major *)
Lemma povm_hss_ext P P' hss hss' : lveq P P' -> lmeq hss hss' -> lveq (povm_hss F n P hss) (povm_hss F n P' hss').
Proof. intros HP Hh. unfold povm_hss. induction Hh as [|a a' A A' Ha HA IH]; cbn [flat_map]; [constructor|].
  apply lveq_app; [|exact IH]. clear IH HA.
  induction HP as [|p p' P P' Hp HP IH]; cbn [map]; constructor; [|exact IH].
  apply mv_ext; [|exact Hp]. intros i j Hi Hj. unfold mT. now apply Ha. Qed.
(* P o (A o B) = (P o A) o B *)
Lemma povm_hss_fixed (P : list RV) (A B : list RM) :
  lveq (povm_hss F n P (hss_hss_fixed F n A B)) (povm_hss F n (povm_hss F n P A) B).
Proof. unfold hss_hss_fixed. induction B as [|b B IH]. { constructor. }
  unfold povm_hss in *. cbn [flat_map]. rewrite flat_map_app'. apply lveq_app; [|exact IH]. clear IH.
  induction A as [|a A IHA]; cbn [flat_map map]; [constructor|].
  rewrite map_app. apply lveq_app; [|exact IHA]. clear IHA.
  rewrite map_map. induction P as [|p P IHP]; cbn [map]; constructor; [|exact IHP].
  intros i Hi. rewrite <- (mv_mmul n n (mT b) (mT a) p i). apply (mv_ext n n (mT (mmul n a b)) (mmul n (mT b) (mT a)) p p); [|apply veq_refl|exact Hi].
  intros r c _ _. apply (mT_mmul n a b r c). Qed.
(* Born numbers of a list of effects on a list of (unnormalised) vectors, vector major *)
Notation born_all := (born_all F n).
Lemma born_all_ext P P' vs vs' : lveq P P' -> lveq vs vs' -> born_all P vs = born_all P' vs'.
Proof. intros HP Hv. unfold C06_Compose.born_all. induction Hv as [|v v' vs vs' Hv Hvs IH]; cbn [flat_map]; [reflexivity|].
  rewrite IH. f_equal. clear IH Hvs. induction HP as [|p p' P P' Hp HP IH]; cbn [map]; [reflexivity|].
  rewrite IH. f_equal. now apply dot_ext. Qed.
(* <P o A, v> = <P, A v> with the joint outcome (instrument outcome, POVM outcome) row-major *)
Lemma born_all_heisenberg (P : list RV) (A : list RM) (vs : list RV) :
  born_all (povm_hss F n P A) vs = born_all P (act A vs).
Proof. unfold C06_Compose.born_all, C06_Compose.act. induction vs as [|v vs IH]; cbn [flat_map]; [reflexivity|].
  rewrite flat_map_app'. rewrite IH. f_equal. clear IH.
  unfold povm_hss. induction A as [|a A IHA]; cbn [flat_map map]; [reflexivity|].
  rewrite map_app, IHA. f_equal. rewrite map_map. apply map_ext. intros p. apply heisenberg. Qed.

(* ---- trace preservation: first row e_0 *)
Definition tp_row (G : RM) := forall j, (j < n)%nat -> G 0%nat j = if Nat.eqb j 0 then 1 else 0.
Lemma tp_row_mmul (G1 G2 : RM) : (0 < n)%nat -> tp_row G1 -> tp_row G2 -> tp_row (mmul n G1 G2).
Proof. intros Hn H1 H2 j Hj. unfold mmul.
  rewrite (sumn_ext n _ (fun l => if Nat.eqb l 0 then G2 l j else 0)).
  2:{ intros l Hl. rewrite (H1 l Hl). destruct (Nat.eqb l 0); ring. }
  rewrite sumn_delta by exact Hn. now apply H2. Qed.
Definition msum (hss : list RM) : RM := fun i j => fold_right (fun H acc => H i j + acc) 0 hss.
Lemma msum_map_mmul_l (G : RM) (hss : list RM) i j : msum (map (fun H => mmul n G H) hss) i j = mmul n G (msum hss) i j.
Proof. unfold msum. induction hss as [|H t IH]; cbn [map fold_right].
  - unfold mmul. symmetry. apply sumn_zero'. intros; ring.
  - rewrite IH. unfold mmul. rewrite <- sumn_add. apply sumn_ext; intros; ring. Qed.
Lemma msum_map_mmul_r (G : RM) (hss : list RM) i j : msum (map (fun H => mmul n H G) hss) i j = mmul n (msum hss) G i j.
Proof. unfold msum. induction hss as [|H t IH]; cbn [map fold_right].
  - unfold mmul. symmetry. apply sumn_zero'. intros; ring.
  - rewrite IH. unfold mmul. rewrite <- sumn_add. apply sumn_ext; intros; ring. Qed.
Lemma msum_app (l1 l2 : list RM) i j : msum (l1 ++ l2) i j = msum l1 i j + msum l2 i j.
Proof. unfold msum. induction l1 as [|H t IH]; cbn [app fold_right]; [ring|]. rewrite IH. ring. Qed.
Lemma msum_fixed (A B : list RM) i j : msum (hss_hss_fixed F n A B) i j = mmul n (msum A) (msum B) i j.
Proof. unfold hss_hss_fixed. induction B as [|b B IH]; cbn [flat_map].
  - unfold msum at 1 3. cbn. unfold mmul. symmetry. apply sumn_zero'. intros; ring.
  - rewrite msum_app, IH, msum_map_mmul_r. unfold mmul. rewrite <- sumn_add. apply sumn_ext; intros l _.
    unfold msum. cbn [fold_right]. ring. Qed.
(* the composite instrument (repaired formula, hence also Gate o MProcess, MProcess o Gate) is sum-TP when both factors are *)
Lemma tp_fixed (A B : list RM) : (0 < n)%nat -> tp_row (msum A) -> tp_row (msum B) -> tp_row (msum (hss_hss_fixed F n A B)).
Proof. intros Hn HA HB j Hj. rewrite msum_fixed. now apply tp_row_mmul. Qed.
(* the sum does not depend on the product ORDER bug's layout, but the as-coded sum is  (sum B)(sum A) : also TP *)
Lemma msum_coded (A B : list RM) i j : msum (hss_hss_coded F n A B) i j = mmul n (msum B) (msum A) i j.
Proof. unfold hss_hss_coded. induction B as [|b B IH]; cbn [flat_map].
  - unfold msum at 1 2. cbn. unfold mmul. symmetry. apply sumn_zero'. intros; ring.
  - rewrite msum_app, IH, msum_map_mmul_l. unfold mmul. rewrite <- sumn_add. apply sumn_ext; intros l _.
    unfold msum. cbn [fold_right]. ring. Qed.
End Linear.
