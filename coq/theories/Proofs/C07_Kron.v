(* C07 — Kronecker-product algebra used by the tensor-product proofs: index arithmetic, associativity,
   bounded congruence, permutation matrices as index maps, the commutation matrix. *)
From Coq Require Import Arith List Bool ZArith Lia Ring.
From QV.Core Require Import OF Sums Mat.
From QV.Model Require Import C07_Tensor.
Import ListNotations.

Section Kron.
Context {R : CR}.
Add Ring Rk : (c_ring R).
Notation "0" := (c0 R). Notation "1" := (c1 R).
Infix "+" := (cadd R). Infix "*" := (cmul R).
Local Notation mat := (@Mat.mat R). Local Notation vec := (@Mat.vec R).

(* ---- index arithmetic *)
Lemma div_lt_mul i m p : (i < m * p)%nat -> (i / p < m)%nat.
Proof. intros H. apply Nat.div_lt_upper_bound; [destruct p; lia | lia]. Qed.
Lemma mod_lt_pos i p : (0 < p)%nat -> (i mod p < p)%nat.
Proof. intros H. apply Nat.mod_upper_bound. lia. Qed.
Lemma flat_lt a b m n : (a < m)%nat -> (b < n)%nat -> (a * n + b < m * n)%nat.
Proof. intros. nia. Qed.
Lemma digits3 i p p' : (0 < p)%nat -> (0 < p')%nat ->
  (i / (p' * p) = i / p / p' /\ (i mod (p' * p)) / p = (i / p) mod p' /\ (i mod (p' * p)) mod p = i mod p)%nat.
Proof. intros Hp Hp'. repeat split.
  - rewrite Nat.div_div by lia. f_equal. lia.
  - rewrite (Nat.mul_comm p' p). rewrite Nat.mod_mul_r by lia.
    rewrite (Nat.mul_comm p), Nat.div_add by lia. rewrite (Nat.div_small (i mod p) p) by (apply Nat.mod_upper_bound; lia). lia.
  - rewrite (Nat.mul_comm p' p). rewrite Nat.mod_mul_r by lia.
    rewrite (Nat.mul_comm p), Nat.mod_add by lia. apply Nat.mod_mod. lia. Qed.

(* ---- kron: associativity (pointwise, all indices), bounded congruence *)
Lemma kron_assoc p q p' q' (A B D : mat) i j : (0 < p)%nat -> (0 < q)%nat -> (0 < p')%nat -> (0 < q')%nat ->
  kron (p' * p) (q' * q) A (kron p q B D) i j = kron p q (kron p' q' A B) D i j.
Proof. intros Hp Hq Hp' Hq'. unfold kron.
  destruct (digits3 i p p' Hp Hp') as (-> & -> & ->). destruct (digits3 j q q' Hq Hq') as (-> & -> & ->). ring. Qed.
Lemma kron_ext m n p q (A A' B B' : mat) : (0 < p)%nat -> (0 < q)%nat ->
  meq m n A A' -> meq p q B B' -> meq (m * p) (n * q) (kron p q A B) (kron p q A' B').
Proof. intros Hp Hq HA HB i j Hi Hj. unfold kron.
  rewrite HA by (now apply div_lt_mul). rewrite HB by (now apply mod_lt_pos). reflexivity. Qed.
Lemma kronv_ext m p (a a' b b' : vec) : (0 < p)%nat ->
  veq m a a' -> veq p b b' -> veq (m * p) (kronv p a b) (kronv p a' b').
Proof. intros Hp Ha Hb i Hi. unfold kronv.
  rewrite Ha by (now apply div_lt_mul). rewrite Hb by (now apply mod_lt_pos). reflexivity. Qed.
Lemma mT_mid i j : mT (@mid R) i j = mid i j.
Proof. unfold mT, mid. now rewrite Nat.eqb_sym. Qed.
Lemma mmul_ext_r k (A B B' : mat) n i j : (j < n)%nat -> meq k n B B' -> mmul k A B i j = mmul k A B' i j.
Proof. intros Hj HB. unfold mmul. apply sumn_ext; intros l Hl. now rewrite HB. Qed.
Lemma mmul_ext_l k (A A' B : mat) m i j : (i < m)%nat -> meq m k A A' -> mmul k A B i j = mmul k A' B i j.
Proof. intros Hi HA. unfold mmul. apply sumn_ext; intros l Hl. now rewrite HA. Qed.

(* (A (x) B)(x (x) y) = Ax (x) By *)
Lemma kron_mixed_v p n1 n2 (A B : mat) (x y : vec) i : (0 < n2)%nat ->
  mv (n1 * n2) (kron p n2 A B) (kronv n2 x y) i = kronv p (mv n1 A x) (mv n2 B y) i.
Proof. intros Hn. unfold mv, kron, kronv. rewrite sumn_flat, sumn_mul.
  apply sumn_ext; intros a Ha. apply sumn_ext; intros b Hb.
  destruct (divmod_flat a b n2 Hb) as [-> ->]. ring. Qed.

(* <a (x) b, c (x) d> = <a, c> <b, d> *)
Lemma dot_kronv n1 n2 (a b c d : vec) : (0 < n2)%nat ->
  dot (n1 * n2) (kronv n2 a b) (kronv n2 c d) = dot n1 a c * dot n2 b d.
Proof. intros Hn. unfold dot, kronv. rewrite sumn_flat, sumn_mul.
  apply sumn_ext; intros i Hi. apply sumn_ext; intros j Hj.
  destruct (divmod_flat i j n2 Hj) as [-> ->]. ring. Qed.

(* ---- permutation matrices as index maps *)
Lemma mv_pmat n s (x : vec) i : (s i < n)%nat -> mv n (pmat s) x i = x (s i).
Proof. intros H. unfold mv, pmat.
  rewrite (sumn_ext n _ (fun j => if Nat.eqb j (s i) then x j else 0)).
  2:{ intros j _. destruct (Nat.eqb j (s i)); ring. } now apply sumn_delta. Qed.
Lemma mmul_pmat_l n s (M : mat) i j : (s i < n)%nat -> mmul n (pmat s) M i j = M (s i) j.
Proof. intros H. unfold mmul, pmat.
  rewrite (sumn_ext n _ (fun l => if Nat.eqb l (s i) then M l j else 0)).
  2:{ intros l _. destruct (Nat.eqb l (s i)); ring. } exact (sumn_delta n (s i) (fun l => M l j) H). Qed.
Lemma mmul_pmat_rT n s (M : mat) i j : (s j < n)%nat -> mmul n M (mT (pmat s)) i j = M i (s j).
Proof. intros H. unfold mmul, mT, pmat.
  rewrite (sumn_ext n _ (fun l => if Nat.eqb l (s j) then M i l else 0)).
  2:{ intros l _. destruct (Nat.eqb l (s j)); ring. } exact (sumn_delta n (s j) (fun l => M i l) H). Qed.

(* ---- the commutation matrix *)
Lemma Kmap_lt d1 d2 i : (i < d1 * d2)%nat -> (Kmap d1 d2 i < d2 * d1)%nat.
Proof. intros H. unfold Kmap. assert (Hd : (0 < d2)%nat) by (destruct d2; lia).
  pose proof (div_lt_mul i d1 d2 H). pose proof (mod_lt_pos i d2 Hd). nia. Qed.
Lemma Kmap_flat d1 d2 r c : (r < d1)%nat -> (c < d2)%nat -> Kmap d1 d2 (r * d2 + c) = (c * d1 + r)%nat.
Proof. intros Hr Hc. unfold Kmap. now destruct (divmod_flat r c d2 Hc) as [-> ->]. Qed.

(* K(d1,d2) (a (x) b) = b (x) a   for a of length d2, b of length d1 *)
Lemma Kmat_swaps d1 d2 (a b : vec) i : (i < d1 * d2)%nat ->
  mv (d2 * d1) (Kmat d1 d2) (kronv d1 a b) i = kronv d2 b a i.
Proof. intros Hi. unfold Kmat. rewrite mv_pmat by (now apply Kmap_lt).
  unfold kronv, Kmap. pose proof (div_lt_mul i d1 d2 Hi) as Hq.
  destruct (divmod_flat (i mod d2) (i / d2) d1 Hq) as [-> ->]. ring. Qed.

(* the literal sum of U (x) U of the code is the closed form *)
Lemma Kmat_sum_eq d1 d2 : @meq R (d1 * d2) (d2 * d1) (Kmat_sum d1 d2) (Kmat d1 d2).
Proof. intros i j Hi Hj. unfold Kmat_sum, Kmat, pmat, kron, Umat.
  assert (Hd2 : (0 < d2)%nat) by (destruct d2; lia). assert (Hd1 : (0 < d1)%nat) by (destruct d1; lia).
  pose proof (div_lt_mul i d1 d2 Hi) as Hr. pose proof (mod_lt_pos i d2 Hd2) as Hc.
  pose proof (div_lt_mul j d2 d1 Hj) as Hjc. pose proof (mod_lt_pos j d1 Hd1) as Hjr.
  rewrite (sumn_ext d1 _ (fun row => if Nat.eqb row (i / d2) then
     (if (Nat.eqb (j / d1) (i mod d2) && Nat.eqb (j mod d1) (i / d2))%bool then 1 else 0) else 0)).
  2:{ intros row Hrow. destruct (Nat.eqb_spec row (i / d2)) as [->|Hne].
      - rewrite (sumn_ext d2 _ (fun col => if Nat.eqb col (i mod d2) then
           (if (Nat.eqb (j / d1) (i mod d2) && Nat.eqb (j mod d1) (i / d2))%bool then 1 else 0) else 0)).
        2:{ intros col Hcol. rewrite Nat.eqb_refl. rewrite (Nat.eqb_sym (i mod d2) col).
            destruct (Nat.eqb_spec col (i mod d2)) as [->|Hc2]; cbn [andb].
            - destruct (Nat.eqb (j / d1) (i mod d2)), (Nat.eqb (j mod d1) (i / d2)); cbn; ring.
            - destruct (Nat.eqb (j / d1) col); cbn; ring. }
        now rewrite sumn_delta.
      - apply sumn_zero'. intros col Hcol. rewrite (Nat.eqb_sym (i / d2) row).
        destruct (Nat.eqb_spec row (i / d2)); [contradiction|]. cbn. ring. }
  rewrite sumn_delta by exact Hr.
  unfold Kmap. destruct (Nat.eqb_spec j (i mod d2 * d1 + i / d2)) as [->|Hne].
  - destruct (divmod_flat (i mod d2) (i / d2) d1 Hr) as [-> ->]. now rewrite !Nat.eqb_refl.
  - destruct (Nat.eqb_spec (j / d1) (i mod d2)) as [E1|]; [|reflexivity].
    destruct (Nat.eqb_spec (j mod d1) (i / d2)) as [E2|]; [|reflexivity].
    exfalso. apply Hne. rewrite <- E1, <- E2. rewrite Nat.mul_comm. apply Nat.div_mod_eq. Qed.
End Kron.
