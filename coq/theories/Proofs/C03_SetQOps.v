(* C03 — SetQOperations: total <-> local index maps are mutually inverse bijections for ANY family of
   segment sizes (induction over the segment list), they point at the right variable of var_total, and
   set_qoperations_from_var_total is the inverse of var_total. *)
From Coq Require Import ZArith Bool List Arith Lia.
From QV.Core Require Import OF.
From QV.Model Require Import C03_Index C03_VarObj C03_SetQOps.
From QV.Proofs Require Import C03_Lists C03_VarObj.
Import ListNotations.
Local Open Scope Z_scope.

Definition nonneg (l : list Z) : Prop := Forall (fun z => 0 <= z) l.
Definition nonneg_sizes (s : sizes) : Prop := forall k, nonneg (s k).

(* specification of the lookup: first segment that contains the offset *)
Fixpoint find_seg (l : list Z) (mid : Z) : option (Z * Z) :=
  match l with
  | [] => None
  | s :: t => if (0 <=? mid) && (mid <? s) then Some (0, mid)
              else match find_seg t (mid - s) with Some (i, j) => Some (i + 1, j) | None => None end
  end.

Lemma sumz_cons s t : sumz (s :: t) = s + sumz t. Proof. reflexivity. Qed.
Lemma sumz_nonneg l : nonneg l -> 0 <= sumz l.
Proof. induction 1; unfold sumz in *; cbn; lia. Qed.
Lemma nonneg_firstn l i : nonneg l -> nonneg (firstn i l).
Proof. intros H. revert i. induction H as [|x t Hx Ht IH]; intros [|i]; cbn; try constructor; [exact Hx|apply IH]. Qed.
Lemma find_seg_neg l mid : nonneg l -> mid < 0 -> find_seg l mid = None.
Proof. intros H. revert mid. induction H as [|s t Hs _ IH]; intros mid Hm; cbn; [reflexivity|].
  destruct (Z.leb_spec 0 mid); [lia|]. cbn. now rewrite IH by lia. Qed.

Ltac peq := repeat match goal with
  | |- (_, _) = (_, _) => apply f_equal2
  | |- Some _ = Some _ => apply f_equal end; try reflexivity; try lia.

(* the loop of local_info_from_index_var_total computes [find_seg] (later hits cannot occur) *)
Lemma locate_fold mid l : nonneg l -> forall first i0 res,
  fold_left (locate_step mid) l (first, i0, res) =
  (first + sumz l, i0 + Z.of_nat (length l),
   match find_seg l (mid - first) with Some (i, j) => Some (i0 + i, j) | None => res end).
Proof. induction 1 as [|s t Hs Ht IH]; intros first i0 res.
  - cbn. peq.
  - cbn [fold_left locate_step]. rewrite IH. rewrite sumz_cons. cbn [length find_seg].
    replace (mid - (first + s)) with (mid - first - s) by lia.
    replace ((0 <=? mid - first) && (mid - first <? s)) with ((first <=? mid) && (mid <? first + s)).
    2:{ f_equal; [destruct (Z.leb_spec first mid), (Z.leb_spec 0 (mid - first))|destruct (Z.ltb_spec mid (first + s)), (Z.ltb_spec (mid - first) s)]; try reflexivity; lia. }
    destruct ((first <=? mid) && (mid <? first + s)) eqn:C.
    + apply andb_true_iff in C as [C1 C2]. apply Z.leb_le in C1. apply Z.ltb_lt in C2.
      rewrite find_seg_neg by (try assumption; lia). peq.
    + destruct (find_seg t (mid - first - s)) as [[i j]|]; peq. Qed.

Lemma locate_find_seg l mid : nonneg l -> locate l mid = find_seg l mid.
Proof. intros H. unfold locate. rewrite (locate_fold mid l H). cbn [snd]. rewrite Z.sub_0_r.
  destruct (find_seg l mid) as [[i j]|]; reflexivity. Qed.

Lemma find_seg_of_local l : nonneg l -> forall (i : nat) j, (i < length l)%nat -> 0 <= j < nth i l 0 ->
  find_seg l (sumz (firstn i l) + j) = Some (Z.of_nat i, j).
Proof. induction 1 as [|s t Hs Ht IH]; intros i j Hi Hj; [cbn in Hi; lia|]. destruct i as [|i].
  - cbn in *. destruct (Z.leb_spec 0 j); [|lia]. destruct (Z.ltb_spec j s); [|lia]. reflexivity.
  - cbn [firstn sumz fold_right find_seg nth] in *. pose proof (sumz_nonneg _ (nonneg_firstn t i Ht)) as P. unfold sumz in P.
    destruct (Z.ltb_spec (s + fold_right Z.add 0 (firstn i t) + j) s); [lia|]. rewrite andb_false_r.
    replace (s + fold_right Z.add 0 (firstn i t) + j - s) with (sumz (firstn i t) + j) by (unfold sumz; lia).
    rewrite IH by (try assumption; cbn in Hi; lia). f_equal. f_equal. lia. Qed.

Lemma find_seg_some l : nonneg l -> forall mid i j, find_seg l mid = Some (i, j) ->
  exists k : nat, i = Z.of_nat k /\ (k < length l)%nat /\ 0 <= j < nth k l 0 /\ sumz (firstn k l) + j = mid.
Proof. induction 1 as [|s t Hs Ht IH]; intros mid i j E; [discriminate|]. cbn [find_seg] in E.
  destruct ((0 <=? mid) && (mid <? s)) eqn:C.
  - injection E as <- <-. apply andb_true_iff in C as [C1 C2]. apply Z.leb_le in C1. apply Z.ltb_lt in C2.
    exists O. cbn. repeat split; lia.
  - destruct (find_seg t (mid - s)) as [[i' j']|] eqn:E'; [|discriminate]. injection E as <- <-.
    destruct (IH _ _ _ E') as (k & -> & Hk & Hj & Hs').
    exists (S k). cbn [length firstn nth sumz fold_right]. unfold sumz in Hs'. repeat split; try lia. Qed.

Lemma find_seg_total l : nonneg l -> forall mid, 0 <= mid < sumz l -> exists i j, find_seg l mid = Some (i, j).
Proof. induction 1 as [|s t Hs Ht IH]; intros mid Hm; cbn in *; [lia|].
  destruct (Z.leb_spec 0 mid); [|lia]. destruct (Z.ltb_spec mid s); cbn; [eauto|].
  destruct (IH (mid - s)) as (i & j & ->); [unfold sumz; lia|]. eauto. Qed.

Lemma prefix_le l : nonneg l -> forall i : nat, (i < length l)%nat -> sumz (firstn i l) + nth i l 0 <= sumz l.
Proof. induction 1 as [|s t Hs Ht IH]; intros i Hi; [cbn in Hi; lia|]. destruct i as [|i]; cbn in *.
  - pose proof (sumz_nonneg t Ht). unfold sumz in *. lia.
  - specialize (IH i ltac:(lia)). unfold sumz in *. lia. Qed.

(* ---- the four kinds *)
Ltac cmp := repeat match goal with
  | |- context [Z.leb ?a ?b] => destruct (Z.leb_spec a b)
  | |- context [Z.ltb ?a ?b] => destruct (Z.ltb_spec a b) end; cbn [andb]; try reflexivity; try lia.

Lemma size_kind_nonneg s k : nonneg_sizes s -> 0 <= size_kind s k.
Proof. intros H. apply sumz_nonneg, H. Qed.

Lemma mode_of_total_spec s k o : nonneg_sizes s -> 0 <= o < size_kind s k ->
  mode_of_total s (first_index s k + o) = Some k.
Proof. intros H Ho. pose proof (size_kind_nonneg s KState H). pose proof (size_kind_nonneg s KGate H).
  pose proof (size_kind_nonneg s KPovm H). pose proof (size_kind_nonneg s KMproc H).
  unfold mode_of_total, size_total. destruct k; cbn [first_index] in *; cmp. Qed.

Lemma mode_of_total_some s t : nonneg_sizes s -> 0 <= t < size_total s ->
  exists k, mode_of_total s t = Some k /\ first_index s k <= t < first_index s k + size_kind s k.
Proof. intros H Ht. pose proof (size_kind_nonneg s KState H). pose proof (size_kind_nonneg s KGate H).
  pose proof (size_kind_nonneg s KPovm H). pose proof (size_kind_nonneg s KMproc H).
  unfold mode_of_total, size_total in *. cbn [first_index].
  destruct (Z.ltb_spec t (size_kind s KState)).
  { exists KState. destruct (Z.leb_spec 0 t); [|lia]. cbn. split; [reflexivity|lia]. }
  destruct (Z.ltb_spec t (size_kind s KState + size_kind s KGate)).
  { exists KGate. destruct (Z.leb_spec (size_kind s KState) t); [|lia]. rewrite andb_false_r. cbn. split; [reflexivity|lia]. }
  destruct (Z.ltb_spec t (size_kind s KState + size_kind s KGate + size_kind s KPovm)).
  { exists KPovm. destruct (Z.leb_spec (size_kind s KState + size_kind s KGate) t); [|lia]. rewrite !andb_false_r. cbn. split; [reflexivity|lia]. }
  exists KMproc. destruct (Z.leb_spec (size_kind s KState + size_kind s KGate + size_kind s KPovm) t); [|lia].
  destruct (Z.ltb_spec t (size_kind s KState + size_kind s KGate + size_kind s KPovm + size_kind s KMproc)); [|lia].
  rewrite !andb_false_r. cbn. split; [reflexivity|lia]. Qed.

Lemma first_index_le_total s k : nonneg_sizes s -> 0 <= first_index s k /\ first_index s k + size_kind s k <= size_total s.
Proof. intros H. pose proof (size_kind_nonneg s KState H). pose proof (size_kind_nonneg s KGate H).
  pose proof (size_kind_nonneg s KPovm H). pose proof (size_kind_nonneg s KMproc H).
  unfold size_total. destruct k; cbn [first_index]; lia. Qed.

(* local -> total -> local *)
Theorem local_total_local s k (i : nat) j : nonneg_sizes s -> (i < length (s k))%nat -> 0 <= j < nth i (s k) 0 ->
  exists t, total_from_local s k (Z.of_nat i) j = Some t /\ 0 <= t < size_total s /\
            local_from_total s t = LOk k (Z.of_nat i) j.
Proof. intros H Hi Hj. unfold total_from_local, item_first_index.
  destruct (Z.leb_spec (Z.of_nat i) (Z.of_nat (length (s k)))); [|lia]. rewrite Nat2Z.id. cbn [option_map].
  eexists; split; [reflexivity|].
  pose proof (prefix_le (s k) (H k) i Hi) as P. pose proof (sumz_nonneg _ (nonneg_firstn (s k) i (H k))) as P0.
  pose proof (first_index_le_total s k H) as [B0 B1]. unfold size_kind in *.
  split; [lia|]. unfold local_from_total.
  rewrite <- Z.add_assoc. rewrite mode_of_total_spec by (try assumption; unfold size_kind; lia).
  replace (first_index s k + (sumz (firstn i (s k)) + j) - first_index s k) with (sumz (firstn i (s k)) + j) by lia.
  rewrite locate_find_seg by apply H. now rewrite find_seg_of_local by (try apply H; assumption). Qed.

(* total -> local -> total *)
Theorem total_local_total s t : nonneg_sizes s -> 0 <= t < size_total s ->
  exists k (i : nat) j, local_from_total s t = LOk k (Z.of_nat i) j /\ (i < length (s k))%nat /\
    0 <= j < nth i (s k) 0 /\ total_from_local s k (Z.of_nat i) j = Some t.
Proof. intros H Ht. destruct (mode_of_total_some s t H Ht) as (k & Em & Hr). unfold local_from_total. rewrite Em.
  rewrite locate_find_seg by apply H.
  destruct (find_seg_total (s k) (H k) (t - first_index s k)) as (i & j & E); [unfold size_kind in Hr; lia|].
  rewrite E. destruct (find_seg_some (s k) (H k) _ _ _ E) as (n & -> & Hn & Hj & Hs).
  exists k, n, j. repeat split; try assumption; try lia.
  unfold total_from_local, item_first_index. destruct (Z.leb_spec (Z.of_nat n) (Z.of_nat (length (s k)))); [|lia].
  rewrite Nat2Z.id. cbn. f_equal. lia. Qed.

(* the error branch: IndexError exactly outside [0, size_total); the unbound-variable state is unreachable *)
Theorem local_from_total_error_iff s t : nonneg_sizes s ->
  (local_from_total s t = LIndexError <-> ~ (0 <= t < size_total s)) /\ local_from_total s t <> LUnbound.
Proof. intros H. destruct (Z.le_gt_cases 0 t) as [H0|H0]; [destruct (Z.lt_ge_cases t (size_total s)) as [H1|H1]|].
  - destruct (total_local_total s t H ltac:(lia)) as (k & i & j & E & _). rewrite E. split; [|discriminate].
    split; [discriminate|lia].
  - assert (E : mode_of_total s t = None).
    { pose proof (size_kind_nonneg s KState H). pose proof (size_kind_nonneg s KGate H).
      pose proof (size_kind_nonneg s KPovm H). pose proof (size_kind_nonneg s KMproc H).
      unfold mode_of_total, size_total in *. cbn [first_index]. cmp. }
    unfold local_from_total. rewrite E. split; [|discriminate]. split; [lia|reflexivity].
  - assert (E : mode_of_total s t = None).
    { pose proof (size_kind_nonneg s KState H). pose proof (size_kind_nonneg s KGate H).
      pose proof (size_kind_nonneg s KPovm H). pose proof (size_kind_nonneg s KMproc H).
      unfold mode_of_total, size_total in *. cbn [first_index]. cmp. }
    unfold local_from_total. rewrite E. split; [|discriminate]. split; [lia|reflexivity]. Qed.

(* ------------------------------------------------------------------ with the objects: layout of var_total *)
Section Objs.
Context (F : OF).
Notation qop := (qop F).
Implicit Types (s : setq F) (ops : list qop).

Lemma sizes_of_nonneg s : nonneg_sizes (sizes_of F s).
Proof. intros k. unfold sizes_of, nonneg. apply Forall_map, Forall_forall. intros; lia. Qed.

Lemma sumz_firstn_sizes ops (i : nat) :
  sumz (firstn i (map (fun o => Z.of_nat (length (qop_to_var F o))) ops)) = Z.of_nat (length (var_kind F (firstn i ops))).
Proof. revert i. induction ops as [|o t IH]; intros [|i]; cbn; try reflexivity.
  unfold var_kind in *. cbn. rewrite app_length, Nat2Z.inj_add. f_equal. apply IH. Qed.
Lemma size_kind_length s k : size_kind (sizes_of F s) k = Z.of_nat (length (var_kind F (ops_of F s k))).
Proof. unfold size_kind, sizes_of. rewrite <- (firstn_all (map _ (ops_of F s k))). rewrite map_length.
  rewrite sumz_firstn_sizes. now rewrite firstn_all. Qed.

Lemma nth_var_kind ops (d : F) (dq : qop) : forall (i j : nat), (i < length ops)%nat ->
  (j < length (qop_to_var F (nth i ops dq)))%nat ->
  nth (length (var_kind F (firstn i ops)) + j) (var_kind F ops) d = nth j (qop_to_var F (nth i ops dq)) d.
Proof. induction ops as [|o t IH]; intros i j Hi Hj; [cbn in Hi; lia|]. destruct i as [|i]; unfold var_kind in *; cbn in *.
  - now rewrite app_nth1.
  - rewrite app_length, <- Nat.add_assoc, nth_app_shift. apply IH; [lia|exact Hj]. Qed.

Lemma nth_var_total s k (d : F) (o : nat) : (o < length (var_kind F (ops_of F s k)))%nat ->
  nth (Z.to_nat (first_index (sizes_of F s) k) + o) (var_total F s) d = nth o (var_kind F (ops_of F s k)) d.
Proof. intros Ho. unfold var_total. destruct k; cbn [first_index ops_of] in *; rewrite ?size_kind_length; cbn [ops_of].
  - cbn. now rewrite app_nth1.
  - rewrite Nat2Z.id, nth_app_shift. now rewrite app_nth1.
  - rewrite <- Nat2Z.inj_add, Nat2Z.id, <- Nat.add_assoc, nth_app_shift, nth_app_shift. now rewrite app_nth1.
  - rewrite <- !Nat2Z.inj_add, Nat2Z.id, <- !Nat.add_assoc, nth_app_shift, nth_app_shift, nth_app_shift. reflexivity. Qed.

(* the total index of (kind, operation i, local index j) is the position in var_total of that operation's j-th variable *)
Theorem total_index_points s k (i j : nat) (d : F) (dq : qop) : (i < length (ops_of F s k))%nat ->
  (j < length (qop_to_var F (nth i (ops_of F s k) dq)))%nat ->
  exists t, total_from_local (sizes_of F s) k (Z.of_nat i) (Z.of_nat j) = Some t /\ 0 <= t < size_total (sizes_of F s) /\
            local_from_total (sizes_of F s) t = LOk k (Z.of_nat i) (Z.of_nat j) /\
            nth (Z.to_nat t) (var_total F s) d = nth j (qop_to_var F (nth i (ops_of F s k) dq)) d.
Proof. intros Hi Hj.
  assert (Hi' : (i < length (sizes_of F s k))%nat) by (unfold sizes_of; now rewrite map_length).
  assert (Hn : nth i (sizes_of F s k) 0 = Z.of_nat (length (qop_to_var F (nth i (ops_of F s k) dq)))).
  { unfold sizes_of. rewrite (nth_indep _ 0 (Z.of_nat (length (qop_to_var F dq)))) by (now rewrite map_length).
    now rewrite (map_nth (fun o => Z.of_nat (length (qop_to_var F o)))). }
  destruct (local_total_local (sizes_of F s) k i (Z.of_nat j) (sizes_of_nonneg s) Hi' ltac:(lia)) as (t & E & B & L).
  exists t. repeat split; try assumption; try lia.
  unfold total_from_local, item_first_index in E. destruct (Z.leb_spec (Z.of_nat i) (Z.of_nat (length (sizes_of F s k)))); [|lia].
  rewrite Nat2Z.id in E. cbn in E. injection E as <-. unfold sizes_of at 2. rewrite sumz_firstn_sizes.
  pose proof (first_index_le_total (sizes_of F s) k (sizes_of_nonneg s)) as [B0 _].
  replace (Z.to_nat (first_index (sizes_of F s) k + Z.of_nat (length (var_kind F (firstn i (ops_of F s k)))) + Z.of_nat j))
    with (Z.to_nat (first_index (sizes_of F s) k) + (length (var_kind F (firstn i (ops_of F s k))) + j))%nat by lia.
  assert (Hlen : (length (var_kind F (firstn i (ops_of F s k))) + j < length (var_kind F (ops_of F s k)))%nat).
  { pose proof (prefix_le (sizes_of F s k) (sizes_of_nonneg s k) i Hi') as P. rewrite Hn in P. unfold sizes_of in P at 1.
    rewrite sumz_firstn_sizes in P. pose proof (size_kind_length s k) as Q. unfold size_kind in Q. lia. }
  rewrite nth_var_total by exact Hlen. now apply nth_var_kind. Qed.

(* ------------------------------------------------------------------ set_qoperations_from_var_total *)
Lemma firstn_add {A : Type} (a b : nat) : forall v : list A, firstn (a + b) v = firstn a v ++ firstn b (skipn a v).
Proof. induction a as [|a IH]; intros v; [reflexivity|]. destruct v; cbn; [now rewrite firstn_nil|]. now rewrite IH. Qed.
Lemma skipn_add {A : Type} (a b : nat) : forall v : list A, skipn (a + b) v = skipn b (skipn a v).
Proof. induction a as [|a IH]; intros v; [reflexivity|]. destruct v; cbn; [now rewrite skipn_nil|]. apply IH. Qed.

Lemma regen_spec sdf ops : Forall (qop_wf F) ops -> forall v, (length (var_kind F ops) <= length v)%nat ->
  exists ops', regen F sdf ops v = Some (ops', skipn (length (var_kind F ops)) v) /\
    var_kind F ops' = firstn (length (var_kind F ops)) v /\ Forall (qop_wf F) ops' /\
    map (fun o => length (qop_to_var F o)) ops' = map (fun o => length (qop_to_var F o)) ops /\
    Forall2 (qop_same_shape F) ops ops'.
Proof. induction 1 as [|o t Wo Wt IH]; intros v Hv.
  - exists []. cbn. repeat split; constructor.
  - unfold var_kind in *. cbn [map concat regen] in *. rewrite app_length in *.
    set (n := length (qop_to_var F o)) in *.
    assert (Ln : length (firstn n v) = n) by (rewrite firstn_length; lia).
    destruct (qop_var_obj_var F sdf o (firstn n v) Wo Ln) as (o' & E & R & W' & S). rewrite E.
    destruct (IH (skipn n v)) as (t' & Et & Rt & Wt' & Mt & St); [rewrite skipn_length; lia|]. rewrite Et.
    exists (o' :: t'). cbn [map concat]. rewrite skipn_add, firstn_add, R, Rt, Mt. repeat split; try constructor; auto.
    now rewrite Ln. Qed.

Lemma regen_reimplied sdf ops : Forall (qop_wf F) ops -> forall rest,
  regen F sdf ops (var_kind F ops ++ rest) = Some (map (qop_reimplied F sdf) ops, rest).
Proof. induction 1 as [|o t Wo Wt IH]; intros rest; [reflexivity|].
  unfold var_kind in *. cbn [map concat regen]. rewrite <- app_assoc.
  rewrite firstn_app_exact, skipn_app_exact, (qop_obj_var_obj F sdf o Wo), IH. reflexivity. Qed.

(* var_total -> set -> var_total = var_total, for every vector of the right length; the sizes (hence all index maps) are unchanged *)
Theorem set_var_obj_var sdf s v : setq_wf F s -> length v = length (var_total F s) ->
  exists s', set_from_var_total F sdf s v = Some s' /\ var_total F s' = v /\ setq_wf F s' /\
             (forall k, sizes_of F s' k = sizes_of F s k) /\
             (forall k, Forall2 (qop_same_shape F) (ops_of F s k) (ops_of F s' k)).
Proof. intros W L. unfold set_from_var_total. rewrite L, Nat.eqb_refl. unfold var_total in L. rewrite !app_length in L.
  destruct (regen_spec sdf (sq_states F s) (W KState) v ltac:(lia)) as (a & Ea & Ra & Wa & Ma & Sa). rewrite Ea.
  set (v1 := skipn (length (var_kind F (sq_states F s))) v) in *.
  assert (L1 : length v1 = (length v - length (var_kind F (sq_states F s)))%nat) by (unfold v1; now rewrite skipn_length).
  destruct (regen_spec sdf (sq_gates F s) (W KGate) v1 ltac:(lia)) as (b & Eb & Rb & Wb & Mb & Sb). rewrite Eb.
  set (v2 := skipn (length (var_kind F (sq_gates F s))) v1) in *.
  assert (L2 : length v2 = (length v1 - length (var_kind F (sq_gates F s)))%nat) by (unfold v2; now rewrite skipn_length).
  destruct (regen_spec sdf (sq_povms F s) (W KPovm) v2 ltac:(lia)) as (c & Ec & Rc & Wc & Mc & Sc). rewrite Ec.
  set (v3 := skipn (length (var_kind F (sq_povms F s))) v2) in *.
  assert (L3 : length v3 = (length v2 - length (var_kind F (sq_povms F s)))%nat) by (unfold v3; now rewrite skipn_length).
  destruct (regen_spec sdf (sq_mprocs F s) (W KMproc) v3 ltac:(lia)) as (e & Ee & Re & We & Me & Se). rewrite Ee.
  eexists; split; [reflexivity|]. split; [|split; [|split]].
  - unfold var_total. cbn [sq_states sq_gates sq_povms sq_mprocs]. rewrite Ra, Rb, Rc, Re.
    rewrite (firstn_all2 v3) by lia. unfold v3. rewrite firstn_skipn. unfold v2. rewrite firstn_skipn. unfold v1. apply firstn_skipn.
  - intros k. destruct k; assumption.
  - intros k. unfold sizes_of. destruct k; cbn [ops_of sq_states sq_gates sq_povms sq_mprocs];
    rewrite <- !(map_map (fun o => length (qop_to_var F o)) Z.of_nat); congruence.
  - intros k. destruct k; assumption. Qed.

(* set -> var_total -> set : every operation gets its implied component overwritten, nothing else *)
Definition setq_reimplied sdf s : setq F :=
  Build_setq F (map (qop_reimplied F sdf) (sq_states F s)) (map (qop_reimplied F sdf) (sq_gates F s))
               (map (qop_reimplied F sdf) (sq_povms F s)) (map (qop_reimplied F sdf) (sq_mprocs F s)).
Theorem set_obj_var_obj sdf s : setq_wf F s ->
  set_from_var_total F sdf s (var_total F s) = Some (setq_reimplied sdf s).
Proof. intros W. unfold set_from_var_total. rewrite Nat.eqb_refl. unfold var_total.
  rewrite (regen_reimplied sdf _ (W KState)), (regen_reimplied sdf _ (W KGate)), (regen_reimplied sdf _ (W KPovm)).
  rewrite <- (app_nil_r (var_kind F (sq_mprocs F s))), (regen_reimplied sdf _ (W KMproc)). reflexivity. Qed.
Theorem set_obj_var_obj_id sdf s : setq_wf F s -> (forall k, Forall (qop_eq_ok F sdf) (ops_of F s k)) ->
  set_from_var_total F sdf s (var_total F s) = Some s.
Proof. intros W Hok. rewrite set_obj_var_obj by exact W. f_equal. destruct s as [a b c e]. unfold setq_reimplied. cbn.
  assert (M : forall l, Forall (qop_wf F) l -> Forall (qop_eq_ok F sdf) l -> map (qop_reimplied F sdf) l = l).
  { induction 1 as [|o t Wo _ IH]; intros Hl; [reflexivity|]. inversion Hl; subst. cbn. rewrite IH by assumption.
    f_equal. now apply qop_reimplied_id. }
  f_equal; apply M; first [apply (W KState)|apply (W KGate)|apply (W KPovm)|apply (W KMproc)|apply (Hok KState)|apply (Hok KGate)|apply (Hok KPovm)|apply (Hok KMproc)]. Qed.
Theorem set_from_var_total_error sdf s v : length v <> length (var_total F s) -> set_from_var_total F sdf s v = None.
Proof. intros H. unfold set_from_var_total. now apply Nat.eqb_neq in H as ->. Qed.
End Objs.
