(* C06 — the dispatch [compose2] of the model THE HARNESS COMPARES WITH THE IMPLEMENTATION (fix_mm = fix_ps = true: the code after the
   fixes of /verif/fixes), tied to the linear / quantum-mechanical lemmas: what every supported type pair returns, under which
   conditions nothing is cut or renormalised, and that chains of gates / instruments / a POVM are bracketing-independent
   at the level of compose2 itself (HS matrices, POVM vectors and outcome shapes at the same positions).
   Generic in the ordered field, axiom-free. *)
From Coq Require Import List Arith Bool Lia Ring Field ZArith.
From QV.Core Require Import OF Sums Mat Cplx.
From QV.Model Require Import QObj Multinomial C06_Compose C06_Spec.
From QV.Proofs Require Import C06_Linear C06_Chain C06_Coded C06_QM.
Import ListNotations.

Section Main.
Context (F : OF).
Add Field Ffm : (k_field F).
Notation "0" := (c0 F). Notation "1" := (c1 F).
Infix "+" := (cadd F). Infix "*" := (cmul F). Infix "-" := (csub F). Infix "/" := (kdiv F).
Notation RM := (rmat F). Notation RV := (rvec F).
Variables (n : nat) (sd atol eps8 : F) (ortho : bool) (ivec : RV).
(* the code *)
Notation C2 := (compose2 F n sd atol eps8 ortho ivec true true).
Notation CQ := (compose_qoperations F n sd atol eps8 ortho ivec true true).

Lemma guard_same a b s : is_ens F a = false -> is_ens F b = false -> sys_of F a = Some s -> sys_of F b = Some s ->
  sys_guard F a b = None.
Proof. intros Ha Hb Sa Sb. unfold sys_guard. now rewrite Ha, Hb, Sa, Sb, Z.eqb_refl. Qed.

(* ---------------- what each linear pair returns *)
Lemma compose2_gate_gate s G1 G2 : C2 (QGate F s G1) (QGate F s G2) = MOk (QGate F s (gate_gate F n G1 G2)).
Proof. unfold compose2, sys_guard. cbn. now rewrite Z.eqb_refl. Qed.
Lemma compose2_gate_state s G v : C2 (QGate F s G) (QState F s v) = MOk (QState F s (gate_state F n G v)).
Proof. unfold compose2, sys_guard. cbn. now rewrite Z.eqb_refl. Qed.
Lemma compose2_povm_gate s P G : C2 (QPovm F s P) (QGate F s G) = MOk (QPovm F s (povm_gate F n P G)).
Proof. unfold compose2, sys_guard. cbn. now rewrite Z.eqb_refl. Qed.
Lemma compose2_povm_mproc s P M : mp_sys F M = s -> C2 (QPovm F s P) (QMProc F M) = MOk (QPovm F s (povm_hss F n P (mp_hss F M))).
Proof. intros <-. unfold compose2, sys_guard. cbn. now rewrite Z.eqb_refl. Qed.
Lemma compose2_povm_state s P v : C2 (QPovm F s P) (QState F s v) =
  match povm_state F n atol eps8 P v with MErr c => MErr c | MOk D => MOk (QDist F D) end.
Proof. unfold compose2, sys_guard. cbn. now rewrite Z.eqb_refl. Qed.
Lemma compose2_mproc_state M s v : mp_sys F M = s -> C2 (QMProc F M) (QState F s v) =
  match mproc_state F n sd eps8 ortho ivec true M s v with MErr c => MErr c | MOk E => MOk (QEns F E) end.
Proof. intros <-. unfold compose2, sys_guard. cbn. now rewrite Z.eqb_refl. Qed.
Lemma compose2_mproc_mproc M1 M2 : mp_sys F M1 = mp_sys F M2 ->
  C2 (QMProc F M1) (QMProc F M2) =
  match shape_mm_fixed (mp_shape F M1) (mp_shape F M2) with
  | [] => MErr 10
  | _ => if negb (Nat.eqb (length (hss_hss_fixed F n (mp_hss F M1) (mp_hss F M2))) (prodn (shape_mm_fixed (mp_shape F M1) (mp_shape F M2)))) then MErr 2
         else MOk (QMProc F {| mp_sys := mp_sys F M1; mp_hss := hss_hss_fixed F n (mp_hss F M1) (mp_hss F M2);
                               mp_shape := shape_mm_fixed (mp_shape F M1) (mp_shape F M2); mp_eps := eps8 |})
  end.
Proof. intros E. unfold compose2, sys_guard. cbn. now rewrite E, Z.eqb_refl. Qed.

(* ---------------- Gate on State: the returned coefficient vector is that of  sum_K K rho K^dagger  (any basis, any dimension) *)
Theorem gate_on_state_denotes d (B : nat -> cmat F) (Ks : list (cmat F)) s (v : RV) sd' atol' eps' o iv :
  exists v', compose2 F (d * d) sd' atol' eps' o iv true true (QGate F s (hs_of_kraus d B Ks)) (QState F s v) = MOk (QState F s v') /\
             forall a, v' a = vec_of_op d B (kraus_apply F d Ks (op_of_vec d B v)) a.
Proof. exists (gate_state F (d * d) (hs_of_kraus d B Ks) v). split.
  - unfold compose2, sys_guard. cbn. now rewrite Z.eqb_refl.
  - intros a. apply gate_on_state_kraus. Qed.

(* ---------------- Povm on State: when no Born number is below the truncation threshold and they sum to one, the numbers handed to
   the MultinomialDistribution constructor ARE the Born numbers <Pi_x, rho> *)
Lemma tn_zeroed_id (l : list F) : Forall (fun p => kle F atol p) l -> tn_zeroed F atol l = l.
Proof. unfold tn_zeroed. induction 1 as [|p l Hp Hl IH]; cbn [map]; [reflexivity|]. rewrite IH. f_equal.
  unfold ltb. now rewrite (proj2 (k_leb F atol p) Hp). Qed.
Lemma map_div_one (l : list F) : map (fun p => p / 1) l = l.
Proof. induction l as [|p l IH]; cbn [map]; [reflexivity|]. rewrite IH. f_equal. field. apply (one_neq_zero F). Qed.
Theorem povm_state_no_truncation (P : list RV) (v : RV) :
  Forall (fun p => kle F atol p) (born_list F n P v) -> lsum F (born_list F n P v) = 1 ->
  povm_state F n atol eps8 P v = construct F eps8 eps8 (born_list F n P v) (Some [length P]).
Proof. intros Hge Hs. unfold povm_state, truncate_and_normalize. rewrite (tn_zeroed_id _ Hge), Hs.
  destruct (keq0 F 1) eqn:E. { apply keq0_spec in E. exfalso. now apply (one_neq_zero F). }
  now rewrite map_div_one. Qed.

(* ---------------- MProcess on State (orthonormal Hermitian basis with B_0 = I/sd, the only branch reachable through MProcess objects) *)
(* whatever is cut, every returned post state is the zero vector or has trace one *)
Theorem mproc_state_post_normalised M s v E : ortho = true ->
  mproc_state F n sd eps8 ortho ivec true M s v = MOk E -> Forall (normalised_or_zero F sd) (en_states F E).
Proof. intros -> H. unfold mproc_state, mps_core_coded in H. cbn [negb andb] in H.
  destruct (construct F eps8 eps8 _ _) as [D|c]; [|discriminate]. injection H as <-. cbn [en_states].
  apply mps_core_fixed_normalised. Qed.
(* no outcome cut: outcome x carries  p_x = sd (H_x v)_0  and the post state  H_x v / p_x *)
Theorem mproc_state_nocut M s v : ortho = true ->
  forallb (fun H => negb (mps_cut F (mp_eps F M) 1 (sd * mv n H v 0%nat))) (mp_hss F M) = true ->
  mproc_state F n sd eps8 ortho ivec true M s v =
  match construct F eps8 eps8 (map (fun H => 1 * (sd * mv n H v 0%nat)) (mp_hss F M)) (Some (mp_shape F M)) with
  | MErr c => MErr c
  | MOk D => MOk {| en_sys := s; en_states := map (fun H => mps_post F (mv n H v) (sd * mv n H v 0%nat)) (mp_hss F M);
                    en_dist := D; en_eps := mp_eps F M |}
  end.
Proof. intros -> Hc. unfold mproc_state, mps_core_coded. cbn [negb andb].
  rewrite (mps_core_nocut F n sd true ivec true (mp_hss F M) (mp_eps F M) v 1 Hc). reflexivity. Qed.

(* ---------------- packaged statements about compose2 (the compared model) *)
(* Povm on State: the Born rule, nothing truncated *)
Theorem povm_on_state_born s (P : list RV) (v : RV) :
  Forall (fun p => kle F atol p) (born_list F n P v) -> lsum F (born_list F n P v) = 1 ->
  C2 (QPovm F s P) (QState F s v) =
  match construct F eps8 eps8 (born_list F n P v) (Some [length P]) with MErr c => MErr c | MOk D => MOk (QDist F D) end.
Proof. intros H1 H2. now rewrite compose2_povm_state, povm_state_no_truncation. Qed.
(* Povm after Gate: the Heisenberg-picture POVM *)
Theorem povm_after_gate_heisenberg s (P : list RV) (G : RM) :
  exists P', C2 (QPovm F s P) (QGate F s G) = MOk (QPovm F s P') /\
             forall sv, born_list F n P' sv = born_list F n P (gate_state F n G sv).
Proof. exists (povm_gate F n P G). split; [apply compose2_povm_gate|]. intros sv. apply povm_gate_born. Qed.
(* Povm after MProcess: joint outcome (x of the instrument, y of the POVM) sits at the row-major position x*|P| + y - the earlier
   measurement is the major index - and is the Heisenberg dual of P_y through H_x *)
Theorem povm_after_mproc_heisenberg s (P : list RV) (M : mproc F) : mp_sys F M = s ->
  exists P', C2 (QPovm F s P) (QMProc F M) = MOk (QPovm F s P') /\
             length P' = (length (mp_hss F M) * length P)%nat /\
             forall x y sv, (x < length (mp_hss F M))%nat -> (y < length P)%nat ->
               dot n (nth (x * length P + y) P' (dv F)) sv = dot n (nth y P (dv F)) (mv n (nth x (mp_hss F M) (dm F)) sv).
Proof. intros Hs. exists (povm_hss F n P (mp_hss F M)). split; [now apply compose2_povm_mproc|]. split; [apply povm_hss_length|].
  intros x y sv Hx Hy. now apply povm_hss_born. Qed.
(* MProcess on State, no outcome cut: outcome x carries  p_x = sd (H_x v)_0  and the post state  H_x v / p_x *)
Theorem mproc_on_state_nocut M s v : mp_sys F M = s -> ortho = true ->
  forallb (fun H => negb (mps_cut F (mp_eps F M) 1 (sd * mv n H v 0%nat))) (mp_hss F M) = true ->
  C2 (QMProc F M) (QState F s v) =
  match construct F eps8 eps8 (map (fun H => 1 * (sd * mv n H v 0%nat)) (mp_hss F M)) (Some (mp_shape F M)) with
  | MErr c => MErr c
  | MOk D => MOk (QEns F {| en_sys := s; en_states := map (fun H => mps_post F (mv n H v) (sd * mv n H v 0%nat)) (mp_hss F M);
                            en_dist := D; en_eps := mp_eps F M |})
  end.
Proof. intros Hs Ho Hc. rewrite (compose2_mproc_state M s v Hs), (mproc_state_nocut M s v Ho Hc).
  now destruct (construct F eps8 eps8 _ _). Qed.
(* MProcess on State, whatever is cut: every returned post state is the zero vector or has trace one *)
Theorem mproc_on_state_post_normalised M s v E : mp_sys F M = s -> ortho = true ->
  C2 (QMProc F M) (QState F s v) = MOk (QEns F E) -> Forall (normalised_or_zero F sd) (en_states F E).
Proof. intros Hs Ho H. rewrite (compose2_mproc_state M s v Hs) in H.
  destruct (mproc_state F n sd eps8 ortho ivec true M s v) as [E'|c] eqn:EE; [|discriminate]. injection H as <-.
  now apply (mproc_state_post_normalised M s v E' Ho). Qed.
(* MProcess after MProcess (M1 after M2): time order and outcome layout.  The composite has shape  shape(M2) ++ shape(M1)  (earlier
   measurement first) and at the row-major position  x2*|M1| + x1  the map "first H2_x2, then H1_x1" *)
Lemma prodn_app l1 l2 : prodn (l1 ++ l2) = (prodn l1 * prodn l2)%nat.
Proof. unfold prodn. induction l1 as [|x l1 IH]; cbn [app fold_right]; [now rewrite Nat.mul_1_l|]. rewrite IH. apply Nat.mul_assoc. Qed.
Theorem mproc_after_mproc_layout M1 M2 : mp_sys F M1 = mp_sys F M2 ->
  length (mp_hss F M1) = prodn (mp_shape F M1) -> length (mp_hss F M2) = prodn (mp_shape F M2) ->
  mp_shape F M2 ++ mp_shape F M1 <> [] ->
  exists M, C2 (QMProc F M1) (QMProc F M2) = MOk (QMProc F M) /\
            mp_shape F M = mp_shape F M2 ++ mp_shape F M1 /\
            length (mp_hss F M) = (length (mp_hss F M2) * length (mp_hss F M1))%nat /\
            forall x2 x1 v i, (x2 < length (mp_hss F M2))%nat -> (x1 < length (mp_hss F M1))%nat ->
              mv n (nth (x2 * length (mp_hss F M1) + x1) (mp_hss F M) (dm F)) v i
              = mv n (nth x1 (mp_hss F M1) (dm F)) (mv n (nth x2 (mp_hss F M2) (dm F)) v) i.
Proof. intros Hs L1 L2 Hne. rewrite (compose2_mproc_mproc M1 M2 Hs). unfold shape_mm_fixed.
  destruct (mp_shape F M2 ++ mp_shape F M1) as [|z zs] eqn:ES; [contradiction|]. rewrite <- ES.
  rewrite hss_hss_fixed_length, prodn_app, <- L1, <- L2, Nat.eqb_refl. cbn [negb].
  eexists. split; [reflexivity|]. cbn [mp_shape mp_hss]. split; [reflexivity|]. split; [apply hss_hss_fixed_length|].
  intros x2 x1 v i H2 H1. now apply hss_hss_fixed_action. Qed.
(* composition of sum-trace-preserving instruments / gates is sum-trace-preserving *)
Theorem mproc_after_mproc_tp M1 M2 M : (0 < n)%nat -> C2 (QMProc F M1) (QMProc F M2) = MOk (QMProc F M) ->
  tp_row F n (msum F (mp_hss F M1)) -> tp_row F n (msum F (mp_hss F M2)) -> tp_row F n (msum F (mp_hss F M)).
Proof. intros Hn H T1 T2. unfold compose2 in H. destruct (sys_guard F _ _); [discriminate|]. cbn in H.
  destruct (shape_mm_fixed _ _); [discriminate|]. destruct (negb _); [discriminate|]. injection H as <-. cbn [mp_hss].
  now apply tp_fixed. Qed.

(* ---------------- chains of gates / instruments / one POVM at the level of compose2: abstraction to the raw objects of Proofs/C06_Chain *)
Definition raw_of (q : qobj F) : option (robj F) :=
  match q with
  | QGate _ _ G => Some (ROps F true [G])
  | QMProc _ M => Some (ROps F false (mp_hss F M))
  | QPovm _ _ P => Some (REffs F P)
  | QState _ _ v => Some (RVecs F [v])
  | _ => None
  end.
Definition is_linear (q : qobj F) : bool := match q with QGate _ _ _ | QMProc _ _ | QPovm _ _ _ => true | _ => false end.

Lemma act_gate_single G v : act F n [G] [v] = [gate_state F n G v].
Proof. reflexivity. Qed.
Lemma povm_hss_single P G : povm_hss F n P [G] = povm_gate F n P G.
Proof. unfold povm_hss, povm_gate. cbn [flat_map]. now rewrite app_nil_r. Qed.

(* one step: whenever compose2 of two linear operands returns, the result is linear and the raw composition table returns the raw
   image of the result - EQUAL lists, not merely pointwise equal ones *)
Theorem compose2_sim a b c : is_linear a = true -> is_linear b = true -> C2 a b = MOk c ->
  is_linear c = true /\
  exists ra rb rc, raw_of a = Some ra /\ raw_of b = Some rb /\ raw_of c = Some rc /\ rcomp F n true ra rb = Some rc.
Proof. intros La Lb H. unfold compose2 in H. destruct (sys_guard F a b); [discriminate|].
  destruct a as [sa va|sa Ga|sa Pa|Ma|Ea|Da]; try discriminate La;
  destruct b as [sb vb|sb Gb|sb Pb|Mb|Eb|Db]; try discriminate Lb; cbn in H; try discriminate.
  all: try (injection H as <-; split; [reflexivity|]; do 3 eexists; split; [reflexivity|]; split; [reflexivity|]; split; [reflexivity|];
            cbn [raw_of rcomp andb orb]; rewrite ?gate_hss_as_fixed, ?hss_gate_as_fixed, ?povm_hss_single; reflexivity).
  destruct (shape_mm_fixed (mp_shape F Ma) (mp_shape F Mb)); [discriminate|].
  destruct (negb _); [discriminate|]. injection H as <-. split; [reflexivity|].
  do 3 eexists. split; [reflexivity|]. split; [reflexivity|]. split; reflexivity. Qed.

(* bracketings at the level of compose2 *)
Inductive qtree := QL (q : qobj F) | QN (l r : qtree).
Fixpoint qflat (t : qtree) : list (qobj F) := match t with QL q => [q] | QN l r => qflat l ++ qflat r end.
Fixpoint qeval (t : qtree) : mres (qobj F) :=
  match t with
  | QL q => MOk q
  | QN l r => match qeval l, qeval r with MOk a, MOk b => C2 a b | MErr c, _ => MErr c | _, MErr c => MErr c end
  end.
Definition raw_lin (q : qobj F) : robj F := match raw_of q with Some r => r | None => RNums F [] end.
Fixpoint tmap (t : qtree) : tree F := match t with QL q => Leaf F (raw_lin q) | QN l r => Node F (tmap l) (tmap r) end.
Lemma flatten_tmap t : flatten F (tmap t) = map raw_lin (qflat t).
Proof. induction t as [q|l IHl r IHr]; cbn; [reflexivity|]. now rewrite IHl, IHr, map_app. Qed.
Lemma raw_lin_of q r : raw_of q = Some r -> raw_lin q = r.
Proof. unfold raw_lin. now intros ->. Qed.
Lemma linear_raw q : is_linear q = true -> exists r, raw_of q = Some r.
Proof. destruct q; try discriminate; intros _; eexists; reflexivity. Qed.

(* the evaluation of a bracketing of linear operands with compose2 is simulated by the raw evaluation *)
Lemma qeval_sim t : forallb is_linear (qflat t) = true -> forall c, qeval t = MOk c ->
  is_linear c = true /\ eval F n true (tmap t) = Some (raw_lin c).
Proof. induction t as [q|l IHl r IHr]; intros HL c H.
  - cbn in *. injection H as ->. rewrite andb_true_r in HL. split; [exact HL|reflexivity].
  - cbn [qflat] in HL. rewrite forallb_app, andb_true_iff in HL. destruct HL as [Hl Hr].
    cbn [qeval] in H. destruct (qeval l) as [a|ca] eqn:Ea; [|discriminate]. destruct (qeval r) as [b|cb] eqn:Eb; [|discriminate].
    destruct (IHl Hl a eq_refl) as [La Ra]. destruct (IHr Hr b eq_refl) as [Lb Rb].
    destruct (compose2_sim a b c La Lb H) as [Lc (ra & rb & rc & A & B & C & R)].
    split; [exact Lc|]. cbn [tmap eval]. rewrite Ra, Rb, (raw_lin_of _ _ A), (raw_lin_of _ _ B), (raw_lin_of _ _ C). exact R. Qed.

(* ASSOCIATIVITY AT THE LEVEL OF compose2 (the compared model): any two bracketings of the same chain of gates / measurement processes
   (optionally with a POVM in front) that both return give the same HS matrices / POVM vectors at the same positions *)
Theorem compose2_bracketing_independent t1 t2 c1 c2 : qflat t1 = qflat t2 -> forallb is_linear (qflat t1) = true ->
  qeval t1 = MOk c1 -> qeval t2 = MOk c2 -> req F n (raw_lin c1) (raw_lin c2).
Proof. intros Hf HL E1 E2. destruct (qeval_sim t1 HL c1 E1) as [_ R1]. rewrite Hf in HL. destruct (qeval_sim t2 HL c2 E2) as [_ R2].
  apply (bracketing_independent F n (tmap t1) (tmap t2)); [|exact R1|exact R2]. now rewrite !flatten_tmap, Hf. Qed.

(* ... and the same outcome shape: the shapes of the operands, earliest (= last argument) first *)
Definition shape_of (q : qobj F) : list nat := match q with QMProc _ M => mp_shape F M | _ => [] end.
Definition is_ops (q : qobj F) : bool := match q with QGate _ _ _ | QMProc _ _ => true | _ => false end.
Lemma qeval_shape t : forall c, qeval t = MOk c -> is_ops c = true ->
  shape_of c = flat_map shape_of (rev (qflat t)).
Proof. induction t as [q|l IHl r IHr]; intros c H Hc.
  - cbn in *. injection H as ->. now rewrite app_nil_r.
  - cbn [qeval] in H. destruct (qeval l) as [a|ca] eqn:Ea; [|discriminate]. destruct (qeval r) as [b|cb] eqn:Eb; [|discriminate].
    cbn [qflat]. rewrite rev_app_distr, flat_map_app'. unfold compose2 in H. destruct (sys_guard F a b); [discriminate|].
    destruct a as [sa va|sa Ga|sa Pa|Ma|Ea'|Da]; destruct b as [sb vb|sb Gb|sb Pb|Mb|Eb'|Db]; cbn in H; try discriminate;
    try (injection H as <-; try discriminate Hc; rewrite <- (IHl _ eq_refl eq_refl), <- (IHr _ eq_refl eq_refl); cbn [shape_of mp_shape]; now rewrite ?app_nil_r).
    all: try (destruct (en_states F Eb'); [injection H as <-; discriminate Hc|destruct (negb _); [discriminate|injection H as <-; discriminate Hc]]).
    all: try (match type of H with match ?X with _ => _ end = _ => destruct X; [injection H as <-; discriminate Hc|discriminate] end).
    destruct (shape_mm_fixed (mp_shape F Ma) (mp_shape F Mb)) eqn:ES; [discriminate|]. destruct (negb _); [discriminate|].
    injection H as <-. rewrite <- (IHl _ eq_refl eq_refl), <- (IHr _ eq_refl eq_refl). cbn [shape_of mp_shape]. rewrite <- ES. reflexivity. Qed.
Theorem compose2_bracketing_same_shape t1 t2 c1 c2 : qflat t1 = qflat t2 -> qeval t1 = MOk c1 -> qeval t2 = MOk c2 ->
  is_ops c1 = true -> is_ops c2 = true -> shape_of c1 = shape_of c2.
Proof. intros Hf E1 E2 O1 O2. rewrite (qeval_shape t1 c1 E1 O1), (qeval_shape t2 c2 E2 O2). now rewrite Hf. Qed.
End Main.
