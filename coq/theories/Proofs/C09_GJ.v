(* C09 — Gauss-Jordan as used by the model is COMPLETE (every ordered field, every size):
     * [gj] on an n x n matrix returns either a matrix that passes the left-inverse certificate or a vector that passes
       the kernel certificate — so [solve] never answers S_fail, and answers S_inv exactly when the kernel is trivial;
     * when the pivot count [rank_of m n A] is smaller than n, the first column without a pivot yields a non-zero w with
       A w = 0 — so the repaired guard passes EXACTLY when A^T A has an inverse.
   Technique: the invariant of C09_Rank.v ([Inv]: unit-vector structure of the pivot rows + orthogonality to a weight
   vector, preserved by every elimination step) is used with three kinds of weight vectors — the zero vector (pure
   structure), the vectors u_j that express "left half = right half * G" on the augmented rows [G | I], and the
   kernel candidate — plus the REVERSE preservation (a step is invertible: what is orthogonal to all new rows is
   orthogonal to all old rows). *)
From Coq Require Import Field Ring Setoid Arith Lia Bool List ZArith.
From QV.Core Require Import OF Sums Mat.
From QV.Model Require Import C09_LinEst.
From QV.Proofs Require Import C09_LinEst C09_Rank.
Import ListNotations.

Section G.
Context (F : OF).
Add Field Ff9g : (k_field F).
Notation "0" := (c0 F). Notation "1" := (c1 F).
Infix "+" := (cadd F). Infix "*" := (cmul F). Infix "-" := (csub F).
Infix "/" := (kdiv F). Notation "- x" := (copp F x).
Notation mat := (@mat F).
Notation vec := (@vec F).
Notation row := (row F).
Notation rget := (rget F).
Notation rdot := (rdot F).
Notation Inv := (Inv F).
Notation delta := (delta F).

Lemma rdot_vzero L (r : row) : rdot L r vzero = 0.
Proof. unfold C09_Rank.rdot. apply sumn_zero'. intros i _. unfold vzero. ring. Qed.

Lemma rdot_ext L (r : row) (u u' : vec) : (forall i, (i < L)%nat -> u i = u' i) -> rdot L r u = rdot L r u'.
Proof. intros H. unfold C09_Rank.rdot. apply sumn_ext. intros i Hi. now rewrite (H i Hi). Qed.

(* ------------------------------------------------------------------ more about the pivot search *)
Lemma pick_complete c : forall (rows : list row) p rest, pick F c rows = Some (p, rest) ->
  forall r, In r rows -> r = p \/ In r rest.
Proof. induction rows as [|r t IH]; intros p rest H r0 Hin; cbn in H; [discriminate|].
  destruct (is0 F (rget r c)) eqn:E.
  - destruct (pick F c t) as [[p' rest']|] eqn:Ep; [|discriminate]. injection H as <- <-.
    destruct Hin as [<-|Hin]; [right; now left|].
    destruct (IH p' rest' eq_refl r0 Hin) as [->|H1]; [now left|right; now right].
  - injection H as <- <-. destruct Hin as [<-|Hin]; [now left|now right]. Qed.

Lemma pick_none c : forall (rows : list row), pick F c rows = None -> forall r, In r rows -> rget r c = 0.
Proof. induction rows as [|r t IH]; intros H r0 Hin; [destruct Hin|]. cbn in H.
  destruct (is0 F (rget r c)) eqn:E; [|discriminate].
  destruct (pick F c t) as [[p' rest']|] eqn:Ep; [discriminate|].
  destruct Hin as [<-|Hin]; [unfold is0 in E; now apply keqb_spec in E|now apply IH]. Qed.

Lemma gj_step_none c dn td : gj_step F c (dn, td) = None -> pick F c td = None.
Proof. unfold gj_step. destruct (pick F c td) as [[p rest]|]; [discriminate|reflexivity]. Qed.

Lemma Inv_len L u c dn td : Inv L u c dn td -> forall r, In r (dn ++ td) -> length r = L.
Proof. intros [_ [HR _]] r Hin. exact (proj1 (HR r Hin)). Qed.

(* ------------------------------------------------------------------ a step is invertible *)
Lemma gj_step_rev L c dn td dn' td' (u : vec) :
  (forall r, In r (dn ++ td) -> length r = L) ->
  gj_step F c (dn, td) = Some (dn', td') ->
  (forall r, In r (dn' ++ td') -> rdot L r u = 0) -> forall r, In r (dn ++ td) -> rdot L r u = 0.
Proof. intros HL H HN. unfold gj_step in H.
  destruct (pick F c td) as [[p rest]|] eqn:Ep; [|discriminate]. injection H as <- <-.
  destruct (pick_spec F c td p rest Ep) as [Hpc [Hpin Hrest]].
  set (p' := rscale F (kinv F (rget p c)) p) in *.
  assert (Lp : length p = L) by (apply HL, in_or_app; now right).
  assert (Lp' : length p' = L) by (unfold p'; now rewrite length_rscale).
  assert (Dp' : rdot L p' u = 0).
  { apply HN. apply in_or_app. left. apply in_or_app. right. now left. }
  assert (Dp : rdot L p u = 0).
  { unfold p' in Dp'. rewrite rdot_rscale in Dp'.
    replace (rdot L p u) with (rget p c * (kinv F (rget p c) * rdot L p u)) by (field; exact Hpc).
    rewrite Dp'. ring. }
  assert (He : forall r0, length r0 = L -> rdot L (elim_with F c p' r0) u = 0 -> rdot L r0 u = 0).
  { intros r0 L0 D. rewrite rdot_elim in D by (now rewrite Lp', L0). rewrite Dp' in D. rewrite <- D. ring. }
  intros r Hin. apply in_app_or in Hin. destruct Hin as [Hin|Hin].
  - apply He; [apply HL, in_or_app; now left|]. apply HN. apply in_or_app. left. apply in_or_app. left. now apply in_map.
  - destruct (pick_complete c td p rest Ep r Hin) as [->|Hr]; [exact Dp|].
    apply He; [apply HL, in_or_app; now right|]. apply HN. apply in_or_app. right. now apply in_map. Qed.

(* ------------------------------------------------------------------ the two loops *)
Lemma gj_loop_ok L : forall fuel c dn td dn' td', gj_loop F fuel c (dn, td) = inl (dn', td') ->
  forall u, Inv L u c dn td -> Inv L u (c + fuel) dn' td'.
Proof. induction fuel as [|k IH]; intros c dn td dn' td' H u HI; cbn [gj_loop] in H.
  - injection H as <- <-. now rewrite Nat.add_0_r.
  - destruct (gj_step F c (dn, td)) as [[dn1 td1]|] eqn:E; [|discriminate].
    replace (c + S k)%nat with (S c + k)%nat by lia. apply (IH (S c) dn1 td1 dn' td' H u).
    exact (gj_step_inv F L u c dn td dn1 td1 HI E). Qed.

(* the state at the FIRST column without a pivot *)
Definition first_fail (L c fuel : nat) (dn td : list row) (c' : nat) (dn' td' : list row) : Prop :=
  (c <= c' < c + fuel)%nat /\ pick F c' td' = None /\
  (forall u, Inv L u c dn td -> Inv L u c' dn' td') /\
  (forall u : vec, (forall r, In r (dn' ++ td') -> rdot L r u = 0) -> forall r, In r (dn ++ td) -> rdot L r u = 0).

Lemma first_fail_here L c fuel dn td : pick F c td = None -> first_fail L c (S fuel) dn td c dn td.
Proof. intros H. split; [lia|]. split; [exact H|]. split; auto. Qed.

Lemma first_fail_step L c fuel dn td dn1 td1 c' dn' td' :
  Inv L vzero c dn td -> gj_step F c (dn, td) = Some (dn1, td1) ->
  first_fail L (S c) fuel dn1 td1 c' dn' td' -> first_fail L c (S fuel) dn td c' dn' td'.
Proof. intros HS E [Hc [Hp [Hf Hr]]]. split; [lia|]. split; [exact Hp|]. split.
  - intros u HI. apply Hf. exact (gj_step_inv F L u c dn td dn1 td1 HI E).
  - intros u HN. apply (gj_step_rev L c dn td dn1 td1 u (Inv_len L vzero c dn td HS) E). now apply Hr. Qed.

Lemma gj_loop_fail L : forall fuel c dn td c' dn', gj_loop F fuel c (dn, td) = inr (c', dn') ->
  Inv L vzero c dn td -> exists td', first_fail L c fuel dn td c' dn' td'.
Proof. induction fuel as [|k IH]; intros c dn td c' dn' H HS; cbn [gj_loop] in H; [discriminate|].
  destruct (gj_step F c (dn, td)) as [[dn1 td1]|] eqn:E.
  - destruct (IH (S c) dn1 td1 c' dn' H (gj_step_inv F L vzero c dn td dn1 td1 HS E)) as [td' HF].
    exists td'. exact (first_fail_step L c k dn td dn1 td1 c' dn' td' HS E HF).
  - cbn [fst] in H. injection H as <- <-. exists td. apply first_fail_here. exact (gj_step_none c dn td E). Qed.

Lemma rank_loop_fail L : forall fuel c dn td acc, (rank_loop F fuel c (dn, td) acc < acc + fuel)%nat ->
  Inv L vzero c dn td -> exists c' dn' td', first_fail L c fuel dn td c' dn' td'.
Proof. induction fuel as [|k IH]; intros c dn td acc H HS; cbn [rank_loop] in H; [lia|].
  destruct (gj_step F c (dn, td)) as [[dn1 td1]|] eqn:E.
  - destruct (IH (S c) dn1 td1 (S acc)) as [c' [dn' [td' HF]]]; [lia|exact (gj_step_inv F L vzero c dn td dn1 td1 HS E)|].
    exists c', dn', td'. exact (first_fail_step L c k dn td dn1 td1 c' dn' td' HS E HF).
  - exists c, dn, td. apply first_fail_here. exact (gj_step_none c dn td E). Qed.

(* ------------------------------------------------------------------ the kernel candidate read off at a column without pivot *)
Definition kvec (c : nat) (dn : list row) : vec :=
  fun i => if Nat.ltb i c then - rget (nth i dn []) c else if Nat.eqb i c then 1 else 0.

Lemma kvec_null L c dn td : Inv L vzero c dn td -> pick F c td = None -> (c < L)%nat ->
  forall r, In r (dn ++ td) -> rdot L r (kvec c dn) = 0.
Proof. intros [Hl [_ [Hd Ht]]] Hp HcL r Hin. apply in_app_or in Hin. destruct Hin as [Hin|Hin].
  - destruct (In_nth_error dn r Hin) as [k Hk].
    assert (Hkc : (k < c)%nat) by (rewrite <- Hl; apply nth_error_Some; rewrite Hk; discriminate).
    unfold C09_Rank.rdot.
    rewrite (sumn_ext L _ (fun i => (if Nat.eqb k i then - rget r c else 0) + (if Nat.eqb c i then rget r c else 0))).
    + rewrite sumn_add, (sumn_delta' L k (fun _ => - rget r c)) by lia.
      rewrite (sumn_delta' L c (fun _ => rget r c)) by lia. ring.
    + intros i Hi. unfold kvec. destruct (Nat.ltb i c) eqn:Eic.
      * apply Nat.ltb_lt in Eic. rewrite (Hd k r Hk i Eic). unfold C09_Rank.delta.
        replace (Nat.eqb c i) with false by (symmetry; apply Nat.eqb_neq; lia).
        destruct (Nat.eqb k i) eqn:Eki.
        -- apply Nat.eqb_eq in Eki. subst i. rewrite (nth_error_nth dn k [] Hk). ring.
        -- ring.
      * apply Nat.ltb_ge in Eic. replace (Nat.eqb k i) with false by (symmetry; apply Nat.eqb_neq; lia).
        rewrite (Nat.eqb_sym c i). destruct (Nat.eqb i c) eqn:Ec.
        -- apply Nat.eqb_eq in Ec. subst i. ring.
        -- ring.
  - unfold C09_Rank.rdot. apply sumn_zero'. intros i Hi. unfold kvec. destruct (Nat.ltb i c) eqn:Eic.
    + apply Nat.ltb_lt in Eic. rewrite (Ht r Hin i Eic). ring.
    + destruct (Nat.eqb i c) eqn:Ec; [|ring]. apply Nat.eqb_eq in Ec. subst i. rewrite (pick_none c td Hp r Hin). ring. Qed.

Lemma kvec_c c dn : kvec c dn c = 1.
Proof. unfold kvec. now rewrite Nat.ltb_irrefl, Nat.eqb_refl. Qed.

Lemma nth_repeat0 : forall k j, nth j (repeat 0 k) 0 = 0.
Proof. induction k as [|k IH]; intros [|j]; cbn; try reflexivity. apply IH. Qed.

(* the list [gj] returns in its kernel branch is kvec *)
Lemma gj_ker_list n c (dn : list row) : length dn = c -> forall i,
  vofl (map (fun r => - rget r c) dn ++ 1 :: repeat 0 (n - c - 1)) i = kvec c dn i.
Proof. intros Hl i. unfold vofl, kvec. destruct (Nat.ltb i c) eqn:Eic.
  - apply Nat.ltb_lt in Eic. rewrite app_nth1 by (now rewrite map_length, Hl).
    rewrite (nth_indep _ 0 ((fun r => - rget r c) [])) by (now rewrite map_length, Hl).
    now rewrite (map_nth (fun r => - rget r c)).
  - apply Nat.ltb_ge in Eic. rewrite app_nth2 by (now rewrite map_length, Hl). rewrite map_length, Hl.
    destruct (Nat.eqb i c) eqn:Ec.
    + apply Nat.eqb_eq in Ec. subst i. now rewrite Nat.sub_diag.
    + apply Nat.eqb_neq in Ec. destruct (i - c)%nat as [|d] eqn:Ed; [lia|]. cbn. apply nth_repeat0. Qed.

(* ------------------------------------------------------------------ rank deficiency of A yields a kernel vector *)
Lemma lrows_Inv m n (A : mat) (u : vec) : veq m (mv n A u) vzero -> Inv n u 0 [] (lrows m n A).
Proof. intros Hu. split; [reflexivity|]. split; [|split].
  - intros r Hin. cbn [app] in Hin. unfold lrows in Hin. apply in_map_iff in Hin.
    destruct Hin as [i [<- Hi]]. apply in_seq in Hi. split; [apply lvec_length|].
    transitivity (mv n A u i); [|apply Hu; lia].
    unfold C09_Rank.rdot, mv. apply sumn_ext. intros j Hj. unfold C09_LinEst.rget. now rewrite lvec_nth by exact Hj.
  - intros k r Hk. destruct k; discriminate.
  - intros r _ j Hj. lia. Qed.

Theorem rank_deficient_kernel m n (A : mat) : (rank_of m n A < n)%nat ->
  exists w : vec, veq m (mv n A w) vzero /\ exists i, (i < n)%nat /\ w i <> 0.
Proof. intros H. unfold rank_of in H.
  assert (S0 : Inv n vzero 0 [] (lrows m n A)).
  { apply lrows_Inv. intros i _. unfold mv, vzero. apply sumn_zero'. intros; ring. }
  destruct (rank_loop_fail n n 0 [] (lrows m n A) 0 H S0) as [c [dn [td [Hc [Hp [Hf Hr]]]]]].
  exists (kvec c dn). split.
  - pose proof (kvec_null n c dn td (Hf vzero S0) Hp (proj2 Hc)) as HN.
    intros i Hi. specialize (Hr (kvec c dn) HN (lvec n (A i))).
    unfold vzero. rewrite <- Hr.
    + unfold C09_Rank.rdot, mv. apply sumn_ext. intros j Hj. unfold C09_LinEst.rget. now rewrite lvec_nth by exact Hj.
    + cbn [app]. unfold lrows. apply in_map_iff. exists i. split; [reflexivity|]. apply in_seq. lia.
  - exists c. split; [lia|]. rewrite kvec_c. apply (one_neq_zero F). Qed.

Theorem rank_deficient_gram_kernel m n (A : mat) : (rank_of m n A < n)%nat -> exists w, kernel_cert n (gram m A) w.
Proof. intros H. destruct (rank_deficient_kernel m n A H) as [w [Hw Hne]]. exists w. split; [|exact Hne].
  intros i Hi. rewrite <- gram_mv. now apply (mv_zero F n m (mT A)). Qed.

(* ------------------------------------------------------------------ the augmented rows [G | I] *)
Lemma augment_lrows_in n (G : mat) : forall k s r,
  In r (augment F n s (map (fun i => lvec n (G i)) (seq s k))) ->
  exists i, (s <= i < s + k)%nat /\ r = lvec n (G i) ++ unit_row F n i.
Proof. induction k as [|k IH]; intros s r H; cbn in H; [destruct H|]. destruct H as [<-|H].
  - exists s. split; [lia|]. rewrite firstn_all2 by (rewrite lvec_length; lia). reflexivity.
  - destruct (IH (S s) r H) as [i [Hi ->]]. exists i. split; [lia|reflexivity]. Qed.

Lemma unit_row_length n i : length (unit_row F n i) = n.
Proof. unfold unit_row. now rewrite map_length, seq_length. Qed.
Lemma unit_row_nth n i l : (l < n)%nat -> nth l (unit_row F n i) 0 = if Nat.eqb i l then 1 else 0.
Proof. intros H. unfold unit_row. now rewrite nth_map_seq9 by exact H. Qed.

Lemma aug_row_left n (G : mat) i t : (t < n)%nat -> rget (lvec n (G i) ++ unit_row F n i) t = G i t.
Proof. intros H. unfold C09_LinEst.rget. rewrite app_nth1 by (now rewrite lvec_length). now apply lvec_nth. Qed.
Lemma aug_row_right n (G : mat) i l : (l < n)%nat ->
  rget (lvec n (G i) ++ unit_row F n i) (n + l) = if Nat.eqb i l then 1 else 0.
Proof. intros H. unfold C09_LinEst.rget. rewrite app_nth2 by (rewrite lvec_length; lia).
  rewrite lvec_length. replace (n + l - n)%nat with l by lia. now apply unit_row_nth. Qed.

(* weight vector expressing   r[j] = sum_l r[n+l] * G l j   as orthogonality *)
Definition uvec (n : nat) (G : mat) (j : nat) : vec :=
  fun t => (if Nat.eqb t j then 1 else 0) - (if Nat.ltb t n then 0 else G (t - n)%nat j).

Lemma rdot_uvec n (G : mat) j (r : row) : (j < n)%nat ->
  rdot (n + n) r (uvec n G j) = rget r j - sumn n (fun l => rget r (n + l) * G l j).
Proof. intros Hj. unfold C09_Rank.rdot. rewrite sumn_app.
  rewrite (sumn_ext n (fun t => rget r t * uvec n G j t) (fun t => if Nat.eqb t j then rget r t else 0)).
  2:{ intros t Ht. unfold uvec. rewrite (proj2 (Nat.ltb_lt t n) Ht). destruct (Nat.eqb t j); ring. }
  rewrite (sumn_delta n j (fun t => rget r t) Hj).
  rewrite (sumn_ext n (fun l => rget r (n + l) * uvec n G j (n + l)%nat) (fun l => - (rget r (n + l) * G l j))).
  2:{ intros l Hl. unfold uvec. replace (Nat.eqb (n + l) j) with false by (symmetry; apply Nat.eqb_neq; lia).
      replace (Nat.ltb (n + l) n) with false by (symmetry; apply Nat.ltb_ge; lia).
      replace (n + l - n)%nat with l by lia. ring. }
  rewrite sumn_opp. ring. Qed.

Lemma aug_Inv_u n (G : mat) j : (j < n)%nat -> Inv (n + n) (uvec n G j) 0 [] (augment F n 0 (lrows n n G)).
Proof. intros Hj. split; [reflexivity|]. split; [|split].
  - intros r Hin. cbn [app] in Hin. unfold lrows in Hin. destruct (augment_lrows_in n G n 0 r Hin) as [i [Hi ->]]. split.
    + now rewrite app_length, lvec_length, unit_row_length.
    + rewrite (rdot_uvec n G j _ Hj), (aug_row_left n G i j Hj).
      rewrite (sumn_ext n _ (fun l => if Nat.eqb i l then G l j else 0)).
      * rewrite (sumn_delta' n i (fun l => G l j)) by lia. ring.
      * intros l Hl. rewrite (aug_row_right n G i l Hl). destruct (Nat.eqb i l); ring.
  - intros k r Hk. destruct k; discriminate.
  - intros r _ t Ht. lia. Qed.

Lemma aug_Inv_any n (G : mat) (u : vec) :
  (forall i, (i < n)%nat -> rdot (n + n) (lvec n (G i) ++ unit_row F n i) u = 0) ->
  Inv (n + n) u 0 [] (augment F n 0 (lrows n n G)).
Proof. intros H. split; [reflexivity|]. split; [|split].
  - intros r Hin. cbn [app] in Hin. unfold lrows in Hin. destruct (augment_lrows_in n G n 0 r Hin) as [i [Hi ->]]. split.
    + now rewrite app_length, lvec_length, unit_row_length.
    + apply H. lia.
  - intros k r Hk. destruct k; discriminate.
  - intros r _ t Ht. lia. Qed.

Lemma aug_in n (G : mat) i : (i < n)%nat -> In (lvec n (G i) ++ unit_row F n i) (augment F n 0 (lrows n n G)).
Proof. intros Hi. unfold lrows.
  assert (X : forall k s, (s <= i < s + k)%nat ->
              In (lvec n (G i) ++ unit_row F n i) (augment F n s (map (fun i => lvec n (G i)) (seq s k)))).
  { induction k as [|k IH]; intros s Hs; [lia|]. cbn. destruct (Nat.eq_dec i s) as [->|Hne].
    - left. rewrite firstn_all2 by (rewrite lvec_length; lia). reflexivity.
    - right. apply IH. lia. }
  apply X. lia. Qed.

Lemma nth_skipn9 (d : F) : forall n (r : list F) l, nth l (skipn n r) d = nth (n + l) r d.
Proof. induction n as [|n IH]; intros r l; [reflexivity|]. destruct r as [|x r]; cbn; [now destruct l|apply IH]. Qed.
Lemma nth_map_skipn n : forall (dn : list row) k, nth k (map (skipn n) dn) [] = skipn n (nth k dn []).
Proof. induction dn as [|r dn IH]; intros [|k]; cbn; try (symmetry; apply skipn_nil); [reflexivity|apply IH]. Qed.

(* ------------------------------------------------------------------ main: gj is correct in BOTH branches *)
Theorem gj_correct n (G : mat) :
  match gj n (lrows n n G) with
  | GJ_inv _ rows => left_inverse_cert n (mofr rows) G
  | GJ_ker _ w => kernel_cert n G (vofl w)
  end.
Proof. unfold gj.
  assert (S0 : Inv (n + n) vzero 0 [] (augment F n 0 (lrows n n G))).
  { apply aug_Inv_any. intros i _. apply rdot_vzero. }
  destruct (gj_loop F n 0 ([], augment F n 0 (lrows n n G))) as [[dn td]|[c dn]] eqn:E.
  - (* every column had a pivot: the right halves of the pivot rows are a left inverse *)
    intros k j Hk Hj.
    pose proof (gj_loop_ok (n + n) n 0 [] _ dn td E (uvec n G j) (aug_Inv_u n G j Hj)) as [Hl [HR [Hd _]]].
    cbn [Nat.add] in *.
    destruct (nth_error dn k) as [r|] eqn:Ek.
    2:{ apply nth_error_None in Ek. lia. }
    assert (Hin : In r (dn ++ td)) by (apply in_or_app; left; eapply nth_error_In; exact Ek).
    destruct (HR r Hin) as [_ D]. rewrite (rdot_uvec n G j r Hj) in D.
    unfold mmul. rewrite (sumn_ext n _ (fun l => rget r (n + l) * G l j)).
    + rewrite (Hd k r Ek j Hj) in D. unfold C09_Rank.delta in D. unfold mid.
      replace (sumn n (fun l => rget r (n + l) * G l j)) with ((if Nat.eqb k j then 1 else 0) - ((if Nat.eqb k j then 1 else 0) - sumn n (fun l => rget r (n + l) * G l j))) by ring.
      rewrite D. ring.
    + intros l Hl'. unfold mofr. rewrite nth_map_skipn, nth_skipn9, (nth_error_nth dn k [] Ek). reflexivity.
  - (* column c has no pivot: the vector read off the pivot rows is a kernel vector *)
    destruct (gj_loop_fail (n + n) n 0 [] _ c dn E S0) as [td [Hc [Hp [Hf Hr]]]].
    pose proof (Hf vzero S0) as HS. cbn [Nat.add] in Hc.
    assert (Hl : length dn = c) by exact (proj1 HS).
    pose proof (kvec_null (n + n) c dn td HS Hp ltac:(lia)) as HN.
    split.
    + intros i Hi. specialize (Hr (kvec c dn) HN _ (aug_in n G i Hi)).
      unfold vzero. transitivity (rdot (n + n) (lvec n (G i) ++ unit_row F n i) (kvec c dn)); [|exact Hr].
      unfold mv, C09_Rank.rdot. rewrite sumn_app.
      rewrite (sumn_zero' n (fun l => rget (lvec n (G i) ++ unit_row F n i) (n + l) * kvec c dn (n + l)%nat)).
      * replace (sumn n (fun t => rget (lvec n (G i) ++ unit_row F n i) t * kvec c dn t) + 0)
          with (sumn n (fun t => rget (lvec n (G i) ++ unit_row F n i) t * kvec c dn t)) by ring.
        apply sumn_ext. intros t Ht. rewrite (aug_row_left n G i t Ht), (gj_ker_list n c dn Hl t). reflexivity.
      * intros l Hl'. unfold kvec. replace (Nat.ltb (n + l) c) with false by (symmetry; apply Nat.ltb_ge; lia).
        replace (Nat.eqb (n + l) c) with false by (symmetry; apply Nat.eqb_neq; lia). ring.
    + exists c. split; [lia|]. rewrite (gj_ker_list n c dn Hl c), kvec_c. apply (one_neq_zero F). Qed.

(* ------------------------------------------------------------------ consequences for solve / the guard / the estimator *)
Lemma ker_okb_complete n (G : mat) (w : vec) : kernel_cert n G w -> ker_okb n G w = true.
Proof. intros [H1 [i [Hi Hw]]]. unfold ker_okb. apply andb_true_iff. split.
  - apply alln_spec. intros k Hk. apply keqb_spec. exact (H1 k Hk).
  - apply negb_true_iff. destruct (alln n (fun k => keqb F (w k) 0)) eqn:E; [|reflexivity].
    exfalso. apply Hw. rewrite alln_spec in E. apply keqb_spec. now apply E. Qed.

Theorem solve_g_complete n (G : mat) : solve_g n G <> S_fail.
Proof. unfold solve_g. pose proof (gj_correct n G) as H. destruct (gj n (lrows n n G)) as [rows|w].
  - rewrite (proj2 (cert_okb_spec F n (mofr rows) G) H). discriminate.
  - rewrite (ker_okb_complete n G (vofl w) H). discriminate. Qed.

Theorem solve_complete m n (A : mat) : solve m n A <> S_fail.
Proof. unfold solve. apply solve_g_complete. Qed.

(* solve answers S_inv exactly when A^T A has no kernel vector *)
Theorem solve_inv_iff_no_kernel m n (A : mat) :
  (exists M, solve m n A = S_inv M) <-> (forall w, ~ kernel_cert n (gram m A) w).
Proof. split.
  - intros [M HM] w Hk. exact (kernel_no_inverse F n (gram m A) M w Hk (solve_inv_sound F m n A M HM)).
  - intros H. destruct (solve m n A) as [M|w|] eqn:E.
    + now exists M.
    + exfalso. exact (H w (solve_ker_sound F m n A w E)).
    + exfalso. exact (solve_complete m n A E). Qed.

(* the repaired guard passes EXACTLY when the solve step certifies an inverse ... *)
Theorem guard_iff_solve m n (A : mat) : coded_guard m n A = true <-> exists M, solve m n A = S_inv M.
Proof. rewrite solve_inv_iff_no_kernel. split.
  - intros Hg w. now apply guard_excludes_kernel.
  - intros H. unfold coded_guard. apply Nat.eqb_eq.
    destruct (Nat.lt_ge_cases (rank_of m n A) n) as [Hlt|Hge].
    + exfalso. destruct (rank_deficient_gram_kernel m n A Hlt) as [w Hw]. exact (H w Hw).
    + pose proof (rank_loop_ub F n 0 ([], lrows m n A) 0) as Hub. unfold rank_of in *. lia. Qed.

(* ... i.e. exactly when A^T A has an inverse at all *)
Theorem guard_iff_invertible m n (A : mat) :
  coded_guard m n A = true <-> exists M, left_inverse_cert n M (gram m A).
Proof. split.
  - intros Hg. apply guard_iff_solve in Hg. destruct Hg as [M HM]. exists M. now apply solve_inv_sound.
  - intros [M HM]. apply guard_iff_solve. apply solve_inv_iff_no_kernel. intros w Hk.
    exact (kernel_no_inverse F n (gram m A) M w Hk HM). Qed.

Lemma est_loop_never_internal stack one m : forall (sq : list (dataset F)) acc,
  est_loop_with stack one m sq acc <> E_internal.
Proof. induction sq as [|ds rest IH]; intros acc; cbn; [discriminate|].
  destruct (stack (map snd ds)) as [f|]; [|discriminate].
  destruct (Nat.eqb (length f) m); [apply IH|discriminate]. Qed.

Theorem never_internal m n (A : mat) b (sq : list (dataset F)) : calc_estimate_sequence m n A b sq <> E_internal.
Proof. unfold calc_estimate_sequence, calc_estimate_sequence_with.
  destruct (negb (coded_guard m n A)); [discriminate|].
  destruct (solve m n A) as [M|w|] eqn:Es; [apply est_loop_never_internal|discriminate|].
  exfalso. exact (solve_complete m n A Es). Qed.

(* the estimator returns exactly when the guard passes and every dataset is non-empty with m entries *)
Theorem coded_returns_iff_guard m n (A : mat) b (sq : list (dataset F)) :
  (exists xs, calc_estimate_sequence m n A b sq = E_ok xs) <->
  coded_guard m n A = true /\ Forall (fun ds => ds <> [] /\ length (concat (map snd ds)) = m) sq.
Proof. rewrite coded_returns_iff. split.
  - intros [Hg [_ Hf]]. split; [exact Hg|]. eapply Forall_impl; [|exact Hf].
    intros ds [f Hf']. apply flat_ok_iff in Hf'. tauto.
  - intros [Hg Hf]. split; [exact Hg|]. split; [now apply guard_iff_solve|].
    eapply Forall_impl; [|exact Hf]. intros ds [H1 H2]. exists (concat (map snd ds)). apply flat_ok_iff. tauto. Qed.
(* the guard raises only when it must: a failing guard means two different variable vectors have identical exact data *)
Theorem guard_false_unidentifiable m n (A : mat) (b v : vec) : coded_guard m n A = false ->
  exists v' : vec, veq m (predict n A b v') (predict n A b v) /\ ~ veq n v' v.
Proof. intros Hg. unfold coded_guard in Hg. apply Nat.eqb_neq in Hg.
  assert (Hlt : (rank_of m n A < n)%nat).
  { pose proof (rank_loop_ub F n 0 ([], lrows m n A) 0) as Hub. unfold rank_of in *. lia. }
  destruct (rank_deficient_gram_kernel m n A Hlt) as [w Hw]. exists (vadd v w).
  exact (kernel_unidentifiable F m n A b v w Hw). Qed.

(* THE PROPERTY in its own words, for the estimator as coded: an informationally complete tester set (guard passes) and,
   in every dataset, the exact outcome distributions of v (any block lengths)  ->  the estimator returns, and returns v *)
Theorem complete_tester_set_recovers m n (A : mat) b (sq : list (dataset F)) (v : vec) :
  coded_guard m n A = true ->
  Forall (fun ds => ds <> [] /\ length (concat (map snd ds)) = m /\
                    veq m (vofl (concat (map snd ds))) (predict n A (vofl b) v)) sq ->
  exists xs, calc_estimate_sequence m n A b sq = E_ok xs /\ length xs = length sq /\
             Forall (fun x => length x = n /\ veq n (vofl x) v) xs.
Proof. intros Hg Hf.
  assert (Hr : exists xs, calc_estimate_sequence m n A b sq = E_ok xs).
  { apply coded_returns_iff_guard. split; [exact Hg|]. refine (Forall_impl _ _ Hf). intros ds [H1 [H2 _]]. split; assumption. }
  destruct Hr as [xs Hxs]. exists xs. split; [exact Hxs|].
  pose proof (coded_exact_recovery F m n A b sq xs v Hxs) as H2. clear Hxs.
  induction H2 as [|ds x sq xs Hx _ IH]; [split; [reflexivity|constructor]|].
  inversion Hf as [|? ? [H1 [H3 H4]] Hf']; subst.
  destruct (IH Hf') as [IL IF]. split; [cbn; now rewrite IL|]. constructor; [|exact IF].
  apply (Hx (concat (map snd ds))); [|exact H4]. apply flat_ok_iff. tauto. Qed.
End G.
