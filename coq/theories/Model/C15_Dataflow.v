(* C15 — seed dataflow of the Monte-Carlo simulation entry points (definitions only).

   What is modelled (quara/simulation/standard_qtomography_simulation.py, ..._flow.py, utils/number_util.to_stream):

   * a random stream is identified by a KEY: where its generator comes from and how many earlier
     task-draws were made on the same generator object.
       KSeed root path off : Generator(MT19937(SeedSequence(root, spawn_key = path))) after [off] earlier
                             uses ([path = []] is what  to_stream(int)  builds:  Generator(MT19937(root)) );
       KAmbient off        : the process-global  np.random  (what to_stream(None) returns) - NOT determined
                             by settings and seeds.
   * execute_simulation (single setting): the seed_or_generator argument is turned into ONE stream (to_stream, once,
     before the loop) which is threaded through the n_rep repetitions of a sequential loop
     (repair c15-execute-simulation-int-seed-stream; before it ONE int was handed to every repetition and to_stream
     turned it into a NEW generator at every use: [single_key_before_fix]).
   * the flow entry point: SeedSequence(seed_qoperation).spawn(n_sample) -> one generator per sample, used in turn
     by the generation settings of the true object and the testers; SeedSequence(seed_data).spawn(n_rep)
     (a fresh SeedSequence inside every sample unit) -> one generator per repetition; four nested
     joblib.Parallel levels whose results come back in submission order.
   * the sample's generator is passed to exactly those generation settings whose  generate  takes one
     (repair c15-flow-generation-stream-per-setting; before it this was decided from the signature of the TRUE
     object's  generate  alone: [qop_key_before_fix]).
   * execute_estimation hands every repetition's task its own deep copy of estimator / loss / algo
     (repair c15-execute-estimation-private-copies: [run_private]; before it all tasks received the SAME objects:
     [run_shared_before_fix_before_fix]).

   Definitions named  *_before_fix  describe the code AS CODED BEFORE the named repair; they are kept so that the
   harness can recognise (and name) the old behaviour if it ever returns, and for the  _refuted  theorems. *)
From Coq Require Import List Arith Bool ZArith.
Import ListNotations.

Inductive key :=
| KSeed (root : Z) (path : list nat) (off : nat)
| KAmbient (off : nat).

(* ------------------------------------------------------------------ single-setting entry point *)
(* the seed_or_generator argument: None, an int, or a Generator object (named by its origin) *)
Inductive seedarg := SNone | SInt (n : Z) | SGen (root : Z) (path : list nat) (off : nat).

(* execute_simulation: "if seed_or_generator is None: seed_or_generator = simulation_setting.seed_data" *)
Definition resolve_seed (arg : seedarg) (seed_data : option Z) : seedarg :=
  match arg with
  | SNone => match seed_data with Some n => SInt n | None => SNone end
  | a => a
  end.

(* the stream repetition [rep] draws from.  to_stream is applied ONCE before the (sequential) loop, the resulting
   Generator object (or np.random) is threaded through the repetitions. *)
Definition single_key (s : seedarg) (rep : nat) : key :=
  match s with
  | SInt n => KSeed n [] rep
  | SGen r p o => KSeed r p (o + rep)
  | SNone => KAmbient rep
  end.

Definition single_keys (arg : seedarg) (seed_data : option Z) (n_rep : nat) : list key :=
  map (single_key (resolve_seed arg seed_data)) (seq 0 n_rep).

(* AS CODED BEFORE fix c15-execute-simulation-int-seed-stream: the int itself was handed to every repetition and
   to_stream turned it into a fresh generator in EVERY repetition *)
Definition single_key_before_fix (s : seedarg) (rep : nat) : key :=
  match s with
  | SInt n => KSeed n [] 0
  | SGen r p o => KSeed r p (o + rep)
  | SNone => KAmbient rep
  end.
Definition single_keys_before_fix (arg : seedarg) (seed_data : option Z) (n_rep : nat) : list key :=
  map (single_key_before_fix (resolve_seed arg seed_data)) (seq 0 n_rep).

Section Single.
Context {Data Est : Type} (gen_data : key -> Data) (estimate : Data -> Est).
(* SimulationResult.empi_dists_sequences / estimation_results, index = repetition *)
Definition single_run (arg : seedarg) (seed_data : option Z) (n_rep : nat) : list (Data * Est) :=
  map (fun k => (gen_data k, estimate (gen_data k))) (single_keys arg seed_data n_rep).
(* as coded before fix c15-execute-simulation-int-seed-stream *)
Definition single_run_before_fix (arg : seedarg) (seed_data : option Z) (n_rep : nat) : list (Data * Est) :=
  map (fun k => (gen_data k, estimate (gen_data k))) (single_keys_before_fix arg seed_data n_rep).
End Single.

(* ------------------------------------------------------------------ SeedSequence.spawn *)
(* children of a FRESH SeedSequence(root, spawn_key = parent): spawn_key = parent ++ [i], i = 0 .. n-1 *)
Definition spawn (root : Z) (parent : list nat) (n : nat) : list key :=
  map (fun i => KSeed root (parent ++ [i]) 0) (seq 0 n).
(* all leaves of a spawn tree with the given child counts per level *)
Fixpoint spawn_paths (counts : list nat) : list (list nat) :=
  match counts with
  | [] => [[]]
  | n :: t => flat_map (fun i => map (cons i) (spawn_paths t)) (seq 0 n)
  end.

(* ------------------------------------------------------------------ joblib.Parallel *)
(* tasks are executed in some order (any interleaving over any number of workers, possibly with retries);
   the caller receives the results in SUBMISSION order *)
Section Par.
Context {A : Type} (d : A).
Definition run_in_order (order : list nat) (task : nat -> A) : list (nat * A) := map (fun i => (i, task i)) order.
Fixpoint lookup (i : nat) (l : list (nat * A)) : option A :=
  match l with [] => None | (j, a) :: t => if Nat.eqb j i then Some a else lookup i t end.
Definition assemble (n : nat) (done : list (nat * A)) : list A :=
  map (fun i => match lookup i done with Some a => a | None => d end) (seq 0 n).
Definition par_exec (n : nat) (order : list nat) (task : nat -> A) : list A := assemble n (run_in_order order task).
Definition covers (n : nat) (order : list nat) : Prop := forall i, (i < n)%nat -> In i order.
End Par.

(* ------------------------------------------------------------------ tasks that share a mutable object *)
(* a repetition's estimation task first loads its data into the loss object it was handed
   (loss.set_from_standard_qtomography_option_data) and then optimises over it (algo.optimize).
   execute_estimation hands every task its OWN deep copy of estimator / loss / algo: [run_private].
   AS CODED BEFORE fix c15-execute-estimation-private-copies every task received the SAME objects: with process
   workers every task still worked on its own pickled copy, but with joblib's threading backend (which joblib
   selects for a Parallel call nested inside a worker process) the object was shared: [run_shared_before_fix_before_fix]. *)
Inductive step := SetData (t : nat) | Optimize (t : nat).
(* the register holds the index of the task whose data the loss object currently carries *)
Fixpoint run_shared_before_fix (reg : option nat) (sched : list step) : list (nat * option nat) :=
  match sched with
  | [] => []
  | SetData t :: r => run_shared_before_fix (Some t) r
  | Optimize t :: r => (t, reg) :: run_shared_before_fix reg r
  end.
Fixpoint run_private (regs : nat -> option nat) (sched : list step) : list (nat * option nat) :=
  match sched with
  | [] => []
  | SetData t :: r => run_private (fun u => if Nat.eqb u t then Some t else regs u) r
  | Optimize t :: r => (t, regs t) :: run_private regs r
  end.
(* program order inside each task: its SetData comes before its Optimize *)
Fixpoint program_order (seen : list nat) (sched : list step) : bool :=
  match sched with
  | [] => true
  | SetData t :: r => program_order (t :: seen) r
  | Optimize t :: r => existsb (Nat.eqb t) seen && program_order seen r
  end.

(* ------------------------------------------------------------------ flow entry point *)
Record flowcfg := {
  f_seed_qop : Z; f_seed_data : Z; f_n_sample : nat; f_n_rep : nat; f_n_case : nat;
  f_true_seeded : bool;            (* does the true object's generation setting take seed_or_generator (random Lindbladian) *)
  f_tester_seeded : list bool }.   (* the same for every tester's generation setting *)

Inductive genkey := GKey (k : key) | GNoRandom | GTypeError.

Definition count_true (l : list bool) : nat := length (filter (fun b => b) l).

(* object 0 is the true object, object j+1 is tester j.  The sample's stream is handed to exactly those settings whose
   generate takes it, in the order true object, tester 0, tester 1, ... *)
Definition seeded_at (c : flowcfg) (j : nat) : bool :=
  match j with O => f_true_seeded c | S t => nth t (f_tester_seeded c) false end.
Definition qop_key (c : flowcfg) (s j : nat) : genkey :=
  if seeded_at c j
  then GKey (KSeed (f_seed_qop c) [s] (count_true (map (seeded_at c) (seq 0 j))))
  else GNoRandom.

(* AS CODED BEFORE fix c15-flow-generation-stream-per-setting: whether the stream is passed was decided ONCE, from the
   true object's setting.  [amb] = position of the process-global stream when the sample starts. *)
Definition qop_key_before_fix (c : flowcfg) (amb : nat) (s j : nat) : genkey :=
  if f_true_seeded c then
    match j with
    | O => GKey (KSeed (f_seed_qop c) [s] 0)
    | S t => if nth t (f_tester_seeded c) false then GKey (KSeed (f_seed_qop c) [s] j)
             else GTypeError                (* generate() without the parameter is called with the stream *)
    end
  else
    match j with
    | O => GNoRandom
    | S t => if nth t (f_tester_seeded c) false
             then GKey (KAmbient (amb + count_true (firstn t (f_tester_seeded c))))   (* generate() called WITHOUT the stream *)
             else GNoRandom
    end.
Definition flow_raises_before_fix (c : flowcfg) : bool := f_true_seeded c && negb (forallb (fun b => b) (f_tester_seeded c)).
Definition ambient_free_before_fix (c : flowcfg) : bool := f_true_seeded c || negb (existsb (fun b => b) (f_tester_seeded c)).

(* SeedSequence(seed_data).spawn(n_rep) is rebuilt in every sample unit: the key does not depend on the sample *)
Definition data_key (c : flowcfg) (r : nat) : key := KSeed (f_seed_data c) [r] 0.

Section FlowExec.
Context {Obj Data Est : Type} (dObj : Obj) (dData : Data) (dEst : Est).
Variable gen_obj : nat -> genkey -> Obj.                      (* generation setting j run on its key *)
Variable gen_data : Obj -> list Obj -> key -> Data.           (* generate_empi_dists_sequence(true, num_data, stream) *)
Variable estimate : nat -> Obj -> list Obj -> Data -> Est.    (* estimator case c on one data sequence *)

(* worker schedules of the four joblib levels: per_sample_unit, per_data_generation, per_estimator_unit,
   per_estimator_execution *)
Record orders := { o_sample : list nat; o_data : nat -> list nat; o_case : nat -> list nat;
                   o_est : nat -> nat -> list nat }.
Definition serial (c : flowcfg) : orders :=
  {| o_sample := seq 0 (f_n_sample c); o_data := fun _ => seq 0 (f_n_rep c);
     o_case := fun _ => seq 0 (f_n_case c); o_est := fun _ _ => seq 0 (f_n_rep c) |}.
Definition orders_cover (c : flowcfg) (o : orders) : Prop :=
  covers (f_n_sample c) (o_sample o) /\ (forall s, covers (f_n_rep c) (o_data o s)) /\
  (forall s, covers (f_n_case c) (o_case o s)) /\ (forall s k, covers (f_n_rep c) (o_est o s k)).

Record sample_res := { r_true : Obj; r_testers : list Obj; r_data : list Data; r_est : list (list Est) }.
Definition d_sample : sample_res := {| r_true := dObj; r_testers := []; r_data := []; r_est := [] |}.

Definition sample_true (c : flowcfg) (s : nat) : Obj := gen_obj 0 (qop_key c s 0).
Definition sample_testers (c : flowcfg) (s : nat) : list Obj :=
  map (fun j => gen_obj j (qop_key c s j)) (seq 1 (length (f_tester_seeded c))).

Definition case_unit (c : flowcfg) (o : orders) (s : nat) (tr : Obj) (te : list Obj) (datas : list Data) (k : nat) : list Est :=
  par_exec dEst (f_n_rep c) (o_est o s k) (fun r => estimate k tr te (nth r datas dData)).
Definition sample_unit (c : flowcfg) (o : orders) (s : nat) : sample_res :=
  let tr := sample_true c s in
  let te := sample_testers c s in
  let datas := par_exec dData (f_n_rep c) (o_data o s) (fun r => gen_data tr te (data_key c r)) in
  {| r_true := tr; r_testers := te; r_data := datas;
     r_est := par_exec [] (f_n_case c) (o_case o s) (case_unit c o s tr te datas) |}.
Definition flow_exec (c : flowcfg) (o : orders) : list sample_res :=
  par_exec d_sample (f_n_sample c) (o_sample o) (sample_unit c o).

(* the result map, written directly *)
Definition flow_data (c : flowcfg) (s r : nat) : Data :=
  gen_data (sample_true c s) (sample_testers c s) (data_key c r).
Definition flow_est (c : flowcfg) (s k r : nat) : Est :=
  estimate k (sample_true c s) (sample_testers c s) (flow_data c s r).
Definition flow_spec (c : flowcfg) : list sample_res :=
  map (fun s => {| r_true := sample_true c s; r_testers := sample_testers c s;
                   r_data := map (flow_data c s) (seq 0 (f_n_rep c));
                   r_est := map (fun k => map (flow_est c s k) (seq 0 (f_n_rep c))) (seq 0 (f_n_case c)) |})
      (seq 0 (f_n_sample c)).
End FlowExec.
