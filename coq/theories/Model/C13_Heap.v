(* C13 - a small array-heap model (buffers, contiguous 1-d views, allocation, in-place update) and, on it,
   the model of  quara/objects/mprocess.py: convert_var_to_hss  and
   MProcess.calc_proj_eq_constraint_with_var  (definitions only; the latter in two versions: as repaired by
   fixes/mprocess-proj-eq-var-mutates-argument.diff - the one compared with the code - and as coded before).

   A numpy array that owns its data is a buffer; slicing / reshape of a contiguous array gives a view
   (same buffer, offset, length); np.copy / np.insert / np.hstack / np.reshape(list) allocate; "a -= c"
   writes through the view.  Only contiguous 1-d arrays are modelled (the harness passes such arrays). *)
From Coq Require Import List Arith Bool.
From QV.Core Require Import OF.
Import ListNotations.

Section Heap.
Context (F : OF).
Notation "0" := (c0 F). Notation "1" := (c1 F).
Infix "+" := (cadd F). Infix "*" := (cmul F). Infix "-" := (csub F). Infix "/" := (kdiv F).

Record buffer := { b_len : nat; b_dat : nat -> F }.
Record heap := { h_next : nat; h_buf : nat -> buffer }.
Record arr := { a_buf : nat; a_off : nat; a_len : nat }.

Definition rd (h : heap) (a : arr) (i : nat) : F := b_dat (h_buf h (a_buf a)) (a_off a + i)%nat.
Definition view (a : arr) (off len : nat) : arr := {| a_buf := a_buf a; a_off := (a_off a + off)%nat; a_len := len |}.
Definition alloc (h : heap) (n : nat) (f : nat -> F) : heap * arr :=
  ({| h_next := S (h_next h);
      h_buf := fun b => if Nat.eqb b (h_next h) then {| b_len := n; b_dat := f |} else h_buf h b |},
   {| a_buf := h_next h; a_off := 0; a_len := n |}).
(* a[:] -= c   (in place, through the view) *)
Definition isub (h : heap) (a : arr) (c : nat -> F) : heap :=
  {| h_next := h_next h;
     h_buf := fun b => if Nat.eqb b (a_buf a)
       then {| b_len := b_len (h_buf h b);
               b_dat := fun i => if Nat.leb (a_off a) i && Nat.ltb i (a_off a + a_len a)
                                 then b_dat (h_buf h b) i - c (i - a_off a)%nat
                                 else b_dat (h_buf h b) i |}
       else h_buf h b |}.

Fixpoint fnat (n : nat) : F := match n with O => 0 | S k => fnat k + 1 end.
Fixpoint sumf (n : nat) (f : nat -> F) : F := match n with O => 0 | S k => sumf k f + f k end.
Definition e0 (j : nat) : F := match j with O => 1 | _ => 0 end.

(* convert_var_to_hss(c_sys, var, on_para_eq_constraint); d2 = dim**2.
   Result: heap, the list of (d2 x d2, row-major) HS arrays, or None where numpy's reshape raises. *)
Definition convert_var_to_hss (h : heap) (d2 : nat) (on_para : bool) (var : arr) : option (heap * list arr) :=
  let hs := (d2 * d2)%nat in
  if on_para then
    let '(h1, vcopy) := alloc h (a_len var) (rd h var) in                 (* vector = copy.copy(var) *)
    let n := (a_len var / hs + 1)%nat in
    let sum_first_row := fun j => sumf (n - 1) (fun o => rd h1 vcopy (hs * o + j)) in
    let first_row := fun j => e0 j - sum_first_row j in
    let pos := (hs * (n - 1))%nat in
    let '(h2, vec) := alloc h1 (a_len var + d2)                          (* np.insert(vector, pos, first_row) *)
        (fun i => if Nat.ltb i pos then rd h1 vcopy i
                  else if Nat.ltb i (pos + d2) then first_row (i - pos)%nat
                  else rd h1 vcopy (i - d2)%nat) in
    if Nat.eqb (a_len vec) (n * hs) then Some (h2, map (fun k => view vec (k * hs) hs) (seq 0 n)) else None
  else
    let n := (a_len var / hs)%nat in                                       (* vector = var  (no copy) *)
    if Nat.eqb (a_len var) (n * hs) then Some (h, map (fun k => view var (k * hs) hs) (seq 0 n)) else None.

Definition dummy : arr := {| a_buf := 0; a_off := 0; a_len := 0 |}.
(* flat read of a list of equally sized arrays *)
Definition rd_list (h : heap) (l : list arr) (hs : nat) (i : nat) : F := rd h (nth (i / hs) l dummy) (i mod hs).

(* the body of MProcess.calc_proj_eq_constraint_with_var after the HS arrays have been obtained:
   sum of the first rows, in-place update of every first row, re-assembly of the variable vector *)
Definition proj_eq_core (h1 : heap) (d2 : nat) (on_para : bool) (hss : list arr) : heap * arr :=
  let hs := (d2 * d2)%nat in
  let n := length hss in
  let vec := fun j => fold_left (fun acc a => acc + rd h1 a j) hss 0 - e0 j in     (* vec += hs[0]; vec[0] -= 1 *)
  let c := fun j => vec j / fnat n in
  let h2 := fold_left (fun hh a => isub hh (view a 0 d2) c) hss h1 in             (* hs[0] -= vec / len(hss) *)
  if on_para then
    (* convert_hss_to_var: every hs flattened, the last one without its first row; np.hstack allocates *)
    alloc h2 (n * hs - d2)
          (fun i => if Nat.ltb i ((n - 1) * hs) then rd_list h2 hss hs i else rd_list h2 hss hs (i + d2))
  else
    (* np.reshape(list_of_arrays, -1): builds a new array *)
    alloc h2 (n * hs) (rd_list h2 hss hs).

(* copy.deepcopy(list of arrays): every element is copied into a buffer of its own *)
Fixpoint copy_all (h : heap) (l : list arr) : heap * list arr :=
  match l with
  | [] => (h, [])
  | a :: t => let h1 := fst (alloc h (a_len a) (rd h a)) in
              let a' := snd (alloc h (a_len a) (rd h a)) in
              (fst (copy_all h1 t), a' :: snd (copy_all h1 t))
  end.

(* MProcess.calc_proj_eq_constraint_with_var(c_sys, var, on_para_eq_constraint)
   AS CODED BEFORE fix "mprocess-proj-eq-var-mutates-argument": the in-place update goes through the
   arrays returned by convert_var_to_hss, which are views of var when on_para_eq_constraint = False *)
Definition proj_eq_with_var (h : heap) (d2 : nat) (on_para : bool) (var : arr) : option (heap * arr) :=
  match convert_var_to_hss h d2 on_para var with
  | None => None
  | Some (h1, hss) => Some (proj_eq_core h1 d2 on_para hss)
  end.

(* ... and as repaired (this is the model the harness compares with the implementation):
   hss = copy.deepcopy(convert_var_to_hss(...)), the in-place update works on the copies *)
Definition proj_eq_with_var_fixed (h : heap) (d2 : nat) (on_para : bool) (var : arr) : option (heap * arr) :=
  match convert_var_to_hss h d2 on_para var with
  | None => None
  | Some (h1, hss) => Some (proj_eq_core (fst (copy_all h1 hss)) d2 on_para (snd (copy_all h1 hss)))
  end.

(* an array is "well placed": its buffer exists *)
Definition live (h : heap) (a : arr) : Prop := (a_buf a < h_next h)%nat.
End Heap.
