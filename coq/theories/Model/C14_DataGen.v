(* C14 — model of quara/qcircuit/data_generator.py (numeric part; definitions only), generic in the
   ordered field:
     _random_number_to_data            -> rn2data
     generate_data_from_prob_dist      -> gen_data          (random numbers are an argument: oracle output)
     calc_empi_dist_sequence           -> empi_seq          (all error branches)
   The model is the code AS REPAIRED by /verif/fixes/C14-*.diff; the definitions "as coded before the fix" that the
   `_refuted` theorems talk about live in Model/C14_BeforeFix.v.
     calc_empi_dists_sequence          -> empi_seqs
     sampling / num_sum                -> multi_to_empi     (generate_empi_dist_sequence_from_prob_dist)
   Data values, sample sizes and measurement_num are Python ints, hence Z (negatives reach the
   error branches); list positions and counts are nat. *)
From Coq Require Import List Arith Bool ZArith.
From QV.Core Require Import OF.
From QV.Model Require Import Multinomial.
Import ListNotations.

Section DataGen.
Context (F : OF).
Notation "0" := (c0 F). Notation "1" := (c1 F).
Infix "+" := (cadd F). Infix "*" := (cmul F). Infix "-" := (csub F). Infix "/" := (kdiv F).

(* strict comparison  x < y  as the code writes it, and the strict order as a proposition *)
Definition flt (x y : F) : bool := negb (kleb F y x).
Definition klt (x y : F) : Prop := kle F x y /\ x <> y.

(* ---- _random_number_to_data(probdist, random_number) ----   (as repaired by fixes/C14-rn2data-fallback-zero-probability)
     cumulative_sum = 0.0
     last_positive = len(probdist) - 1
     for index, prob in enumerate(probdist):
         cumulative_sum += prob
         if random_number < cumulative_sum: return index
         if prob > 0.0: last_positive = index
     return last_positive
   The model splits the loop into its two independent parts: the early return (rn2d_go) and, when the loop runs to its
   end, the last index of positive probability (last_pos_go).  The function REGENERATED from the Python text by the
   translator is proved equal to rn2data on every run (coq/gen/C14_Equiv.v); rn2data_r below is the single-loop
   transcription, generic in the addition, and Proofs/C14_DataGen.v proves rn2data_r (cadd F) = rn2data. *)
Fixpoint rn2d_go (ps : list F) (cum : F) (r : F) (idx : nat) : option nat :=
  match ps with
  | [] => None
  | p :: t => let c := cum + p in if flt r c then Some idx else rn2d_go t c r (S idx)
  end.
Fixpoint last_pos_go (ps : list F) (idx : nat) (lp : Z) : Z :=
  match ps with
  | [] => lp
  | p :: t => last_pos_go t (S idx) (if flt 0 p then Z.of_nat idx else lp)
  end.
(* the fallback value: the LAST index of positive probability (len-1 if there is none; -1 for an empty vector) *)
Definition last_positive (ps : list F) : Z := last_pos_go ps O (Z.of_nat (length ps) - 1)%Z.
Definition rn2data (ps : list F) (r : F) : Z :=
  match rn2d_go ps 0 r O with
  | Some i => Z.of_nat i
  | None => last_positive ps
  end.

(* the same function as ONE loop, with the accumulation `cumulative_sum += prob` performed by an arbitrary operation
   [add]: exact addition (cadd F) gives rn2data; a correctly ROUNDED floating-point addition is another instance
   (it satisfies  p <= 0 -> add c p <= c,  the only fact the validity theorem needs) *)
Fixpoint rn2d_r (add : F -> F -> F) (ps : list F) (cum : F) (r : F) (idx : nat) (lp : Z) : Z :=
  match ps with
  | [] => lp
  | p :: t => let c := add cum p in
              if flt r c then Z.of_nat idx else rn2d_r add t c r (S idx) (if flt 0 p then Z.of_nat idx else lp)
  end.
Definition rn2data_r (add : F -> F -> F) (ps : list F) (r : F) : Z :=
  rn2d_r add ps 0 r O (Z.of_nat (length ps) - 1)%Z.

(* cumulative sums cum ps k = p_0 + ... + p_{k-1} *)
Definition cum (ps : list F) (k : nat) : F := fold_left (cadd F) (firstn k ps) 0.
Definition total (ps : list F) : F := cum ps (length ps).

(* ---- generate_data_from_prob_dist(prob_dist, data_num, seed_or_generator, atol) ----
   validate_prob_dist(prob_dist, eps=atol) (model: Multinomial.validate, shared with C16), then the
   random numbers rs = stream.random(data_num) are mapped one by one. *)
Definition gen_data (atol : F) (ps : list F) (rs : list F) : mres (list Z) :=
  match validate F atol true ps with
  | MErr c => MErr c
  | MOk _ => MOk (map (rn2data ps) rs)
  end.

(* ---- numbers -> field (binary, so that large counts stay cheap when executed) ---- *)
Fixpoint fpos (p : positive) : F :=
  match p with
  | xH => 1
  | xO q => let x := fpos q in x + x
  | xI q => let x := fpos q in x + x + 1
  end.
Definition fz (z : Z) : F :=
  match z with Z0 => 0 | Zpos p => fpos p | Zneg p => copp F (fpos p) end.
Definition fnat (n : nat) : F := fz (Z.of_nat n).

(* ---- calc_empi_dist_sequence(measurement_num, data, num_sums) ----
   error codes (all ValueError in Python, told apart by their message):
     1 measurement_num < 0
     2 some num_sum exceeds len(data)
     3 a datum outside [0, measurement_num)
     4 num_sums not increasing from 0 (first sample size <= 0, or a later one <= its predecessor)   *)
Inductive eres (A : Type) := EOk (a : A) | EErr (code : nat).
Arguments EOk {A} a. Arguments EErr {A} code.

(* cumulative_frequency[d] += 1 *)
Fixpoint bump (cf : list nat) (d : nat) : list nat :=
  match cf, d with
  | [], _ => []
  | c :: t, O => S c :: t
  | c :: t, S d' => c :: bump t d'
  end.

Definition empi_of (cf : list nat) (n : nat) : list F := map (fun c => fnat c / fnat n) cf.

(* the loop `for index, d in enumerate(data)`; idx = index, next = next_num_sum,
   rest = num_sums[next_num_sum_position+1:], acc = empi_dists (reversed), len = len(data) *)
Fixpoint empi_loop (m : Z) (len : Z) (data : list Z) (idx : nat) (cf : list nat) (next : Z) (rest : list Z)
         (acc : list (Z * list F)) : eres (list (Z * list F)) :=
  match data with
  | [] => EOk (rev acc)
  | d :: data' =>
      if negb ((0 <=? d)%Z && (d <? m)%Z) then EErr 3 else
      let cf' := bump cf (Z.to_nat d) in
      if (Z.of_nat (S idx) =? next)%Z then
        let acc' := (next, empi_of cf' (S idx)) :: acc in
        match rest with
        | [] => EOk (rev acc')
        | nx :: rest' =>
            if (len <? nx)%Z then EErr 2 else
            if (nx <=? next)%Z then EErr 4 else
            empi_loop m len data' (S idx) cf' nx rest' acc'
        end
      else empi_loop m len data' (S idx) cf' next rest acc
  end.

Definition empi_seq (m : Z) (data : list Z) (num_sums : list Z) : eres (list (Z * list F)) :=
  if (m <? 0)%Z then EErr 1 else
  match num_sums with
  | [] => EOk []
  | n0 :: rest =>
      let len := Z.of_nat (length data) in
      if (n0 <=? 0)%Z then EErr 4 else           (* former_num_sum(=0) >= num_sums[0]   (fixes/C14-empi-seq-nonpositive-first-num-sum) *)
      if (len <? n0)%Z then EErr 2 else
      empi_loop m len data O (repeat O (Z.to_nat m)) n0 rest []
  end.

(* ---- calc_empi_dists_sequence(measurement_nums, dataset, list_num_sums) ----
   error codes 5 / 6: len(measurement_nums) differs from len(dataset) / len(list_num_sums) *)
Fixpoint empi_seqs_loop (ms : list Z) (dataset : list (list Z)) (lns : list (list Z))
  : eres (list (list (Z * list F))) :=
  match ms, dataset, lns with
  | m :: ms', d :: ds', ns :: lns' =>
      match empi_seq m d ns with
      | EErr c => EErr c
      | EOk e => match empi_seqs_loop ms' ds' lns' with EErr c => EErr c | EOk es => EOk (e :: es) end
      end
  | _, _, _ => EOk []
  end.
Definition empi_seqs (ms : list Z) (dataset : list (list Z)) (lns : list (list Z)) :=
  if negb (Nat.eqb (length ms) (length dataset)) then EErr 5 else
  if negb (Nat.eqb (length ms) (length lns)) then EErr 6 else
  empi_seqs_loop ms dataset lns.

(* ---- specification-level counting (what "the empirical distribution of a prefix" means) ---- *)
Definition countz (l : list Z) (x : nat) : nat := count_occ Z.eq_dec l (Z.of_nat x).
Definition counts (m : nat) (l : list Z) : list nat := map (countz l) (seq O m).
Definition in_rangeb (m : Z) (d : Z) : bool := (0 <=? d)%Z && (d <? m)%Z.
(* the empirical distribution of the first n data *)
Definition empi_spec (m : Z) (data : list Z) (n : Z) : Z * list F :=
  (n, empi_of (counts (Z.to_nat m) (firstn (Z.to_nat n) data)) (Z.to_nat n)).

(* well-formed request: measurement_num >= 0, sample sizes positive, strictly increasing, within the data, and the
   data actually consumed (the longest requested prefix) inside [0, measurement_num) *)
Fixpoint incr_from (prev : Z) (l : list Z) : Prop :=
  match l with [] => True | x :: t => (prev < x)%Z /\ incr_from x t end.
Definition empi_pre (m : Z) (data : list Z) (ns : list Z) : Prop :=
  (0 <= m)%Z /\ incr_from 0%Z ns /\ Forall (fun n => (n <= Z.of_nat (length data))%Z) ns /\
  Forall (fun d => (0 <= d < m)%Z) (firstn (Z.to_nat (last ns 0%Z)) data).

(* ---- multinomial counts -> empirical distribution (sampling / num_sum) ---- *)
Definition multi_to_empi (n : Z) (cnt : list Z) : Z * list F := (n, map (fun c => fz c / fz n) cnt).

End DataGen.
Arguments EOk {A} a. Arguments EErr {A} code.
