(* C20 — reference semantics of running an accepted schedule (definitions only).
   Objects live in a real vector representation of dimension n (for quara: n = d^2 coefficients in a Hermitian basis):
   a state is a vector, a gate a matrix, a measurement process a list of matrices (one per outcome), a POVM a list
   of vectors (one per outcome, paired with the state by the dot product — the Born rule), [tr] is the vector of the
   trace functional.  A schedule [state; mid...; povm] branches over the outcomes of every measurement process in
   time order; the result lists the probability of every outcome sequence (later outcomes vary fastest).
   This is the meaning the property gives to "executing" a schedule; that quara's compose_qoperations computes it is
   the business of property C06 — here only normalisation is derived from it. *)
From Coq Require Import ZArith List.
From QV.Core Require Import OF Sums Mat.
From QV.Model Require Import C20_Schedule.
Import ListNotations.

Section Run.
Context {R : CR}.
Variable n : nat.
Record objects := mkobjects {
  o_state : Z -> @vec R;
  o_gate : Z -> @mat R;
  o_mprocess : Z -> list (@mat R);
  o_povm : Z -> list (@vec R) }.

Fixpoint run_mid (O : objects) (mid : list titem) (branches : list (@vec R)) : list (@vec R) :=
  match mid with
  | [] => branches
  | (KGate, z) :: r => run_mid O r (map (mv n (o_gate O z)) branches)
  | (KMprocess, z) :: r => run_mid O r (flat_map (fun v => map (fun M => mv n M v) (o_mprocess O z)) branches)
  | _ :: r => run_mid O r branches          (* state / povm in the middle: excluded by validation *)
  end.
Definition measure (O : objects) (zp : Z) (branches : list (@vec R)) : list R :=
  flat_map (fun v => map (fun e => dot n e v) (o_povm O zp)) branches.
Definition run_dist (O : objects) (s : list titem) : list R :=
  match s with
  | (KState, z0) :: rest => measure O (snd (last rest dflt_item)) (run_mid O (removelast rest) [o_state O z0])
  | _ => []
  end.
Definition lsum (l : list R) : R := fold_right (cadd R) (c0 R) l.

(* trace-one states, trace-preserving gates, measurement processes whose outcome maps sum to a trace-preserving
   map, POVMs whose elements sum to the identity — all written as identities of the trace functional *)
Definition physical (tr : @vec R) (O : objects) : Prop :=
  (forall z, dot n tr (o_state O z) = c1 R) /\
  (forall z v, dot n tr (mv n (o_gate O z) v) = dot n tr v) /\
  (forall z v, lsum (map (fun M => dot n tr (mv n M v)) (o_mprocess O z)) = dot n tr v) /\
  (forall z v, lsum (map (fun e => dot n e v) (o_povm O z)) = dot n tr v).
End Run.
