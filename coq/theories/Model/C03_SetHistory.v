(* C03 — a SetQOperations object over a HISTORY of queries and edits (definitions only).
   The Python object stores exactly four fields, the four lists (qoperations.py, __init__): that is the WHOLE state of the
   model.  Queries return an answer and leave the state alone; edits are the public setters and the in-place list operations
   that are possible because the properties hand out the stored lists themselves. *)
From Coq Require Import ZArith Bool List Arith.
From QV.Core Require Import OF.
From QV.Model Require Import C03_VarObj C03_SetQOps.
Import ListNotations.

Fixpoint replace_nth {A : Type} (i : nat) (x : A) (l : list A) : list A :=
  match l, i with
  | [], _ => []
  | _ :: t, O => x :: t
  | h :: t, S i' => h :: replace_nth i' x t
  end.
Definition insert_nth {A : Type} (i : nat) (x : A) (l : list A) : list A := firstn i l ++ x :: skipn i l.
Definition remove_nth {A : Type} (i : nat) (l : list A) : list A := firstn i l ++ skipn (S i) l.

Section Hist.
Context (F : OF).

Inductive hop :=
| HLocalOfTotal (t : Z)                        (* local_info_from_index_var_total(t) *)
| HTotalOfLocal (k : kind) (i j : Z)           (* index_var_total_from_local_info(mode, i, j) *)
| HSizeTotal                                   (* size_var_total() *)
| HVarTotal                                    (* var_total() *)
| HFromVarTotal (v : list F)                   (* set_qoperations_from_var_total(v): returns a NEW set *)
| HSet (k : kind) (ops : list (qop F))         (* sq.<kind>s = ops *)
| HSetItem (k : kind) (i : nat) (o : qop F)    (* sq.<kind>s[i] = o *)
| HInsert (k : kind) (i : nat) (o : qop F)     (* sq.<kind>s.insert(i, o); append = insert at the end *)
| HPop (k : kind) (i : nat).                   (* sq.<kind>s.pop(i) *)

Definition set_kind (s : setq F) (k : kind) (l : list (qop F)) : setq F :=
  match k with
  | KState => Build_setq F l (sq_gates F s) (sq_povms F s) (sq_mprocs F s)
  | KGate => Build_setq F (sq_states F s) l (sq_povms F s) (sq_mprocs F s)
  | KPovm => Build_setq F (sq_states F s) (sq_gates F s) l (sq_mprocs F s)
  | KMproc => Build_setq F (sq_states F s) (sq_gates F s) (sq_povms F s) l
  end.

Definition hstep (s : setq F) (e : hop) : setq F :=
  match e with
  | HSet k l => set_kind s k l
  | HSetItem k i o => set_kind s k (replace_nth i o (ops_of F s k))
  | HInsert k i o => set_kind s k (insert_nth i o (ops_of F s k))
  | HPop k i => set_kind s k (remove_nth i (ops_of F s k))
  | _ => s
  end.
Definition run_history (s : setq F) (h : list hop) : setq F := fold_left hstep h s.
Definition is_edit (e : hop) : bool :=
  match e with HSet _ _ | HSetItem _ _ _ | HInsert _ _ _ | HPop _ _ => true | _ => false end.

Inductive answer :=
| ALocal (r : lres) | ATotal (r : option Z) | ASize (z : Z) | AVar (v : list F) | ASet (r : option (setq F)) | ANone.
(* what the event answers when the set is s *)
Definition answer_of (sdf : nat -> F) (s : setq F) (e : hop) : answer :=
  match e with
  | HLocalOfTotal t => ALocal (local_from_total (sizes_of F s) t)
  | HTotalOfLocal k i j => ATotal (total_from_local (sizes_of F s) k i j)
  | HSizeTotal => ASize (size_total (sizes_of F s))
  | HVarTotal => AVar (var_total F s)
  | HFromVarTotal v => ASet (set_from_var_total F sdf s v)
  | _ => ANone
  end.
(* the answers given along a history *)
Fixpoint transcript (sdf : nat -> F) (s : setq F) (h : list hop) : list answer :=
  match h with
  | [] => []
  | e :: t => answer_of sdf s e :: transcript sdf (hstep s e) t
  end.
(* edits put well-formed objects into the set *)
Definition hop_wf (e : hop) : Prop :=
  match e with
  | HSet _ l => Forall (qop_wf F) l
  | HSetItem _ _ o | HInsert _ _ o => qop_wf F o
  | _ => True
  end.
End Hist.
