(* C19 — the small vocabulary the REGENERATED (translated from /repo on every run, gen/c19_py2coq.py) functions are written in,
   and the specifications they are proved equal to in coq/gen/C19_Equiv.v.  Definitions only. *)
From Coq Require Import List Arith Bool.
From QV.Core Require Import OF Sums Mat.
From QV.Model Require Import C19_Expect Multinomial C19_ErrFormulas.
Import ListNotations.

Section PySem.
Context (F : OF).
Notation "0" := (c0 F). Notation "1" := (c1 F).
Infix "+" := (cadd F). Infix "*" := (cmul F). Infix "-" := (csub F). Infix "/" := (kdiv F).
Notation vec := (@vec F). Notation mat := (@mat F).

(* a numpy array as far as calc_direct_sum looks at it: ndim, shape[0], shape[1] (0 when absent), the entries *)
Record nparr := { a_ndim : nat; a_sh0 : nat; a_sh1 : nat; a_dat : mat }.

(* M[r0:r1, c0:c1] = blk   (shapes fitting, slices inside the array) *)
Definition np_place (r0 r1 c0 c1 : nat) (blk M : mat) : mat :=
  fun i j => if (Nat.leb r0 i && Nat.ltb i r1) && (Nat.leb c0 j && Nat.ltb j c1) then blk (i - r0)%nat (j - c0)%nat else M i j.
(* M[:, c0:c1] = blk *)
Definition np_place_cols (c0 c1 : nat) (blk M : mat) : mat :=
  fun i j => if Nat.leb c0 j && Nat.ltb j c1 then blk i (j - c0)%nat else M i j.
Definition np_zeros : mat := fun _ _ => 0.
Definition np_eye : mat := fun i j => if Nat.eqb i j then 1 else 0.
(* np.hstack of a list of blocks of equal width w *)
Definition np_hstack (w : nat) (blocks : list mat) : mat :=
  fun i j => nth (j / w) blocks np_zeros i (j mod w).

(* np.cumsum of a list of counts; np.split(v, cuts) of a vector of length total as (offset, length) pieces *)
Fixpoint np_cumsum_from (acc : nat) (l : list nat) : list nat :=
  match l with [] => [] | a :: t => (acc + a)%nat :: np_cumsum_from (acc + a)%nat t end.
Definition np_cumsum (l : list nat) : list nat := np_cumsum_from O l.
Fixpoint np_split_from (start : nat) (cuts : list nat) (total : nat) : list (nat * nat) :=
  match cuts with [] => [(start, (total - start)%nat)] | c :: t => (start, (c - start)%nat) :: np_split_from c t total end.

(* np.std(l, ddof=k) ** 2 *)
Definition var_ddof (k : nat) (l : list F) : F :=
  let mu := mean F l in lsumF F (map (fun x => (x - mu) * (x - mu)) l) / of_nat F (length l - k).

(* num_outcomes(schedule_index) of the four tomography classes.  A schedule is the list of the INDICES of its items
   ([state index; povm index] for QST / POVMT, [state index; gate / mprocess index; povm index] for QPT / QMPT); povm_len i is the
   number of outcomes of tester POVM i, mo the number of outcomes of the estimated POVM / MProcess.  The distribution of schedule j has
   as many entries as the POVM NAMED in schedule j (times mo for a measurement process). *)
Definition num_outcomes_spec (ty : ttype) (sched : nat -> list nat) (povm_len : nat -> nat) (mo j : nat) : nat :=
  match ty with
  | QST => povm_len (nth 1 (sched j) O)
  | POVMT => mo
  | QPT => povm_len (nth 2 (sched j) O)
  | QMPT => (povm_len (nth 2 (sched j) O) * mo)%nat
  end.

(* ---- specifications ---- *)
(* calc_direct_sum: ValueError (1) at the first entry that is not 2-dimensional, ValueError (2) at the first non-square entry
   (checked per entry in this order), otherwise the direct sum *)
Fixpoint ds_check (bs : list nparr) : mres unit :=
  match bs with
  | [] => MOk tt
  | a :: t => if negb (Nat.eqb (a_ndim a) 2) then MErr 1 else if negb (Nat.eqb (a_sh0 a) (a_sh1 a)) then MErr 2 else ds_check t
  end.
Definition ds_blocks (bs : list nparr) : list (nat * mat) := map (fun a => (a_sh0 a, a_dat a)) bs.
Definition direct_sum_spec (bs : list nparr) : mres (nat * mat) :=
  match ds_check bs with MErr c => MErr c | MOk _ => MOk (dsum_size F (ds_blocks bs), dsum F (ds_blocks bs)) end.
(* result relation: same error code, or same size and pointwise equal matrices *)
Definition mres_sized_eq (r r' : mres (nat * mat)) : Prop :=
  match r, r' with
  | MOk (n, M), MOk (n', M') => n = n' /\ forall i j, M i j = M' i j
  | MErr c, MErr c' => c = c'
  | _, _ => False
  end.
End PySem.
Arguments a_ndim {F} n. Arguments a_sh0 {F} n. Arguments a_sh1 {F} n. Arguments a_dat {F} n.
