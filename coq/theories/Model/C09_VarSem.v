(* C09 — target vocabulary of the second translator gen/c09_var_py2coq.py (definitions only): flat numpy arrays as lists,
   slicing, insertion, reshape into flat blocks, and the hand-written models of "the object defined by these variables"
   for measurement processes and POVMs (equality constraint parametrised away or kept). *)
From Coq Require Import Arith List Bool.
From QV.Core Require Import OF.
Import ListNotations.

Section VarSem.
Context (F : OF).
Definition sl (v : list F) (a b : nat) : list F := firstn (b - a) (skipn a v).                 (* v[a:b] *)
Definition np_zeros (n : nat) : list F := repeat (c0 F) n.
Definition set_item (v : list F) (i : nat) (x : F) : list F := firstn i v ++ x :: skipn (S i) v.   (* v[i] = x  (i < len v) *)
Fixpoint vadd_l (a b : list F) : list F :=
  match a, b with x :: a', y :: b' => cadd F x y :: vadd_l a' b' | _, _ => [] end.
Fixpoint vsub_l (a b : list F) : list F :=
  match a, b with x :: a', y :: b' => csub F x y :: vsub_l a' b' | _, _ => [] end.
Definition np_insert (v : list F) (pos : nat) (row : list F) : list F := firstn pos v ++ row ++ skipn pos v.
(* v.reshape(k, sz) as the list of its k flat rows *)
Fixpoint chunk (sz k : nat) (v : list F) : list (list F) :=
  match k with O => [] | S k' => firstn sz v :: chunk sz k' (skipn sz v) end.
Definition sum_axis0 (n : nat) (rows : list (list F)) : list F := fold_left vadd_l rows (np_zeros n).

(* ---------------- hand-written models (mirrored by harness/props/c09.py: ref_stacked_from_var) *)
Definition e0 (n : nat) : list F := set_item (np_zeros n) 0 (c1 F).
(* sum over x < k of the first d2 entries of block x (blocks of size hs) *)
Fixpoint first_rows_sum (d2 hs k : nat) (var : list F) : list F :=
  match k with
  | O => np_zeros d2
  | S k' => vadd_l (first_rows_sum d2 hs k' var) (sl var (hs * k') (hs * k' + d2))
  end.
(* measurement process, constraint parametrised away: m-1 full HS blocks, then the last block without its first row;
   the first row of the LAST block is  e_0 - sum of the other blocks' first rows *)
Definition ref_hss_stacked (d2 m : nat) (var : list F) : list F :=
  let hs := d2 * d2 in
  firstn (hs * (m - 1)) var ++ vsub_l (e0 d2) (first_rows_sum d2 hs (m - 1) var) ++ skipn (hs * (m - 1)) var.
(* POVM, constraint parametrised away: m-1 elements, the last is  sd e_0 - sum of the others *)
Definition ref_vecs_stacked (d2 m : nat) (sd : F) (var : list F) : list F :=
  var ++ vsub_l (sd :: np_zeros (d2 - 1)) (sum_axis0 d2 (chunk d2 (m - 1) var)).
End VarSem.

Arguments sl {F} v a b. Arguments np_zeros {F} n. Arguments set_item {F} v i x. Arguments vadd_l {F} a b. Arguments vsub_l {F} a b.
Arguments np_insert {F} v pos row. Arguments chunk {F} sz k v. Arguments sum_axis0 {F} n rows. Arguments e0 {F} n.
Arguments first_rows_sum {F} d2 hs k var. Arguments ref_hss_stacked {F} d2 m var. Arguments ref_vecs_stacked {F} d2 m sd var.
