(* C06 — model of quara/objects/operators.py  compose_qoperations / _compose_qoperations* (every type pair, as coded),
   matrix_util.truncate_and_normalize, MProcess.to_povm, Povm.generate_mprocess (modes 0/1 after their LAPACK/SciPy
   kernel, mode 2 completely).   DEFINITIONS ONLY.   Generic in the ordered field F.

   THE FAITHFUL MODEL IS THE CODE AFTER THE THREE REPAIRS proposed by this property (/verif/fixes):
     compose-mprocess-mprocess-order-layout          (fix_mm = true,  hss_hss_fixed / shape_mm_fixed)
     compose-mprocess-state-poststate-normalisation  (fix_ps = true)
     povm-generate-mprocess-mode1-eigenvectors       (gm_mode1_cb: columns of V, conjugate)
     povm-generate-mprocess-mode1-eigenspace-tolerance  (gm_mode1_cb tol with tol = atol; round 3)
   The definitions of the code AS IT WAS BEFORE each fix are kept, clearly labelled (fix_mm = false: hss_hss_coded /
   shape_mm_coded, fix_ps = false, gm_mode1_cb_prefix); they are what the `_refuted` theorems talk about and what the harness
   uses to recognise a regression to the old behaviour.

   Objects are what the Python objects hold:  State = real coefficient vector (length n = d*d),  Gate = real n x n HS
   matrix,  Povm = list of coefficient vectors,  MProcess = list of HS matrices + shape + eps_zero,
   StateEnsemble = list of vectors + MultinomialDistribution (Model/Multinomial.v [dist]) + eps_zero.
   [sys] fields stand for the CompositeSystem identity that _compose_qoperations compares.
   Convention of the code (all pairs):  compose(elem1, elem2) = "elem1 AFTER elem2"  (elem2 acts first).

   Not modelled: the physicality validation inside the constructors (C01), mode_sampling=True (random draw).
   Error codes (mres): 1..10 as in Model/Multinomial.v (1 negative probability, 2 size/shape mismatch, 3 sum is not 1 -
   also the NaN distribution produced by 0/0 in truncate_and_normalize -, 10 empty shape);  20 TypeError unsupported type
   combination;  21 ValueError different composite systems;  22 AttributeError (MultinomialDistribution operand);
   23 ValueError fewer than two operands;  25 empty ensemble (UnboundLocalError);  26 ValueError imaginary part left
   (truncate_hs);  27 ValueError bad mode / post_selected_states combination;  28 ValueError "entries of vec must be real
   numbers" (generic-basis branch: p_x = np.vdot(I_vec_gb, .) is complex128, so every retained post state is complex). *)
From Coq Require Import List Arith Bool ZArith.
From QV.Core Require Import OF Sums Mat Cplx.
From QV.Model Require Import QObj Multinomial.
Import ListNotations.

Section C06.
Context (F : OF).
Notation "0" := (c0 F). Notation "1" := (c1 F).
Infix "+" := (cadd F). Infix "*" := (cmul F). Infix "-" := (csub F). Infix "/" := (kdiv F).
Notation RM := (rmat F). Notation RV := (rvec F).

(* ------------------------------------------------------------------ linear core (no thresholds) *)
Section Linear.
Variable n : nat.                                   (* n = d*d, length of coefficient vectors *)
Definition gate_gate (G1 G2 : RM) : RM := mmul n G1 G2.                               (* elem1.hs @ elem2.hs *)
Definition gate_hss (G : RM) (hss : list RM) : list RM := map (fun H => mmul n G H) hss.   (* Gate o MProcess *)
Definition hss_gate (hss : list RM) (G : RM) : list RM := map (fun H => mmul n H G) hss.   (* MProcess o Gate *)
(* _compose_qoperations_MProcess_MProcess AS CODED BEFORE fix compose-mprocess-mprocess-order-layout:
   elem1 = hss1 (acts LATER by the convention), elem2 = hss2;
   for hs2 in elem2.hss: for hs1 in elem1.hss: hss.append(hs2 @ hs1);  shape = elem1.shape + elem2.shape *)
Definition hss_hss_coded (hss1 hss2 : list RM) : list RM :=
  flat_map (fun H2 => map (fun H1 => mmul n H2 H1) hss1) hss2.
Definition shape_mm_coded (sh1 sh2 : list nat) : list nat := sh1 ++ sh2.
(* the code after the fix (what the convention of every other pair requires):
   for hs2 in elem2.hss: for hs1 in elem1.hss: hss.append(hs1 @ hs2);  shape = elem2.shape + elem1.shape
   (product hs1 @ hs2, earlier outcome major, shape earlier ++ later) *)
Definition hss_hss_fixed (hss1 hss2 : list RM) : list RM :=
  flat_map (fun H2 => map (fun H1 => mmul n H1 H2) hss1) hss2.
Definition shape_mm_fixed (sh1 sh2 : list nat) : list nat := sh2 ++ sh1.
Definition gate_state (G : RM) (v : RV) : RV := mv n G v.                             (* elem1.hs @ elem2.vec *)
Definition povm_gate (P : list RV) (G : RM) : list RV := map (fun p => mv n (mT G) p) P.   (* povm_element.conj() @ hs *)
(* for hs in elem2.hss: for vec in elem1.vecs: hs.T @ vec *)
Definition povm_hss (P : list RV) (hss : list RM) : list RV :=
  flat_map (fun H => map (fun p => mv n (mT H) p) P) hss.
Definition born_list (P : list RV) (v : RV) : list F := map (fun p => dot n p v) P.       (* np.vdot(povm_element, vec) *)
(* MProcess.to_povm:  vecs = [sqrt(dim) * hs[0] for hs in hss] *)
Definition to_povm (sd : F) (hss : list RM) : list RV := map (fun H => fun b => sd * H 0%nat b) hss.
(* Povm.generate_mprocess(mode 2): hs = |rho_x>> <<Pi_x| ; zip stops at the shorter list *)
Definition gm_mode2_list (P : list RV) (post : list RV) : list RM :=
  map (fun sp => (fun a b => fst sp a * snd sp b)) (combine post P).
Definition gm_mode2_single (P : list RV) (post : RV) : list RM := map (fun p => (fun a b => post a * p b)) P.
(* un-normalised bookkeeping used by the associativity theorems: an instrument acting on a list of (sub-normalised) vectors,
   vector (= earlier outcome) major, and the Born numbers of a list of effects on such a list *)
Definition act (hss : list RM) (vs : list RV) : list RV := flat_map (fun v => map (fun H => mv n H v) hss) vs.
Definition born_all (P : list RV) (vs : list RV) : list F := flat_map (fun v => map (fun p => dot n p v) P) vs.
End Linear.

(* ------------------------------------------------------------------ raw chains: the linear content of every operand and the
   composition table, for arbitrary bracketings.  [ROps g hss]: a gate (g = true, one matrix) or an instrument;
   [RVecs]: a state / ensemble as un-normalised vectors p_x rho_x;  [REffs]: a POVM;  [RNums]: joint probabilities.
   [rcomp fixmm a b] = "a after b";  fixmm = true is the code; fixmm = false uses the MProcess o MProcess formula as coded
   BEFORE fix compose-mprocess-mprocess-order-layout. *)
Section Raw.
Variable n : nat.
Inductive robj := ROps (g : bool) (hss : list RM) | RVecs (vs : list RV) | REffs (P : list RV) | RNums (l : list F).
Definition rcomp (fixmm : bool) (a b : robj) : option robj :=
  match a, b with
  | ROps ga A, ROps gb B =>
      Some (ROps (ga && gb) (if fixmm || ga || gb then hss_hss_fixed n A B else hss_hss_coded n A B))
  | ROps _ A, RVecs vs => Some (RVecs (act n A vs))
  | REffs P, ROps _ A => Some (REffs (povm_hss n P A))
  | REffs P, RVecs vs => Some (RNums (born_all n P vs))
  | _, _ => None
  end.
Inductive tree := Leaf (q : robj) | Node (l r : tree).
Fixpoint flatten (t : tree) : list robj := match t with Leaf q => [q] | Node l r => flatten l ++ flatten r end.
Fixpoint eval (fixmm : bool) (t : tree) : option robj :=
  match t with
  | Leaf q => Some q
  | Node l r => match eval fixmm l, eval fixmm r with Some a, Some b => rcomp fixmm a b | _, _ => None end
  end.
(* the n-ary call compose_qoperations(e1, ..., ek): right-to-left fold *)
Fixpoint eval_fold (fixmm : bool) (l : list robj) : option robj :=
  match l with
  | [] => None
  | q :: t => match t with [] => Some q | _ => match eval_fold fixmm t with Some y => rcomp fixmm q y | None => None end end
  end.
(* does evaluating the tree ever compose two instruments (neither a gate) with each other? *)
Definition is_instr (q : robj) : bool := match q with ROps false _ => true | _ => false end.
Fixpoint mm_free (t : tree) : bool :=
  match t with
  | Leaf _ => true
  | Node l r => mm_free l && mm_free r &&
      match eval true l, eval true r with Some a, Some b => negb (is_instr a && is_instr b) | _, _ => true end
  end.
End Raw.

(* ------------------------------------------------------------------ thresholds, normalisation, distributions *)
Section Coded.
Variable n : nat.
Variable sd : F.            (* the implementation's float sqrt(dim) *)
Variable atol : F.          (* Settings.get_atol(), 1e-13: threshold of truncate_and_normalize *)
Variable eps8 : F.          (* 1e-8: default eps_zero and validate_prob_dist tolerance *)
Variable ortho : bool.      (* c_sys.is_orthonormal_hermitian_0thprop_identity *)
Variable ivec : RV.         (* generic-basis branch: coefficient vector of the identity (I_vec_gb) *)
(* [true] = the code (after the fixes of /verif/fixes).  [false] = the code as it was BEFORE the respective fix; kept for the
   `_refuted` theorems and for the harness, which uses it to recognise a regression to the old behaviour *)
Variable fix_mm : bool.     (* compose-mprocess-mprocess-order-layout: MProcess o MProcess product order + outcome layout *)
Variable fix_ps : bool.     (* compose-mprocess-state-poststate-normalisation: post state = Mx_rho / (p_x BEFORE renormalisation) *)

Definition keq0 (x : F) : bool := kleb F x 0 && kleb F 0 x.
(* matrix_util.truncate_and_normalize, 1-d: where(p < eps, 0, p) / sum ;  0/0 = NaN is rejected by the
   MultinomialDistribution constructor that always follows (sum is not 1): code 3 *)
Definition tn_zeroed (l : list F) : list F := map (fun p => if ltb F p atol then 0 else p) l.
Definition truncate_and_normalize (l : list F) : mres (list F) :=
  let z := tn_zeroed l in let s := lsum F z in
  if keq0 s then MErr 3 else MOk (map (fun p => p / s) z).

(* (Povm, State): vdot -> truncate_and_normalize -> MultinomialDistribution(prob, prob.shape) *)
Definition povm_state (P : list RV) (v : RV) : mres (dist F) :=
  match truncate_and_normalize (born_list n P v) with
  | MErr c => MErr c
  | MOk ps => construct F eps8 eps8 ps (Some [length P])
  end.

(* _compose_qoperations_MProcess_State_for_States(elem1, elem2, weight) *)
Definition px_raw (m : RV) : F := if ortho then sd * m 0%nat else dot n ivec m.
Definition mps_cut (eps w p : F) : bool := kleb F (w * p) eps.           (* weight * p_x <= eps_zero *)
Definition mps_ps0 (eps w : F) (raw : list F) : list F := map (fun p => if mps_cut eps w p then 0 else p) raw.
Definition mps_ps1 (eps w : F) (raw : list F) : list F :=
  let ps0 := mps_ps0 eps w raw in let s := lsum F ps0 in
  if existsb (mps_cut eps w) raw && negb (keq0 s) then map (fun p => p / s) ps0 else ps0.
Definition mps_post (m : RV) (p : F) : RV := if keq0 p then (fun _ => 0) else (fun i => m i / p).
Definition mps_core (hss : list RM) (eps : F) (v : RV) (w : F) : list RV * list F :=
  let mxs := map (fun H => mv n H v) hss in
  let raw := map px_raw mxs in
  let ps1 := mps_ps1 eps w raw in
  (* fix_ps = true (the code): zip(Mx_rhos, ps_before_normalization).  Before the fix the post state was Mx_rho / p_x with p_x
     taken AFTER the renormalisation of the truncated distribution *)
  let pdiv := if fix_ps then mps_ps0 eps w raw else ps1 in
  (map (fun mp => mps_post (fst mp) (snd mp)) (combine mxs pdiv), map (fun p => w * p) ps1).

(* AS CODED the generic-basis branch (ortho = false) cannot return a retained outcome: I_vec_gb comes out of convert_vec as
   complex128, p_x and M_x(rho)/p_x are complex, and the State constructor raises.  (The branch is unreachable through
   MProcess objects, whose constructor insists on an orthonormal Hermitian basis with B_0 ~ I; [mps_core] records its arithmetic.) *)
Definition mps_core_coded (hss : list RM) (eps : F) (v : RV) (w : F) : mres (list RV * list F) :=
  let r := mps_core hss eps v w in
  if negb ortho && existsb (fun p => negb (keq0 p)) (mps_ps1 eps w (map px_raw (map (fun H => mv n H v) hss))) then MErr 28
  else MOk r.

Record mproc := { mp_sys : Z; mp_hss : list RM; mp_shape : list nat; mp_eps : F }.
Record ensemble := { en_sys : Z; en_states : list RV; en_dist : dist F; en_eps : F }.

(* (MProcess, State), mode_sampling = False *)
Definition mproc_state (M : mproc) (sys : Z) (v : RV) : mres ensemble :=
  match mps_core_coded (mp_hss M) (mp_eps M) v 1 with
  | MErr c => MErr c
  | MOk sp =>
    match construct F eps8 eps8 (snd sp) (Some (mp_shape M)) with
    | MErr c => MErr c
    | MOk D => MOk {| en_sys := sys; en_states := fst sp; en_dist := D; en_eps := mp_eps M |}
    end
  end.

(* _compose_qoperations_MProcess_StateEnsemble, mode_sampling = False *)
Definition maxF (x y : F) : F := if kleb F x y then y else x.
Fixpoint mpe_parts (M : mproc) (sps : list (RV * F)) : mres (list RV * list F) :=
  match sps with
  | [] => MOk ([], [])
  | (v, p) :: t =>
      match mps_core_coded (mp_hss M) (mp_eps M) v p with
      | MErr c => MErr c
      | MOk h => match mpe_parts M t with MErr c => MErr c | MOk r => MOk (fst h ++ fst r, snd h ++ snd r) end
      end
  end.
Definition mproc_ens (M : mproc) (E : ensemble) : mres ensemble :=
  let D := en_dist E in
  let shape := d_shape F D ++ mp_shape M in
  let spr :=
    if d_zero F D then
      MOk (repeat (fun _ : nat => 0) (prodn shape), repeat 0 (prodn shape))
    else mpe_parts M (combine (en_states E) (d_ps F D)) in
  match spr with
  | MErr c => MErr c
  | MOk sp =>
    match construct F eps8 eps8 (snd sp) (Some shape) with
    | MErr c => MErr c
    | MOk D' => MOk {| en_sys := en_sys E; en_states := fst sp; en_dist := D'; en_eps := maxF (mp_eps M) (en_eps E) |}
    end
  end.

(* _compose_qoperations_Povm_StateEnsemble *)
Fixpoint pe_parts (sysP : Z) (P : list RV) (sysE : Z) (eps : F) (sps : list (RV * F)) : mres (list F) :=
  match sps with
  | [] => MOk []
  | (v, p) :: t =>
      let head :=
        if ltb F p eps then MOk (repeat 0 (length P))
        else if negb (Z.eqb sysP sysE) then MErr 21
        else match povm_state P v with MErr c => MErr c | MOk D => MOk (map (fun q => p * q) (d_ps F D)) end in
      match head with
      | MErr c => MErr c
      | MOk h => match pe_parts sysP P sysE eps t with MErr c => MErr c | MOk r => MOk (h ++ r) end
      end
  end.
Definition povm_ens (sysP : Z) (P : list RV) (E : ensemble) : mres (dist F) :=
  match en_states E with
  | [] => MErr 25
  | _ =>
    match pe_parts sysP P (en_sys E) (en_eps E) (combine (en_states E) (d_ps F (en_dist E))) with
    | MErr c => MErr c
    | MOk ps => construct F eps8 eps8 ps (Some (d_shape F (en_dist E) ++ [length P]))
    end
  end.

(* ------------------------------------------------------------------ dispatch and fold *)
Inductive qobj :=
  | QState (sys : Z) (v : RV) | QGate (sys : Z) (G : RM) | QPovm (sys : Z) (P : list RV)
  | QMProc (M : mproc) | QEns (E : ensemble) | QDist (D : dist F).

Definition is_ens (q : qobj) : bool := match q with QEns _ => true | _ => false end.
Definition sys_of (q : qobj) : option Z :=
  match q with
  | QState s _ | QGate s _ | QPovm s _ => Some s
  | QMProc M => Some (mp_sys M)
  | QEns E => Some (en_sys E)
  | QDist _ => None
  end.

(* the composite-system guard at the top of _compose_qoperations (skipped when an operand is a StateEnsemble) *)
Definition sys_guard (a b : qobj) : option nat :=
  if is_ens a || is_ens b then None
  else match sys_of a, sys_of b with
       | Some s, Some t => if Z.eqb s t then None else Some 21%nat
       | _, _ => Some 22%nat
       end.

Definition compose2 (a b : qobj) : mres qobj :=
  match sys_guard a b with
  | Some c => MErr c
  | None =>
    match a, b with
    | QGate s G1, QGate _ G2 => MOk (QGate s (gate_gate n G1 G2))
    | QGate s G, QMProc M =>
        MOk (QMProc {| mp_sys := s; mp_hss := gate_hss n G (mp_hss M); mp_shape := mp_shape M; mp_eps := eps8 |})
    | QMProc M, QGate _ G =>
        MOk (QMProc {| mp_sys := mp_sys M; mp_hss := hss_gate n (mp_hss M) G; mp_shape := mp_shape M; mp_eps := eps8 |})
    | QMProc M1, QMProc M2 =>
        let hss := if fix_mm then hss_hss_fixed n (mp_hss M1) (mp_hss M2) else hss_hss_coded n (mp_hss M1) (mp_hss M2) in
        let shape := if fix_mm then shape_mm_fixed (mp_shape M1) (mp_shape M2) else shape_mm_coded (mp_shape M1) (mp_shape M2) in
        (* MProcess.__init__: len(hss) != reduce(mul, shape) -> ValueError; empty shape -> TypeError *)
        match shape with
        | [] => MErr 10
        | _ => if negb (Nat.eqb (length hss) (prodn shape)) then MErr 2
               else MOk (QMProc {| mp_sys := mp_sys M1; mp_hss := hss; mp_shape := shape; mp_eps := eps8 |})
        end
    | QGate s G, QState _ v => MOk (QState s (gate_state n G v))
    | QGate s G, QEns E =>
        (* compose_qoperations(elem1, state) per state: the guard is evaluated for each state *)
        match en_states E with
        | [] => MOk (QEns E)
        | _ => if negb (Z.eqb s (en_sys E)) then MErr 21
               else MOk (QEns {| en_sys := en_sys E; en_states := map (gate_state n G) (en_states E);
                                 en_dist := en_dist E; en_eps := eps8 |})
        end
    | QMProc M, QState s v => match mproc_state M s v with MErr c => MErr c | MOk E => MOk (QEns E) end
    | QMProc M, QEns E => match mproc_ens M E with MErr c => MErr c | MOk E' => MOk (QEns E') end
    | QPovm s P, QGate _ G => MOk (QPovm s (povm_gate n P G))
    | QPovm s P, QMProc M => MOk (QPovm s (povm_hss n P (mp_hss M)))
    | QPovm _ P, QState _ v => match povm_state P v with MErr c => MErr c | MOk D => MOk (QDist D) end
    | QPovm s P, QEns E => match povm_ens s P E with MErr c => MErr c | MOk D => MOk (QDist D) end
    | _, _ => MErr 20
    end
  end.

(* compose_qoperations( *elements ): temp = last; for elem in reversed(rest): temp = _compose(elem, temp) *)
Fixpoint compose_chain (l : list qobj) : mres qobj :=
  match l with
  | [] => MErr 23
  | [x] => MOk x
  | x :: t => match compose_chain t with MErr c => MErr c | MOk y => compose2 x y end
  end.
Definition compose_qoperations (l : list qobj) : mres qobj :=
  if (length l <? 2)%nat then MErr 23 else compose_chain l.
End Coded.

(* ------------------------------------------------------------------ generate_mprocess modes 0 / 1: everything AFTER the kernel
   (scipy.linalg.sqrtm resp. numpy.linalg.eigh), whose output is an input here *)
Section GenMProcess.
Notation Cx := (CF F).
Notation CM := (cmat F).
Variable d : nat.
Definition c06_comp_basis : nat -> CM :=
  fun r i j => if Nat.eqb i (r / d) && Nat.eqb j (r mod d) then c1 Cx else c0 Cx.
(* gate.convert_hs(hs_cb, comp_basis, basis):  U[a,b] = vdot(B_a, E_b);  U @ hs_cb @ U^dagger *)
Definition c06_umat (B : nat -> CM) : CM := fun a b => hs_inner d (B a) (c06_comp_basis b).
Definition c06_convert_from_cb (B : nat -> CM) (Hcb : CM) : CM :=
  mmul (d * d) (mmul (d * d) (c06_umat B) Hcb) (cadj (c06_umat B)).
(* mode 0: hs_cb = kron(sqrt_matrix, sqrt_matrix.conjugate()) *)
Definition gm_mode0_cb (S : CM) : CM := kron d d S (cconj S).
(* mode 1.  eigh returns eigenvalues w (ascending) and the matrix V whose COLUMN k is the eigenvector of w k.
   The code walks over the eigenpairs, builds one matrix P per eigenpair, sums the P of ADJACENT eigenvalues that agree with the FIRST
   eigenvalue of the current group within tol = Settings.get_atol() (spectral_decomp dict keyed by that first eigenvalue, eigenval_prev)
   and returns  hs_cb = sum_groups key * kron(P_group, conj P_group).
   [gm1_*] is generic in the per-eigenpair matrix [outer k] and in the grouping tolerance [tol]:
     colouter V k = |v_k><v_k|  (column k, with conjugate), tol = atol : the code after the fixes povm-generate-mprocess-mode1-eigenvectors and
                                  povm-generate-mprocess-mode1-eigenspace-tolerance (the docstring's spectral projectors): [gm_mode1_cb tol];
     colouter, tol = 0          : AS CODED BEFORE fix ...-eigenspace-tolerance: grouping only of BITWISE equal eigenvalues ( |x| <= 0 <-> x = 0 );
                                  eigh returns those only for special (diagonal / product) matrices, so a rotated degenerate effect was
                                  dephased inside its eigenspace: [gm_mode1_cb 0];
     rowouter V k = row_k^T row_k (ROW k, no conjugate), tol = 0 : AS CODED BEFORE fix ...-eigenvectors: [gm_mode1_cb_prefix]. *)
Definition rowouter (V : CM) (k : nat) : CM := fun i j => cmul Cx (V k i) (V k j).
Definition colouter (V : CM) (k : nat) : CM := fun i j => cmul Cx (V i k) (zconj (V j k)).
Definition cmadd (A B : CM) : CM := fun i j => cadd Cx (A i j) (B i j).
Definition absF' (x : F) : F := if kleb F 0 x then x else copp F x.
(* groups: list of (key eigenvalue, summed P); built front to back, the current group is the head *)
Definition gm1_step (outer : nat -> CM) (tol : F) (w : nat -> F) (acc : list (F * CM)) (k : nat) : list (F * CM) :=
  match acc with
  | (e, P) :: t => if kleb F (absF' (w k - e)) tol then (e, cmadd P (outer k)) :: t
                   else (w k, outer k) :: acc
  | [] => [(w k, outer k)]
  end.
Definition gm1_groups (outer : nat -> CM) (tol : F) (w : nat -> F) : list (F * CM) := fold_left (gm1_step outer tol w) (seq 0 d) [].
Definition gm1_cb_of_groups (gs : list (F * CM)) : CM :=
  fun r c => fold_right (fun g acc => cadd Cx (cmul Cx (zof (fst g)) (kron d d (snd g) (cconj (snd g)) r c)) acc) (c0 Cx) gs.
(* the code (tol = atol); tol = 0 is the code before fix povm-generate-mprocess-mode1-eigenspace-tolerance *)
Definition gm_mode1_cb (tol : F) (w : nat -> F) (V : CM) : CM := gm1_cb_of_groups (gm1_groups (colouter V) tol w).
(* AS CODED BEFORE fix povm-generate-mprocess-mode1-eigenvectors: zip(eigenvals, eigenvecs) paired eigenvalue k with ROW k of V
   and P = row^T row lacked the conjugate *)
Definition gm_mode1_cb_prefix (w : nat -> F) (V : CM) : CM := gm1_cb_of_groups (gm1_groups (rowouter V) 0 w).
(* the docstring formula without any grouping (rank-one projectors): equal to [gm_mode1_cb] when no two adjacent eigenvalues are
   grouped; induces the same POVM in every case, but dephases inside a degenerate eigenspace (Proofs/C06_GenMProcess.v) *)
Definition gm_mode1_cb_doc (w : nat -> F) (V : CM) : CM :=
  fun r c => sumn d (fun k => cmul Cx (zof (w k)) (kron d d (colouter V k) (cconj (colouter V k)) r c)).
(* matrix_util.truncate_hs(hs, eps), after fix truncate-hs-relative-imag-threshold (C04; identical to the code before that fix whenever
   max |Re hs| <= 1 or no imaginary part lies in [eps, eps * max |Re hs|) - rounding noise of generate_mprocess is ~1e-17 against eps = 1e-13):
   imaginary parts with |im| < eps * max(1, max |Re hs|) dropped, any left -> ValueError (26); then real parts with |re| < eps set to 0 *)
Fixpoint allbn (k : nat) (p : nat -> bool) : bool := match k with O => true | S j => allbn j p && p j end.
Fixpoint maxn (k : nat) (f : nat -> F) : F := match k with O => 0 | S j => maxF (maxn j f) (f j) end.
Definition hs_size (H : CM) : F := maxn (d * d) (fun a => maxn (d * d) (fun b => absF' (re (H a b)))).
Definition truncate_hs (eps : F) (H : CM) : mres RM :=
  let eps_im := eps * maxF 1 (hs_size H) in
  if allbn (d * d) (fun a => allbn (d * d) (fun b => ltb F (absF' (im (H a b))) eps_im || keq0 (im (H a b))))
  then MOk (fun a b => if ltb F (absF' (re (H a b))) eps then 0 else re (H a b))
  else MErr 26.
(* the effect (as a d x d operator, row-major vector) induced by a comp-basis HS matrix: tr(E(rho)) = <vec I, Hcb vec rho> *)
Definition induced_effect_cb (Hcb : CM) : nat -> Cx :=
  fun c => sumn (d * d) (fun r => cmul Cx (if Nat.eqb (r / d) (r mod d) then c1 Cx else c0 Cx) (Hcb r c)).
End GenMProcess.
End C06.
