(* C17 — meaning of the Python vocabulary used by the translated name -> Hamiltonian code of quara/objects/gate_typical.py
   (definitions only).  gen/c17_py2coq.py turns the Python `ast` of the listed functions into Gallina terms over these combinators
   on every run; coq/gen/C17_Equiv.v then proves, about the REGENERATED terms, that every catalogued gate name is parsed into the
   Hamiltonian its spelling denotes.  Values are dynamically typed like Python's; an operation applied to a value of the wrong kind is
   an error ("TypeError"), a failing `assert` is "AssertionError", a missing dict key "KeyError", an index out of range "IndexError".

   Numbers are  q + p*pi  with rational q, p (the code only ever forms rational multiples of np.pi); a product of two numbers that both
   contain pi is not representable ("Stuck").  Matrices are FORMAL: a sum of  coefficient * (atom (x) atom (x) ...)  where an atom is the
   NAME of a zero-argument function of the module (quara builds the base matrices through eval(method_name)()); the literal matrices
   those functions return are translated separately (VLit) and compared with the tables of Model/C17_Tables.v.
   TRUSTED: this file's reading of the vocabulary and the translator. *)
From Coq Require Import String Ascii List ZArith QArith Qcanon Bool Arith.
Import ListNotations.
Open Scope string_scope.

Inductive pres (A : Type) := POk (a : A) | PErr (e : string).
Arguments POk {A} a. Arguments PErr {A} e.
Definition pbind {A B} (m : pres A) (f : A -> pres B) : pres B := match m with POk a => f a | PErr e => PErr e end.

Record pnum := mkN { n_q : Qc; n_pi : Qc }.                      (* q + p * pi *)
Definition nzero : pnum := mkN 0 0.
Definition none_ : pnum := mkN 1 0.
Definition npi : pnum := mkN 0 1.
Definition nadd (a b : pnum) : pnum := mkN (n_q a + n_q b) (n_pi a + n_pi b).
Definition nneg (a : pnum) : pnum := mkN (- n_q a) (- n_pi a).
Definition nmul (a b : pnum) : pres pnum :=
  if Qc_eq_dec (n_pi a * n_pi b) 0 then POk (mkN (n_q a * n_q b) (n_q a * n_pi b + n_pi a * n_q b)) else PErr "Stuck".
Definition neqb (a b : pnum) : bool := (if Qc_eq_dec (n_q a) (n_q b) then true else false) && (if Qc_eq_dec (n_pi a) (n_pi b) then true else false).

Definition fterm : Type := (pnum * list string)%type.              (* coefficient, Kronecker factors (atom names) *)

Inductive pyv :=
  | VNone | VBool (b : bool) | VInt (z : Z) | VC (re im : Z) | VNum (x : pnum) | VStr (s : string)
  | VList (l : list pyv) | VDict (d : list (string * pyv))
  | VLit (rows : list (list (Z * Z)))                              (* np.array / np.eye of Gaussian integers *)
  | VMat (dim : nat) (terms : list fterm)                          (* formal dim x dim matrix *)
  | VIMat (rows : list (list Z))                                   (* np.zeros((n, n), dtype=int) with item assignment *)
  | VExt (name : string) (dim : nat)                               (* an external matrix basis (get_pauli_basis): element i is the atom name:i *)
  | VApp (f : string) (args : list pyv).                           (* result of an ORACLE call f(args) that is not modelled (numeric code); the formal
                                                                      pure-state vector  a1 (x) a2 (x) ...  of named atoms is  VApp "kronvec" [VStr a1; VStr a2; ...] *)

(* ---- strings *)
Fixpoint chars (s : string) : list string := match s with EmptyString => [] | String c t => String c EmptyString :: chars t end.
Fixpoint split_aux (sep : ascii) (s : string) (cur : string) : list string :=
  match s with
  | EmptyString => [cur]
  | String c t => if Ascii.eqb c sep then cur :: split_aux sep t EmptyString else split_aux sep t (cur ++ String c EmptyString)
  end.
Definition split1 (sep : ascii) (s : string) : list string := split_aux sep s EmptyString.      (* s.split(sep), sep one character *)
(* s.replace(pat, rep): leftmost non-overlapping occurrences *)
Fixpoint replace_aux (fuel : nat) (pat rep s : string) : string :=
  match fuel with
  | O => s
  | S f => if String.prefix pat s then rep ++ replace_aux f pat rep (String.substring (String.length pat) (String.length s - String.length pat) s)
           else match s with EmptyString => EmptyString | String c t => String c (replace_aux f pat rep t) end
  end.
Definition replace_all (pat rep s : string) : string :=
  match pat with EmptyString => s (* (Python inserts rep between characters; not used, the translator rejects an empty constant) *)
  | _ => replace_aux (S (String.length s)) pat rep s end.
Definition norm_index (len : nat) (i : Z) : option nat :=
  let j := if (i <? 0)%Z then (i + Z.of_nat len)%Z else i in
  if (0 <=? j)%Z && (j <? Z.of_nat len)%Z then Some (Z.to_nat j) else None.
Definition clamp (len : nat) (i : Z) : nat :=
  let j := if (i <? 0)%Z then (i + Z.of_nat len)%Z else i in
  if (j <? 0)%Z then 0%nat else Nat.min (Z.to_nat j) len.

(* ---- operations on values *)
Definition type_error {A} : pres A := PErr "TypeError".
Definition as_num (v : pyv) : option pnum :=
  match v with VInt z => Some (mkN (Q2Qc (inject_Z z)) 0) | VNum x => Some x | VBool b => Some (mkN (if b then 1 else 0) 0) | _ => None end.

Definition py_add (a b : pyv) : pres pyv :=
  match a, b with
  | VStr s, VStr t => POk (VStr (s ++ t))
  | VInt x, VInt y => POk (VInt (x + y))
  | VList l, VList m => POk (VList (l ++ m)%list)
  | VMat d t, VMat e u => if Nat.eqb d e then POk (VMat d (t ++ u)%list) else PErr "ValueError"
  | VApp _ _, VApp _ _ => POk (VApp "add" [a; b])                 (* sum of two oracle results *)
  | _, _ => match as_num a, as_num b with Some x, Some y => POk (VNum (nadd x y)) | _, _ => type_error end
  end.
Fixpoint scale_terms (c : pnum) (t : list fterm) : pres (list fterm) :=
  match t with
  | [] => POk []
  | (k, ns) :: r => pbind (nmul c k) (fun ck => pbind (scale_terms c r) (fun r' => POk ((ck, ns) :: r')))
  end.
Definition py_mul (a b : pyv) : pres pyv :=
  match a, b with
  | VInt x, VInt y => POk (VInt (x * y))
  | VMat d t, _ => match as_num b with Some c => pbind (scale_terms c t) (fun t' => POk (VMat d t')) | None => type_error end
  | _, VMat d t => match as_num a with Some c => pbind (scale_terms c t) (fun t' => POk (VMat d t')) | None => type_error end
  | _, _ => match as_num a, as_num b with Some x, Some y => pbind (nmul x y) (fun z => POk (VNum z)) | _, _ => type_error end
  end.
Definition py_neg (a : pyv) : pres pyv :=
  match a with
  | VInt x => POk (VInt (- x)) | VC r i => POk (VC (- r) (- i))
  | VMat d t => pbind (scale_terms (nneg none_) t) (fun t' => POk (VMat d t'))
  | _ => match as_num a with Some x => POk (VNum (nneg x)) | None => type_error end
  end.

(* == on the kinds the code compares (anything else: unequal, as in Python for unrelated types) *)
Definition py_eqb (a b : pyv) : bool :=
  match a, b with
  | VNone, VNone => true | VBool x, VBool y => Bool.eqb x y | VInt x, VInt y => Z.eqb x y
  | VStr s, VStr t => String.eqb s t
  | VNum x, VNum y => neqb x y
  | _, _ => false
  end.
Definition py_eq (a b : pyv) : pres pyv := POk (VBool (py_eqb a b)).
Definition py_ne (a b : pyv) : pres pyv := POk (VBool (negb (py_eqb a b))).
Definition py_in (x l : pyv) : pres pyv :=
  match l with
  | VList m => POk (VBool (existsb (py_eqb x) m))
  | VStr s => match x with VStr t => POk (VBool (existsb (String.eqb t) (chars s) || String.eqb t "")) (* (one-character needles only) *) | _ => type_error end
  | _ => type_error
  end.
Definition py_not (a : pyv) : pres pyv := match a with VBool b => POk (VBool (negb b)) | _ => type_error end.
Definition py_truth (a : pyv) : pres bool :=
  match a with
  | VBool b => POk b | VNone => POk false | VInt z => POk (negb (Z.eqb z 0)) | VStr s => POk (negb (String.eqb s ""))
  | VList l => POk (match l with [] => false | _ => true end)
  | _ => type_error
  end.
Definition py_assert (a : pyv) : pres unit := pbind (py_truth a) (fun b => if b then POk tt else PErr "AssertionError").
Definition py_len (a : pyv) : pres pyv :=
  match a with VStr s => POk (VInt (Z.of_nat (String.length s))) | VList l => POk (VInt (Z.of_nat (List.length l))) | VDict d => POk (VInt (Z.of_nat (List.length d))) | _ => type_error end.
Fixpoint dget (d : list (string * pyv)) (k : string) : pres pyv :=
  match d with [] => PErr "KeyError" | (k', v) :: r => if String.eqb k k' then POk v else dget r k end.
Definition py_getitem (a i : pyv) : pres pyv :=
  match a, i with
  | VList l, VInt z => match norm_index (List.length l) z with Some n => POk (nth n l VNone) | None => PErr "IndexError" end
  | VStr s, VInt z => match norm_index (String.length s) z with Some n => POk (VStr (String.substring n 1 s)) | None => PErr "IndexError" end
  | VDict d, VStr k => dget d k
  | _, _ => type_error
  end.
(* a[lo:hi] with optional integer bounds *)
Definition py_slice (a : pyv) (lo hi : option Z) : pres pyv :=
  match a with
  | VStr s => let n := String.length s in
      let l := match lo with Some z => clamp n z | None => 0%nat end in
      let h := match hi with Some z => clamp n z | None => n end in
      POk (VStr (String.substring l (h - l) s))
  | VList m => let n := List.length m in
      let l := match lo with Some z => clamp n z | None => 0%nat end in
      let h := match hi with Some z => clamp n z | None => n end in
      POk (VList (firstn (h - l) (skipn l m)))
  | _ => type_error
  end.
Definition py_split (a sep : pyv) : pres pyv :=
  match a, sep with
  | VStr s, VStr (String c EmptyString) => POk (VList (map VStr (split1 c s)))
  | VStr _, VStr _ => PErr "Stuck"                      (* separators of another length are outside the modelled subset *)
  | _, _ => type_error
  end.
Definition py_replace (a pat rep : pyv) : pres pyv :=
  match a, pat, rep with
  | VStr s, VStr EmptyString, VStr _ => PErr "Stuck"
  | VStr s, VStr p, VStr r => POk (VStr (replace_all p r s))
  | _, _, _ => type_error
  end.
Definition py_iter (a : pyv) : pres (list pyv) :=
  match a with VStr s => POk (map VStr (chars s)) | VList l => POk l | _ => type_error end.
Definition py_append (l x : pyv) : pres pyv := match l with VList m => POk (VList (m ++ [x])%list) | _ => PErr "AttributeError" end.
Fixpoint pfold {S : Type} (f : S -> pyv -> pres S) (l : list pyv) (s : S) : pres S :=
  match l with [] => POk s | x :: r => pbind (f s x) (fun s' => pfold f r s') end.

(* ---- numpy *)
Definition np_zeros_square (n : pyv) : pres pyv := match n with VInt z => POk (VMat (Z.to_nat z) []) | _ => type_error end.
Fixpoint kron_terms (t u : list fterm) : pres (list fterm) :=
  match t with
  | [] => POk []
  | (c, ns) :: r =>
      pbind ((fix go (u : list fterm) : pres (list fterm) :=
                match u with [] => POk [] | (k, ms) :: u' => pbind (nmul c k) (fun ck => pbind (go u') (fun r' => POk ((ck, (ns ++ ms)%list) :: r'))) end) u)
            (fun row => pbind (kron_terms r u) (fun rest => POk (row ++ rest)%list))
  end.
Definition np_kron (a b : pyv) : pres pyv :=
  match a, b with
  | VMat d t, VMat e u => pbind (kron_terms t u) (fun w => POk (VMat (d * e) w))
  | VApp "kronvec" l, VApp "kronvec" m => POk (VApp "kronvec" (l ++ m)%list)
  | VApp _ _, VApp _ _ => POk (VApp "kron" [a; b])
  | _, _ => type_error
  end.
Definition lit_entry (v : pyv) : option (Z * Z) := match v with VInt z => Some (z, 0%Z) | VC r i => Some (r, i) | VBool b => Some ((if b then 1 else 0)%Z, 0%Z) | _ => None end.
Fixpoint all_some {A} (l : list (option A)) : option (list A) :=
  match l with [] => Some [] | Some a :: r => option_map (cons a) (all_some r) | None :: _ => None end.
Definition np_array (a : pyv) : pres pyv :=
  match a with
  | VList rows =>
      match all_some (map (fun r => match r with VList es => all_some (map lit_entry es) | _ => None end) rows) with
      | Some m => POk (VLit m) | None => type_error end
  | _ => type_error
  end.
Definition np_eye (n : pyv) : pres pyv :=
  match n with
  | VInt z => let k := Z.to_nat z in
      POk (VLit (map (fun i => map (fun j => ((if Nat.eqb i j then 1 else 0)%Z, 0%Z)) (seq 0 k)) (seq 0 k)))
  | _ => type_error
  end.
(* eval(name)() : the zero-argument function of that name must exist (and return a literal square matrix): the result is the ATOM name *)
Fixpoint lookup_method (tbl : list (string * pres pyv)) (name : string) : option (pres pyv) :=
  match tbl with [] => None | (n, v) :: r => if String.eqb n name then Some v else lookup_method r name end.
Definition py_eval_call (tbl : list (string * pres pyv)) (name : pyv) : pres pyv :=
  match name with
  | VStr s => match lookup_method tbl s with
              | Some (POk (VLit rows)) => POk (VMat (List.length rows) [(none_, [s])])
              | Some (POk _) => PErr "Stuck"
              | Some (PErr e) => PErr e
              | None => PErr "NameError"
              end
  | _ => type_error
  end.

(* ---- integers, sorting, counting, integer matrices (the id bookkeeping of the multi-qubit gates) *)
Fixpoint digits_aux (fuel n : nat) (acc : string) : string :=
  match fuel with
  | O => acc
  | S f => let d := String (ascii_of_nat (48 + n mod 10)) EmptyString in
           if Nat.ltb n 10 then d ++ acc else digits_aux f (n / 10) (d ++ acc)
  end.
Definition nat_string (n : nat) : string := digits_aux (S n) n "".
Definition digit_val (c : ascii) : option Z :=
  let n := nat_of_ascii c in if (48 <=? n)%nat && (n <=? 57)%nat then Some (Z.of_nat (n - 48)) else None.
(* int(s, base) for a non-empty string of digits below base *)
Definition py_int_base (s b : pyv) : pres pyv :=
  match s, b with
  | VStr (String c0 t0 as str), VInt base =>
      (fix go (l : string) (acc : Z) : pres pyv :=
         match l with
         | EmptyString => POk (VInt acc)
         | String c t => match digit_val c with Some d => if (d <? base)%Z then go t (acc * base + d)%Z else PErr "ValueError" | None => PErr "ValueError" end
         end) str 0%Z
  | VStr EmptyString, VInt _ => PErr "ValueError"
  | _, _ => type_error
  end.
Fixpoint zinsert (x : Z) (l : list Z) : list Z := match l with [] => [x] | y :: t => if (x <=? y)%Z then x :: l else y :: zinsert x t end.
Definition all_ints (l : list pyv) : option (list Z) := all_some (map (fun v => match v with VInt z => Some z | _ => None end) l).
Definition py_sorted (a : pyv) : pres pyv :=
  match a with VList l => match all_ints l with Some zs => POk (VList (map VInt (fold_right zinsert [] zs))) | None => PErr "Stuck" end | _ => type_error end.
Definition py_enumerate (a : pyv) : pres pyv :=
  pbind (py_iter a) (fun l => POk (VList (map (fun p => VList [VInt (Z.of_nat (fst p)); snd p]) (combine (seq 0 (List.length l)) l)))).
Definition py_count (l x : pyv) : pres pyv :=
  match l with VList m => POk (VInt (Z.of_nat (List.length (filter (py_eqb x) m)))) | _ => type_error end.
Definition py_cmp (op : comparison -> bool) (a b : pyv) : pres pyv :=
  match a, b with VInt x, VInt y => POk (VBool (op (Z.compare x y))) | _, _ => type_error end.
Definition py_lt := py_cmp (fun c => match c with Lt => true | _ => false end).
Definition py_gt := py_cmp (fun c => match c with Gt => true | _ => false end).
Definition py_le := py_cmp (fun c => match c with Gt => false | _ => true end).
Definition py_ge := py_cmp (fun c => match c with Lt => false | _ => true end).
Definition np_zeros_int (n : pyv) : pres pyv :=
  match n with VInt z => let k := Z.to_nat z in POk (VIMat (repeat (repeat 0%Z k) k)) | _ => type_error end.
Fixpoint set_nth {A} (l : list A) (i : nat) (x : A) : list A :=
  match l, i with [], _ => [] | _ :: t, O => x :: t | y :: t, S j => y :: set_nth t j x end.
Definition py_setitem2 (m i j x : pyv) : pres pyv :=
  match m, i, j, x with
  | VIMat rows, VInt a, VInt b, VInt v =>
      match norm_index (List.length rows) a with
      | Some r => match norm_index (List.length (nth r rows [])) b with
                  | Some c => POk (VIMat (set_nth rows r (set_nth (nth r rows []) c v)))
                  | None => PErr "IndexError" end
      | None => PErr "IndexError" end
  | _, _, _, _ => type_error
  end.
Definition py_T (m : pyv) : pres pyv :=
  match m with
  | VIMat rows => let n := List.length (hd [] rows) in POk (VIMat (map (fun j => map (fun r => nth j r 0%Z) rows) (seq 0 n)))
  | _ => type_error end.
Definition py_matmul (m v : pyv) : pres pyv :=
  match m, v with
  | VIMat rows, VList l => match all_ints l with
      | Some zs => if forallb (fun r => Nat.eqb (List.length r) (List.length zs)) rows
                   then POk (VList (map (fun r => VInt (fold_left Z.add (map (fun p => (fst p * snd p)%Z) (combine r zs)) 0%Z)) rows))
                   else PErr "ValueError"
      | None => PErr "Stuck" end
  | _, _ => type_error end.
Definition np_array1 (a : pyv) : pres pyv :=             (* np.array(list of ints): kept as the list *)
  match a with VList l => match all_ints l with Some _ => POk a | None => PErr "Stuck" end | _ => type_error end.
(* b[i] for an external basis: the atom  name:i *)
Definition py_getitem_ext (a i : pyv) : pres pyv :=
  match a, i with
  | VExt n d, VInt z => if (0 <=? z)%Z && (z <? Z.of_nat (d * d))%Z then POk (VMat d [(none_, [n ++ ":" ++ nat_string (Z.to_nat z)])]) else PErr "IndexError"
  | _, _ => py_getitem a i
  end.

(* ---- catalogue list functions: itertools.product, str.join, list.extend / remove, comprehensions *)
Fixpoint pmap {A B : Type} (f : A -> pres B) (l : list A) : pres (list B) :=
  match l with [] => POk [] | x :: r => pbind (f x) (fun y => pbind (pmap f r) (fun ys => POk (y :: ys))) end.
(* product(it_1, ..., it_k): tuples in lexicographic order, last factor fastest *)
Fixpoint cart (ls : list (list pyv)) : list (list pyv) :=
  match ls with [] => [[]] | l :: r => flat_map (fun a => map (cons a) (cart r)) l end.
Definition py_product (args : pyv) : pres pyv :=
  match args with
  | VList its => pbind (pmap py_iter its) (fun ls => POk (VList (map VList (cart ls))))
  | _ => type_error end.
Definition py_product_repeat (it n : pyv) : pres pyv :=
  match n with VInt z => pbind (py_iter it) (fun l => POk (VList (map VList (cart (repeat l (Z.to_nat z)))))) | _ => type_error end.
Definition py_join (sep l : pyv) : pres pyv :=
  match sep with
  | VStr s => pbind (py_iter l) (fun items =>
      match all_some (map (fun v => match v with VStr t => Some t | _ => None end) items) with
      | Some strs => POk (VStr (String.concat s strs)) | None => type_error end)
  | _ => type_error end.
Definition py_extend (l x : pyv) : pres pyv :=
  match l with VList m => pbind (py_iter x) (fun items => POk (VList (m ++ items)%list)) | _ => PErr "AttributeError" end.
Fixpoint remove_first (x : pyv) (l : list pyv) : option (list pyv) :=
  match l with [] => None | y :: r => if py_eqb x y then Some r else option_map (cons y) (remove_first x r) end.
Definition py_remove (l x : pyv) : pres pyv :=
  match l with VList m => match remove_first x m with Some m' => POk (VList m') | None => PErr "ValueError" end | _ => PErr "AttributeError" end.
Definition is_strlist (r : pres pyv) (names : list string) : bool :=
  match r with
  | POk (VList l) => Nat.eqb (List.length l) (List.length names) &&
                     forallb (fun p => match fst p with VStr s => String.eqb s (snd p) | _ => false end) (combine l names)
  | _ => false end.
(* name in [strings] *)
Lemma py_in_strs n l : py_in (VStr n) (VList (map VStr l)) = POk (VBool (existsb (String.eqb n) l)).
Proof. cbn [py_in]. f_equal. f_equal. induction l as [|x l IH]; [reflexivity|]. cbn [map existsb py_eqb]. now rewrite IH. Qed.

(* ---- oracle calls: numeric functions that are not modelled; the dispatch around them is *)
Fixpoint str_mem (x : string) (l : list string) : bool := match l with [] => false | y :: r => String.eqb x y || str_mem x r end.
(* eval(name)() for a zero-argument vector function: the atom name, provided the module defines such a function *)
Definition py_eval_opaque (tbl : list string) (name : pyv) : pres pyv :=
  match name with VStr s => if str_mem s tbl then POk (VApp "kronvec" [VStr s]) else PErr "NameError" | _ => type_error end.
(* f(arg) for a one-argument vector function: the atom f:arg *)
Definition py_opaque_vec1 (f : string) (arg : pyv) : pres pyv :=
  match arg with VStr s => POk (VApp "kronvec" [VStr (f ++ ":" ++ s)]) | _ => type_error end.
Definition py_fstr (v : pyv) : pres pyv := match v with VStr _ => POk v | _ => PErr "Stuck" end.      (* {x} in an f-string, x a string *)
Definition is_kronvec (r : pres pyv) (atoms : list string) : bool :=
  match r with POk (VApp "kronvec" l) => Nat.eqb (List.length l) (List.length atoms) &&
                                         forallb (fun p => match fst p with VStr s => String.eqb s (snd p) | _ => false end) (combine l atoms)
  | _ => false end.
Definition is_app1_kronvec (r : pres pyv) (f : string) (atoms : list string) : bool :=
  match r with POk (VApp g [x]) => String.eqb f g && is_kronvec (POk x) atoms | _ => false end.

(* ---- observations used by the equivalence theorems *)
Definition fterm_eqb (a b : fterm) : bool :=
  neqb (fst a) (fst b) && (Nat.eqb (List.length (snd a)) (List.length (snd b))) && forallb (fun p => String.eqb (fst p) (snd p)) (combine (snd a) (snd b)).
Fixpoint terms_eqb (a b : list fterm) : bool :=
  match a, b with [], [] => true | x :: a', y :: b' => fterm_eqb x y && terms_eqb a' b' | _, _ => false end.
Definition is_mat (r : pres pyv) (d : nat) (t : list fterm) : bool :=
  match r with POk (VMat e u) => Nat.eqb d e && terms_eqb u t | _ => false end.
Definition is_err {A} (r : pres A) : bool := match r with PErr _ => true | POk _ => false end.
Definition qpi (num den : Z) : pnum := mkN 0 (Q2Qc (Qmake num (Z.to_pos den))).          (* (num/den) * pi *)
