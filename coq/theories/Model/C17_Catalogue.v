(* C17 — executable checkers for catalogue entries (definitions only), generic in the ordered field.
   They are built from the shared vocabulary of Model/QObj.v: a catalogue entry is given in one description
   (pure vector, unitary, Kraus set, Hamiltonian) and the other descriptions are COMPUTED from it:
     pure vector  -> density matrix -> coefficient vector        (vec_of_pure)
     unitary / Kraus set -> Hilbert-Schmidt matrix               (QObj.hs_of_kraus, hs_kraus_fast)
     Hamiltonian -> HS matrix of the generator  -i[H, .]         (lind_of_ham)
     HS matrix, coefficient vector -> coefficient vector of the image   (Mat.mv)
   and table entries of Core/C17_Z8 are evaluated into the field ([ev8], sqrt 2 being a parameter). *)
From Coq Require Import ZArith List Bool Arith.
From Coq Require Import InitialRing.
From QV.Core Require Import OF Sums Mat Cplx C17_Z8.
From QV.Model Require Import QObj.
Import ListNotations.

Section Cat.
Context (F : OF).
Notation Cx := (CF F).

(* the canonical ring morphism Z -> F (binary, computable) *)
Definition zinj (z : Z) : F := gen_phiZ (c0 F) (c1 F) (cadd F) (cmul F) (copp F) z.
(* value of a table entry  a + b i + (c + d i) s2  *)
Definition ev8 (s2 : F) (x : z8) : Cx :=
  (cadd F (zinj (z8a x)) (cmul F (zinj (z8c x)) s2), cadd F (zinj (z8b x)) (cmul F (zinj (z8d x)) s2)).

(* |v><v| *)
Definition outer (v : cvec F) : cmat F := fun i j => cmul Cx (v i) (zconj (v j)).
Definition vec_of_pure (d : nat) (B : nat -> cmat F) (v : cvec F) : rvec F := vec_of_op d B (outer v).
(* <v|v> *)
Definition norm2_of (d : nat) (v : cvec F) : F := sumn d (fun i => znorm2 (v i)).

(* generator of the unitary evolution  X |-> -i (H X - X H)  as a real HS matrix w.r.t. B *)
Definition minus_i_comm (d : nat) (H X : cmat F) : cmat F :=
  fun i j => cmul Cx (zopp (@zi F)) (csub Cx (mmul d H X i j) (mmul d X H i j)).
Definition clind_of_ham (d : nat) (B : nat -> cmat F) (H : cmat F) : cmat F :=
  fun a b => hs_inner d (B a) (minus_i_comm d H (B b)).
Definition lind_of_ham (d : nat) (B : nat -> cmat F) (H : cmat F) : rmat F := fun a b => re (clind_of_ham d B H a b).

(* operator denoted by a coefficient vector of a Hamiltonian:  H = sum_a v_a B_a  (QObj.op_of_vec) *)

(* agreement of an implementation number f with a table entry  e / sqrt(num/den)  without square roots:
   f^2 num = e^2 den  and  f, e have the same sign.  [sq_res] is the residual, [sign_bad] the sign disagreement. *)
Definition sq_res (f e num den : F) : F := csub F (cmul F (cmul F f f) num) (cmul F (cmul F e e) den).
Definition sign_bad (f e : F) : bool := negb (kleb F (c0 F) (cmul F f e)).
Definition kabs (x : F) : F := if kleb F (c0 F) x then x else copp F x.
Definition kmax (x y : F) : F := if kleb F x y then y else x.
End Cat.

Arguments zinj {F} z. Arguments ev8 {F} s2 x. Arguments outer {F} v _ _. Arguments vec_of_pure {F} d B v _.
Arguments norm2_of {F} d v. Arguments minus_i_comm {F} d H X _ _. Arguments clind_of_ham {F} d B H _ _.
Arguments lind_of_ham {F} d B H _ _. Arguments sq_res {F} f e num den. Arguments sign_bad {F} f e.
Arguments kabs {F} x. Arguments kmax {F} x y.
