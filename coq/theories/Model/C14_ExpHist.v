(* C14 — Experiment objects used over a HISTORY (definitions only): construction, copy(), whole-list assignment
   through the property setters, IN-PLACE replacement of a list element (`experiment.states[0] = s`, the idiom the
   tomography classes use on their working copy), schedule assignment, reset_seed_data, calc_prob_dist and the four
   generate_* entry points of quara/qcircuit/experiment.py.
   An Experiment's contents are lists of ELEMENT IDENTITIES (nat: index into a catalogue of State / Povm / Gate /
   MProcess objects kept by the harness) and its schedules (lists of (kind, index); kind 0 state, 1 povm, 2 gate,
   3 mprocess).  What a schedule denotes when a call is made is its CIRCUIT: the identities its items refer to in
   the lists AS THEY ARE AT THAT MOMENT (calc_prob_dist reads self._states[i] ... at call time; nothing is cached).
   The random-stream side is Model/C14_Streams.v unchanged (run_call on the underlying world); the probability
   vector a request samples from is named by its schedule index, which the circuit table of the same step resolves. *)
From Coq Require Import List Arith Bool ZArith.
From QV.Model Require Import C14_DataGen C14_Streams.
Import ListNotations.

Record econt := { e_states : list nat; e_povms : list nat; e_gates : list nat; e_mps : list nat;
                  e_sched : list (list (nat * nat)) }.
Definition econt0 : econt := {| e_states := []; e_povms := []; e_gates := []; e_mps := []; e_sched := [] |}.
Definition elist (k : nat) (c : econt) : list nat :=
  match k with 0 => e_states c | 1 => e_povms c | 2 => e_gates c | _ => e_mps c end.
Definition with_elist (k : nat) (l : list nat) (c : econt) : econt :=
  match k with
  | 0 => {| e_states := l; e_povms := e_povms c; e_gates := e_gates c; e_mps := e_mps c; e_sched := e_sched c |}
  | 1 => {| e_states := e_states c; e_povms := l; e_gates := e_gates c; e_mps := e_mps c; e_sched := e_sched c |}
  | 2 => {| e_states := e_states c; e_povms := e_povms c; e_gates := l; e_mps := e_mps c; e_sched := e_sched c |}
  | _ => {| e_states := e_states c; e_povms := e_povms c; e_gates := e_gates c; e_mps := l; e_sched := e_sched c |}
  end.
Definition with_sched (sch : list (list (nat * nat))) (c : econt) : econt :=
  {| e_states := e_states c; e_povms := e_povms c; e_gates := e_gates c; e_mps := e_mps c; e_sched := sch |}.

(* ---- _validate_schedules: every item in range of its list (error 31, QuaraScheduleItemError), then the order rules
   (error 32, QuaraScheduleOrderError): at least two items, starts with a state, ends with a povm or an mprocess, at most
   one state and one povm; schedule by schedule ---- *)
Definition item_ok (c : econt) (it : nat * nat) : bool := (fst it <? 4) && (snd it <? length (elist (fst it) c)).
Definition count_kind (k : nat) (s : list (nat * nat)) : nat := length (filter (fun it => fst it =? k) s).
Definition order_ok (s : list (nat * nat)) : bool :=
  (2 <=? length s) && (match s with it :: _ => fst it =? 0 | [] => false end) &&
  ((fst (last s (0, 0)) =? 1) || (fst (last s (0, 0)) =? 3)) && (count_kind 0 s <=? 1) && (count_kind 1 s <=? 1).
Fixpoint scheds_err (c : econt) (sch : list (list (nat * nat))) : option nat :=
  match sch with
  | [] => None
  | s :: t => if negb (forallb (item_ok c) s) then Some 31 else if negb (order_ok s) then Some 32 else scheds_err c t
  end.

(* ---- the circuit schedule number sched denotes NOW ---- *)
Definition circ : Type := list (nat * nat).          (* (kind, element identity), in schedule order *)
Fixpoint resolve (c : econt) (items : list (nat * nat)) : option circ :=
  match items with
  | [] => Some []
  | it :: t => match nth_error (elist (fst it) c) (snd it), resolve c t with
               | Some e, Some r => Some ((fst it, e) :: r)
               | _, _ => None
               end
  end.
Definition circuit (c : econt) (sched : nat) : option circ :=
  match nth_error (e_sched c) sched with Some items => resolve c items | None => None end.
Definition circuits (c : econt) : list (option circ) := map (circuit c) (seq O (length (e_sched c))).

(* a schedule may END in an mprocess (the validation allows it); compose_qoperations then yields a StateEnsemble, which has no
   attribute `ps`: calc_prob_dist raises AttributeError (error 18) for such a schedule, calc_prob_dists if there is any *)
Definition ends_mp (s : list (nat * nat)) : bool := fst (last s (0, 0)) =? 3.
Definition sched_mp (c : econt) (sched : nat) : bool :=
  match nth_error (e_sched c) sched with Some items => ends_mp items | None => false end.
Definition any_mp (c : econt) : bool := existsb ends_mp (e_sched c).

(* ---- the generate_* entry points (the number of schedules is read from the object) ---- *)
Inductive ecall :=
| EData (sched : nat) (n : Z)                   (* generate_data(schedule_index, data_num, seed) *)
| EDataset (ns : list Z)                        (* generate_dataset(data_nums, seed) *)
| EEmpiSeq (sched : nat) (ns : list Z)          (* generate_empi_dist_sequence(schedule_index, num_sums, seed) *)
| EEmpiSeqs (lns : list (list Z)).              (* generate_empi_dists_sequence(list_num_sums, seed) *)
Definition to_call (c : econt) (e : ecall) : call :=
  let Sn := length (e_sched c) in
  match e with
  | EData s n => CExData Sn s n
  | EDataset ns => CExDataset Sn ns
  | EEmpiSeq s ns => CExEmpiSeq Sn s ns
  | EEmpiSeqs lns => CExEmpiSeqs Sn lns
  end.
(* does the call reach calc_prob_dist(s) (i.e. pass its own argument checks) and fail there with AttributeError?  No stream has
   been touched at that point. *)
Definition ecall_attr_error (c : econt) (e : ecall) : bool :=
  let Sn := length (e_sched c) in
  match e with
  | EData s n => negb (n <? 0)%Z && (s <? Sn) && sched_mp c s
  | EDataset ns => (length ns =? Sn) && any_mp c
  | EEmpiSeq s _ => (s <? Sn) && sched_mp c s
  | EEmpiSeqs lns => negb (existsb (fun row => negb (length row =? Sn)) lns) && any_mp c
  end.

Section X.
Context {G V : Type}.
Context (draw : G -> req -> V * G) (mkgen gseed : Z -> G).

(* the random state of the process (Model/C14_Streams.world) + the contents of every Experiment object *)
(* stags o = the IDENTITIES of the inner schedule lists of object o (copy() copies the outer list only, so a copy shares the
   inner lists with its original until `schedules` is assigned); inner lists with the same tag always have the same contents *)
Record xworld := { base : @world G; conts : nat -> econt; stags : nat -> list nat; ntag : nat }.

Inductive xhop :=
| XBase (h : hop)                                (* np.random.seed / unrelated draws / new Generator objects *)
| XConstruct (c : econt) (sd : option Z)         (* Experiment(schedules, states, povms, gates, mprocesses, seed_data) *)
| XCopy (o : nat)                                (* experiment.copy(): shallow copies of the lists, no seed_data *)
| XSetItem (o k i e : nat)                       (* experiment.<list k>[i] = element e       (no setter involved) *)
| XSetList (o k : nat) (l : list nat)            (* experiment.<list k> = l                  (property setter) *)
| XSetSched (o : nat) (sch : list (list (nat * nat)))    (* experiment.schedules = sch    (property setter) *)
| XSetSchedItem (o s j : nat) (it : nat * nat)   (* experiment.schedules[s][j] = it: IN PLACE in an inner list, no validation;
                                                    every object sharing that inner list sees it *)
| XSetSchedOuter (o s : nat) (items : list (nat * nat))  (* experiment.schedules[s] = items: in place in the outer list (a NEW inner list) *)
| XResetSeedData (o : nat) (sd : option Z)       (* experiment.reset_seed_data(sd) *)
| XCalc (o : nat) (sched : nat)                  (* experiment.calc_prob_dist(sched): no random draw *)
| XCall (o : nat) (e : ecall) (s : sog).         (* experiment.generate_*(..., seed_or_generator = s) *)

Inductive xres :=
| XUnit
| XErr (code : nat)
| XObj (o : nat)
| XOut (c : econt) (table : list (option circ)) (r : eres (list (list (Z * V)))).
         (* contents and circuit table at the moment of the call; the stream-level result *)

Definition set_cont (o : nat) (c : econt) (w : xworld) : xworld :=
  {| base := base w; conts := upd (conts w) o c; stags := stags w; ntag := ntag w |}.
Definition set_base (b : @world G) (w : xworld) : xworld := {| base := b; conts := conts w; stags := stags w; ntag := ntag w |}.
(* a new object with contents c whose inner schedule lists have the tags tg *)
Definition new_obj (b : @world G) (o : nat) (c : econt) (tg : list nat) (nt : nat) (w : xworld) : xworld :=
  {| base := b; conts := upd (conts w) o c; stags := upd (stags w) o tg; ntag := nt |}.
Definition fresh_tags (w : xworld) (n : nat) : list nat := seq (ntag w) n.
(* replace item j of every inner list tagged t, in one object *)
Definition retag_sched (t j : nat) (it : nat * nat) (tg : list nat) (sch : list (list (nat * nat))) : list (list (nat * nat)) :=
  map (fun p => if Nat.eqb (fst p) t then set_nth j it (snd p) else snd p) (combine tg sch).

Definition xstep (h : xhop) (w : xworld) : xres * xworld :=
  match h with
  | XBase b => let (r, b') := step draw mkgen gseed b (base w) in (XOut econt0 [] r, set_base b' w)
  | XConstruct c sd =>
      match scheds_err c (e_sched c) with
      | Some e => (XErr e, w)
      | None => let (o, b') := construct_experiment gseed sd (base w) in
                let n := length (e_sched c) in
                (XObj o, new_obj b' o c (fresh_tags w n) (ntag w + n) w)
      end
  | XCopy o =>
      let c := conts w o in
      match scheds_err c (e_sched c) with
      | Some e => (XErr e, w)
      | None => let (o', b') := copy_experiment gseed (base w) in (XObj o', new_obj b' o' c (stags w o) (ntag w) w)
      end
  | XSetItem o k i e =>
      let c := conts w o in
      if (i <? length (elist k c))%nat then (XUnit, set_cont o (with_elist k (set_nth i e (elist k c)) c) w)
      else (XErr 17, w)                                       (* IndexError: list assignment index out of range *)
  | XSetList o k l =>
      let c := conts w o in
      match scheds_err (with_elist k l c) (e_sched c) with
      | Some e => (XErr e, w)
      | None => (XUnit, set_cont o (with_elist k l c) w)
      end
  | XSetSched o sch =>
      let c := conts w o in
      match scheds_err c sch with
      | Some e => (XErr e, w)
      | None => let n := length sch in
                (XUnit, {| base := base w; conts := upd (conts w) o (with_sched sch c);
                           stags := upd (stags w) o (fresh_tags w n); ntag := ntag w + n |})
      end
  | XSetSchedItem o s j it =>
      match nth_error (stags w o) s, nth_error (e_sched (conts w o)) s with
      | Some t, Some items =>
          if (j <? length items)%nat then
            (XUnit, {| base := base w;
                       conts := fun o' => with_sched (retag_sched t j it (stags w o') (e_sched (conts w o'))) (conts w o');
                       stags := stags w; ntag := ntag w |})
          else (XErr 17, w)
      | _, _ => (XErr 17, w)
      end
  | XSetSchedOuter o s items =>
      let c := conts w o in
      if (s <? length (e_sched c))%nat then
        (XUnit, {| base := base w; conts := upd (conts w) o (with_sched (set_nth s items (e_sched c)) c);
                   stags := upd (stags w) o (set_nth s (ntag w) (stags w o)); ntag := S (ntag w) |})
      else (XErr 17, w)
  | XResetSeedData o sd => let (_, b') := reset_seed_data gseed o sd (base w) in (XUnit, set_base b' w)
  | XCalc o sched =>
      let c := conts w o in
      if (length (e_sched c) <=? sched)%nat then (XErr 15, w) else
      if sched_mp c sched then (XErr 18, w) else (XOut c (circuits c) (EOk []), w)
  | XCall o e s =>
      let c := conts w o in
      if ecall_attr_error c e then (XErr 18, w) else
      let (r, b') := run_call draw mkgen gseed (to_call c e) s (base w) in
      (XOut c (circuits c) r, set_base b' w)
  end.

Fixpoint xexec (hs : list xhop) (w : xworld) : list xres * xworld :=
  match hs with
  | [] => ([], w)
  | h :: t => let (r, w1) := xstep h w in let (rs, w2) := xexec t w1 in (r :: rs, w2)
  end.
End X.
