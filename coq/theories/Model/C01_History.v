(* C01 — histories of verdict queries on ONE object (definitions only).
   In quara an object is an immutable value (coefficient vector / HS matrices); the only mutable thing a verdict can see is the global
   Settings atol.  A history is a sequence of  Settings.set_atol(x)  and verdict queries with optional tolerances
   (None = "use the global setting");  [veq] / [vineq] are the object's pure equality / inequality verdicts as functions of the
   tolerance (e.g.  state_is_trace_one d B v . 0  and  state_is_psd d B v).  The model answers every query with the pure verdict
   at the tolerance in force at that call; it has no other state (no memo). *)
From Coq Require Import List Bool.
From QV.Core Require Import OF.
From QV.Model Require Import C01_Verdicts.
Import ListNotations.

Section C01History.
Context (F : OF).
Inductive hquery := QEq | QIneq | QPhys.
Inductive hop := HSet (x : F) | HQuery (q : hquery) (aeq aineq : option F).

(* the pure verdict of one query when the global setting is st *)
Definition hanswer (veq vineq : F -> bool) (st : F) (q : hquery) (aeq aineq : option F) : bool :=
  match q with
  | QEq => veq (resolve_atol st aeq)
  | QIneq => vineq (resolve_atol st aineq)
  | QPhys => veq (resolve_atol st aeq) && vineq (resolve_atol st aineq)
  end.
(* answers of a whole history, started with global setting st *)
Fixpoint run_history (veq vineq : F -> bool) (st : F) (h : list hop) : list bool :=
  match h with
  | [] => []
  | HSet x :: t => run_history veq vineq x t
  | HQuery q a b :: t => hanswer veq vineq st q a b :: run_history veq vineq st t
  end.
(* the global setting after a history *)
Fixpoint final_settings (st : F) (h : list hop) : F :=
  match h with
  | [] => st
  | HSet x :: t => final_settings x t
  | HQuery _ _ _ :: t => final_settings st t
  end.
End C01History.

Arguments HSet {F} x. Arguments HQuery {F} q aeq aineq.
Arguments hanswer {F} veq vineq st q aeq aineq. Arguments run_history {F} veq vineq st h. Arguments final_settings {F} st h.
