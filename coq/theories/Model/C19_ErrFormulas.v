(* C19 — analytical error formulas of quara (definitions only), generic in the ordered field.
   Mirrors  quara/utils/matrix_util.py  (calc_covariance_mat, calc_covariance_mat_total,
   calc_direct_sum, calc_conjugate, replace_prob_dist, calc_fisher_matrix(_total), calc_se,
   calc_mse_prob_dists, truncate_and_normalize),
   quara/protocol/qtomography/standard/standard_qtomography.py  (calc_prob_dists,
   calc_covariance_mat_single/_total, calc_covariance_linear_mat_total, calc_mse_linear_analytical,
   calc_mse_empi_dists_analytical, calc_fisher_matrix(_total), calc_cramer_rao_bound),
   standard_povmt.py (the overrides with S = [I ... I]) and
   quara/data_analysis/data_analysis.py (calc_mse_general_norm, calc_covariance_matrix_of_prob_dist(s)).
   matA / vecB / the left inverse / the inverse Fisher matrix are INPUTS of the model (their
   correctness is C08's / C09's job, resp. they come from numerical kernels and are certificate-checked). *)
From Coq Require Import List Arith Bool.
From QV.Core Require Import OF Sums Mat Cplx.
From QV.Model Require Import C19_Expect Multinomial.
Import ListNotations.

Section Formulas.
Context (F : OF).
Notation "0" := (c0 F). Notation "1" := (c1 F).
Infix "+" := (cadd F). Infix "*" := (cmul F). Infix "-" := (csub F). Infix "/" := (kdiv F).
Notation "- x" := (copp F x).
Notation vec := (@vec F). Notation mat := (@mat F).
Notation of_nat := (of_nat F).

Definition flt (x y : F) : bool := negb (kleb F y x).      (* x < y *)

(* ---------------- matrix_util ---------------- *)
(* calc_covariance_mat(q, n) = (diag q - q q^T) / n ;  n is whatever number the caller passes *)
Definition cov_mat (n : F) (q : vec) : mat :=
  fun i j => ((if Nat.eqb i j then q i else 0) - q i * q j) / n.

(* calc_direct_sum : blocks are (size, matrix) *)
Fixpoint dsum (bs : list (nat * mat)) : mat :=
  match bs with
  | [] => fun _ _ => 0
  | (s, M) :: t => fun i j =>
      if Nat.ltb i s then (if Nat.ltb j s then M i j else 0)
      else (if Nat.ltb j s then 0 else dsum t (i - s)%nat (j - s)%nat)
  end.
Fixpoint dsum_size (bs : list (nat * mat)) : nat :=
  match bs with [] => O | (s, _) :: t => (s + dsum_size t)%nat end.

(* calc_covariance_mat_total(empi_dists) : empi_dists = [(n_j, q_j)] with sizes m_j *)
Definition cov_total (ds : list (nat * F * vec)) : mat :=
  dsum (map (fun d => let '(m, n, q) := d in (m, cov_mat n q)) ds).

(* calc_conjugate(x, v) = x @ v @ x.T ;  x is r x c, v is c x c *)
Definition conjugate (c : nat) (X V : mat) : mat := mmul c (mmul c X V) (mT X).

(* truncate_and_normalize on one row of length m *)
Definition trunc_norm_row (eps : F) (m : nat) (row : vec) : vec :=
  let t := fun x => if flt (row x) eps then 0 else row x in
  let s := sumn m t in fun x => t x / s.

(* replace_prob_dist(prob_dist, eps) *)
Definition count_lt (eps : F) (m : nat) (p : vec) : nat :=
  length (filter (fun x => flt (p x) eps) (seq 0 m)).
Definition replace_prob_dist (eps : F) (m : nat) (p : vec) : vec :=
  let c := count_lt eps m p in
  fun x => if flt (p x) eps then eps else p x - (eps * of_nat c) / of_nat (m - c).

(* sum_x grad_x grad_x^T / prob_x  — the loop of calc_fisher_matrix; G is m x nv (row x = gradient of p_x) *)
Definition fisher_core (m : nat) (pt : vec) (G : mat) : mat :=
  fun a b => sumn m (fun x => G x a * G x b / pt x).

(* calc_fisher_matrix(prob_dist, grad_prob_dist, eps): error codes
   1 negative probability, 3 sum is not 1 (both from validate_prob_dist), 2 sizes differ, 5 eps <= 0 *)
Definition mu_fisher (eps : F) (m g : nat) (p : vec) (G : mat) : mres mat :=
  match validate F eps true (map p (seq 0 m)) with
  | MErr c => MErr c
  | MOk _ =>
    if negb (Nat.eqb m g) then MErr 2 else
    if kleb F eps 0 then MErr 5 else
    MOk (fisher_core m (replace_prob_dist eps m p) G)
  end.

(* calc_fisher_matrix_total(prob_dists, grad_prob_dists, weights, eps): 6 = negative weight *)
Fixpoint wsum_mats (l : list (F * mat)) : mat :=
  match l with [] => fun _ _ => 0 | (w, M) :: t => fun a b => w * M a b + wsum_mats t a b end.
Fixpoint collect {A} (l : list (mres A)) : mres (list A) :=
  match l with
  | [] => MOk []
  | MErr c :: _ => MErr c
  | MOk a :: t => match collect t with MOk r => MOk (a :: r) | MErr c => MErr c end
  end.
(* AFTER fix calc-fisher-matrix-total-size (the faithful model of the repaired code): the accumulator is allocated as
   zeros((nv, nv)) with nv = len(grad_prob_dists[0][0]), the number of variables, and the nv x nv matrices are added.
   Returns (size, matrix). *)
Definition mu_fisher_total (eps : F) (m nv : nat) (items : list (F * vec * mat)) : mres (nat * mat) :=
  if existsb (fun it => let '(w, _, _) := it in flt w 0) items then MErr 6 else
  match collect (map (fun it => let '(_, p, G) := it in mu_fisher eps m m p G) items) with
  | MErr c => MErr c
  | MOk Fs => MOk (nv, wsum_mats (combine (map (fun it => let '(w, _, _) := it in w) items) Fs))
  end.
(* AS CODED BEFORE fix calc-fisher-matrix-total-size (kept only for the _refuted theorem, not executed by the harness):
   the accumulator was allocated as  zeros((m, m))  with m = prob_dists[0].shape[0] (NOT the number of variables nv) and the
   nv x nv matrices were added in place: fine when nv = m, numpy broadcasting when nv = 1, ValueError (7) otherwise. *)
Definition mu_fisher_total_before_fix (eps : F) (m nv : nat) (items : list (F * vec * mat)) : mres (nat * mat) :=
  if existsb (fun it => let '(w, _, _) := it in flt w 0) items then MErr 6 else
  match collect (map (fun it => let '(_, p, G) := it in mu_fisher eps m m p G) items) with
  | MErr c => MErr c
  | MOk Fs =>
      let W := wsum_mats (combine (map (fun it => let '(w, _, _) := it in w) items) Fs) in
      if Nat.eqb nv m then MOk (m, W)
      else if Nat.eqb nv 1 then MOk (m, fun _ _ => W O O)
      else match items with [] => MOk (m, W) | _ => MErr 7 end
  end.
(* what the docstring promises: sum_j w_j F_j  (nv x nv) *)
Definition fisher_total_def (eps : F) (m : nat) (items : list (F * vec * mat)) : mat :=
  wsum_mats (map (fun it => let '(w, p, G) := it in (w, fisher_core m (replace_prob_dist eps m p) G)) items).

(* calc_se(xs, ys) = sum_k |x_k - y_k|^2 ;  calc_mse_prob_dists = (mean, std ddof=1) of a list of se values
   (the model returns the VARIANCE, the square of the returned std) *)
Definition sqdist (n : nat) (x y : vec) : F := dot n (vsub x y) (vsub x y).
Definition calc_se (n : nat) (pairs : list (vec * vec)) : F :=
  fold_right (fun xy acc => sqdist n (fst xy) (snd xy) + acc) 0 pairs.
(* calc_se on COMPLEX arrays (density / Choi matrices, any shape, flattened): np.vdot conjugates its first argument; the list of
   per-pair values is summed with dtype=float64, i.e. the real part is kept *)
Definition cvdot_self (n : nat) (d : nat -> cplx F) : cplx F := @sumn (CF F) n (fun k => zmul (zconj (d k)) (d k)).
Definition csqdist (n : nat) (x y : nat -> cplx F) : F := re (cvdot_self n (fun k => zsub (x k) (y k))).
Definition calc_se_c (n : nat) (pairs : list ((nat -> cplx F) * (nat -> cplx F))) : F :=
  fold_right (fun xy acc => csqdist n (fst xy) (snd xy) + acc) 0 pairs.
Definition lsumF (l : list F) : F := fold_right (cadd F) 0 l.
Definition mean (l : list F) : F := lsumF l / of_nat (length l).
Definition var_ddof1 (l : list F) : F :=
  let mu := mean l in lsumF (map (fun x => (x - mu) * (x - mu)) l) / of_nat (length l - 1).
(* calc_mse_general_norm(xs, y, norm) = mean_k norm(x_k, y)^2, given the norm values *)
Definition mse_general_norm (norms : list F) : F := mean (map (fun v => v * v) norms).

(* ---------------- StandardQTomography ---------------- *)
(* A is nr x nv, b has nr entries, v has nv entries:  A v + b *)
Definition affine (nv : nat) (A : mat) (b v : vec) : vec := fun i => mv nv A v i + b i.
(* The schedules may have DIFFERENT numbers of outcomes  ms = [num_outcomes(0); ...; num_outcomes(J-1)]  (sum = number of rows
   of A).  Everything below models the code AFTER fixes calc-prob-dists-mixed-outcome-counts and
   calc-fisher-matrix-mixed-outcome-counts (owner C08): the stacked vector  A v + b  is split by ms (np.split at the
   cumulative sums); before those fixes it was reshaped to (J, -1), which is the same thing exactly when all m_j are equal. *)
Fixpoint sizes_sum (ms : list nat) : nat := match ms with [] => O | m :: t => (m + sizes_sum t)%nat end.
(* pieces of a stacked vector, each truncated and normalised: [(m_j, row_j)] *)
Fixpoint pds_of_raw (eps : F) (raw : vec) (off : nat) (ms : list nat) : list (nat * vec) :=
  match ms with
  | [] => []
  | m :: t => (m, trunc_norm_row eps m (fun x => raw (off + x)%nat)) :: pds_of_raw eps raw (off + m)%nat t
  end.
(* calc_prob_dists *)
Definition tomo_pds (eps : F) (nv : nat) (ms : list nat) (A : mat) (b v : vec) : list (nat * vec) :=
  pds_of_raw eps (affine nv A b v) O ms.
(* calc_covariance_mat_single for schedules j, j+1, ... ; ns = data_num_list *)
Fixpoint cov_blocks (ns : nat -> F) (j : nat) (pds : list (nat * vec)) : list (nat * mat) :=
  match pds with
  | [] => []
  | (m, p) :: t => (m, cov_mat (ns j) p) :: cov_blocks ns (S j) t
  end.
(* calc_covariance_mat_total(qope, data_num_list) *)
Definition tomo_cov_total (eps : F) (nv : nat) (ms : list nat) (A : mat) (b v : vec) (ns : nat -> F) : mat :=
  dsum (cov_blocks ns O (tomo_pds eps nv ms A b v)).
(* the independent schedules of the experiment: (outcomes, distribution, shots n_j) *)
Fixpoint scheds_of (n : nat -> nat) (j : nat) (pds : list (nat * vec)) : list (sched F) :=
  match pds with
  | [] => []
  | (m, p) :: t => (m, p, n j) :: scheds_of n (S j) t
  end.
Definition tomo_scheds (eps : F) (nv : nat) (ms : list nat) (A : mat) (b v : vec) (n : nat -> nat) : list (sched F) :=
  scheds_of n O (tomo_pds eps nv ms A b v).
(* hypothesis of the tomography-level theorems: piece j of the stacked vector is a probability distribution whose entries are
   0 or at least eps (then truncate_and_normalize leaves it unchanged) *)
Definition piece_ok (eps : F) (raw : vec) (off m : nat) : Prop :=
  sumn m (fun x => raw (off + x)%nat) = 1 /\ forall x, (x < m)%nat -> raw (off + x)%nat = 0 \/ kle F eps (raw (off + x)%nat).
Definition pieces_ok (eps : F) (raw : vec) (ms : list nat) : Prop :=
  forall j, (j < length ms)%nat -> piece_ok eps raw (sizes_sum (firstn j ms)) (nth j ms O).
(* calc_covariance_linear_mat_total = calc_conjugate(left_inv(A), Sigma) ; L is the left inverse (input) *)
Definition cov_linear (nr : nat) (L Sigma : mat) : mat := conjugate nr L Sigma.
Definition mse_var (nv nr : nat) (L Sigma : mat) : F := mtrace nv (cov_linear nr L Sigma).

Inductive ttype := QST | POVMT | QPT | QMPT.
(* StandardPovmt._generate_matS : hstack of (num_outcomes - 1) identities of size d2 = dim^2 *)
Definition matS (d2 : nat) : mat := fun i j => if Nat.eqb (j mod d2) i then 1 else 0.
(* StandardQmpt._generate_matS (added by fix qmpt-mse-linear-analytical-qoperation): d2 x nv, an identity of size d2 = dim^2 at
   the first d2 columns (= first row of the HS matrix) of each of the first  mo - 1  HS blocks of d2*d2 variables *)
Definition matS_mp (d2 mo : nat) : mat :=
  fun i j => if Nat.ltb j ((mo - 1) * (d2 * d2)) && Nat.eqb (j mod (d2 * d2)) i then 1 else 0.
(* calc_mse_linear_analytical(qope, data_num_list, mode)  AFTER fix qmpt-mse-linear-analytical-qoperation (the faithful model
   of the repaired code): StandardPovmt and StandardQmpt override the qoperation mode when the object carries the equality
   constraint (adding tr(S V S^T) for the entries implied by the variables); everything else is the var-mode value *)
Definition mse_analytical_of_cov (ty : ttype) (mode_qop on_eq : bool) (d2 mo nv : nat) (V : mat) : F :=
  match ty with
  | POVMT => if mode_qop && on_eq then mtrace nv V + mtrace d2 (conjugate nv (matS d2) V) else mtrace nv V
  | QMPT => if mode_qop && on_eq then mtrace nv V + mtrace d2 (conjugate nv (matS_mp d2 mo) V) else mtrace nv V
  | _ => mtrace nv V
  end.
(* V = calc_covariance_linear_mat_total = L Sigma L^T *)
Definition mse_linear_analytical (ty : ttype) (mode_qop on_eq : bool) (d2 mo nv nr : nat) (L Sigma : mat) : F :=
  mse_analytical_of_cov ty mode_qop on_eq d2 mo nv (cov_linear nr L Sigma).
(* AS CODED BEFORE fix qmpt-mse-linear-analytical-qoperation (kept only for the _refuted theorem, not executed by the harness):
   only StandardPovmt overrode the qoperation mode *)
Definition mse_linear_analytical_before_fix (ty : ttype) (mode_qop on_eq : bool) (d2 nv nr : nat) (L Sigma : mat) : F :=
  match ty with
  | POVMT => if mode_qop && on_eq
             then mse_var nv nr L Sigma + mtrace d2 (conjugate nv (matS d2) (cov_linear nr L Sigma))
             else mse_var nv nr L Sigma
  | _ => mse_var nv nr L Sigma
  end.
(* calc_mse_empi_dists_analytical: sum over the schedules of tr(calc_covariance_mat_single) *)
Fixpoint mse_empi_pds (ns : nat -> F) (j : nat) (pds : list (nat * vec)) : F :=
  match pds with
  | [] => 0
  | (m, p) :: t => mtrace m (cov_mat (ns j) p) + mse_empi_pds ns (S j) t
  end.
Definition mse_empi (eps : F) (nv : nat) (ms : list nat) (A : mat) (b v : vec) (ns : nat -> F) : F :=
  mse_empi_pds ns O (tomo_pds eps nv ms A b v).
Fixpoint mse_empi_closed_pds (ns : nat -> F) (j : nat) (pds : list (nat * vec)) : F :=
  match pds with
  | [] => 0
  | (m, p) :: t => (1 - dot m p p) / ns j + mse_empi_closed_pds ns (S j) t
  end.
Definition mse_empi_closed (eps : F) (nv : nat) (ms : list nat) (A : mat) (b v : vec) (ns : nat -> F) : F :=
  mse_empi_closed_pds ns O (tomo_pds eps nv ms A b v).

(* calc_fisher_matrix(j, var): rows [start, stop) of the stacked vector raw = A v + b and of A, with start = sum of the outcome
   counts of the schedules before j *)
Definition fisher_of_raw (eps8 : F) (raw : vec) (A : mat) (ms : list nat) (j : nat) : mres mat :=
  let off := sizes_sum (firstn j ms) in let m := nth j ms O in
  mu_fisher eps8 m m (fun x => raw (off + x)%nat) (fun x a => A (off + x)%nat a).
Definition tomo_fisher (eps8 : F) (nv : nat) (ms : list nat) (j : nat) (A : mat) (b v : vec) : mres mat :=
  fisher_of_raw eps8 (affine nv A b v) A ms j.
(* calc_fisher_matrix_total(var, weights) = sum_j weights[j] * calc_fisher_matrix(j, var) *)
Definition fisher_total_of_raw (eps8 : F) (raw : vec) (A : mat) (ms : list nat) (w : nat -> F) : mres mat :=
  match collect (map (fun j => fisher_of_raw eps8 raw A ms j) (seq 0 (length ms))) with
  | MErr c => MErr c
  | MOk Fs => MOk (wsum_mats (combine (map w (seq 0 (length ms))) Fs))
  end.
Definition tomo_fisher_total (eps8 : F) (nv : nat) (ms : list nat) (A : mat) (b v : vec) (w : nat -> F) : mres mat :=
  fisher_total_of_raw eps8 (affine nv A b v) A ms w.
(* calc_cramer_rao_bound(var, N, list_N) given the inverse Minv of the total Fisher matrix with weights n_j/N *)
Definition cr_weights (N : F) (ns : nat -> F) : nat -> F := fun j => ns j / N.
Definition cr_var (nv : nat) (N : F) (Minv : mat) : F := mtrace nv Minv / N.
Definition cr_analytical (ty : ttype) (on_eq : bool) (d2 nv : nat) (N : F) (Minv : mat) : F :=
  match ty with
  | POVMT => if on_eq then cr_var nv N Minv + mtrace d2 (conjugate nv (matS d2) Minv) / N else cr_var nv N Minv
  | _ => cr_var nv N Minv
  end.

(* ---------------- what "error of the object" means (specification side) ----------------
   With the equality constraint the stacked vector of the object is an affine image of the
   variables: the variables themselves plus implied entries  c - S var  (in some fixed order;
   the order is irrelevant for the squared error).  S is
     QST, QPT : 0 (the implied entries are constants),
     POVMT    : [I ... I]  (last element = identity - sum of the others),
     QMPT     : first row of the last HS = e_0 - sum of the first rows of the other HS matrices. *)
Definition implied_S (ty : ttype) (on_eq : bool) (d2 mo : nat) : mat :=
  if on_eq then match ty with POVMT => matS d2 | QMPT => matS_mp d2 mo | _ => fun _ _ => 0 end
  else fun _ _ => 0.
(* squared distance of two objects whose variables differ by x *)
Definition object_sqerr (d2 nv : nat) (S : mat) (x : vec) : F :=
  dot nv x x + dot d2 (mv nv S x) (mv nv S x).
(* exact MSE of the object for an estimator whose variable error is  L (f - p) *)
Definition mse_object_exact (d2 nv nr : nat) (S L Sigma : mat) : F :=
  mse_var nv nr L Sigma + mtrace d2 (conjugate nv S (cov_linear nr L Sigma)).
End Formulas.
Arguments MOk {A} a. Arguments MErr {A} code.
