(* C04 — model of the EQUALITY projections of State / Povm / Gate / MProcess exactly as coded, object- and
   variable-level, both parametrisation flags, together with the var <-> object conversions they go through and the
   coefficient-level constraint sets.  Definitions only; generic in the ordered field.
     n  = d^2 (length of a coefficient vector / side of an HS matrix),  m = number of outcomes,
     sd = the implementation's value of sqrt d (a PARAMETER: theorems need nothing about it except, where stated, sd <> 0),
     flag = on_para_eq_constraint.
   Objects:  State  vec : rvec (length n);  Povm  vecs : rmat (m x n, row x = element x);
             Gate  hs : rmat (n x n);  MProcess  hss : nat -> rmat (m matrices n x n).
   Variables are flat vectors laid out as the code lays them out (np.insert / np.delete / hstack / flatten).
   The inequality projections (eigh + clip) have no rational model: they are constrained by the certificate
   (Core/C04_ProjCert.v, Proofs/C04_Herm.v). *)
From Coq Require Import Arith Bool List.
From QV.Core Require Import OF Sums Mat.
From QV.Model Require Import QObj.

Section C04Model.
Context (F : OF).
Notation "0" := (c0 F). Notation "1" := (c1 F).
Infix "+" := (cadd F). Infix "*" := (cmul F). Infix "-" := (csub F). Infix "/" := (kdiv F).
Notation rvec := (@vec F). Notation rmat := (@mat F).

Fixpoint of_nat (k : nat) : F := match k with O => 0 | S j => of_nat j + 1 end.
Definition e0 : rvec := fun b => if Nat.eqb b 0 then 1 else 0.                (* np.eye(1, n) / "one" *)

(* np.insert(v, k, blk) and np.delete(v, np.s_[k : k+len]) on flat vectors *)
Definition vinsert (k len : nat) (blk v : rvec) : rvec :=
  fun i => if (i <? k)%nat then v i else if (i <? k + len)%nat then blk (i - k)%nat else v (i - len)%nat.
Definition vdelete (k len : nat) (v : rvec) : rvec := fun i => if (i <? k)%nat then v i else v (i + len)%nat.

(* ---------------------------------------------------------------- State *)
(* calc_proj_eq_constraint:  vec[0] = 1 / np.sqrt(dim) *)
Definition state_proj_eq (sd : F) (v : rvec) : rvec := fun a => if Nat.eqb a 0 then 1 / sd else v a.
(* convert_var_to_vec: np.insert(var, 0, 1/np.sqrt(dim)) | var ; convert_vec_to_var: np.delete(vec, 0) | vec *)
Definition state_var_to_vec (flag : bool) (sd : F) (w : rvec) : rvec :=
  if flag then vinsert 0 1 (fun _ => 1 / sd) w else w.
Definition state_vec_to_var (flag : bool) (v : rvec) : rvec := if flag then vdelete 0 1 v else v.
Definition state_var_len (flag : bool) (n : nat) : nat := if flag then (n - 1)%nat else n.
(* calc_proj_eq_constraint_with_var: flag -> var itself | copy with [0] := 1/sqrt d *)
Definition state_proj_eq_var (flag : bool) (sd : F) (w : rvec) : rvec :=
  if flag then w else (fun a => if Nat.eqb a 0 then 1 / sd else w a).
Definition state_eq_ok (sd : F) (v : rvec) : Prop := v 0%nat = 1 / sd.

(* ---------------------------------------------------------------- Povm *)
(* calc_proj_eq_constraint:  c = [sqrt d / m, 0, ...]; a_bar = sum(vecs)/m; new_vec = vec - a_bar + c *)
Definition povm_c (sd : F) (m : nat) : rvec := fun a => if Nat.eqb a 0 then sd / of_nat m else 0.
Definition povm_abar (m : nat) (V : rmat) : rvec := fun a => sumn m (fun y => V y a) / of_nat m.
Definition povm_proj_eq (sd : F) (m : nat) (V : rmat) : rmat :=
  fun x a => V x a - povm_abar m V a + povm_c sd m a.
(* the object-level method first raises ValueError("basis is not hermitian.") unless c_sys.is_basis_hermitian *)
Definition povm_proj_eq_obj (basis_hermitian : bool) (sd : F) (m : nat) (V : rmat) : option rmat :=
  if basis_hermitian then Some (povm_proj_eq sd m V) else None.
(* convert_var_to_vecs: flag -> the last element is [sqrt d,0,..] - sum of the others ; reshape(m, n) *)
Definition povm_var_to_vecs (flag : bool) (sd : F) (m n : nat) (w : rvec) : rmat :=
  if flag then
    fun x a => if (x <? m - 1)%nat then w (x * n + a)%nat
               else (if Nat.eqb a 0 then sd else 0) - sumn (m - 1) (fun y => w (y * n + a)%nat)
  else fun x a => w (x * n + a)%nat.
(* convert_vecs_to_var: drop the last element when flag ; hstack *)
Definition povm_vecs_to_var (n : nat) (V : rmat) : rvec := fun k => V (k / n)%nat (k mod n)%nat.
Definition povm_var_len (flag : bool) (m n : nat) : nat := if flag then ((m - 1) * n)%nat else (m * n)%nat.
(* m as the code derives it from the length of var *)
Definition povm_m_of_len (flag : bool) (n len : nat) : nat := if flag then (len / n + 1)%nat else (len / n)%nat.
(* calc_proj_eq_constraint_with_var: var -> vecs -> project -> var *)
Definition povm_proj_eq_var (flag : bool) (sd : F) (m n : nat) (w : rvec) : rvec :=
  povm_vecs_to_var n (povm_proj_eq sd m (povm_var_to_vecs flag sd m n w)).
Definition povm_eq_ok (sd : F) (m n : nat) (V : rmat) : Prop :=
  forall a, (a < n)%nat -> sumn m (fun x => V x a) = (if Nat.eqb a 0 then sd else 0).

(* ---------------------------------------------------------------- Gate *)
(* calc_proj_eq_constraint:  hs[0][0] = 1; hs[0][1:] = 0 *)
Definition gate_proj_eq (H : rmat) : rmat := fun a b => if Nat.eqb a 0 then e0 b else H a b.
(* convert_var_to_hs: reshape, np.insert(reshaped, 0, np.eye(1, n), axis=0) when flag *)
Definition gate_var_to_hs (flag : bool) (n : nat) (w : rvec) : rmat :=
  if flag then fun a b => if Nat.eqb a 0 then e0 b else w ((a - 1) * n + b)%nat
  else fun a b => w (a * n + b)%nat.
(* convert_hs_to_var: np.delete(hs, 0, axis=0).flatten() | hs.flatten() *)
Definition gate_hs_to_var (flag : bool) (n : nat) (H : rmat) : rvec :=
  if flag then fun k => H (S (k / n)) (k mod n)%nat else fun k => H (k / n)%nat (k mod n)%nat.
Definition gate_var_len (flag : bool) (n : nat) : nat := if flag then ((n - 1) * n)%nat else (n * n)%nat.
(* calc_proj_eq_constraint_with_var: flag -> var itself | copy; new_var[0] = 1; new_var[1 : n] = 0 *)
Definition gate_proj_eq_var (flag : bool) (n : nat) (w : rvec) : rvec :=
  if flag then w else fun k => if Nat.eqb k 0 then 1 else if (k <? n)%nat then 0 else w k.
Definition gate_eq_ok (n : nat) (H : rmat) : Prop := forall b, (b < n)%nat -> H 0%nat b = e0 b.

(* ---------------------------------------------------------------- MProcess *)
(* calc_proj_eq_constraint:  vec = sum_x hs_x[0]; vec[0] -= 1; hs_x[0] -= vec / m *)
Definition mp_defect (m : nat) (H : nat -> rmat) : rvec := fun b => sumn m (fun y => H y 0%nat b) - e0 b.
Definition mp_proj_eq (m : nat) (H : nat -> rmat) : nat -> rmat :=
  fun x a b => if Nat.eqb a 0 then H x 0%nat b - mp_defect m H b / of_nat m else H x a b.
(* convert_var_to_hss: when flag the first row of the LAST hs is  e0 - sum of the other first rows, inserted at
   position n*n*(m-1); reshape(m, n, n) *)
Definition mp_first_row_last (m n : nat) (w : rvec) : rvec :=
  fun b => e0 b - sumn (m - 1) (fun y => w (y * (n * n) + b)%nat).
Definition mp_var_to_stacked (flag : bool) (m n : nat) (w : rvec) : rvec :=
  if flag then vinsert ((m - 1) * (n * n)) n (mp_first_row_last m n w) w else w.
Definition mp_unstack (n : nat) (s : rvec) : nat -> rmat := fun x a b => s (x * (n * n) + a * n + b)%nat.
Definition mp_var_to_hss (flag : bool) (m n : nat) (w : rvec) : nat -> rmat :=
  mp_unstack n (mp_var_to_stacked flag m n w).
(* to_stacked_vector / convert_hss_to_var: flatten each hs, the last one without its first row when flag *)
Definition mp_stack (n : nat) (H : nat -> rmat) : rvec :=
  fun k => H (k / (n * n))%nat ((k mod (n * n)) / n)%nat (k mod n)%nat.
Definition mp_hss_to_var (flag : bool) (m n : nat) (H : nat -> rmat) : rvec :=
  if flag then vdelete ((m - 1) * (n * n)) n (mp_stack n H) else mp_stack n H.
Definition mp_var_len (flag : bool) (m n : nat) : nat := if flag then (m * (n * n) - n)%nat else (m * (n * n))%nat.
Definition mp_m_of_len (flag : bool) (n len : nat) : nat :=
  if flag then (len / (n * n) + 1)%nat else (len / (n * n))%nat.
(* calc_proj_eq_constraint_with_var: var -> hss -> project -> var *)
Definition mp_proj_eq_var (flag : bool) (m n : nat) (w : rvec) : rvec :=
  mp_hss_to_var flag m n (mp_proj_eq m (mp_var_to_hss flag m n w)).
Definition mp_eq_ok (m n : nat) (H : nat -> rmat) : Prop :=
  forall b, (b < n)%nat -> sumn m (fun x => H x 0%nat b) = e0 b.

(* ---------------------------------------------------------------- stacked vectors (to_stacked_vector) *)
Definition povm_stack (n : nat) (V : rmat) : rvec := vecr n V.            (* np.hstack(vecs) *)
Definition povm_unstack (n : nat) (s : rvec) : rmat := unvecr n s.
Definition gate_stack (n : nat) (H : rmat) : rvec := vecr n H.            (* hs.flatten() *)
Definition gate_unstack (n : nat) (s : rvec) : rmat := unvecr n s.
End C04Model.

Arguments of_nat {F} k. Arguments e0 {F} b. Arguments vinsert {F} k len blk v _. Arguments vdelete {F} k len v _.
