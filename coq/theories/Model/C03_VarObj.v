(* C03 — model of the variable <-> object conversions of quara's four object types
   (definitions only), generic in the ordered field.

   Objects are what the Python objects hold:
     State    vec  : list F                     (d^2 coefficients)
     Povm     vecs : list (list F)              (m vectors of d^2 coefficients)
     Gate     hs   : list (list F)              (rows of the d^2 x d^2 HS matrix)
     MProcess hss  : list (list (list F))       (m HS matrices, as rows)
   [flag] is on_para_eq_constraint; [sd] stands for np.sqrt(c_sys.dim) and is a PARAMETER
   (no theorem of C03 needs  sd*sd = d ; they hold for every value of sd).
   np.reshape failures / constructor size checks are the [None] branches. *)
From Coq Require Import ZArith Bool List Arith.
From QV.Core Require Import OF Sums.
From QV.Model Require Import C03_Index.
Import ListNotations.

(* reshape(k, n) of a flat list: k consecutive rows of length n *)
Fixpoint chunk {A : Type} (n k : nat) (l : list A) : list (list A) :=
  match k with O => [] | S k' => firstn n l :: chunk n k' (skipn n l) end.

Section VarObj.
Context (F : OF).
Notation "0" := (c0 F). Notation "1" := (c1 F).
Local Notation "x -f y" := (csub F x y) (at level 50, left associativity).
Local Notation "x /f y" := (kdiv F x y) (at level 40, left associativity).

(* np.eye(1, n) / one[0] = 1 ;  [sqrt(d), 0, 0 ...] *)
Definition lead (c : F) (n : nat) : list F := map (fun j => if Nat.eqb j 0 then c else 0) (seq 0 n).
Definition e0 (n : nat) : list F := lead 1 n.

(* ------------------------------------------------------------------ State (state.py:708, 775, 733)
   convert_vec_to_var: np.delete(vec, 0) ; convert_var_to_vec: np.insert(var, 0, 1/np.sqrt(dim)) *)
Definition state_to_var (flag : bool) (vec : list F) : list F := if flag then tl vec else vec.
Definition state_var_to_vec (sd : F) (flag : bool) (var : list F) : list F :=
  if flag then (1 /f sd) :: var else var.
(* generate_from_var = convert_var_to_state: the State constructor rejects a vec whose size is not dim^2 *)
Definition state_from_var (d : nat) (sd : F) (flag : bool) (var : list F) : option (list F) :=
  let vec := state_var_to_vec sd flag var in
  if Nat.eqb (length vec) (d * d) then Some vec else None.
Definition state_stacked (vec : list F) : list F := vec.
(* State.convert_var_to_stacked_vector / convert_stacked_vector_to_var are the two functions above *)
Definition state_var_to_stacked := state_var_to_vec.
Definition state_stacked_to_var := state_to_var.
(* the object with its implied component overwritten by the implied value *)
Definition state_reimplied (sd : F) (flag : bool) (vec : list F) : list F :=
  if flag then (1 /f sd) :: tl vec else vec.
Definition state_eq_ok (sd : F) (flag : bool) (vec : list F) : Prop :=
  flag = false \/ nth 0%nat vec 0 = 1 /f sd.

(* ------------------------------------------------------------------ Povm (povm.py:1108, 1198, 846, 875) *)
Definition colsum (rows : list (list F)) (c : nat) : F :=
  sumn (length rows) (fun x => nth c (nth x rows []) 0).
(* last_vec = total_vecs - pre_vecs.sum(axis=0) *)
Definition povm_last (n : nat) (sd : F) (pre : list (list F)) : list F :=
  map (fun c => (if Nat.eqb c 0 then sd else 0) -f colsum pre c) (seq 0 n).
(* convert_vecs_to_var: del var[-1] under the constraint, then hstack *)
Definition povm_to_var (flag : bool) (vecs : list (list F)) : list F :=
  concat (if flag then removelast vecs else vecs).
(* convert_var_to_vecs: measurement_n = len // dim^2 (+1) ; reshape fails unless len is a multiple of dim^2 *)
Definition povm_var_to_vecs (d : nat) (sd : F) (flag : bool) (var : list F) : option (list (list F)) :=
  let n := (d * d)%nat in let q := (length var / n)%nat in
  if Nat.eqb (length var) (q * n) then
    let pre := chunk n q var in
    Some (if flag then pre ++ [povm_last n sd pre] else pre)
  else None.
(* convert_var_to_povm: the Povm constructor reads vecs[0] *)
Definition povm_from_var (d : nat) (sd : F) (flag : bool) (var : list F) : option (list (list F)) :=
  match povm_var_to_vecs d sd flag var with
  | Some [] => None
  | r => r
  end.
Definition povm_stacked (vecs : list (list F)) : list F := concat vecs.
Definition povm_var_to_stacked (d : nat) (sd : F) (flag : bool) (var : list F) : option (list F) :=
  if flag then option_map (@concat F) (povm_var_to_vecs d sd true var) else Some var.
Definition povm_stacked_to_var (d : nat) (sd : F) (flag : bool) (st : list F) : option (list F) :=
  if flag then option_map (povm_to_var true) (povm_var_to_vecs d sd false st) else Some st.
Definition povm_reimplied (d : nat) (sd : F) (flag : bool) (vecs : list (list F)) : list (list F) :=
  if flag then removelast vecs ++ [povm_last (d * d) sd (removelast vecs)] else vecs.
(* sum of ALL elements is sd * e0, i.e. the identity operator *)
Definition povm_eq_ok (d : nat) (sd : F) (flag : bool) (vecs : list (list F)) : Prop :=
  flag = false \/ forall c, (c < d * d)%nat -> colsum vecs c = (if Nat.eqb c 0 then sd else 0).

(* ------------------------------------------------------------------ Gate (gate.py:1057, 1135, 498, 529) *)
(* convert_hs_to_var: np.delete(hs, 0, axis=0).flatten() *)
Definition gate_to_var (flag : bool) (hs : list (list F)) : list F := concat (if flag then tl hs else hs).
(* convert_var_to_hs: reshape (dim^2 - 1, dim^2), insert np.eye(1, dim^2) as row 0 *)
Definition gate_var_to_hs (d : nat) (flag : bool) (var : list F) : option (list (list F)) :=
  let n := (d * d)%nat in
  if flag then (if Nat.eqb (length var) ((n - 1) * n) then Some (e0 n :: chunk n (n - 1) var) else None)
  else (if Nat.eqb (length var) (n * n) then Some (chunk n n var) else None).
Definition gate_from_var := gate_var_to_hs.
Definition gate_stacked (hs : list (list F)) : list F := concat hs.
Definition gate_var_to_stacked (d : nat) (flag : bool) (var : list F) : list F :=
  if flag then e0 (d * d) ++ var else var.
Definition gate_stacked_to_var (d : nat) (flag : bool) (st : list F) : list F :=
  if flag then skipn (d * d) st else st.
Definition gate_reimplied (d : nat) (flag : bool) (hs : list (list F)) : list (list F) :=
  if flag then e0 (d * d) :: tl hs else hs.
Definition gate_eq_ok (d : nat) (flag : bool) (hs : list (list F)) : Prop :=
  flag = false \/ nth 0%nat hs [] = e0 (d * d).

(* ------------------------------------------------------------------ MProcess (mprocess.py:1009, 1041, 835, 880, 526) *)
(* convert_hss_to_var: flatten every hs, the last one without its row 0 *)
Definition mp_to_var (flag : bool) (hss : list (list (list F))) : list F :=
  if flag then concat (map (@concat F) (removelast hss)) ++ concat (tl (last hss []))
  else concat (map (@concat F) hss).
(* first_row_of_last_hs = one - sum_{outcome < q} vector[hs_size*outcome : hs_size*outcome + dim^2] *)
Definition mp_implied_row (n q : nat) (var : list F) : list F :=
  map (fun c => (if Nat.eqb c 0 then 1 else 0) -f sumn q (fun x => nth (n * n * x + c)%nat var 0)) (seq 0 n).
(* MProcess.convert_var_to_stacked_vector: np.insert(vector, hs_size*(num_outcomes-1), first_row_of_last_hs) *)
Definition mp_var_to_stacked (d : nat) (flag : bool) (var : list F) : list F :=
  if flag then
    let n := (d * d)%nat in let q := (length var / (n * n))%nat in
    firstn (n * n * q) var ++ mp_implied_row n q var ++ skipn (n * n * q) var
  else var.
(* convert_var_to_hss: the same insertion, then reshape((num_outcomes, dim^2, dim^2)) *)
Definition mp_var_to_hss (d : nat) (flag : bool) (var : list F) : option (list (list (list F))) :=
  let n := (d * d)%nat in let q := (length var / (n * n))%nat in
  let m := if flag then S q else q in
  let vector := mp_var_to_stacked d flag var in
  if Nat.eqb (length vector) (m * (n * n)) then Some (map (chunk n n) (chunk (n * n) m vector)) else None.
(* MProcess.generate_from_var passes shape=self.shape: the constructor rejects another number of outcomes *)
Definition mp_from_var (d m : nat) (flag : bool) (var : list F) : option (list (list (list F))) :=
  match mp_var_to_hss d flag var with
  | Some hss => if Nat.eqb (length hss) m then Some hss else None
  | None => None
  end.
Definition mp_stacked (hss : list (list (list F))) : list F := concat (map (@concat F) hss).
(* MProcess.convert_stacked_vector_to_var: np.delete of the slice [hs_size*(m-1), hs_size*(m-1) + dim^2) *)
Definition mp_stacked_to_var (d : nat) (flag : bool) (st : list F) : list F :=
  if flag then
    let n := (d * d)%nat in let m := (length st / (n * n))%nat in
    firstn (n * n * (m - 1)) st ++ skipn (n * n * (m - 1) + n) st
  else st.
(* sum over the outcomes of the first rows *)
Definition first_row_sum (hss : list (list (list F))) (c : nat) : F :=
  sumn (length hss) (fun x => nth c (nth 0%nat (nth x hss []) []) 0).
Definition mp_implied_row_of (n : nat) (pre : list (list (list F))) : list F :=
  map (fun c => (if Nat.eqb c 0 then 1 else 0) -f first_row_sum pre c) (seq 0 n).
Definition mp_reimplied (d : nat) (flag : bool) (hss : list (list (list F))) : list (list (list F)) :=
  if flag then removelast hss ++ [mp_implied_row_of (d * d) (removelast hss) :: tl (last hss [])] else hss.
Definition mp_eq_ok (d : nat) (flag : bool) (hss : list (list (list F))) : Prop :=
  flag = false \/ forall c, (c < d * d)%nat -> first_row_sum hss c = (if Nat.eqb c 0 then 1 else 0).

(* ------------------------------------------------------------------ well-formed objects (array shapes) *)
Definition uniform {A : Type} (n : nat) (rows : list (list A)) : Prop := Forall (fun r => length r = n) rows.
Definition state_wf (d : nat) (vec : list F) : Prop := length vec = (d * d)%nat.
Definition povm_wf (d m : nat) (vecs : list (list F)) : Prop := length vecs = m /\ uniform (d * d) vecs.
Definition gate_wf (d : nat) (hs : list (list F)) : Prop := length hs = (d * d)%nat /\ uniform (d * d) hs.
Definition mp_wf (d m : nat) (hss : list (list (list F))) : Prop :=
  length hss = m /\ Forall (gate_wf d) hss.

(* ------------------------------------------------------------------ calc_gradient
   a zero object with a single 1 written at the object index of the variable; returned here as its
   stacked vector.  None = IndexError (index outside the arrays).  Negative indices (Python wrap-around)
   are outside the modelled domain. *)
Definition onehot (total k : nat) : list F := repeat 0 k ++ 1 :: repeat 0 (total - S k).
Definition gradient_at (total : nat) (k : Z) : option (list F) :=
  if (0 <=? k)%Z && (k <? Z.of_nat total)%Z then Some (onehot total (Z.to_nat k)) else None.
Definition state_gradient (d : nat) (flag : bool) (i : Z) : option (list F) :=
  gradient_at (d * d) (flat_state (state_index_of_var flag i)).
Definition povm_gradient (d m : nat) (flag : bool) (i : Z) : option (list F) :=
  gradient_at (m * (d * d)) (flat_povm (Z.of_nat d) (povm_index_of_var (Z.of_nat d * Z.of_nat d) i)).
Definition gate_gradient (d : nat) (flag : bool) (i : Z) : option (list F) :=
  gradient_at (d * d * (d * d)) (flat_gate (Z.of_nat d) (gate_index_of_var (Z.of_nat d) flag i)).
Definition mp_gradient (d m : nat) (flag : bool) (i : Z) : option (list F) :=
  gradient_at (m * (d * d * (d * d)))
    (flat_mproc (Z.of_nat d) (mproc_index_of_var (Z.of_nat d) (Z.of_nat m) flag i)).

(* ------------------------------------------------------------------ one type for all four kinds
   (domain note: to_var of a ONE-element POVM under the constraint raises in numpy - np.hstack of an empty list -
   while the model is total; [qop_wf] therefore asks for two elements in that case) *)
Inductive qop :=
| QState (d : nat) (flag : bool) (vec : list F)
| QGate (d : nat) (flag : bool) (hs : list (list F))
| QPovm (d : nat) (flag : bool) (vecs : list (list F))
| QMproc (d : nat) (flag : bool) (hss : list (list (list F))).

Definition qop_to_var (o : qop) : list F :=
  match o with
  | QState _ f v => state_to_var f v | QGate _ f h => gate_to_var f h
  | QPovm _ f v => povm_to_var f v | QMproc _ f h => mp_to_var f h
  end.
Definition qop_stacked (o : qop) : list F :=
  match o with
  | QState _ _ v => state_stacked v | QGate _ _ h => gate_stacked h
  | QPovm _ _ v => povm_stacked v | QMproc _ _ h => mp_stacked h
  end.
(* o.generate_from_var(var): configuration (c_sys, flag, MProcess shape) comes from the template o;
   [sdf d] is the value used for np.sqrt(d) *)
Definition qop_from_var (sdf : nat -> F) (o : qop) (var : list F) : option qop :=
  match o with
  | QState d f _ => option_map (QState d f) (state_from_var d (sdf d) f var)
  | QGate d f _ => option_map (QGate d f) (gate_from_var d f var)
  | QPovm d f _ => option_map (QPovm d f) (povm_from_var d (sdf d) f var)
  | QMproc d f h => option_map (QMproc d f) (mp_from_var d (length h) f var)
  end.
(* <Type>.convert_var_to_stacked_vector / convert_stacked_vector_to_var (static methods; configuration from o) *)
Definition qop_var_to_stacked (sdf : nat -> F) (o : qop) (var : list F) : option (list F) :=
  match o with
  | QState d f _ => Some (state_var_to_stacked (sdf d) f var) | QGate d f _ => Some (gate_var_to_stacked d f var)
  | QPovm d f _ => povm_var_to_stacked d (sdf d) f var | QMproc d f _ => Some (mp_var_to_stacked d f var)
  end.
Definition qop_stacked_to_var (sdf : nat -> F) (o : qop) (st : list F) : option (list F) :=
  match o with
  | QState d f _ => Some (state_stacked_to_var f st) | QGate d f _ => Some (gate_stacked_to_var d f st)
  | QPovm d f _ => povm_stacked_to_var d (sdf d) f st | QMproc d f _ => Some (mp_stacked_to_var d f st)
  end.
(* same kind, dimension, flag and number of outcomes *)
Definition qop_same_shape (o o' : qop) : Prop :=
  match o, o' with
  | QState d f _, QState d' f' _ => d = d' /\ f = f'
  | QGate d f _, QGate d' f' _ => d = d' /\ f = f'
  | QPovm d f v, QPovm d' f' v' => d = d' /\ f = f' /\ length v = length v'
  | QMproc d f h, QMproc d' f' h' => d = d' /\ f = f' /\ length h = length h'
  | _, _ => False
  end.
Definition qop_wf (o : qop) : Prop :=
  match o with
  | QState d _ v => (1 <= d)%nat /\ state_wf d v | QGate d _ h => (1 <= d)%nat /\ gate_wf d h
  | QPovm d f v => (1 <= d)%nat /\ ((if f then 2 else 1) <= length v)%nat /\ povm_wf d (length v) v
  | QMproc d _ h => (1 <= d)%nat /\ (1 <= length h)%nat /\ mp_wf d (length h) h
  end.
Definition qop_eq_ok (sdf : nat -> F) (o : qop) : Prop :=
  match o with
  | QState d f v => state_eq_ok (sdf d) f v | QGate d f h => gate_eq_ok d f h
  | QPovm d f v => povm_eq_ok d (sdf d) f v | QMproc d f h => mp_eq_ok d f h
  end.
Definition qop_reimplied (sdf : nat -> F) (o : qop) : qop :=
  match o with
  | QState d f v => QState d f (state_reimplied (sdf d) f v) | QGate d f h => QGate d f (gate_reimplied d f h)
  | QPovm d f v => QPovm d f (povm_reimplied d (sdf d) f v) | QMproc d f h => QMproc d f (mp_reimplied d f h)
  end.
(* number of variables as the tomography classes compute it *)
Definition qop_num_variables (o : qop) : Z :=
  match o with
  | QState d f _ => nv_state (Z.of_nat d) f | QGate d f _ => nv_gate (Z.of_nat d) f
  | QPovm d f v => nv_povm (Z.of_nat d) (Z.of_nat (length v)) f
  | QMproc d f h => nv_mproc (Z.of_nat d) (Z.of_nat (length h)) f
  end.
(* position in the stacked vector of the object entry that convert_var_index_to_<type>_index designates *)
Definition qop_flat_index (o : qop) (i : Z) : Z :=
  match o with
  | QState d f _ => flat_state (state_index_of_var f i)
  | QGate d f _ => flat_gate (Z.of_nat d) (gate_index_of_var (Z.of_nat d) f i)
  | QPovm d f v => flat_povm (Z.of_nat d) (povm_index_of_var (Z.of_nat d * Z.of_nat d) i)
  | QMproc d f h => flat_mproc (Z.of_nat d) (mproc_index_of_var (Z.of_nat d) (Z.of_nat (length h)) f i)
  end.
(* o.calc_gradient(i).to_stacked_vector() *)
Definition qop_gradient (o : qop) (i : Z) : option (list F) :=
  match o with
  | QState d f _ => state_gradient d f i | QGate d f _ => gate_gradient d f i
  | QPovm d f v => povm_gradient d (length v) f i | QMproc d f h => mp_gradient d (length h) f i
  end.
End VarObj.

Arguments chunk {A} n k l.
Arguments uniform {A} n rows.
