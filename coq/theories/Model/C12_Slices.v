(* C12 — how the generic loss classes cut the stacked forward model (rows of matA / vecB, one block per schedule, the
   schedules may have different numbers of outcomes) into per-schedule pieces (definitions only).
   quara/loss_function/probability_based_loss_function.py : set_func_prob_dists_from_standard_qt,
   set_func_gradient_prob_dists_from_standard_qt, set_func_hessian_prob_dists_from_standard_qt and the closure generators
   _generate_func_prob_dist / _generate_func_gradient_prob_dist / _generate_func_hessian_prob_dist.
   gen/c12_py2coq.py regenerates the index arithmetic of these functions on every run; coq/gen/C12_Equiv.v proves it equal
   to the definitions below. *)
From Coq Require Import List Arith.
Import ListNotations.

(* row range [lo, hi) of schedule j in the stacked model, for the list of outcome counts of the schedules *)
Fixpoint slices_from (start : nat) (sizes : list nat) : list (nat * nat) :=
  match sizes with [] => [] | n :: t => (start, start + n) :: slices_from (start + n) t end.
Definition slices (sizes : list nat) : list (nat * nat) := slices_from 0 sizes.
Definition offset (sizes : list nat) (j : nat) : nat := fold_right Nat.add 0 (firstn j sizes).
Definition total (sizes : list nat) : nat := fold_right Nat.add 0 sizes.
(* the closure of _generate_func_prob_dist(A, b, size, index) reads rows [size*index, size*(index+1)) of the A it is given *)
Definition helper_rows (size index : nat) : nat * nat := (size * index, size * (index + 1)).
(* the closure of _generate_func_gradient_prob_dist(A, size, index) reads row size*index + i for i < size *)
Definition helper_grad_row (size index i : nat) : nat := size * index + i.
