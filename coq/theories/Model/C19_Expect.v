(* C19 — exact expectation over multinomial sampling (definitions only).
   A schedule is measured n times independently; the outcome sequence is a list of outcome
   indices, drawn i.i.d. from the categorical distribution p on {0..m-1}.  [expect] is the exact
   expectation functional  E_{n+1}[g] = sum_x p_x E_n[g (x :: .)]  (executable: enumerates the
   m^n sequences); [expectL] is the product over independent schedules.  The empirical
   distribution of a sequence is  count/n. *)
From Coq Require Import List Arith Bool.
From QV.Core Require Import OF Sums Mat.
Import ListNotations.

Section Expect.
Context (F : OF).
Notation "0" := (c0 F). Notation "1" := (c1 F).
Infix "+" := (cadd F). Infix "*" := (cmul F). Infix "-" := (csub F). Infix "/" := (kdiv F).
Notation vec := (@vec F). Notation mat := (@mat F).

Fixpoint of_nat (n : nat) : F := match n with O => 0 | S k => of_nat k + 1 end.

Fixpoint expect (m : nat) (p : vec) (n : nat) (g : list nat -> F) : F :=
  match n with
  | O => g []
  | S k => sumn m (fun x => p x * expect m p k (fun s => g (x :: s)))
  end.

(* indicator, count, empirical frequency, deviation from the true distribution *)
Definition ind (x z : nat) : F := if Nat.eqb z x then 1 else 0.
Fixpoint cnt (x : nat) (s : list nat) : F := match s with [] => 0 | z :: t => ind x z + cnt x t end.
Definition freq (n : nat) (s : list nat) : vec := fun x => cnt x s / of_nat n.
Definition dev (n : nat) (p : vec) (s : list nat) : vec := fun x => freq n s x - p x.

(* several independent schedules: (number of outcomes, true distribution, number of shots) *)
Definition sched := (nat * vec * nat)%type.
Fixpoint expectL (ss : list sched) (g : list (list nat) -> F) : F :=
  match ss with
  | [] => g []
  | (m, p, n) :: t => expect m p n (fun s => expectL t (fun st => g (s :: st)))
  end.
Fixpoint total_size (ss : list sched) : nat :=
  match ss with [] => O | (m, _, _) :: t => (m + total_size t)%nat end.
(* stacked true distributions / stacked empirical distributions / stacked deviation *)
Fixpoint p_total (ss : list sched) : vec :=
  match ss with
  | [] => fun _ => 0
  | (m, p, _) :: t => fun i => if Nat.ltb i m then p i else p_total t (i - m)%nat
  end.
Fixpoint f_total (ss : list sched) (obs : list (list nat)) : vec :=
  match ss with
  | [] => fun _ => 0
  | (m, _, n) :: t => fun i => if Nat.ltb i m then freq n (hd [] obs) i else f_total t (tl obs) (i - m)%nat
  end.
Definition dev_total (ss : list sched) (obs : list (list nat)) : vec :=
  fun i => f_total ss obs i - p_total ss i.

Definition valid_sched (s : sched) : Prop :=
  let '(m, p, n) := s in sumn m p = 1 /\ (1 <= n)%nat.
End Expect.
