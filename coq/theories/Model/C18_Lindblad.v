(* C18 — model of quara/objects/effective_lindbladian.py (EffectiveLindbladian, generate_hs_from_*, jump-operator
   generators, calc_h_mat / calc_j_mat / calc_k_mat, the h / j / k / d parts, verdicts, equality projection), of the sparse tables basis_basisconjugate_T_sparse_from_1 / basishermitian_basis_T_from_1 of
   quara/objects/composite_system.py, of gate.convert_hs, and of the Taylor partial sums of exp.  DEFINITIONS ONLY.

   Conventions (fixed against the code; the correspondence check decides them):
   * d = dimension, the matrix basis  B : nat -> cmat  has d*d elements, B 0 = I/sqrt d ; the coefficient matrix K of the
     dissipator is (d*d-1) x (d*d-1) and is indexed from 0 :  K a b  multiplies  B (S a) ... B (S b)  (the code's basis[1:]).
   * superoperators in the computational basis are d*d x d*d matrices acting on ROW-MAJOR vectorisations (numpy flatten):
       vec(A X B) = (A (x) B^T) vec X ,  so  X |-> A X B^dagger  is  A (x) conj B   ([kron d d A (cconj B)]).
   * convert_hs(from_hs, from, to) = U from_hs U^dagger with U[a,b] = vdot(to_a, from_b); for to = B, from = comp basis
     U[a, s] = conj (vec B_a)[s]  ([Umat]).                                                                            *)
From Coq Require Import Arith List Bool.
From QV.Core Require Import OF Sums Mat Cplx Psd.
From QV.Model Require Import QObj HermEmbed.
Import ListNotations.

Section C18.
Context (F : OF).
Notation Cx := (CF F).
Notation cmat := (cmat F).
Notation rmat := (rmat F).
Notation rvec := (rvec F).
Local Notation "x +c y" := (cadd Cx x y) (at level 50, left associativity).
Local Notation "x *c y" := (cmul Cx x y) (at level 40, left associativity).
Local Notation "x -c y" := (csub Cx x y) (at level 50, left associativity).

(* ---------------------------------------------------------------- scalars *)
Fixpoint ofnat (n : nat) : F := match n with O => c0 F | S k => cadd F (ofnat k) (c1 F) end.
Definition two : F := cadd F (c1 F) (c1 F).
Definition half : F := kdiv F (c1 F) two.
Definition mi : Cx := (c0 F, copp F (c1 F)).                      (* -i *)
Definition cI : cmat := mid.                                      (* complex identity *)
Definition fabs (x : F) : F := if kleb F (c0 F) x then x else copp F x.
Definition fltb (x y : F) : bool := negb (kleb F y x).            (* x < y *)

(* ---------------------------------------------------------------- the three parts, computational basis *)
(* _calc_h_part_from_h_mat :  -1j * (kron(h, I) - kron(I, conj h)) *)
Definition h_part (d : nat) (H : cmat) : cmat :=
  mscale mi (msub (kron d d H cI) (kron d d cI (cconj H))).
(* _calc_j_part_from_j_mat :  kron(j, I) + kron(I, conj j) *)
Definition j_part (d : nat) (J : cmat) : cmat :=
  madd (kron d d J cI) (kron d d cI (cconj J)).
(* _calc_k_part_from_slowly :  sum_{a,b} k[a,b] kron(basis[a+1], conj basis[b+1]) *)
Definition k_part (d : nat) (B : nat -> cmat) (K : cmat) : cmat := fun s t =>
  sumn (d * d - 1) (fun a => sumn (d * d - 1) (fun b => K a b *c bbc d B (S a) (S b) s t)).
(* basis[b].conj().T @ basis[a] *)
Definition bhb (d : nat) (B : nat -> cmat) (a b : nat) : cmat := mmul d (cadj (B b)) (B a).
(* _calc_j_mat_from_k_mat_slowly :  -1/2 sum_{a,b} k[a,b] basis[b+1]^dagger basis[a+1] *)
Definition j_of_k (d : nat) (B : nat -> cmat) (K : cmat) : cmat := fun i j =>
  zof (copp F half) *c sumn (d * d - 1) (fun a => sumn (d * d - 1) (fun b => K a b *c bhb d B (S a) (S b) i j)).

(* the sparse tables of CompositeSystem._calc_basis_basisconjugate_sparse (dense view): column (a,b), a,b >= 1 in
   itertools.product order, holds the flattened  B_a (x) conj B_b  resp.  B_b^dagger B_a *)
Definition tab_k (d : nat) (B : nat -> cmat) : cmat := fun r c =>
  bbc d B (S (c / (d * d - 1))) (S (c mod (d * d - 1))) (r / (d * d))%nat (r mod (d * d))%nat.
Definition tab_j (d : nat) (B : nat -> cmat) : cmat := fun r c =>
  bhb d B (S (c / (d * d - 1))) (S (c mod (d * d - 1))) (r / d)%nat (r mod d)%nat.
(* _calc_k_part_from_k_mat_with_sparsity / _calc_j_mat_from_k_mat_with_sparsity : table . k_mat.flatten(), reshaped *)
Definition k_part_sparse (d : nat) (B : nat -> cmat) (K : cmat) : cmat :=
  unvecr (d * d) (mv ((d * d - 1) * (d * d - 1)) (tab_k d B) (vecr (d * d - 1) K)).
Definition j_of_k_sparse (d : nat) (B : nat -> cmat) (K : cmat) : cmat :=
  mscale (zof (copp F half) : Cx) (unvecr d (mv ((d * d - 1) * (d * d - 1)) (tab_j d B) (vecr (d * d - 1) K))).

(* ---------------------------------------------------------------- generators in the computational basis *)
Definition lcb_hjk (d : nat) (B : nat -> cmat) (H J K : cmat) : cmat :=
  madd (madd (h_part d H) (j_part d J)) (k_part d B K).                        (* generate_hs_from_hjk *)
Definition lcb_hk (d : nat) (B : nat -> cmat) (H K : cmat) : cmat :=
  madd (madd (h_part d H) (j_part d (j_of_k d B K))) (k_part d B K).           (* generate_hs_from_hk *)
Definition lcb_h (d : nat) (H : cmat) : cmat := h_part d H.                    (* generate_hs_from_h *)
Definition lcb_k (d : nat) (B : nat -> cmat) (K : cmat) : cmat :=
  madd (j_part d (j_of_k d B K)) (k_part d B K).                               (* generate_hs_from_k *)

(* jump operators (generate_j/k/d_part_cb_from_jump_operators), as REPAIRED by fixes/c18-jump-operators-cdagger-c.diff:
     j part = -1/2 sum_c (kron(c^dagger c, I) + kron(I, conj (c^dagger c))) ,  k part = sum_c kron(c, conj c).
   [jump_j_prefix] / [jump_d_prefix] are the routine AS CODED BEFORE FIX c18-jump-operators-cdagger-c: the jump operator c
   itself in place of c^dagger c (kept only for the refutation theorem and for attributing a re-appearing defect). *)
Definition msum (l : list cmat) : cmat := fold_right (fun X acc => madd X acc) mzero l.
Definition jump_j (d : nat) (cs : list cmat) : cmat :=
  mscale (zof (copp F half) : Cx) (msum (map (fun c => j_part d (mmul d (cadj c) c)) cs)).
Definition jump_k (d : nat) (cs : list cmat) : cmat := msum (map (fun c => kron d d c (cconj c)) cs).
Definition jump_d (d : nat) (cs : list cmat) : cmat := madd (jump_j d cs) (jump_k d cs).
Definition jump_j_prefix (d : nat) (cs : list cmat) : cmat :=
  mscale (zof (copp F half) : Cx) (msum (map (fun c => j_part d c) cs)).
Definition jump_d_prefix (d : nat) (cs : list cmat) : cmat := madd (jump_j_prefix d cs) (jump_k d cs).

(* the (H, K) form of a jump-operator generator.  A jump operator is given by a decomposition  c = a I + sum_{b < d*d-1} g_b B_{b+1}
   (for an orthonormal basis with B_0 = I/sd:  a = tr c / d,  g_b = <B_{b+1}, c>);  then
     sum_c D[c]  =  generator of  ( H_eff = sum_c (i/2)(conj a c' - a c'^dagger) ,  K = sum_c g g^dagger ) ,   c' = c - a I . *)
Definition jump_tl (d : nat) (B : nat -> cmat) (g : nat -> Cx) : cmat := fun i j => sumn (d * d - 1) (fun b => g b *c B (S b) i j).
Definition jump_op (d : nat) (B : nat -> cmat) (a : Cx) (g : nat -> Cx) : cmat := madd (jump_tl d B g) (mscale a mid).
Definition jump_heff (a : Cx) (c' : cmat) : cmat := fun i j =>
  ((c0 F, half) : Cx) *c (zconj a *c c' i j -c a *c zconj (c' j i)).
Definition jump_K (g : nat -> Cx) : cmat := fun a b => g a *c zconj (g b).
Definition jumps_ops (d : nat) (B : nat -> cmat) (l : list (Cx * (nat -> Cx))) : list cmat :=
  map (fun p => jump_op d B (fst p) (snd p)) l.
Definition jumps_H (d : nat) (B : nat -> cmat) (l : list (Cx * (nat -> Cx))) : cmat :=
  msum (map (fun p => jump_heff (fst p) (jump_tl d B (snd p))) l).
Definition jumps_K (l : list (Cx * (nat -> Cx))) : cmat := msum (map (fun p => jump_K (snd p)) l).

(* ---------------------------------------------------------------- change of basis (gate.convert_hs) *)
Definition Umat (d : nat) (B : nat -> cmat) : cmat := fun a s => zconj (vecr d (B a) s).
(* comp basis -> B :  U L U^dagger  (complex; the code then truncates to the real part) *)
Definition chs_of_cb (d : nat) (B : nat -> cmat) (L : cmat) : cmat :=
  mmul (d * d) (mmul (d * d) (Umat d B) L) (cadj (Umat d B)).
(* B -> comp basis :  U^dagger HS U *)
Definition cb_of_chs (d : nat) (B : nat -> cmat) (HS : cmat) : cmat :=
  mmul (d * d) (mmul (d * d) (cadj (Umat d B)) HS) (Umat d B).
Definition cb_of_hs (d : nat) (B : nat -> cmat) (HS : rmat) : cmat := cb_of_chs d B (cof HS).

(* _truncate_hs (is_zero_imaginary_part_required = True): imaginary parts of modulus < eps are dropped, any remaining
   non-zero imaginary part is an error, then real entries of modulus < eps are set to 0 *)
Definition trunc_ok (n : nat) (eps : F) (M : cmat) : bool :=
  allb n (fun i => allb n (fun j => fltb (fabs (im (M i j))) eps || keqb F (im (M i j)) (c0 F))).
Definition trunc_val (eps x : F) : F := if fltb (fabs x) eps then c0 F else x.
Definition truncate_hs (n : nat) (eps : F) (M : cmat) : option rmat :=
  if trunc_ok n eps M then Some (fun i j => trunc_val eps (re (M i j))) else None.

(* mutil.is_hermitian(M, atol): allclose(M, M^dagger, atol, rtol=0); complex moduli compared in squared form *)
Definition herm_tol (n : nat) (atol : F) (M : cmat) : bool :=
  allb n (fun i => allb n (fun j => kleb F (znorm2 (M i j -c zconj (M j i))) (cmul F atol atol))).

(* generate_hs_from_hjk & co with their error branches: 1 / 2 / 3 = h / j / k not Hermitian, 4 = imaginary part left *)
Inductive gres := GOk (hs : rmat) | GErr (code : nat).
Definition finish (d : nat) (B : nat -> cmat) (eps : F) (L : cmat) : gres :=
  match truncate_hs (d * d) eps (chs_of_cb d B L) with Some hs => GOk hs | None => GErr 4 end.
Definition gen_hjk (d : nat) (B : nat -> cmat) (atol eps : F) (H J K : cmat) : gres :=
  if negb (herm_tol d atol H) then GErr 1 else if negb (herm_tol d atol J) then GErr 2
  else if negb (herm_tol (d * d - 1) atol K) then GErr 3 else finish d B eps (lcb_hjk d B H J K).
Definition gen_hk (d : nat) (B : nat -> cmat) (atol eps : F) (H K : cmat) : gres :=
  if negb (herm_tol d atol H) then GErr 1
  else if negb (herm_tol (d * d - 1) atol K) then GErr 3 else finish d B eps (lcb_hk d B H K).
Definition gen_h (d : nat) (B : nat -> cmat) (atol eps : F) (H : cmat) : gres :=
  if negb (herm_tol d atol H) then GErr 1 else finish d B eps (lcb_h d H).
Definition gen_k (d : nat) (B : nat -> cmat) (atol eps : F) (K : cmat) : gres :=
  if negb (herm_tol (d * d - 1) atol K) then GErr 3 else finish d B eps (lcb_k d B K).

(* ---------------------------------------------------------------- extraction (calc_h_mat / calc_j_mat / calc_k_mat) *)
Definition tr2 (d : nat) (X Y : cmat) : Cx := mtrace (d * d) (mmul (d * d) X Y).          (* np.trace(X @ Y) *)
Definition probe_m (d : nat) (Ba : cmat) : cmat := msub (kron d d Ba cI) (kron d d cI (cconj Ba)).
Definition probe_p (d : nat) (Ba : cmat) : cmat := madd (kron d d Ba cI) (kron d d cI (cconj Ba)).
(* h_alpha = 1j / (2 dim) * trace ;  alpha over the WHOLE basis *)
Definition h_coef (d : nat) (B : nat -> cmat) (L : cmat) (a : nat) : Cx :=
  (c0 F, kdiv F (c1 F) (cmul F two (ofnat d))) *c tr2 d L (probe_m d (B a)).
Definition calc_h_mat (d : nat) (B : nat -> cmat) (L : cmat) : cmat := fun i j =>
  sumn (d * d) (fun a => h_coef d B L a *c B a i j).
(* calc_j_mat as REPAIRED by fixes/c18-calc-j-mat-identity-component.diff:
     for alpha, B_alpha in enumerate(basis):  delta = 1 if alpha == 0 ;  j_alpha = trace / (2 dim (1 + delta))
   i.e. the whole basis is visited and the halving hits the identity element basis[0]. *)
Definition jden (d : nat) (first : bool) : F :=
  kdiv F (c1 F) (cmul F (cmul F two (ofnat d)) (if first then two else c1 F)).
Definition j_coef (d : nat) (B : nat -> cmat) (L : cmat) (a : nat) : Cx :=
  zof (jden d (Nat.eqb a 0)) *c tr2 d L (probe_p d (B a)).
Definition calc_j_mat (d : nat) (B : nat -> cmat) (L : cmat) : cmat := fun i j =>
  sumn (d * d) (fun a => j_coef d B L a *c B a i j).
(* AS CODED BEFORE FIX c18-calc-j-mat-identity-component:  for alpha, B_alpha in enumerate(basis[1:]) — the identity component
   (basis[0]) is never visited and the halving hits basis[1].  Kept only for the refutation theorems and for attributing a
   re-appearing defect; the harness compares the implementation with [calc_j_mat]. *)
Definition j_coef_prefix (d : nat) (B : nat -> cmat) (L : cmat) (a : nat) : Cx :=
  zof (jden d (Nat.eqb a 0)) *c tr2 d L (probe_p d (B (S a))).
Definition calc_j_mat_prefix (d : nat) (B : nat -> cmat) (L : cmat) : cmat := fun i j =>
  sumn (d * d - 1) (fun a => j_coef_prefix d B L a *c B (S a) i j).
(* k[alpha, beta] = trace(L_cb @ kron(basis[alpha+1], conj basis[beta+1])) *)
Definition calc_k_mat (d : nat) (B : nat -> cmat) (L : cmat) : cmat := fun a b => tr2 d L (bbc d B (S a) (S b)).

(* the parts of an OBJECT (hs w.r.t. B), as the methods calc_h_part / calc_j_part / calc_k_part / calc_d_part compute them *)
Definition obj_h_part_cb (d : nat) (B : nat -> cmat) (HS : rmat) : cmat := h_part d (calc_h_mat d B (cb_of_hs d B HS)).
Definition obj_j_part_cb (d : nat) (B : nat -> cmat) (HS : rmat) : cmat := j_part d (calc_j_mat d B (cb_of_hs d B HS)).
Definition obj_k_part_cb (d : nat) (B : nat -> cmat) (HS : rmat) : cmat := k_part d B (calc_k_mat d B (cb_of_hs d B HS)).
Definition obj_d_part_cb (d : nat) (B : nat -> cmat) (HS : rmat) : cmat := madd (obj_j_part_cb d B HS) (obj_k_part_cb d B HS).
(* extract-then-rebuild, comp basis; [rebuild_cb_prefix] with calc_j_mat as coded before fix c18-calc-j-mat-identity-component *)
Definition rebuild_cb (d : nat) (B : nat -> cmat) (L : cmat) : cmat :=
  lcb_hjk d B (calc_h_mat d B L) (calc_j_mat d B L) (calc_k_mat d B L).
Definition rebuild_cb_prefix (d : nat) (B : nat -> cmat) (L : cmat) : cmat :=
  lcb_hjk d B (calc_h_mat d B L) (calc_j_mat_prefix d B L) (calc_k_mat d B L).

(* ---------------------------------------------------------------- the GKSL right-hand side (the property's predicate) *)
Definition gksl (d : nat) (B : nat -> cmat) (H K rho : cmat) : cmat := fun i j =>
  mi *c (mmul d H rho i j -c mmul d rho H i j)
  +c sumn (d * d - 1) (fun a => sumn (d * d - 1) (fun b =>
       K a b *c (mmul d (mmul d (B (S a)) rho) (cadj (B (S b))) i j
                 -c zof half *c (mmul d (bhb d B (S a) (S b)) rho i j +c mmul d rho (bhb d B (S a) (S b)) i j)))).
Definition gksl_jump (d : nat) (cs : list cmat) (rho : cmat) : cmat :=
  msum (map (fun c => fun i j =>
       mmul d (mmul d c rho) (cadj c) i j
       -c zof half *c (mmul d (mmul d (cadj c) c) rho i j +c mmul d rho (mmul d (cadj c) c) i j)) cs).
(* the map a comp-basis superoperator denotes on d x d matrices *)
Definition apply_cb (d : nat) (L : cmat) (rho : cmat) : cmat := unvecr d (mv (d * d) L (vecr d rho)).

(* ---------------------------------------------------------------- verdicts *)
(* is_tp: np.allclose(hs[0], 0, atol, rtol=0) *)
Definition is_tp_dec (n : nat) (atol : F) (HS : rmat) : bool := allb n (fun j => kleb F (fabs (HS 0%nat j)) atol).
(* is_cp: mutil.is_positive_semidefinite(calc_k_mat(), atol) = Hermitian within atol and no eigenvalue below -atol,
   i.e. PSD (K + atol I) (spec-level reading of the eigenvalue test, as in C01); decided on the Hermitian part *)
Definition herm_part (K : cmat) : cmat := fun i j => zof half *c (K i j +c zconj (K j i)).
Definition is_cp_dec (d : nat) (B : nat -> cmat) (atol : F) (HS : rmat) : bool :=
  let K := calc_k_mat d B (cb_of_hs d B HS) in
  herm_tol (d * d - 1) atol K && herm_psd_dec F (d * d - 1) (herm_part K) atol.
Definition is_physical_dec (d : nat) (B : nat -> cmat) (atol : F) (HS : rmat) : bool :=
  is_tp_dec (d * d) atol HS && is_cp_dec d B atol HS.

(* ---------------------------------------------------------------- equality projection *)
(* EffectiveLindbladian.calc_proj_eq_constraint: new_hs[0, :] = 0.
   (The variable-vector routines EffectiveLindbladian inherits from Gate — calc_proj_*_with_var, generate_from_var — and
   convert_var_to_effective_lindbladian are NOT modelled: property C18 does not speak about variable vectors.) *)
Definition proj_eq (HS : rmat) : rmat := fun i j => if Nat.eqb i 0 then c0 F else HS i j.

(* EffectiveLindbladian.calc_proj_ineq_constraint: h_mat, j_mat, k_mat are extracted, k_mat is replaced by K' = its
   eigenvalue-clipped version (np.linalg.eig: an ORACLE, K' is a parameter here and is certificate-checked at run time),
   and the generator is rebuilt with generate_effective_lindbladian_from_hjk *)
Definition proj_ineq_cb (d : nat) (B : nat -> cmat) (L K' : cmat) : cmat :=
  lcb_hjk d B (calc_h_mat d B L) (calc_j_mat d B L) K'.

(* the part of calc_proj_ineq_constraint between the oracle numpy.linalg.eigh (results: eigenvalues l, eigenvector matrix V) and the rebuild:
   negative eigenvalues are set to 0, K' = V diag(l') V^dagger *)
Definition clip_neg (l : list F) : list F := map (fun x => if fltb x (c0 F) then c0 F else x) l.
Definition diag_of (l : list F) : cmat := fun i j => if Nat.eqb i j then zof (nth i l (c0 F)) else c0 Cx.
Definition proj_ineq_kmat (d : nat) (l : list F) (V : cmat) : cmat :=
  mmul (d * d - 1) (mmul (d * d - 1) V (diag_of (clip_neg l))) (cadj V).

(* ---------------------------------------------------------------- Taylor partial sums of exp (to_gate = expm(hs)) *)
Fixpoint mpow (n : nat) (L : rmat) (k : nat) : rmat :=
  match k with O => mid | S k' => mmul n L (mpow n L k') end.
Definition poly_sum (n : nat) (c : nat -> F) (L : rmat) (N : nat) : rmat := fun i j =>
  sumn (S N) (fun k => cmul F (c k) (mpow n L k i j)).
(* term k = L^k / k!  by the recurrence  term (k+1) = L term k / (k+1);  [frz] is an executable identity on [0,n)^2 *)
Fixpoint tterm (frz : rmat -> rmat) (n : nat) (L : rmat) (k : nat) : rmat :=
  match k with O => mid | S k' => frz (mscale (kdiv F (c1 F) (ofnat (S k'))) (mmul n L (tterm frz n L k'))) end.
Definition texp (frz : rmat -> rmat) (n : nat) (L : rmat) (N : nat) : rmat := fun i j =>
  sumn (S N) (fun k => tterm frz n L k i j).
(* the same in the computational basis (complex superoperators): powers and polynomials with REAL coefficients of L_cb *)
Fixpoint cmpow (n : nat) (L : cmat) (k : nat) : cmat :=
  match k with O => mid | S k' => mmul n L (cmpow n L k') end.
Definition cpoly_sum (n : nat) (c : nat -> F) (L : cmat) (N : nat) : cmat := fun i j =>
  sumn (S N) (fun k => zof (c k) *c cmpow n L k i j).
(* properties of the MAP a comp-basis superoperator denotes: Hermiticity preserving, trace annihilating *)
Definition hp_sup (d : nat) (M : cmat) : Prop :=
  forall (X : cmat) i j, (i < d)%nat -> (j < d)%nat -> zconj (apply_cb d M X j i) = apply_cb d M (cadj X) i j.
Definition ta_sup (d : nat) (M : cmat) : Prop := forall X : cmat, mtrace d (apply_cb d M X) = c0 Cx.
End C18.

Arguments ofnat {F} n. Arguments h_part {F} d H _ _. Arguments j_part {F} d J _ _. Arguments k_part {F} d B K _ _.
Arguments bhb {F} d B a b _ _. Arguments j_of_k {F} d B K _ _. Arguments tab_k {F} d B _ _. Arguments tab_j {F} d B _ _.
Arguments k_part_sparse {F} d B K _ _. Arguments j_of_k_sparse {F} d B K _ _.
Arguments lcb_hjk {F} d B H J K _ _. Arguments lcb_hk {F} d B H K _ _. Arguments lcb_h {F} d H _ _. Arguments lcb_k {F} d B K _ _.
Arguments msum {F} l _ _. Arguments jump_j {F} d cs _ _. Arguments jump_j_prefix {F} d cs _ _. Arguments jump_k {F} d cs _ _.
Arguments jump_d {F} d cs _ _. Arguments jump_d_prefix {F} d cs _ _.
Arguments jump_tl {F} d B g _ _. Arguments jump_op {F} d B a g _ _. Arguments jump_heff {F} a c' _ _. Arguments jump_K {F} g _ _.
Arguments jumps_ops {F} d B l. Arguments jumps_H {F} d B l _ _. Arguments jumps_K {F} l _ _.
Arguments Umat {F} d B _ _. Arguments chs_of_cb {F} d B L _ _. Arguments cb_of_chs {F} d B HS _ _. Arguments cb_of_hs {F} d B HS _ _.
Arguments tr2 {F} d X Y. Arguments probe_m {F} d Ba _ _. Arguments probe_p {F} d Ba _ _.
Arguments h_coef {F} d B L a. Arguments calc_h_mat {F} d B L _ _. Arguments j_coef {F} d B L a. Arguments calc_j_mat {F} d B L _ _.
Arguments j_coef_prefix {F} d B L a. Arguments calc_j_mat_prefix {F} d B L _ _. Arguments calc_k_mat {F} d B L _ _.
Arguments rebuild_cb {F} d B L _ _. Arguments rebuild_cb_prefix {F} d B L _ _. Arguments gksl {F} d B H K rho _ _. Arguments gksl_jump {F} d cs rho _ _.
Arguments apply_cb {F} d L rho _ _. Arguments proj_eq {F} HS _ _. Arguments proj_ineq_cb {F} d B L K' _ _. Arguments clip_neg {F} l. Arguments diag_of {F} l _ _. Arguments proj_ineq_kmat {F} d l V _ _. Arguments herm_part {F} K _ _.
Arguments cmpow {F} n L k _ _. Arguments cpoly_sum {F} n c L N _ _. Arguments hp_sup {F} d M. Arguments ta_sup {F} d M.
Arguments mpow {F} n L k _ _. Arguments poly_sum {F} n c L N _ _. Arguments tterm {F} frz n L k _ _. Arguments texp {F} frz n L N _ _.
