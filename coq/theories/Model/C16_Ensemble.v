(* C16 — list bookkeeping of operators._compose_qoperations_MProcess_StateEnsemble (definitions only).
   An ensemble is the row-major list of its (probability, state) entries together with its shape.  Measuring it with an
   instrument of outcome shape [mshape] (M = product of mshape outcomes) replaces every old entry, in order, by the block of
   its M post-measurement entries:
       for state_old, prob in zip(elem2.states, elem2.prob_dist):
           states_local, ps_local = _compose_qoperations_MProcess_State_for_States(elem1, state_old, prob)
           states.extend(states_local); ps.extend(ps_local)
       shape = elem2.prob_dist.shape + elem1.shape
   [meas] stands for _compose_qoperations_MProcess_State_for_States (one block per old entry); its VALUES are compared with the
   Born rule by the harness, here only its length matters. *)
From Coq Require Import List Arith.
From QV.Model Require Import Multinomial.
Import ListNotations.

Section Ens.
Context {E : Type}.          (* one entry: (probability, state) *)
Definition measure_all (meas : E -> list E) (old : list E) : list E := flat_map meas old.
Definition measured_shape (old_shape mshape : list nat) : list nat := old_shape ++ mshape.
(* the ensemble after a sequence of measurements (earliest first), starting from a single entry *)
Fixpoint measure_chain (chain : list ((E -> list E) * list nat)) (entries : list E) (shape : list nat) : list E * list nat :=
  match chain with
  | [] => (entries, shape)
  | (meas, mshape) :: rest => measure_chain rest (measure_all meas entries) (measured_shape shape mshape)
  end.
End Ens.
