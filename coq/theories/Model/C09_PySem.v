(* C09 — target vocabulary of the translator gen/c09_py2coq.py (definitions only).

   The translator turns the PURE GLUE of the linear estimator — StandardQTomography.is_fullrank_matA,
   LinearEstimator.calc_estimate_sequence, LinearEstimator.calc_estimate, the result accessors estimated_var /
   estimated_var_sequence — from the current Python source into Gallina terms over the combinators below: an exception
   monad, the loop combinator, and HAND-WRITTEN semantics of the numpy operations and of the tomography object's two
   data methods.  What is regenerated is the control and data flow (which guard is called and negated, which exception is
   raised, which operands go into which product in which order, which component of the (count, distribution) pairs is
   used, how the blocks are stacked, what is appended to what, what is returned); what stays a model is the meaning
   of each numpy primitive (np.linalg.inv := the certified solve step, np.linalg.matrix_rank := exact pivot count). *)
From Coq Require Import Arith List Bool ZArith.
From QV.Core Require Import OF Sums Mat.
From QV.Model Require Import C09_LinEst.
Import ListNotations.

Section PySem.
Context (F : OF).

(* ------------------------------------------------------------------ exceptions and sequencing *)
Inductive pyexn := ExException | ExLinAlgError | ExValueErrorStack | ExValueErrorShape | ExIndexError | ExInternal.
Inductive py (T : Type) := PyOk (v : T) | PyRaise (e : pyexn).
Arguments PyOk {T} v. Arguments PyRaise {T} e.
Definition py_ret {T} (v : T) : py T := PyOk v.
Definition py_bind {T U} (x : py T) (f : T -> py U) : py U := match x with PyOk v => f v | PyRaise e => PyRaise e end.
(* for x in l: s = body(x, s)   (an exception in the body ends the loop) *)
Fixpoint py_for {X S} (l : list X) (s : S) (body : X -> S -> py S) : py S :=
  match l with
  | [] => PyOk s
  | x :: rest => py_bind (body x s) (fun s' => py_for rest s' body)
  end.

(* ------------------------------------------------------------------ values *)
Record arr2 := mkArr2 { a_rows : nat; a_cols : nat; a_dat : @mat F }.                (* 2-d ndarray *)
Record qtomo := mkQt { qt_m : nat; qt_n : nat; qt_A : @mat F; qt_b : list F }.       (* what the estimator uses of a tomography *)
Record est_result := mkResult { r_vars : list (list F) }.   (* LinearEstimationResult: its _estimated_var_sequence (computation
                                                               times and the template object are not modelled) *)

(* ------------------------------------------------------------------ the tomography object's data methods *)
Definition qt_calc_matA (q : qtomo) : arr2 := mkArr2 (qt_m q) (qt_n q) (qt_A q).
Definition qt_calc_vecB (q : qtomo) : list F := qt_b q.

(* ------------------------------------------------------------------ numpy *)
Definition np_matrix_rank (a : arr2) : nat := rank_of (a_rows a) (a_cols a) (a_dat a).
Definition np_shape0 (a : arr2) : nat := a_rows a.
Definition np_shape1 (a : arr2) : nat := a_cols a.
Definition np_min_shape (a : arr2) : nat := Nat.min (a_rows a) (a_cols a).
Definition np_T (a : arr2) : arr2 := mkArr2 (a_cols a) (a_rows a) (mT (a_dat a)).
Definition np_matmul (a b : arr2) : py arr2 :=
  if Nat.eqb (a_cols a) (a_rows b) then PyOk (mkArr2 (a_rows a) (a_cols b) (mmul (a_cols a) (a_dat a) (a_dat b)))
  else PyRaise ExValueErrorShape.
Definition np_inv (a : arr2) : py arr2 :=
  if negb (Nat.eqb (a_rows a) (a_cols a)) then PyRaise ExLinAlgError
  else match solve_g (a_rows a) (mfrz (a_rows a) (a_rows a) (a_dat a)) with
       | S_inv M => PyOk (mkArr2 (a_rows a) (a_rows a) M)
       | S_ker _ => PyRaise ExLinAlgError
       | S_fail => PyRaise ExInternal
       end.
Definition np_hstack (l : list (list F)) : py (list F) :=
  match hstack l with Some f => PyOk f | None => PyRaise ExValueErrorStack end.
Definition np_vstack_flatten (l : list (list F)) : py (list F) :=
  match vstack_flatten l with Some f => PyOk f | None => PyRaise ExValueErrorStack end.
Fixpoint vsub_list (f b : list F) : list F :=
  match f, b with x :: f', y :: b' => csub F x y :: vsub_list f' b' | _, _ => [] end.
(* f - b on 1-d arrays of equal length (numpy's broadcasting of one-entry arrays is not modelled) *)
Definition np_vsub (f b : list F) : py (list F) :=
  if Nat.eqb (length f) (length b) then PyOk (vsub_list f b) else PyRaise ExValueErrorShape.
Definition np_matvec (a : arr2) (v : list F) : py (list F) :=
  if Nat.eqb (a_cols a) (length v) then PyOk (lvec (a_rows a) (mv (a_cols a) (a_dat a) (vofl v)))
  else PyRaise ExValueErrorShape.
(* l[0] *)
Definition py_getitem0 {T} (l : list T) : py T := match l with x :: _ => PyOk x | [] => PyRaise ExIndexError end.

(* ------------------------------------------------------------------ the hand-written model in the same vocabulary *)
Definition py_of_eres (r : eres F) : py est_result :=
  match r with
  | E_ok xs => PyOk (mkResult xs)
  | E_guard => PyRaise ExException
  | E_singular => PyRaise ExLinAlgError
  | E_stack => PyRaise ExValueErrorStack
  | E_shape => PyRaise ExValueErrorShape
  | E_internal => PyRaise ExInternal
  end.
Definition qt_wf (q : qtomo) : Prop := length (qt_b q) = qt_m q.       (* vecB has one entry per row of matA *)
End PySem.

Arguments PyOk {T} v. Arguments PyRaise {T} e. Arguments py_ret {T} v. Arguments py_bind {T U} x f.
Arguments py_for {X S} l s body. Arguments py_getitem0 {T} l.
Arguments mkArr2 {F} a_rows a_cols a_dat. Arguments a_rows {F} a. Arguments a_cols {F} a. Arguments a_dat {F} a _ _.
Arguments mkQt {F} qt_m qt_n qt_A qt_b. Arguments qt_m {F} q. Arguments qt_n {F} q. Arguments qt_A {F} q _ _. Arguments qt_b {F} q.
Arguments mkResult {F} r_vars. Arguments r_vars {F} e.
Arguments qt_calc_matA {F} q. Arguments qt_calc_vecB {F} q. Arguments np_matrix_rank {F} a.
Arguments np_shape0 {F} a. Arguments np_shape1 {F} a. Arguments np_min_shape {F} a. Arguments np_T {F} a.
Arguments np_matmul {F} a b. Arguments np_inv {F} a. Arguments np_hstack {F} l. Arguments np_vstack_flatten {F} l.
Arguments vsub_list {F} f b. Arguments np_vsub {F} f b. Arguments np_matvec {F} a v.
Arguments py_of_eres {F} r. Arguments qt_wf {F} q.
