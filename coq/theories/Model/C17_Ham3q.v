(* C17 — Hamiltonians of the 3-qubit catalogue gates as sums of Pauli strings in ROLE order (definitions only).
   gate_typical.generate_gate_toffoli_hamiltonian_mat:  H = (pi/8) (-III + IIX + IZI - IZX + ZII - ZIX - ZZI + ZZX), roles (control, control, target)
   gate_typical.generate_gate_fredkin_hamiltonian_mat:  H = (pi/8) (-III + IXX + IYY + IZZ + ZII - ZXX - ZYY - ZZZ), roles (control, swapped, swapped)
   "ids[k] is for role k": each role string is re-ordered by permute_fixed (Model/C17_Permute.v) and read as a base-4 number, the index into
   the 3-qubit Pauli basis (table basis_tbl 2 3 2).  TRUSTED SPEC: the two lists of signed role strings. *)
From Coq Require Import String Ascii List ZArith Arith Bool.
From QV.Core Require Import OF Sums Mat C17_Z8.
From QV.Model Require Import C17_Tables C17_Permute C17_PySem.
Import ListNotations.

(* Pauli letters: i 0, x 1, y 2, z 3 *)
Definition toffoli_roles : list (Z * list nat) :=
  [((-1)%Z, [0;0;0]%nat); ((1)%Z, [0;0;1]%nat); ((1)%Z, [0;3;0]%nat); ((-1)%Z, [0;3;1]%nat); ((1)%Z, [3;0;0]%nat); ((-1)%Z, [3;0;1]%nat); ((-1)%Z, [3;3;0]%nat); ((1)%Z, [3;3;1]%nat)].
Definition fredkin_roles : list (Z * list nat) :=
  [((-1)%Z, [0;0;0]%nat); ((1)%Z, [0;1;1]%nat); ((1)%Z, [0;2;2]%nat); ((1)%Z, [0;3;3]%nat); ((1)%Z, [3;0;0]%nat); ((-1)%Z, [3;1;1]%nat); ((-1)%Z, [3;2;2]%nat); ((-1)%Z, [3;3;3]%nat)].
Definition roles3q (k : nat) := match k with O => toffoli_roles | _ => fredkin_roles end.
Definition base4 (l : list nat) : nat := fold_left (fun acc d => (4 * acc + d)%nat) l 0%nat.
(* (sign, index into the 3-qubit Pauli basis) for gate k (0 toffoli, 1 fredkin) with the given ids *)
Definition ham3q_terms (k : nat) (ids : list nat) : list (Z * nat) := map (fun t => (fst t, base4 (permute_fixed ids (snd t)))) (roles3q k).
(* M = 8 H / pi as a matrix over Z8 *)
Definition pauli3 (i : nat) : zmat := te_m (nth i (basis_tbl 2 3 2) (mkE zI 1 1)).
Definition ham3q (k : nat) (ids : list nat) : zmat :=
  fold_left (fun acc t => zplus acc (zsc (z8z (fst t)) (pauli3 (snd t)))) (ham3q_terms k ids) (fun _ _ => z8_0).
(* the formal Hamiltonian the translated code must produce: coefficient sign * pi / 8, atom "pauli3:<index>" *)
Definition expected_ham3q (k : nat) (ids : list nat) : list fterm :=
  map (fun t => (qpi (fst t) 8, [String.append "pauli3:" (nat_string (snd t))])) (ham3q_terms k ids).
