(* C03 — model of SetQOperations (quara/objects/qoperations.py): the offsets of the operations'
   variable vectors inside var_total, as segment arithmetic over an arbitrary family of segment sizes
   (definitions only).  Order inside var_total: states, gates, povms, mprocesses (var_total, line 246). *)
From Coq Require Import ZArith Bool List Arith.
From QV.Core Require Import OF.
From QV.Model Require Import C03_VarObj.
Import ListNotations.
Local Open Scope Z_scope.

Inductive kind := KState | KGate | KPovm | KMproc.
Definition kind_eqb (a b : kind) : bool :=
  match a, b with KState, KState | KGate, KGate | KPovm, KPovm | KMproc, KMproc => true | _, _ => false end.

(* [s k] = the list  [size_var_<k>(0); size_var_<k>(1); ...]  *)
Definition sizes := kind -> list Z.
Definition sumz (l : list Z) : Z := fold_right Z.add 0 l.
Definition size_kind (s : sizes) (k : kind) : Z := sumz (s k).
(* _get_operation_mode_to_total_index_map *)
Definition first_index (s : sizes) (k : kind) : Z :=
  match k with
  | KState => 0
  | KGate => size_kind s KState
  | KPovm => size_kind s KState + size_kind s KGate
  | KMproc => size_kind s KState + size_kind s KGate + size_kind s KPovm
  end.
Definition size_total (s : sizes) : Z :=
  size_kind s KState + size_kind s KGate + size_kind s KPovm + size_kind s KMproc.

(* _get_operation_item_var_first_index:  for i in range(index): total += size(i)
   (range of a negative number is empty; size(i) raises IndexError for i >= len) *)
Definition item_first_index (l : list Z) (i : Z) : option Z :=
  if i <=? Z.of_nat (length l) then Some (sumz (firstn (Z.to_nat i) l)) else None.
(* index_var_total_from_local_info (no range check on index_var_local in the code) *)
Definition total_from_local (s : sizes) (k : kind) (i j : Z) : option Z :=
  option_map (fun o => first_index s k + o + j) (item_first_index (s k) i).

(* _get_mode_from_index_var_total *)
Definition mode_of_total (s : sizes) (t : Z) : option kind :=
  if (0 <=? t) && (t <? first_index s KGate) then Some KState
  else if (first_index s KGate <=? t) && (t <? first_index s KPovm) then Some KGate
  else if (first_index s KPovm <=? t) && (t <? first_index s KMproc) then Some KPovm
  else if (first_index s KMproc <=? t) && (t <? size_total s) then Some KMproc
  else None.
(* the loop of local_info_from_index_var_total: it does not stop at the first hit, a later hit overwrites *)
Definition locate_step (mid : Z) (st : Z * Z * option (Z * Z)) (size : Z) : Z * Z * option (Z * Z) :=
  let '(first, i, res) := st in
  (first + size, i + 1, if (first <=? mid) && (mid <? first + size) then Some (i, mid - first) else res).
Definition locate (l : list Z) (mid : Z) : option (Z * Z) :=
  snd (fold_left (locate_step mid) l (0, 0, None)).
Inductive lres := LOk (k : kind) (i j : Z) | LIndexError | LUnbound.
Definition local_from_total (s : sizes) (t : Z) : lres :=
  match mode_of_total s t with
  | None => LIndexError
  | Some k => match locate (s k) (t - first_index s k) with
              | Some (i, j) => LOk k i j
              | None => LUnbound        (* index_operations referenced before assignment *)
              end
  end.

(* ------------------------------------------------------------------ with the objects *)
Section Objs.
Context (F : OF).
Record setq := { sq_states : list (qop F); sq_gates : list (qop F); sq_povms : list (qop F); sq_mprocs : list (qop F) }.
Definition ops_of (s : setq) (k : kind) : list (qop F) :=
  match k with KState => sq_states s | KGate => sq_gates s | KPovm => sq_povms s | KMproc => sq_mprocs s end.
Definition sizes_of (s : setq) : sizes := fun k => map (fun o => Z.of_nat (length (qop_to_var F o))) (ops_of s k).
Definition var_kind (l : list (qop F)) : list F := concat (map (qop_to_var F) l).
Definition var_total (s : setq) : list F :=
  var_kind (sq_states s) ++ var_kind (sq_gates s) ++ var_kind (sq_povms s) ++ var_kind (sq_mprocs s).
(* _all_qoperations *)
Definition all_qops (s : setq) : list (qop F) := sq_states s ++ sq_gates s ++ sq_povms s ++ sq_mprocs s.

(* set_qoperations_from_var_total: walk over the operations, cut  var_total[start:end]  with
   end = start + len(op.to_var()), regenerate each operation from its slice.  The slices are consumed
   front to back, so  var_total[start:end] = firstn len (skipn start var_total). *)
Fixpoint regen (sdf : nat -> F) (ops : list (qop F)) (v : list F) : option (list (qop F) * list F) :=
  match ops with
  | [] => Some ([], v)
  | o :: t =>
      let n := length (qop_to_var F o) in
      match qop_from_var F sdf o (firstn n v) with
      | None => None
      | Some o' => match regen sdf t (skipn n v) with
                   | None => None
                   | Some (t', rest) => Some (o' :: t', rest)
                   end
      end
  end.
(* None = ValueError (wrong length) or an error raised while regenerating an operation *)
Definition set_from_var_total (sdf : nat -> F) (s : setq) (v : list F) : option setq :=
  if Nat.eqb (length v) (length (var_total s)) then
    match regen sdf (sq_states s) v with None => None | Some (a, v1) =>
    match regen sdf (sq_gates s) v1 with None => None | Some (b, v2) =>
    match regen sdf (sq_povms s) v2 with None => None | Some (c, v3) =>
    match regen sdf (sq_mprocs s) v3 with None => None | Some (e, _) =>
      Some (Build_setq a b c e) end end end end
  else None.
Definition setq_wf (s : setq) : Prop := forall k, Forall (qop_wf F) (ops_of s k).
End Objs.
