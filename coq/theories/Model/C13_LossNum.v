(* C13 - the concrete numerical instance of the abstract loss machine of Model/C13_Loss.v
   (definitions only): weighted probability-based squared error of a standard tomography
   p(var) = A var + b  against empirical distributions q, and the inverse-covariance weights of
   WeightedProbabilityBasedSquaredError._set_weights_by_mode for two-outcome measurements
   (for more outcomes the implementation raises, DESIGN 4 #11; that is C12's subject).
   N**(3/2) is irrational in general and is a parameter of the dataset ([ds_n32]). *)
From Coq Require Import List Arith Bool.
From QV.Core Require Import OF.
Import ListNotations.

Section Num.
Context (F : OF).
Notation "0" := (c0 F). Notation "1" := (c1 F).
Infix "+" := (cadd F). Infix "*" := (cmul F). Infix "-" := (csub F). Infix "/" := (kdiv F).

Definition ltbF (x y : F) : bool := negb (kleb F y x).
Fixpoint fnatn (n : nat) : F := match n with O => 0 | S k => fnatn k + 1 end.
Definition dotl (a b : list F) : F := fold_left (fun acc p => acc + fst p * snd p) (combine a b) 0.
Definition mvl (M : list (list F)) (x : list F) : list F := map (fun row => dotl row x) M.
Fixpoint blocks (m k : nat) (l : list F) : list (list F) :=
  match k with O => [] | S k' => firstn m l :: blocks m k' (skipn m l) end.

Record dataset := {
  ds_m : nat;                 (* outcomes per schedule (all equal) *)
  ds_A : list (list F);       (* matA, one row per (schedule, outcome) *)
  ds_b : list F;              (* vecB *)
  ds_q : list F;              (* empirical distributions, flat *)
  ds_N : list F;              (* number of data per schedule *)
  ds_n32 : list F }.          (* N ** (3/2) per schedule, as computed by the implementation *)
Definition weights := list (list (list F)).   (* one m x m matrix per schedule *)

Definition nsched (d : dataset) : nat := length (ds_N d).
Definition probs (d : dataset) (var : list F) : list F :=
  map (fun rb => dotl (fst rb) var + snd rb) (combine (ds_A d) (ds_b d)).
Definition resid (d : dataset) (var : list F) : list F :=
  map (fun pq => fst pq - snd pq) (combine (probs d var) (ds_q d)).
(* the block-diagonal matrix applied to the residual *)
Definition wapply (d : dataset) (w : option weights) (r : list F) : list F :=
  match w with
  | None => r
  | Some ws => concat (map (fun Wr => mvl (fst Wr) (snd Wr)) (combine ws (blocks (ds_m d) (nsched d) r)))
  end.
Definition loss_value (d : dataset) (w : option weights) (var : list F) : F :=
  let r := resid d var in dotl r (wapply d w r).
(* 2 A^T W r *)
Definition loss_gradient (d : dataset) (w : option weights) (var : list F) : list F :=
  let wr := wapply d w (resid d var) in
  map (fun j => (1 + 1) * dotl (map (fun row => nth j row 0) (ds_A d)) wr) (seq 0 (length var)).

(* matrix_util.replace_prob_dist(q, eps=1e-8) *)
Definition replace_prob_dist (eps : F) (q : list F) : list F :=
  let cnt := length (filter (fun p => ltbF p eps) q) in
  map (fun p => if ltbF p eps then eps else p - (eps * fnatn cnt) / fnatn (length q - cnt)) q.

(* inverse covariance weight of one two-outcome distribution:
   cov = (diag(q) - q q^T) / n, extracted = cov[0,0] + 1 / N**(3/2), W = [[1/extracted, 0],[0, 0]];
   n = N (sample) or N - 1 (unbiased) *)
Definition invw2 (eps : F) (unbiased : bool) (N n32 : F) (q : list F) : list (list F) :=
  let q' := replace_prob_dist eps q in
  let q0 := nth 0 q' 0 in
  let n := if unbiased then N - 1 else N in
  let ex := (q0 - q0 * q0) / n + 1 / n32 in
  [[1 / ex; 0]; [0; 0]].
Definition invw (eps : F) (unbiased : bool) (d : dataset) : weights :=
  map (fun t => invw2 eps unbiased (fst (fst t)) (snd (fst t)) (snd t))
      (combine (combine (ds_N d) (ds_n32 d)) (blocks (ds_m d) (nsched d) (ds_q d))).

(* the observation used for the abstract machine: value and gradient at a point *)
Definition observe (var : list F) (d : dataset) (w : option weights) : list F :=
  loss_value d w var :: loss_gradient d w var.
End Num.
