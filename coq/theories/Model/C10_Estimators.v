(* C10 — constrained estimators (definitions only).
   Models, generic in the ordered field [F], of
     - ProjectedGradientDescent.set_constraint_from_standard_qt_and_option      (choice of the projection)
     - QOperation.calc_proj_physical / calc_proj_physical_with_var              (Dykstra loop, minimal: C05 owns the full model)
     - LinearEstimator / ProjectedLinearEstimator.calc_estimate_sequence         (x = M A^T (f - b), then proj_physical)
     - ProjectedGradientDescentBacktracking.optimize / _is_doing_for_alpha
     - ProjectedGradientDescentWithMomentum.optimize
     - ProjectedFastIterativeShrinkageThresholdingAlgorithm.optimize
     - QOperation.generate_origin_obj  (State / Povm / Gate / MProcess)
   Projections onto the inequality set (eigh), the loss function, its gradient, the stopping rule (np.sqrt in two of
   its modes) and ceil(log10 .) are ORACLES: section variables.  Vectors are functions nat -> F with an explicit length. *)
From Coq Require Import Arith List Bool ZArith.
From QV.Core Require Import OF Sums Mat.
Import ListNotations.

(* ------------------------------------------------------------------ 1. which projection is used *)
Inductive C10_kind := KPhysical | KEq | KIneq | KIdentity.
Inductive C10_order := EqIneq | IneqEq.
(* settings carried by qt.generate_empty_estimation_obj_with_setting_info() *)
Record C10_template := { t_on_para : bool; t_order : C10_order }.
(* the fields of ProjectedGradientDescentOption that set_constraint_... reads *)
Record C10_option := { o_eq : bool; o_ineq : bool; o_order : C10_order; o_maxit_proj : Z }.
(* what the closure stored in algo._func_proj will do *)
Record C10_desc := { d_kind : C10_kind; d_on_para : bool; d_order : C10_order; d_maxit : Z }.

Definition C10_kind_of_flags (on_eq on_ineq : bool) : C10_kind :=
  match on_eq, on_ineq with
  | true, true => KPhysical | true, false => KEq | false, true => KIneq | false, false => KIdentity end.

(* [cached] : a projection the algorithm object already holds and KEEPS (see [C10_configure] below for which ones are kept).
   The closure built by func_calc_proj_physical_with_var(on_para_eq_constraint, mode_proj_order, max_iteration) runs the
   Dykstra loop in the order it is GIVEN, i.e. the option's order [o_order]  — this is the code with the repair
   /verif/fixes/qoperation-func-proj-physical-with-var-order.diff (qoperation.py: the closure calls
   calc_proj_physical_with_var on a copy of the template whose mode_proj_order is set from the argument). *)
Definition C10_select (cached : option C10_desc) (t : C10_template) (o : C10_option) : C10_desc :=
  match cached with
  | Some d => d
  | None => {| d_kind := C10_kind_of_flags (o_eq o) (o_ineq o); d_on_para := t_on_para t;
               d_order := o_order o; d_maxit := o_maxit_proj o |}
  end.

(* AS CODED BEFORE FIX qoperation-func-proj-physical-with-var-order (qoperation.py:1114-1131 of the pinned tree): the closure
   called self.calc_proj_physical_with_var, which reads self.mode_proj_order — the TEMPLATE's order (always "eq_ineq": the
   Standard* tomography constructors have no such argument); the option's order was dropped.  Not used by the harness
   except to name the failure class when the implementation behaves like this again. *)
Definition C10_select_before_fix (cached : option C10_desc) (t : C10_template) (o : C10_option) : C10_desc :=
  match cached with
  | Some d => d
  | None => {| d_kind := C10_kind_of_flags (o_eq o) (o_ineq o); d_on_para := t_on_para t;
               d_order := t_order t; d_maxit := o_maxit_proj o |}
  end.

(* ---- the algorithm object across successive configurations (LossMinimizationEstimator calls set_constraint_... once per job and
   algorithm objects are re-used).  This is the code WITH the repair /verif/fixes/pgd-cached-func-proj.diff (owner C13):
   a projection handed to the constructor ([a_given]) is kept for every configuration; a projection derived from (qt, option)
   ([a_derived]) is rebuilt on every configuration. *)
Record C10_algo := { a_given : option C10_desc; a_derived : option C10_desc }.
Definition C10_installed (a : C10_algo) : option C10_desc :=
  match a_given a with Some d => Some d | None => a_derived a end.
Definition C10_configure (a : C10_algo) (c : C10_template * C10_option) : C10_algo :=
  match a_given a with
  | Some _ => a
  | None => {| a_given := None; a_derived := Some (C10_select None (fst c) (snd c)) |}
  end.
(* AS CODED BEFORE FIX pgd-cached-func-proj ("if self._func_proj is not None: return"): whatever is installed is kept, also a
   projection derived for an earlier job *)
Definition C10_configure_before_fix (a : C10_algo) (c : C10_template * C10_option) : C10_algo :=
  match C10_installed a with
  | Some _ => a
  | None => {| a_given := None; a_derived := Some (C10_select None (fst c) (snd c)) |}
  end.

Section Apply.
Context {V : Type}.
Context (Pphys : C10_order -> bool -> Z -> V -> V) (Peq Pineq : bool -> V -> V).
Definition C10_apply (d : C10_desc) : V -> V :=
  match d_kind d with
  | KPhysical => Pphys (d_order d) (d_on_para d) (d_maxit d)
  | KEq => Peq (d_on_para d)
  | KIneq => Pineq (d_on_para d)
  | KIdentity => fun x => x            (* func_proj.proj_to_self() *)
  end.
End Apply.

Section Num.
Context (F : OF).
Notation "0" := (c0 F). Notation "1" := (c1 F).
Infix "+" := (cadd F). Infix "*" := (cmul F). Infix "-" := (csub F). Infix "/" := (kdiv F).
Notation vec := (@vec F).
Notation mat := (@mat F).

Fixpoint C10_ofnat (k : nat) : F := match k with O => 0 | S j => C10_ofnat j + 1 end.
Definition C10_two : F := 1 + 1.
Definition C10_half : F := 1 / C10_two.
(* strict comparison a < b as computed by the code (float >, <) *)
Definition C10_ltb (a b : F) : bool := negb (kleb F b a).

(* vocabulary of the loop skeletons as written in the three optimize methods (used by the REGENERATED text, gen/c10_py2coq.py) *)
Inductive C10_mode := C10_SingleDiffLoss | C10_SumAbsDiffLoss | C10_SumAbsDiffVar | C10_SumAbsDiffProjGrad.   (* mode_stopping_criterion_gradient_descent *)
Definition C10_absF (a : F) : F := if kleb F 0 a then a else 0 - a.                    (* np.abs *)
Definition C10_vdiv (x : vec) (c : F) : vec := fun i => x i / c.                         (* x / c *)
Definition C10_nrm2 (n : nat) (x : vec) : F := dot n x x.                                (* np.sum(x ** 2) *)
Definition C10_lsum (l : list F) : F := fold_right (cadd F) 0 l.                         (* np.sum of a list of scalars *)

(* the stopping rule shared by the three optimize methods: error value of the iteration by mode ([aux] = y_prev in backtracking,
   x_next in momentum / FISTA — as coded), appended to the list (newest first here), window sum over the last h values, continue iff
   the sum is > eps.  [sq] = np.sqrt (oracle) *)
Definition C10_err_value (sq : F -> F) (n : nat) (f : vec -> F) (mode : C10_mode) (xp xn aux : vec) : F :=
  match mode with
  | C10_SingleDiffLoss => f xp - f xn
  | C10_SumAbsDiffLoss => C10_absF (f xp - f xn)
  | C10_SumAbsDiffVar => sq (C10_nrm2 n (vsub xp xn))
  | C10_SumAbsDiffProjGrad => sq (C10_nrm2 n aux)
  end.
Definition C10_continue (h : nat) (eps : F) (errs : list F) : bool := negb (kleb F (C10_lsum (firstn h errs)) eps).

(* ------------------------------------------------------------------ 2. calc_proj_physical (Dykstra), minimal *)
Section Dykstra.
Context (n : nat) (PA PB : vec -> vec) (eps : F).
Definition C10_dstate := (vec * vec * vec)%type.          (* x, p, q *)
Definition C10_dyk_step (s : C10_dstate) : C10_dstate :=
  let '(x, p, q) := s in
  let y' := PA (vadd x p) in let p' := vsub (vadd x p) y' in
  let x' := PB (vadd y' q) in let q' := vsub (vadd y' q) x' in (x', p', q').
(* _calc_stopping_criterion_birgin_raydan2_vectors *)
Definition C10_dyk_err (s s' : C10_dstate) : F :=
  let '(_, p, q) := s in let '(_, p', q') := s' in
  sumn n (fun i => (p i - p' i) * (p i - p' i) + (q i - q' i) * (q i - q' i)).
(* for k in range(max_iteration): ...; if k >= 1: is_stopping = err < eps; if is_stopping: break *)
Fixpoint C10_dyk_loop (fuel k : nat) (s : C10_dstate) : C10_dstate :=
  match fuel with
  | O => s
  | S f => let s' := C10_dyk_step s in
           if (1 <=? k)%nat && C10_ltb (C10_dyk_err s s') eps then s' else C10_dyk_loop f (S k) s'
  end.
(* max_iteration = 0: the code fails (k is unbound after the loop) -> None; otherwise the last x_next *)
Definition C10_dyk_run (maxit : nat) (x0 : vec) : option vec :=
  match maxit with
  | O => None
  | S _ => Some (fst (fst (C10_dyk_loop maxit 0 (x0, vzero, vzero))))
  end.
End Dykstra.

Definition C10_proj_physical (n : nat) (Peq Pineq : vec -> vec) (eps : F) (order : C10_order) (maxit : nat) (x0 : vec)
  : option vec :=
  match order with
  | EqIneq => C10_dyk_run n Peq Pineq eps maxit x0
  | IneqEq => C10_dyk_run n Pineq Peq eps maxit x0
  end.
(* variable level: convert_var_to_stacked_vector, loop on stacked vectors, convert_stacked_vector_to_var *)
Definition C10_proj_physical_with_var (n : nat) (to_stacked to_var : vec -> vec) (Peq Pineq : vec -> vec) (eps : F)
  (order : C10_order) (maxit : nat) (v : vec) : option vec :=
  option_map to_var (C10_proj_physical n Peq Pineq eps order maxit (to_stacked v)).

(* the closure installed for (eq on, ineq on), acting on stacked vectors (on_para_eq_constraint=False: variables = stacked
   vector), made total: calc_proj_physical_with_var fails only for max_iteration = 0 (then: the argument) *)
Definition C10_phys_total (n : nat) (Peq Pineq : vec -> vec) (eps : F) (order : C10_order) (maxit : nat) : vec -> vec :=
  fun v => match C10_proj_physical n Peq Pineq eps order maxit v with Some r => r | None => v end.
(* the projection applied LAST in a sweep of the given order *)
Definition C10_last_proj (Peq Pineq : vec -> vec) (order : C10_order) : vec -> vec :=
  match order with EqIneq => Pineq | IneqEq => Peq end.

(* ------------------------------------------------------------------ 3. linear / projected linear estimate *)
(* nv variables, nd data rows; A is nd x nv, M is nv x nv (the code's inverse of A^T A) *)
Definition C10_lin_est (nv nd : nat) (M A : mat) (b f : vec) : vec := mv nv M (mv nd (mT A) (vsub f b)).
(* ProjectedLinearEstimator: generate_from_var (to_stacked), set_mode_proj_order(order), calc_proj_physical, to_var *)
Definition C10_ple (n nv nd : nat) (to_stacked to_var : vec -> vec) (Peq Pineq : vec -> vec) (eps : F)
  (order : C10_order) (maxit : nat) (M A : mat) (b f : vec) : option vec :=
  option_map to_var (C10_proj_physical n Peq Pineq eps order maxit (to_stacked (C10_lin_est nv nd M A b f))).

(* ------------------------------------------------------------------ 4. the outer loop shared by the three algorithms *)
(* for k in range(1, max_iteration+1): x_next = step; error value; if not (value > eps): break.
   [stop] sees the iterate history (newest first): every error value of every mode is a function of it. *)
Section Loop.
Context {S : Type} (step : nat -> S -> S) (cur : S -> vec) (stop : list vec -> bool).
Fixpoint C10_loop (fuel k : nat) (s : S) (hist : list vec) : S * list vec :=
  match fuel with
  | O => (s, hist)
  | Datatypes.S f => let s' := step k s in let h' := cur s' :: hist in
           if stop h' then (s', h') else C10_loop f (Datatypes.S k) s' h'
  end.
(* the iterates without the stopping rule: step k, step (k+1), ... applied j times *)
Fixpoint C10_steps (j k : nat) (s : S) : S :=
  match j with O => s | Datatypes.S j' => C10_steps j' (Datatypes.S k) (step k s) end.
(* max_iteration = 0: the code fails (k unbound; x_next is None) -> None *)
Definition C10_run (maxit : nat) (s0 : S) : option (S * list vec) :=
  match maxit with O => None | Datatypes.S _ => Some (C10_loop maxit 1 s0 [cur s0]) end.
End Loop.

Section Algo.
Context (n : nat) (P : vec -> vec) (f : vec -> F) (g : vec -> vec).

(* ------------------------------------------------------------------ 4b. the code BEFORE the loops: start point and step parameter from the options *)
(* option values are [option F] (None = the Python None); Python truthiness of a float: not None and not 0.0.
   [vs] = len(algorithm_option.var_start) when a start point is given, [qt] = self._qt.num_variables when a tomography is set,
   [sqn] = np.sqrt on naturals (oracle).  Result None = the method raises. *)
(* the validation before the loops: optimize raises ValueError unless the loss provides values and gradients *)
Definition C10_precondition (on_value on_gradient : bool) : bool := on_value && on_gradient.
Definition C10_truthy (o : option F) : bool := match o with Some v => negb (keqb F v 0) | None => false end.
Definition C10_getF (o : option F) : F := match o with Some v => v | None => 0 end.
Definition C10_three : F := C10_two + 1.
Definition C10_ten : F := C10_ofnat 10.
(* x_prev: the option's var_start, else the origin object of the tomography (None: no tomography -> AttributeError) *)
Definition C10_start (var_start origin : option vec) : option vec := match var_start with Some v => Some v | None => origin end.
(* backtracking: mu = option's mu, else 3 / (2 sqrt(len(var_start))), else 3 / (2 sqrt(num_variables)) *)
Definition C10_bt_mu (sqn : nat -> F) (mu : option F) (vs qt : option nat) : option F :=
  if C10_truthy mu then Some (C10_getF mu)
  else match vs with Some l => Some (C10_three / (C10_two * sqn l))
       | None => match qt with Some m => Some (C10_three / (C10_two * sqn m)) | None => None end end.
(* momentum: gamma = 1 / (2 r sqrt(num_variables)), else with len(var_start); needs a truthy r *)
Definition C10_mom_gamma (sqn : nat -> F) (r : option F) (vs qt : option nat) : option F :=
  if C10_truthy r then
    match qt with Some m => Some (1 / (C10_two * C10_getF r * sqn m))
    | None => match vs with Some l => Some (1 / (C10_two * C10_getF r * sqn l)) | None => None end end
  else None.
(* FISTA: delta = option's delta (0.0 is neither truthy nor None: raises), else 1 / (10 sqrt(num_variables)), else with len(var_start) *)
Definition C10_fista_delta (sqn : nat -> F) (delta : option F) (vs qt : option nat) : option F :=
  match delta with
  | Some v => if negb (keqb F v 0) then Some v else None
  | None => match qt with Some m => Some (1 / (C10_ten * sqn m))
            | None => match vs with Some l => Some (1 / (C10_ten * sqn l)) | None => None end end
  end.

(* ------------------------------------------------------------------ 5. backtracking *)
Section BT.
Context (mu gamma : F) (afuel : nat).
(* y_prev = func_proj(x_prev - gradient(x_prev) / mu) - x_prev *)
Definition C10_bt_arg (x : vec) : vec := fun i => x i - g x i / mu.
Definition C10_bt_dir (x : vec) : vec := vsub (P (C10_bt_arg x)) x.
(* _is_doing_for_alpha: value(x + alpha*y) > value(x) + gamma*alpha*dot(y, gradient(x)) *)
Definition C10_armijo_fails (x y : vec) (a : F) : bool :=
  C10_ltb (f x + gamma * a * dot n y (g x)) (f (vadd x (vscale a y))).
(* alpha = 1.0; while fails: alpha = 0.5*alpha.  The code's loop is unbounded; the model has fuel and returns the
   current alpha when it runs out (in floats alpha underflows to 0 after 1075 halvings and the test then passes) *)
Fixpoint C10_alpha_search (fuel : nat) (x y : vec) (a : F) : F :=
  match fuel with
  | O => a
  | Datatypes.S k => if C10_armijo_fails x y a then C10_alpha_search k x y (C10_half * a) else a
  end.
Definition C10_bt_alpha (x : vec) : F := C10_alpha_search afuel x (C10_bt_dir x) 1.
(* x_next = x_prev + alpha * y_prev *)
Definition C10_bt_step (x : vec) : vec := vadd x (vscale (C10_bt_alpha x) (C10_bt_dir x)).
Definition C10_bt_run (stop : list vec -> bool) (maxit : nat) (x0 : vec) :=
  C10_run (fun _ => C10_bt_step) (fun x => x) stop maxit x0.
End BT.

(* ------------------------------------------------------------------ 6. momentum *)
Section Mom.
Context (gam z0 : F) (mag : F -> Z).      (* gam = 1/(2 r sqrt(num_var)); z0 = 0.95; mag = ceil(log10 .) : oracle *)
Record C10_mstate := { ms_x : vec; ms_m : vec; ms_zeta : F; ms_mag : Z }.
Definition C10_mom_step (s : C10_mstate) : C10_mstate :=
  let magn := mag (f (ms_x s)) in
  let zeta := if (magn <? ms_mag s)%Z then 1 - (1 - ms_zeta s) * z0 else ms_zeta s in
  let magp := if (magn <? ms_mag s)%Z then magn else ms_mag s in
  let m' := vsub (vscale zeta (ms_m s)) (vscale gam (g (ms_x s))) in
  {| ms_x := P (vadd (ms_x s) m'); ms_m := m'; ms_zeta := zeta; ms_mag := magp |}.
Definition C10_mom_init (x0 m0 : vec) : C10_mstate :=
  {| ms_x := x0; ms_m := m0; ms_zeta := z0; ms_mag := mag (f x0) |}.
Definition C10_mom_run (stop : list vec -> bool) (maxit : nat) (x0 m0 : vec) :=
  C10_run (fun _ => C10_mom_step) ms_x stop maxit (C10_mom_init x0 m0).
End Mom.

(* ------------------------------------------------------------------ 7. FISTA *)
Section Fista.
Context (delta : F).
(* state = (x_prev_prev, x_prev);  tmp = x_prev + (k-2)/(k+1)*(x_prev - x_prev_prev) - delta*gradient(x_prev) *)
Definition C10_fista_coef (k : nat) : F := (C10_ofnat k - C10_two) / (C10_ofnat k + 1).
Definition C10_fista_arg (k : nat) (xpp xp : vec) : vec :=
  fun i => xp i + C10_fista_coef k * (xp i - xpp i) - delta * g xp i.
Definition C10_fista_step (k : nat) (s : vec * vec) : vec * vec :=
  let '(xpp, xp) := s in (xp, P (C10_fista_arg k xpp xp)).
Definition C10_fista_run (stop : list vec -> bool) (maxit : nat) (x0 : vec) :=
  C10_run C10_fista_step snd stop maxit (x0, x0).
End Fista.
End Algo.

(* ------------------------------------------------------------------ 8. origin objects (start point), stacked vectors *)
Inductive C10_qtype := TState | TPovm | TGate | TMProcess.
(* d2 = dim^2, m = number of POVM elements / instrument elements, sd = sqrt(dim) (parameter) *)
Definition C10_origin (ty : C10_qtype) (d2 m : nat) (sd : F) : vec :=
  match ty with
  | TState => fun i => if (i =? 0)%nat then 1 / sd else 0
  | TPovm => fun i => if ((i mod d2) =? 0)%nat then sd / C10_ofnat m else 0
  | TGate => fun i => if (i =? 0)%nat then 1 else 0
  | TMProcess => fun i => if ((i mod (d2 * d2)) =? 0)%nat then 1 / C10_ofnat m else 0
  end.
Definition C10_origin_len (ty : C10_qtype) (d2 m : nat) : nat :=
  match ty with TState => d2 | TPovm => m * d2 | TGate => d2 * d2 | TMProcess => m * (d2 * d2) end.
Definition C10_delta0 (b : nat) : F := if (b =? 0)%nat then 1 else 0.
(* the equality constraints on stacked vectors (trace one / sum = identity / trace preserving / sum trace preserving),
   w.r.t. an orthonormal basis with B_0 = I/sd *)
Definition C10_eq_constraint (ty : C10_qtype) (d2 m : nat) (sd : F) (v : vec) : Prop :=
  match ty with
  | TState => v 0%nat = 1 / sd
  | TPovm => forall a, (a < d2)%nat -> sumn m (fun x => v (x * d2 + a)%nat) = sd * C10_delta0 a
  | TGate => forall b, (b < d2)%nat -> v b = C10_delta0 b
  | TMProcess => forall b, (b < d2)%nat -> sumn m (fun x => v (x * (d2 * d2) + b)%nat) = C10_delta0 b
  end.

(* ------------------------------------------------------------------ 8b. variable-level inequality projection *)
(* QOperation.func_calc_proj_ineq_constraint_with_var: variables -> object -> clip negative eigenvalues -> variables.
   With on_para_eq_constraint=True [to_var] drops the component fixed by the equality constraint and [to_stacked]
   re-inserts its nominal value.  (Installed for the flags (eq off, ineq on) — a configuration with one of the two
   constraint options OFF, which the property does not quantify over; modelled to tie the code and to state why the
   feasibility theorems are not applicable there.) *)
Definition C10_proj_ineq_with_var (to_stacked to_var Pineq : vec -> vec) (v : vec) : vec := to_var (Pineq (to_stacked v)).

(* An exactly rational instance: DIAGONAL two-qubit states in the normalised Pauli basis (II, IZ, ZI, ZZ)/2, sd = 2.
   For a diagonal matrix eigh returns its diagonal, so clipping the eigenvalues is clipping the diagonal entries:
   the inequality projection restricted to this family is modelled exactly. *)
(* sign table  + + + + / + - + - / + + - - / + - - + : (-1)^(bits of a AND k) *)
Definition C10_h4 (a k : nat) : F :=
  if ((4 <=? a) || (4 <=? k))%nat then 0
  else if xorb (Nat.testbit a 0 && Nat.testbit k 0) (Nat.testbit a 1 && Nat.testbit k 1) then 0 - 1 else 1.
Definition C10_d4_eig (v : vec) (k : nat) : F := C10_half * sumn 4 (fun a => C10_h4 a k * v a).        (* diagonal entries *)
Definition C10_d4_of_eig (l : vec) : vec := fun a => C10_half * sumn 4 (fun k => C10_h4 a k * l k).      (* back to coefficients *)
Definition C10_d4_Pineq (v : vec) : vec :=
  C10_d4_of_eig (fun k => if kleb F 0 (C10_d4_eig v k) then C10_d4_eig v k else 0).
Definition C10_d4_to_stacked (var : vec) : vec := fun a => match a with O => C10_half | Datatypes.S i => var i end.   (* v0 = 1/sd *)
Definition C10_d4_to_var (v : vec) : vec := fun i => v (Datatypes.S i).
Definition C10_d4_psdb (v : vec) : bool :=
  kleb F 0 (C10_d4_eig v 0) && kleb F 0 (C10_d4_eig v 1) && kleb F 0 (C10_d4_eig v 2) && kleb F 0 (C10_d4_eig v 3).

(* ------------------------------------------------------------------ 9. a rational loss for executing the model *)
(* weighted squared error: f v = sum_i w_i ((A v)_i - c_i)^2 (c = q - b), g = its gradient; nd rows, n variables *)
Definition C10_qloss (n nd : nat) (A : mat) (c w : vec) (v : vec) : F :=
  sumn nd (fun i => w i * ((mv n A v i - c i) * (mv n A v i - c i))).
Definition C10_qgrad (n nd : nat) (A : mat) (c w : vec) (v : vec) : vec :=
  fun j => sumn nd (fun i => C10_two * (w i * (A i j * (mv n A v i - c i)))).
End Num.

