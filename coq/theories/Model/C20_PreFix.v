(* C20 — THE CODE AS IT WAS BEFORE THE TWO REPAIRS proposed by this property (definitions only).

   These definitions are NOT the model the harness compares with the implementation (that is Model/C20_Schedule.v,
   the repaired code).  They are kept so that (a) the two defects stay documented as theorems with witnesses
   (Proofs/C20_PreFix.v: ..._before_fix_refuted), (b) the harness can recognise, when the implementation disagrees with
   the repaired model, that it behaves exactly like the code before the repair ("the defect is back") and report it
   under the specific signature of that defect.

   as coded before fix c20-noniterable-schedule  (quara/qcircuit/experiment.py, Experiment._validate_schedules):
       for i, schedule in enumerate(schedules):
           try:
               for j, item in enumerate(schedule): ...
           except (ValueError, IndexError, TypeError) as e:
               ... "{}: {}\n".format(j, item) ...            # j, item: function locals, bound only by an earlier loop
   For a non-iterable schedule enumerate() raises TypeError inside the try block; the handler then reads j, item:
   UnboundLocalError escapes unless an earlier schedule has bound them ([jst] is that piece of state: the last value of j).

   as coded before fix c20-qmpt-schedule-length  (standard_qmpt.py, StandardQmpt._validate_schedules):
       if schedule[0][0] != "state" or schedule[1][0] != "mprocess" or schedule[2][0] != "povm": raise ValueError
   (no length test). *)
From Coq Require Import ZArith List Bool Arith String.
From QV.Model Require Import C20_Schedule.
Import ListNotations.

(* ------------------------------------------------------------------ Experiment._validate_schedules before the fix *)
Inductive vres0 :=
| V0 (r : vres)             (* same outcome classes as the repaired code *)
| V0Unbound (i : nat).      (* UnboundLocalError escapes from the handler while looking at schedules[i] *)

Fixpoint validate_from0 (c : cfg) (i : nat) (jst : option nat) (ss : list rsched) : vres0 :=
  match ss with
  | [] => V0 VOk
  | SNonIter :: _ => match jst with None => V0Unbound i | Some j => V0 (VItemError i j TypeError) end   (* stale j *)
  | SSeq items :: rest =>
    match validate_items c 0 items with
    | inr (j, e) => V0 (VItemError i j e)
    | inl typed =>
      match validate_order typed with
      | Some r => V0 (VOrderError i r)
      | None => validate_from0 c (S i) (match items with [] => jst | _ => Some (List.length items - 1)%nat end) rest
      end
    end
  end.
Definition validate_schedules0 (c : cfg) (ss : list rsched) : vres0 := validate_from0 c 0 None ss.

(* ------------------------------------------------------------------ the class guards before the fix: no length test *)
Definition guard_one0 (t : tclass) (s : list titem) : gres := guard_core t s.
(* (the Experiment inside is the repaired one: the two repairs are independent, and both versions of the Experiment
   accept the same schedule lists — Proofs/C20_PreFix.v, before_fix_accepts_same) *)
Definition tomo_run0 (t : tclass) (ns np : nat) (ss : list rsched) : tres := tomo_run_with (guard_one0 t) t ns np ss.
