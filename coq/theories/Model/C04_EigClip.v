(* C04 — model of the three lines every inequality projection executes after np.linalg.eigh (definitions only):
     diag = np.diag(eigenvals); diag[diag < 0] = 0
     new_matrix = eigenvecs @ diag @ eigenvecs.T.conjugate()
   eigh itself is an oracle: its contract (U unitary, input = U diag(w) U^dagger) is a HYPOTHESIS of the theorems in
   Proofs/C04_EigClip.v and is checked numerically per run. *)
From Coq Require Import Arith Bool.
From QV.Core Require Import OF Sums Mat Cplx.
From QV.Model Require Import QObj.

Section C04EigClip.
Context (F : OF).
Notation Cx := (CF F).
(* np.diag(d) as a complex matrix *)
Definition cdiag (d : nat -> F) : cmat F := fun i j => if Nat.eqb i j then zof (d i) else c0 Cx.
(* diag[diag < 0] = 0 *)
Definition clip0 (x : F) : F := if kleb F (c0 F) x then x else c0 F.
(* eigenvecs @ diag @ eigenvecs.T.conjugate() *)
Definition rebuild (n : nat) (U : cmat F) (d : nat -> F) : cmat F := mmul n (mmul n U (cdiag d)) (cadj U).
Definition eig_clip (n : nat) (U : cmat F) (w : nat -> F) : cmat F := rebuild n U (fun k => clip0 (w k)).
(* the contract of eigh: the columns of U are orthonormal *)
Definition unitary (n : nat) (U : cmat F) : Prop := meq n n (mmul n (cadj U) U) mid.
(* the contract of eigh for the matrix Y the code hands to it *)
Definition eigh_contract (n : nat) (Y U : cmat F) (w : nat -> F) : Prop := unitary n U /\ meq n n Y (rebuild n U w).
(* State.calc_proj_ineq_constraint(_with_var), Povm (per element): density / element = op_of_vec v; (w, U) = eigh(that);
   new_vec = coefficients of U clip(w) U^dagger  (to_vec_from_density_matrix_with_sparsity = Re <B_a, .>) *)
Definition vec_proj_ineq (d : nat) (B : nat -> cmat F) (U : cmat F) (w : nat -> F) : rvec F := vec_of_op d B (eig_clip d U w).
(* Gate.calc_proj_ineq_constraint(_with_var), MProcess (per outcome): choi = choi_of_hs hs; (w, U) = eigh(choi);
   new_hs = hs_of_choi (U clip(w) U^dagger), flattened *)
Definition hs_proj_ineq (d : nat) (B : nat -> cmat F) (U : cmat F) (w : nat -> F) : rvec F :=
  vecr (d * d) (hs_of_choi d B (eig_clip (d * d) U w)).
End C04EigClip.
Arguments cdiag {F} d _ _. Arguments clip0 {F} x. Arguments rebuild {F} n U d _ _. Arguments eig_clip {F} n U w _ _.
Arguments unitary {F} n U. Arguments eigh_contract {F} n Y U w.
Arguments vec_proj_ineq {F} d B U w _. Arguments hs_proj_ineq {F} d B U w _.
