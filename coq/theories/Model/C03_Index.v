(* C03 — model of the eight  convert_*_index_to_*_index  functions of
   quara/objects/{state,povm,gate,mprocess}.py and of the  num_variables  formulas of the four
   standard tomography classes (definitions only).  Integers are Z as in Python; Python's
   divmod / // / % with a positive divisor are Z.div / Z.modulo (floor semantics).
   [d] is c_sys.dim, [m] the number of outcomes (len(vecs) / len(hss)), [flag] is
   on_para_eq_constraint. *)
From Coq Require Import ZArith Bool List.
Import ListNotations.
Local Open Scope Z_scope.

(* ---- state.py:666 / 687 ----  state_index = var_index + 1 if on_para_eq_constraint else var_index *)
Definition state_index_of_var (flag : bool) (i : Z) : Z := if flag then i + 1 else i.
Definition var_of_state_index (flag : bool) (k : Z) : Z := if flag then k - 1 else k.

(* ---- povm.py:1045 / 1076 ----  size = vecs[0].shape[0];  divmod(var_index, size)  (the flag is not used) *)
Definition povm_index_of_var (size : Z) (i : Z) : Z * Z := (i / size, i mod size).
Definition var_of_povm_index (size : Z) (p : Z * Z) : Z := let '(x, a) := p in size * x + a.

(* ---- gate.py:996 / 1024 ----  (row, col) = divmod(var_index, dim**2); row += 1 under the constraint *)
Definition gate_index_of_var (d : Z) (flag : bool) (i : Z) : Z * Z :=
  let row := i / (d * d) in let col := i mod (d * d) in
  ((if flag then row + 1 else row), col).
Definition var_of_gate_index (d : Z) (flag : bool) (p : Z * Z) : Z :=
  let '(row, col) := p in
  if flag then (d * d) * (row - 1) + col else (d * d) * row + col.

(* ---- mprocess.py:933 / 971 ----  hs_size = dim**2 * dim**2 ; the row shift applies to the LAST hs only *)
Definition mproc_index_of_var (d m : Z) (flag : bool) (i : Z) : Z * Z * Z :=
  let hs_size := (d * d) * (d * d) in
  let hs_index := i / hs_size in let matrix_index := i mod hs_size in
  let row := matrix_index / (d * d) in let col := matrix_index mod (d * d) in
  (hs_index, (if flag && (hs_index =? m - 1) then row + 1 else row), col).
Definition var_of_mproc_index (d m : Z) (flag : bool) (p : Z * Z * Z) : Z :=
  let '(hs_index, row, col) := p in
  let hs_size := (d * d) * (d * d) in
  let v := hs_index * hs_size + row * (d * d) + col in
  if flag && (hs_index =? m - 1) then v - d * d else v.

(* ---- position of an object entry in the stacked vector (np.hstack / flatten are row-major) *)
Definition flat_state (k : Z) : Z := k.
Definition flat_povm (d : Z) (p : Z * Z) : Z := let '(x, a) := p in x * (d * d) + a.
Definition flat_gate (d : Z) (p : Z * Z) : Z := let '(row, col) := p in row * (d * d) + col.
Definition flat_mproc (d : Z) (p : Z * Z * Z) : Z :=
  let '(x, row, col) := p in x * ((d * d) * (d * d)) + row * (d * d) + col.

(* ---- the free entries of an object: everything but the implied component *)
Definition free_state (d : Z) (flag : bool) (k : Z) : Prop := (if flag then 1 else 0) <= k < d * d.
Definition free_povm (d m : Z) (flag : bool) (p : Z * Z) : Prop :=
  let '(x, a) := p in 0 <= x < (if flag then m - 1 else m) /\ 0 <= a < d * d.
Definition free_gate (d : Z) (flag : bool) (p : Z * Z) : Prop :=
  let '(row, col) := p in (if flag then 1 else 0) <= row < d * d /\ 0 <= col < d * d.
Definition free_mproc (d m : Z) (flag : bool) (p : Z * Z * Z) : Prop :=
  let '(x, row, col) := p in
  0 <= x < m /\ (if flag && (x =? m - 1) then 1 else 0) <= row < d * d /\ 0 <= col < d * d.

(* ---- num_variables: standard_qst.py:91, standard_povmt.py:72, standard_qpt.py:71, standard_qmpt.py:74
   ( dim ** 4 is written d*d*(d*d) ) *)
Definition nv_state (d : Z) (flag : bool) : Z := if flag then d * d - 1 else d * d.
Definition nv_povm (d m : Z) (flag : bool) : Z := if flag then (m - 1) * (d * d) else m * (d * d).
Definition nv_gate (d : Z) (flag : bool) : Z := if flag then (d * d) * (d * d) - d * d else (d * d) * (d * d).
Definition nv_mproc (d m : Z) (flag : bool) : Z :=
  if flag then m * ((d * d) * (d * d)) - d * d else m * ((d * d) * (d * d)).

(* by how much a variable's position moves when going from the variable vector to the stacked vector *)
Definition shift_state (flag : bool) : Z := if flag then 1 else 0.
Definition shift_gate (d : Z) (flag : bool) : Z := if flag then d * d else 0.
Definition shift_mproc (d m : Z) (flag : bool) (i : Z) : Z :=
  if flag && (i / ((d * d) * (d * d)) =? m - 1) then d * d else 0.
