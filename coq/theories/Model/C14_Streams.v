(* C14 — model of the random-stream dataflow (definitions only):
     quara/utils/number_util.to_stream                         (three-way case + "already a stream")
     quara/qcircuit/data_generator.generate_*                  (which draws are made, in which order, on which stream)
     quara/qcircuit/experiment.Experiment.generate_* / reset_seed_data / __init__(seed_data) / copy
     quara/protocol/qtomography/qtomography.QTomography.reset_seed
     Standard{Qst,Povmt,Qpt,Qmpt}.generate_empi_dist / generate_empi_dists / generate_empi_dists_sequence
     MultinomialDistribution.execute_random_sampling
   The pseudo-random generator is ABSTRACT (section variables): a type of generator states, one function
   [draw] performing one request on a state, and the two ways states are created from an integer.  MT19937 /
   scipy.stats.multinomial.rvs are oracles; nothing is assumed about them.  A "world" holds every piece of
   mutable random state a Python process has: the global numpy RandomState, every Generator object ever
   created (by handle), and the seed_data remembered by each Experiment object. *)
From Coq Require Import List Arith Bool ZArith.
From QV.Model Require Import C14_DataGen.
Import ListNotations.

(* one request to a stream *)
Inductive req :=
| RUnif (n : Z) (pd : nat)               (* stream.random(n); the numbers are then mapped through prob_dists[pd] *)
| RMulti (n : Z) (pd : nat)              (* multinomial.rvs(n, prob_dists[pd], random_state=stream) *)
| RMultiSz (n : Z) (size : Z) (pd : nat). (* multinomial.rvs(n, ps, size=size, random_state=stream) *)

(* the Python value passed as `seed_or_generator` *)
Inductive sog :=
| SNone                                  (* None *)
| SInt (z : Z)                           (* a Python int *)
| SGen (h : nat)                         (* a np.random.Generator object (handle) *)
| SModule                                (* the module np.random itself (what to_stream(None) returns) *)
| SNpInt (z : Z).                        (* a numpy integer such as np.int64(5): isinstance(x, (int, np.integer)) *)
(* what the variable `stream` refers to after to_stream *)
Inductive sref :=
| RefGlobal                              (* the module np.random (global RandomState) *)
| RefGen (h : nat).                      (* a Generator object *)
Definition as_arg (r : sref) : sog :=
  match r with RefGlobal => SModule | RefGen h => SGen h end.

Section Streams.
Context {G V : Type}.
Context (draw : G -> req -> V * G).      (* one request on a generator state: value and next state (oracle) *)
Context (mkgen : Z -> G).                (* state of np.random.Generator(np.random.MT19937(seed)) *)
Context (gseed : Z -> G).                (* global state after np.random.seed(seed) *)

(* gens: every Generator object created so far, a handle is its index; objs: seed_data of every Experiment *)
Record world := { glob : G; gens : list G; objs : nat -> option Z; nobj : nat }.

Definition upd {A} (f : nat -> A) (h : nat) (g : A) : nat -> A := fun k => if Nat.eqb k h then g else f k.
Fixpoint set_nth {A} (h : nat) (g : A) (l : list A) : list A :=
  match l, h with
  | [], _ => []
  | _ :: t, O => g :: t
  | x :: t, S h' => x :: set_nth h' g t
  end.
Definition set_glob (g : G) (w : world) : world :=
  {| glob := g; gens := gens w; objs := objs w; nobj := nobj w |}.
Definition set_gen (h : nat) (g : G) (w : world) : world :=
  {| glob := glob w; gens := set_nth h g (gens w); objs := objs w; nobj := nobj w |}.
Definition alloc_gen (g : G) (w : world) : world :=
  {| glob := glob w; gens := gens w ++ [g]; objs := objs w; nobj := nobj w |}.

(* ---- state monad over worlds (Python statement sequencing) ---- *)
Definition M (A : Type) := world -> A * world.
Definition ret {A} (a : A) : M A := fun w => (a, w).
Definition bind {A B} (m : M A) (k : A -> M B) : M B := fun w => let (a, w1) := m w in k a w1.
Fixpoint mapM {X A} (f : X -> M A) (xs : list X) : M (list A) :=
  match xs with
  | [] => ret []
  | x :: t => bind (f x) (fun a => bind (mapM f t) (fun l => ret (a :: l)))
  end.

(* ---- to_stream(seed_or_generator) ----
     if seed_or_generator is None: stream = np.random
     elif isinstance(seed_or_generator, (int, np.integer)):
         stream = np.random.Generator(np.random.MT19937(seed_or_generator))
     else: stream = seed_or_generator
   (as repaired by fixes/C14-to-stream-numpy-integer-seed: before, `type(x) == int` let a numpy integer fall through to the
   last branch, so the NUMBER was handed to scipy as random_state and every multinomial request restarted from it) *)
Definition to_stream (s : sog) : M sref := fun w =>
  match s with
  | SNone => (RefGlobal, w)
  | SInt z => (RefGen (length (gens w)), alloc_gen (mkgen z) w)
  | SGen h => (RefGen h, w)
  | SModule => (RefGlobal, w)
  | SNpInt z => (RefGen (length (gens w)), alloc_gen (mkgen z) w)
  end.

(* state selected by / written back through a stream reference *)
Definition sel (r : sref) (w : world) : G :=
  match r with RefGlobal => glob w | RefGen h => nth h (gens w) (mkgen 0%Z) end.
Definition put (r : sref) (g : G) (w : world) : world :=
  match r with RefGlobal => set_glob g w | RefGen h => set_gen h g w end.
Definition request (r : sref) (q : req) : M V := fun w =>
  let (v, g') := draw (sel r w) q in (v, put r g' w).

Definition slot : Type := Z * V.           (* (sample size, drawn value) *)
Definition out : Type := list (list slot).
Notation R := (eres out).

(* Python zip-star of the rows: column j for every j below the shortest row length *)
Definition col {A} (j : nat) (rows : list (list A)) : list A :=
  flat_map (fun row => match nth_error row j with Some x => [x] | None => [] end) rows.
Definition minlen {A} (rows : list (list A)) : nat :=
  match rows with [] => O | r :: t => fold_left (fun a row => Nat.min a (length row)) t (length r) end.
Definition zipstar {A} (rows : list (list A)) : list (list A) := map (fun j => col j rows) (seq O (minlen rows)).

(* ================= quara.qcircuit.data_generator ================= *)
(* generate_data_from_prob_dist(prob_dist, data_num, seed_or_generator): to_stream, then ONE request *)
Definition dg_data (pd : nat) (n : Z) (s : sog) : M slot :=
  bind (to_stream s) (fun r => bind (request r (RUnif n pd)) (fun v => ret (n, v))).

(* generate_dataset_from_prob_dists(prob_dists, data_nums, seeds_or_generators)
   errors 11 / 12: length mismatches (checked before any draw) *)
Definition dg_dataset (pds : list nat) (ns : list Z) (ss : option (list sog)) : M R :=
  if negb (Nat.eqb (length pds) (length ns)) then ret (EErr 11) else
  if match ss with Some l => negb (Nat.eqb (length pds) (length l)) | None => false end then ret (EErr 12) else
  let seeds := match ss with Some l => l | None => repeat SNone (length pds) end in
  bind (mapM (fun t => dg_data (fst (fst t)) (snd (fst t)) (snd t)) (combine (combine pds ns) seeds))
       (fun l => ret (EOk (map (fun x => [x]) l))).

(* generate_empi_dist_sequence_from_prob_dist(prob_dist, num_sums, seed_or_generator):
   to_stream ONCE, then one multinomial request per sample size, in order *)
Definition dg_empi_seq (pd : nat) (num_sums : list Z) (s : sog) : M (list slot) :=
  bind (to_stream s) (fun r => mapM (fun n => bind (request r (RMulti n pd)) (fun v => ret (n, v))) num_sums).

(* generate_empi_dists_sequence_from_prob_dists(prob_dists, list_num_sums, seed_or_generator):
   error 13 length mismatch; to_stream ONCE; the SAME stream is handed to every per-distribution call *)
Definition dg_empi_seqs (pds : list nat) (lns : list (list Z)) (s : sog) : M R :=
  if negb (Nat.eqb (length pds) (length lns)) then ret (EErr 13) else
  bind (to_stream s) (fun r =>
  bind (mapM (fun t => dg_empi_seq (fst t) (snd t) (as_arg r)) (combine pds lns)) (fun l => ret (EOk l))).

(* ================= quara.qcircuit.experiment.Experiment (Sn schedules; prob dist of schedule i is i) ======== *)
(* reset_seed_data(seed_data) on object o *)
Definition reset_seed_data (o : nat) (sd : option Z) : M unit := fun w =>
  (tt, {| glob := match sd with Some z => gseed z | None => glob w end; gens := gens w;
          objs := upd (objs w) o sd; nobj := nobj w |}).
(* Experiment.__init__(..., seed_data): stores seed_data and calls reset_seed_data (-> np.random.seed) *)
Definition construct_experiment (sd : option Z) : M nat := fun w =>
  let o := nobj w in
  let w1 := {| glob := glob w; gens := gens w; objs := objs w; nobj := Datatypes.S o |} in
  let (_, w2) := reset_seed_data o sd w1 in (o, w2).
(* Experiment.copy(): a new Experiment WITHOUT seed_data *)
Definition copy_experiment : M nat := construct_experiment None.

(* generate_data(schedule_index, data_num, seed_or_generator): errors 14 data_num < 0, 15 schedule index *)
Definition ex_data (Sn sched : nat) (n : Z) (s : sog) : M R :=
  if (n <? 0)%Z then ret (EErr 14) else
  if (Sn <=? sched)%nat then ret (EErr 15) else
  bind (to_stream s) (fun r => bind (dg_data sched n (as_arg r)) (fun x => ret (EOk [[x]]))).
(* generate_dataset(data_nums, seed_or_generator): error 16 len(data_nums) != number of schedules;
   seeds_or_generators = [stream] * len(data_nums) *)
Definition ex_dataset (Sn : nat) (ns : list Z) (s : sog) : M R :=
  if negb (Nat.eqb (length ns) Sn) then ret (EErr 16) else
  bind (to_stream s) (fun r => dg_dataset (seq O Sn) ns (Some (repeat (as_arg r) (length ns)))).
(* generate_empi_dist_sequence(schedule_index, num_sums, seed_or_generator): seed handed down as is *)
Definition ex_empi_seq (Sn sched : nat) (num_sums : list Z) (s : sog) : M R :=
  if (Sn <=? sched)%nat then ret (EErr 15) else
  bind (dg_empi_seq sched num_sums s) (fun l => ret (EOk [l])).
(* generate_empi_dists_sequence(list_num_sums, seed_or_generator): every row must have Sn entries (error 16);
   rows are transposed to per-schedule lists *)
Definition ex_empi_seqs (Sn : nat) (lns : list (list Z)) (s : sog) : M R :=
  if existsb (fun row => negb (Nat.eqb (length row) Sn)) lns then ret (EErr 16) else
  dg_empi_seqs (seq O Sn) (zipstar lns) s.

(* ================= Standard{Qst,Povmt,Qpt,Qmpt} (identical stream handling in the four classes) ========= *)
(* generate_empi_dist(schedule_index, true_object, num_sum, seed_or_generator) *)
Definition tomo_empi_dist (Sn sched : nat) (n : Z) (s : sog) : M R :=
  bind copy_experiment (fun _ =>
  if (Sn <=? sched)%nat then ret (EErr 15) else            (* _get_target_index: schedules[schedule_index] *)
  bind (to_stream s) (fun r =>
  bind (ex_empi_seq Sn sched [n] (as_arg r)) (fun e =>
  ret (match e with
       | EOk ((x :: _) :: _) => EOk [[x]]                 (* empi_dist_seq[0] *)
       | EOk _ => EErr 17
       | EErr c => EErr c
       end)))).
(* generate_empi_dists(true_object, num_sum, seed_or_generator): chain.from_iterable of the Sn one-element rows *)
Definition tomo_empi_dists (Sn : nat) (n : Z) (s : sog) : M R :=
  bind copy_experiment (fun _ =>
  bind (to_stream s) (fun r =>
  bind (ex_empi_seqs Sn [repeat n Sn] (as_arg r)) (fun e =>
  ret (match e with EOk rows => EOk [concat rows] | EErr c => EErr c end)))).
(* generate_empi_dists_sequence(true_object, num_sums, seed_or_generator):
   [num_sums]*Sn is transposed, handed to the experiment (which transposes back), result transposed again *)
Definition tomo_empi_dists_seq (Sn : nat) (num_sums : list Z) (s : sog) : M R :=
  bind copy_experiment (fun _ =>
  bind (to_stream s) (fun r =>
  bind (ex_empi_seqs Sn (zipstar (repeat num_sums Sn)) (as_arg r)) (fun e =>
  ret (match e with EOk rows => EOk (zipstar rows) | EErr c => EErr c end)))).

(* QTomography.reset_seed(seed) on object o:  `if seed is not None:` reset_seed_data(seed) else reset_seed_data(own seed_data)
   (as repaired by fixes/C14-reset-seed-zero; before, `if seed:` treated the integer 0 like None) *)
Definition tomo_reset_seed (o : nat) (seed : option Z) : M unit := fun w =>
  match seed with
  | Some z => reset_seed_data o (Some z) w
  | None => reset_seed_data o (objs w o) w
  end.

(* MultinomialDistribution.execute_random_sampling(num, size, random_generator) *)
Definition md_sampling (pd : nat) (num size : Z) (s : sog) : M R :=
  bind (to_stream s) (fun r => bind (request r (RMultiSz num size pd)) (fun v => ret (EOk [[(num, v)]]))).

(* ================= histories ================= *)
Inductive call :=
| CDgData (pd : nat) (n : Z)
| CDgDataset (pds : list nat) (ns : list Z) (ss : option (list sog))      (* its own seeds; the call's sog is unused *)
| CDgEmpiSeq (pd : nat) (num_sums : list Z)
| CDgEmpiSeqs (pds : list nat) (lns : list (list Z))
| CExData (Sn sched : nat) (n : Z)
| CExDataset (Sn : nat) (ns : list Z)
| CExEmpiSeq (Sn sched : nat) (num_sums : list Z)
| CExEmpiSeqs (Sn : nat) (lns : list (list Z))
| CTomoEmpiDist (Sn sched : nat) (n : Z)
| CTomoEmpiDists (Sn : nat) (n : Z)
| CTomoEmpiDistsSeq (Sn : nat) (num_sums : list Z)
| CMdSampling (pd : nat) (num size : Z).

Definition run_call (c : call) (s : sog) : M R :=
  match c with
  | CDgData pd n => bind (dg_data pd n s) (fun x => ret (EOk [[x]]))
  | CDgDataset pds ns ss => dg_dataset pds ns ss
  | CDgEmpiSeq pd ns => bind (dg_empi_seq pd ns s) (fun l => ret (EOk [l]))
  | CDgEmpiSeqs pds lns => dg_empi_seqs pds lns s
  | CExData Sn sched n => ex_data Sn sched n s
  | CExDataset Sn ns => ex_dataset Sn ns s
  | CExEmpiSeq Sn sched ns => ex_empi_seq Sn sched ns s
  | CExEmpiSeqs Sn lns => ex_empi_seqs Sn lns s
  | CTomoEmpiDist Sn sched n => tomo_empi_dist Sn sched n s
  | CTomoEmpiDists Sn n => tomo_empi_dists Sn n s
  | CTomoEmpiDistsSeq Sn ns => tomo_empi_dists_seq Sn ns s
  | CMdSampling pd num size => md_sampling pd num size s
  end.

(* one step of a Python session *)
Inductive hop :=
| HSeedGlobal (z : Z)                    (* np.random.seed(z) *)
| HGlobalDraw (n : Z)                    (* np.random.random(n): unrelated use of the global state *)
| HNewGen (z : Z)                        (* g = np.random.Generator(np.random.MT19937(z)) *)
| HGenDraw (h : nat) (n : Z)             (* g.random(n): unrelated use of a shared generator *)
| HConstruct (sd : option Z)             (* Experiment(..., seed_data=sd) / Standard*(..., seed_data=sd) *)
| HResetSeed (o : nat) (seed : option Z) (* tomography_object.reset_seed(seed) *)
| HCall (c : call) (s : sog).

Definition step (h : hop) : M R :=
  match h with
  | HSeedGlobal z => fun w => (EOk [], set_glob (gseed z) w)
  | HGlobalDraw n => bind (request RefGlobal (RUnif n O)) (fun v => ret (EOk [[(n, v)]]))
  | HNewGen z => fun w => (EOk [], alloc_gen (mkgen z) w)
  | HGenDraw h n => bind (request (RefGen h) (RUnif n O)) (fun v => ret (EOk [[(n, v)]]))
  | HConstruct sd => bind (construct_experiment sd) (fun _ => ret (EOk []))
  | HResetSeed o seed => bind (tomo_reset_seed o seed) (fun _ => ret (EOk []))
  | HCall c s => run_call c s
  end.
Definition exec (hs : list hop) : M (list R) := mapM step hs.

(* ================= pure (single generator state) versions: the dataflow specification ================= *)
Definition P (A : Type) := G -> A * G.
Definition pret {A} (a : A) : P A := fun g => (a, g).
Definition pbind {A B} (m : P A) (k : A -> P B) : P B := fun g => let (a, g1) := m g in k a g1.
Fixpoint pmapM {X A} (f : X -> P A) (xs : list X) : P (list A) :=
  match xs with
  | [] => pret []
  | x :: t => pbind (f x) (fun a => pbind (pmapM f t) (fun l => pret (a :: l)))
  end.
Definition preq (q : req) : P V := fun g => draw g q.
(* run a pure computation on the state selected by r and write the final state back *)
Definition lift {A} (r : sref) (p : P A) : M A := fun w => let (a, g') := p (sel r w) in (a, put r g' w).
(* the three-way case as ONE combinator: pick the stream, run p on it *)
Definition with_stream {A} (s : sog) (p : P A) : M A := bind (to_stream s) (fun r => lift r p).

Definition p_data (pd : nat) (n : Z) : P slot := pbind (preq (RUnif n pd)) (fun v => pret (n, v)).
Definition p_empi_seq (pd : nat) (num_sums : list Z) : P (list slot) :=
  pmapM (fun n => pbind (preq (RMulti n pd)) (fun v => pret (n, v))) num_sums.
Definition p_empi_seqs (pds : list nat) (lns : list (list Z)) : P R :=
  pbind (pmapM (fun t => p_empi_seq (fst t) (snd t)) (combine pds lns)) (fun l => pret (EOk l)).
Definition p_dataset (pds : list nat) (ns : list Z) : P R :=
  pbind (pmapM (fun t => p_data (fst t) (snd t)) (combine pds ns)) (fun l => pret (EOk (map (fun x => [x]) l))).

(* precondition failures raised BEFORE any stream is touched, and the pure body, of every entry point *)
Definition call_pre (c : call) : option nat :=
  match c with
  | CDgDataset pds ns _ => if negb (Nat.eqb (length pds) (length ns)) then Some 11 else None
  | CDgEmpiSeqs pds lns => if negb (Nat.eqb (length pds) (length lns)) then Some 13 else None
  | CExData Sn sched n => if (n <? 0)%Z then Some 14 else if (Sn <=? sched)%nat then Some 15 else None
  | CExDataset Sn ns => if negb (Nat.eqb (length ns) Sn) then Some 16 else None
  | CExEmpiSeq Sn sched _ => if (Sn <=? sched)%nat then Some 15 else None
  | CExEmpiSeqs Sn lns =>
      if existsb (fun row => negb (Nat.eqb (length row) Sn)) lns then Some 16
      else if negb (Nat.eqb (length (seq O Sn)) (length (zipstar lns))) then Some 13 else None
  | CTomoEmpiDist Sn sched _ => if (Sn <=? sched)%nat then Some 15 else None
  | _ => None
  end.
Definition ex_empi_seqs_body (Sn : nat) (lns : list (list Z)) : P R :=
  if existsb (fun row => negb (Nat.eqb (length row) Sn)) lns then pret (EErr 16) else
  if negb (Nat.eqb (length (seq O Sn)) (length (zipstar lns))) then pret (EErr 13) else
  p_empi_seqs (seq O Sn) (zipstar lns).
Definition call_body (c : call) : P R :=
  match c with
  | CDgData pd n => pbind (p_data pd n) (fun x => pret (EOk [[x]]))
  | CDgDataset pds ns _ => p_dataset pds ns
  | CDgEmpiSeq pd ns => pbind (p_empi_seq pd ns) (fun l => pret (EOk [l]))
  | CDgEmpiSeqs pds lns => p_empi_seqs pds lns
  | CExData Sn sched n => pbind (p_data sched n) (fun x => pret (EOk [[x]]))
  | CExDataset Sn ns => p_dataset (seq O Sn) ns
  | CExEmpiSeq Sn sched ns => pbind (p_empi_seq sched ns) (fun l => pret (EOk [l]))
  | CExEmpiSeqs Sn lns => p_empi_seqs (seq O Sn) (zipstar lns)
  | CTomoEmpiDist Sn sched n =>
      pbind (p_empi_seq sched [n]) (fun l => pret (match l with x :: _ => EOk [[x]] | [] => EErr 17 end))
  | CTomoEmpiDists Sn n =>
      pbind (ex_empi_seqs_body Sn [repeat n Sn]) (fun e => pret (match e with EOk rows => EOk [concat rows] | EErr c => EErr c end))
  | CTomoEmpiDistsSeq Sn ns =>
      pbind (ex_empi_seqs_body Sn (zipstar (repeat ns Sn))) (fun e => pret (match e with EOk rows => EOk (zipstar rows) | EErr c => EErr c end))
  | CMdSampling pd num size => pbind (preq (RMultiSz num size pd)) (fun v => pret (EOk [[(num, v)]]))
  end.
(* tomography entry points first copy the experiment (a new object, no re-seeding) *)
Definition call_copies (c : call) : bool :=
  match c with CTomoEmpiDist _ _ _ | CTomoEmpiDists _ _ | CTomoEmpiDistsSeq _ _ => true | _ => false end.

(* normal form of an entry point: (copy the experiment;) raise the precondition error, or else run the pure
   body on the ONE stream selected by to_stream *)
Definition call_nf (c : call) (s : sog) : M R :=
  bind (if call_copies c then bind copy_experiment (fun _ => ret tt) else ret tt) (fun _ =>
  match call_pre c with Some e => ret (EErr e) | None => with_stream s (call_body c) end).
(* what an entry point returns for an int seed: a function of the arguments and the seed ONLY *)
Definition int_seed_output (c : call) (z : Z) : R :=
  match call_pre c with Some e => EErr e | None => fst (call_body c (mkgen z)) end.
(* the world in which the stream is used: tomography entry points have copied the experiment by then *)
Definition after_copy (c : call) (w : world) : world := if call_copies c then snd (copy_experiment w) else w.

(* generate_dataset_from_prob_dists takes a LIST of seeds; it is a single-stream entry point only without one *)
Definition single_stream (c : call) (s : sog) : Prop :=
  match c with CDgDataset _ _ ss => ss = None /\ s = SNone | _ => True end.
(* the seed argument denotes a stream (a Generator handle must exist) *)
Definition valid_sog (s : sog) (w : world) : Prop :=
  match s with SGen h => (h < length (gens w))%nat | _ => True end.

End Streams.

(* ================= stream.random(n) as n successive single draws (for the segment theorem of the data path) ======== *)
Section Unif.
Context {G X : Type} (next : G -> X * G).
Fixpoint unif (n : nat) (g : G) : list X * G :=
  match n with
  | O => ([], g)
  | S k => let (x, g1) := next g in let (xs, g2) := unif k g1 in (x :: xs, g2)
  end.
End Unif.

(* ================= the free generator: every draw returns the name of what was drawn =================
   state = (kind, seed, position): kind 0 = global state seeded by np.random.seed(seed),
   kind 1 = Generator(MT19937(seed)), kind 2 = the unknown initial global state;
   position = number of requests already served.  This is a legitimate instance of the section variables, so
   every theorem applies to it; executed (extracted) it turns the model into a predictor of WHICH draw of WHICH
   stream each output slot must be, which the harness resolves with numpy as oracle. *)
Definition fgen : Type := (Z * Z * nat)%type.
Definition ftok : Type := (fgen * req)%type.
Definition fdraw (g : fgen) (q : req) : ftok * fgen := ((g, q), (fst (fst g), snd (fst g), S (snd g))).
Definition fmkgen (z : Z) : fgen := (1%Z, z, O).
Definition fgseed (z : Z) : fgen := (0%Z, z, O).
Definition fworld0 : @world fgen :=
  {| glob := (2%Z, 0%Z, O); gens := []; objs := fun _ => None; nobj := O |}.
