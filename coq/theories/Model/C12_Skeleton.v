(* C12 — call skeletons of the configuration code (definitions only).
   gen/c12_py2coq.py REGENERATES, on every run, the skeleton (ordered list of guarded events) of
     ProbabilityBasedLossFunction.set_from_standard_qtomography_option_data,
     StandardQTomographyBasedWeightedProbabilityBasedSquaredError.{_calc_extend_weight_matrix, set_weight_matrices,
        set_func_prob_dists_from_standard_qt, set_func_gradient_prob_dists_from_standard_qt},
     StandardQTomographyBasedWeightedRelativeEntropy.{_calc_extend_weights, set_weights, set_func_prob_dists_from_standard_qt,
        set_func_gradient_prob_dists_from_standard_qt}
   (numerical statements and the availability-flag updates are whitelisted by shape and not emitted).  This file gives the
   skeletons their MEANING on the abstract object state of Model/C12_Loss.v; coq/gen/C12_Equiv.v proves that the regenerated
   skeletons, so interpreted and combined with the regenerated dispatcher, ARE the state-machine steps the harness executes. *)
From Coq Require Import String List Bool.
From QV.Core Require Import OF Sums Mat.
From QV.Model Require Import C12_Loss C12_Dispatch.
Import ListNotations.

Inductive guard := GAlways | GGrad | GHess | GNoWeights | GHasWeights | GHasQ.
Inductive kact :=
  | KSetFromOption | KSetQ | KSetFunc | KSetGrad | KSetHess | KSetWeightsByMode     (* self.<method>(...) of the configuration *)
  | KCalcCache                                                                     (* self._calc_extend_weight_matrix() / _calc_extend_weights() *)
  | KSuperSetWeights | KSuperSetQ                                                  (* super().set_weight_matrices / set_weights / set_prob_dists_q *)
  | KClearCache                                                                    (* self._extend_weight_matrix = None *)
  | KReturn
  | KBuildCache.                                                                   (* the numerical construction of the cache *)
Definition ev := (guard * kact)%type.

Section SE.
Context {R : CR}.
Notation fstate := (@fstate R). Notation wts := (@wts R).

(* ---- fast squared error *)
Definition g_holds (g : guard) (gr he hasq : bool) (w : wts) : bool :=
  match g with
  | GAlways => true | GGrad => gr | GHess => he
  | GNoWeights => match w with None => true | Some _ => false end
  | GHasWeights => match w with None => false | Some _ => true end
  | GHasQ => hasq
  end.
(* _calc_extend_weight_matrix: events until the first executed return; building needs weights *)
Fixpoint sem_calc_ext (m : nat) (body : list ev) (st : fstate) : fstate :=
  match body with
  | [] => st
  | (g, a) :: t =>
      if g_holds g false false false (f_w st) then
        match a with
        | KClearCache => sem_calc_ext m t {| f_w := f_w st; f_ext := None |}
        | KReturn => st
        | KBuildCache => sem_calc_ext m t {| f_w := f_w st; f_ext := match f_w st with Some w => Some (ext_of m w) | None => f_ext st end |}
        | _ => sem_calc_ext m t st
        end
      else sem_calc_ext m t st
  end.
(* a method body in which only cache rebuilds matter (set_func_*_from_standard_qt) *)
Fixpoint sem_calls (calc : fstate -> fstate) (body : list ev) (st : fstate) : fstate :=
  match body with
  | [] => st
  | (_, KCalcCache) :: t => sem_calls calc t (calc st)
  | _ :: t => sem_calls calc t st
  end.
(* set_weight_matrices(w) of the fast class *)
Fixpoint sem_setter (calc : fstate -> fstate) (body : list ev) (w : wts) (st : fstate) : fstate :=
  match body with
  | [] => st
  | (_, KSuperSetWeights) :: t => sem_setter calc t w {| f_w := w; f_ext := f_ext st |}
  | (_, KCalcCache) :: t => sem_setter calc t w (calc st)
  | _ :: t => sem_setter calc t w st
  end.
Record se_bodies := { sb_calc : list ev; sb_setter : list ev; sb_func : list ev; sb_grad : list ev }.
(* set_from_standard_qtomography_option_data on the fast class; [disp] = the dispatcher's action for the option's mode *)
Fixpoint sem_config_fast (m : nat) (B : se_bodies) (body : list ev) (gr he : bool) (oid : nat) (disp : action)
    (custom : wts) (computed : option (nat -> @mat R)) (os : @ostate R) : cres (@ostate R) :=
  let calc := sem_calc_ext m (sb_calc B) in
  match body with
  | [] => COk os
  | (g, a) :: t =>
      if g_holds g gr he true (f_w (o_st os)) then
        match a with
        | KSetFromOption => sem_config_fast m B t gr he oid disp custom computed {| o_st := o_st os; o_opt := Some oid |}
        | KSetFunc => sem_config_fast m B t gr he oid disp custom computed {| o_st := sem_calls calc (sb_func B) (o_st os); o_opt := o_opt os |}
        | KSetGrad => sem_config_fast m B t gr he oid disp custom computed {| o_st := sem_calls calc (sb_grad B) (o_st os); o_opt := o_opt os |}
        | KSetWeightsByMode =>
            match run_action disp custom computed (f_w (o_st os)) with
            | COk w =>
                match disp with
                | APass | ANoBranch => sem_config_fast m B t gr he oid disp custom computed os     (* no setter call *)
                | _ => sem_config_fast m B t gr he oid disp custom computed
                         {| o_st := sem_setter calc (sb_setter B) w (o_st os); o_opt := o_opt os |}
                end
            | CErr => CErr
            end
        | _ => sem_config_fast m B t gr he oid disp custom computed os
        end
      else sem_config_fast m B t gr he oid disp custom computed os
  end.
(* the generic class: no cache; only the option and the weights *)
Fixpoint sem_config_generic (body : list ev) (gr he : bool) (oid : nat) (disp : action)
    (custom : wts) (computed : option (nat -> @mat R)) (cur : wts * option nat) : cres (wts * option nat) :=
  match body with
  | [] => COk cur
  | (g, a) :: t =>
      if g_holds g gr he true (fst cur) then
        match a with
        | KSetFromOption => sem_config_generic t gr he oid disp custom computed (fst cur, Some oid)
        | KSetWeightsByMode =>
            match run_action disp custom computed (fst cur) with
            | COk w => sem_config_generic t gr he oid disp custom computed (w, snd cur)
            | CErr => CErr
            end
        | _ => sem_config_generic t gr he oid disp custom computed cur
        end
      else sem_config_generic t gr he oid disp custom computed cur
  end.

(* ---- fast relative entropy *)
Notation rstate := (@rstate R).
Fixpoint sem_calc_ew (m : nat) (body : list ev) (st : rstate) : rstate :=
  match body with
  | [] => st
  | (g, a) :: t =>
      if g_holds g false false false (match r_w st with Some _ => Some (fun _ _ _ => c0 R) | None => None end) then
        match a with
        | KReturn => st
        | KBuildCache => sem_calc_ew m t {| r_w := r_w st; r_ew := match r_w st with Some w => Some (ew_of' m w) | None => r_ew st end |}
        | _ => sem_calc_ew m t st
        end
      else sem_calc_ew m t st
  end.
Fixpoint sem_calls_re (calc : rstate -> rstate) (body : list ev) (st : rstate) : rstate :=
  match body with
  | [] => st
  | (_, KCalcCache) :: t => sem_calls_re calc t (calc st)
  | _ :: t => sem_calls_re calc t st
  end.
Fixpoint sem_setter_re (calc : rstate -> rstate) (body : list ev) (hasq : bool) (w : option (@vec R)) (st : rstate) : rstate :=
  match body with
  | [] => st
  | (_, KSuperSetWeights) :: t => sem_setter_re calc t hasq w {| r_w := w; r_ew := r_ew st |}
  | (g, KCalcCache) :: t => sem_setter_re calc t hasq w (if g_holds g false false hasq None then calc st else st)
  | _ :: t => sem_setter_re calc t hasq w st
  end.
Fixpoint sem_config_re_fast (m : nat) (B : se_bodies) (body : list ev) (gr he : bool) (oid : nat) (disp : action)
    (custom : option (@vec R)) (os : @rostate R) : @rostate R :=
  let calc := sem_calc_ew m (sb_calc B) in
  match body with
  | [] => os
  | (g, a) :: t =>
      if g_holds g gr he true None then
        match a with
        | KSetFromOption => sem_config_re_fast m B t gr he oid disp custom {| ro_st := ro_st os; ro_opt := Some oid |}
        | KSetFunc => sem_config_re_fast m B t gr he oid disp custom {| ro_st := sem_calls_re calc (sb_func B) (ro_st os); ro_opt := ro_opt os |}
        | KSetGrad => sem_config_re_fast m B t gr he oid disp custom {| ro_st := sem_calls_re calc (sb_grad B) (ro_st os); ro_opt := ro_opt os |}
        | KSetWeightsByMode =>
            match disp with
            | AReset | ACustom =>
                sem_config_re_fast m B t gr he oid disp custom
                  {| ro_st := sem_setter_re calc (sb_setter B) true (run_action_re disp custom (r_w (ro_st os))) (ro_st os); ro_opt := ro_opt os |}
            | _ => sem_config_re_fast m B t gr he oid disp custom os
            end
        | _ => sem_config_re_fast m B t gr he oid disp custom os
        end
      else sem_config_re_fast m B t gr he oid disp custom os
  end.
End SE.

(* the hand-written skeletons (what the source looks like today); coq/gen proves the regenerated ones have the same MEANING *)
Definition sk_config : list ev :=
  [(GAlways, KSetFromOption); (GAlways, KSetQ); (GAlways, KSetFunc); (GGrad, KSetGrad); (GHess, KSetHess); (GAlways, KSetWeightsByMode)].
Definition sk_se_bodies : se_bodies :=
  {| sb_calc := [(GNoWeights, KClearCache); (GNoWeights, KReturn); (GAlways, KBuildCache)];
     sb_setter := [(GAlways, KSuperSetWeights); (GAlways, KCalcCache)];
     sb_func := [(GAlways, KCalcCache)]; sb_grad := [(GAlways, KCalcCache)] |}.
Definition sk_re_bodies : se_bodies :=
  {| sb_calc := [(GHasWeights, KBuildCache)];
     sb_setter := [(GAlways, KSuperSetWeights); (GHasQ, KCalcCache)];
     sb_func := [(GAlways, KCalcCache)]; sb_grad := [(GAlways, KCalcCache)] |}.
