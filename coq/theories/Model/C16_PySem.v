(* C16 — meaning of the small Python / NumPy vocabulary in which the translated functions of
     quara/math/probability.py            validate_prob_dist
     quara/objects/multinomial_distribution.py   MultinomialDistribution.__init__ / __getitem__ / marginalize
     quara/objects/state_ensemble.py      StateEnsemble.state
   are written (definitions only).  gen/c16_py2coq.py regenerates, on every run, Gallina definitions of those functions
   from the CURRENT source in terms of the combinators below; coq/gen/C16_MdEquiv.v re-proves that they agree with the
   hand-written model (Model/Multinomial.v, Model/IndexUtil.v) the property theorems are about.

   Conventions.  Python ints are Z; floats are elements of the ordered field F (no rounding: the model computes exactly);
   a 1-d float array / list of floats is [list F]; a tuple / list of ints is [list Z]; None-able arguments are [option].
   A statement sequence either completes with a value or raises: [pyres], an exception is identified by its class NAME.
   What is ASSUMED about NumPy (these definitions ARE the assumption, they are compared with NumPy only by running both):
   np.isclose(a, b, atol=e, rtol=0.0) = |a - b| <= e;  np.sum(v) = the sum;  v / s = entrywise quotient;
   np.sum(v.reshape(shape), axis=axes) = the tensor summed over the listed axes (row-major layout), .flatten()/.shape its
   row-major entries / remaining sizes;  v[i] and v[i] = x follow Python's index rules (negative wrap, IndexError). *)
From Coq Require Import ZArith List Bool String.
From QV.Core Require Import OF.
From QV.Model Require Import IndexUtil Multinomial.
Import ListNotations.
Local Open Scope Z_scope.

Definition zprod (l : list Z) : Z := fold_left Z.mul l 1.
Definition np_mask_select {A} (x : list A) (mask : list bool) : list A := select mask x.

Inductive pyres (A : Type) := PRet (a : A) | PRaise (exc : string).
Arguments PRet {A} a. Arguments PRaise {A} exc.

(* s1 ; s2 *)
Definition pbind {A B} (x : pyres A) (k : A -> pyres B) : pyres B :=
  match x with PRet a => k a | PRaise e => PRaise e end.
(* for x in l: body     (state = the variables the body assigns; the first iteration that raises ends the loop) *)
Fixpoint pfor {X S} (l : list X) (body : X -> S -> pyres S) (s : S) : pyres S :=
  match l with
  | [] => PRet s
  | x :: t => match body x s with PRet s' => pfor t body s' | PRaise e => PRaise e end
  end.

Definition py_len {A} (l : list A) : Z := Z.of_nat (List.length l).
Definition py_enumerate {A} (l : list A) : list (Z * A) := combine (map Z.of_nat (seq 0 (List.length l))) l.
(* position addressed by the Python index i in a sequence of length n: Multinomial.seq_pos (negative indices count from the end) *)
(* l[i] *)
Definition py_getitem {A} (l : list A) (i : Z) : pyres A :=
  match seq_pos (py_len l) i with
  | Some k => match nth_error l k with Some v => PRet v | None => PRaise "IndexError" end
  | None => PRaise "IndexError"
  end.
Fixpoint list_upd {A} (l : list A) (k : nat) (v : A) : list A :=
  match l, k with
  | [], _ => []
  | _ :: t, O => v :: t
  | x :: t, S k' => x :: list_upd t k' v
  end.
(* l[i] = v *)
Definition py_setitem {A} (l : list A) (i : Z) (v : A) : pyres (list A) :=
  match seq_pos (py_len l) i with
  | Some k => PRet (list_upd l k v)
  | None => PRaise "IndexError"
  end.
(* functools.reduce(operator.mul, shape): TypeError on the empty tuple *)
Definition py_reduce_mul (shape : list Z) : pyres Z :=
  match shape with [] => PRaise "TypeError" | x :: t => PRet (fold_left Z.mul t x) end.
(* set(range(n)) as the list of its elements;  s.remove(x): KeyError when absent *)
Definition py_set_range (n : Z) : list Z := map Z.of_nat (seq 0 (Z.to_nat n)).
Definition py_set_remove (s : list Z) (x : Z) : pyres (list Z) :=
  if existsb (Z.eqb x) s then PRet (filter (fun y => negb (Z.eqb x y)) s) else PRaise "KeyError".
(* index_serial_from_index_multi_dimensional(shape, idx): its only raise statement is a ValueError (checked by the translator);
   the function itself is tied by the first translator (gen/py2coq.py, coq/gen/C16_Equiv.v: gen_serial_from_multi_eq) *)
Definition py_serial_from_multi (shape idx : list Z) : pyres Z :=
  match serial_from_multi shape idx with Some k => PRet k | None => PRaise "ValueError" end.

(* the dynamically typed index argument of __getitem__ / state: Multinomial.index_arg (an int, a tuple of ints, anything else) *)

Section Num.
Context (F : OF).
Notation "0" := (c0 F). Notation "1" := (c1 F).
Infix "-" := (csub F). Infix "/" := (kdiv F).

Definition f_lt (a b : F) : bool := ltb F a b.                 (* a < b *)
Definition f_le (a b : F) : bool := kleb F a b.                (* a <= b *)
Definition f_is_zero (a : F) : bool := kleb F a 0 && kleb F 0 a.   (* a == 0.0, i.e. `not a` for a float *)
Definition np_isclose (a b atol : F) : bool := kleb F (absF F (a - b)) atol.     (* rtol = 0.0 *)
Definition np_sum (v : list F) : F := lsum F v.
Definition np_div (v : list F) (s : F) : list F := map (fun p => p / s) v.

(* an n-d array: row-major entries and shape *)
Definition ndarray := (list F * list Z)%type.
Definition nd_reshape (v : list F) (shape : list Z) : ndarray := (v, shape).
Definition nd_flatten (a : ndarray) : list F := fst a.
Definition nd_shape (a : ndarray) : list Z := snd a.
(* np.sum(a, axis=axes) *)
Definition np_sum_axis (a : ndarray) (axes : list Z) : ndarray :=
  let sh := snd a in
  let keep := map (fun k => negb (existsb (Z.eqb (Z.of_nat k)) axes)) (seq 0 (List.length sh)) in
  (marg_raw F (map Z.to_nat sh) (fst a) keep, select keep sh).

(* a.reshape(shape)[np.ix_ of the masks] with one boolean mask per axis: the sub-grid of the entries whose every digit is selected, in
   row-major order (order preserving); its shape is the number of selected positions per axis *)
Fixpoint all_sel (masks : list (list bool)) (ds : list nat) : bool :=
  match masks, ds with
  | [], [] => true
  | m :: ms, d :: t => nth d m false && all_sel ms t
  | _, _ => false
  end.
Definition nd_ix_select (a : ndarray) (masks : list (list bool)) : ndarray :=
  let sh := map Z.to_nat (snd a) in
  (map (fun k => nth k (fst a) 0) (filter (fun k => all_sel masks (digitsn sh k)) (seq 0 (prodn sh))),
   map (fun m => Z.of_nat (List.length (filter (fun b : bool => b) m))) masks).
(* a[i] on an n-d array: the i-th sub-array along the first axis (Python index rules); indexing a 0-d array raises IndexError.
   v.reshape(shape) WITHOUT an invariant behind it (legacy ProbDist): ValueError when the sizes do not match (shapes of naturals) *)
Definition nd_scalar (x : F) : ndarray := ([x], []).
Definition nd_getitem (a : ndarray) (i : Z) : pyres ndarray :=
  match snd a with
  | [] => PRaise "IndexError"
  | n :: t => match seq_pos n i with
              | Some k => let m := Z.to_nat (zprod t) in PRet (firstn m (skipn (k * m)%nat (fst a)), t)
              | None => PRaise "IndexError"
              end
  end.
Definition nd_reshape_chk (v : list F) (shape : list Z) : pyres ndarray :=
  if py_len v =? zprod shape then PRet (v, shape) else PRaise "ValueError".
(* a legacy ProbDist object: ps and an optional shape, no validation *)
Record probdist := mk_pd { pd_ps : list F; pd_shape : option (list Z) }.
(* ProbDist.__getitem__ as coded *)
Definition probdist_get (p : probdist) (a : index_arg) : pyres ndarray :=
  match a with
  | AInt i => pbind (py_getitem (pd_ps p) i) (fun x => PRet (nd_scalar x))
  | ATuple t => match pd_shape p with
                | None => PRaise "ValueError"
                | Some sh => pbind (nd_reshape_chk (pd_ps p) sh) (fun arr => pfor t (fun i target => nd_getitem target i) arr)
                end
  | AOther => PRaise "TypeError"
  end.

(* np.sum(a) of an n-d array: all entries;  np.array(t)[mask] for a 1-d boolean mask: the selected entries in order *)
Definition np_sum_all (a : ndarray) : F := lsum F (fst a).

(* a MultinomialDistribution object: its four private attributes (the read-only properties ps / shape / eps_zero /
   is_zero_dist return them unchanged — checked by the translator) *)
Record md := mk_md { md_ps : list F; md_shape : list Z; md_eps_zero : F; md_is_zero_dist : bool }.
End Num.

(* a StateEnsemble: its states (of an abstract type), its distribution and its eps_zero *)
Record ensemble (F : OF) (St : Type) := mk_ens { ens_states : list St; ens_prob_dist : md F; ens_eps_zero : F }.
Arguments ens_states {F St}. Arguments ens_prob_dist {F St}. Arguments ens_eps_zero {F St}. Arguments mk_ens {F St}.
(* what _compose_qoperations_MProcess_StateEnsemble reads of an MProcess: outcome shape, eps_zero, mode_sampling *)
Record mproc (F : OF) := mk_mp { mp_shape : list Z; mp_eps_zero : F; mp_mode_sampling : bool }.

(* error codes of the hand-written model (Model/Multinomial.v) -> Python exception classes (the same table as ERRMAP in
   harness/props/c16.py), and the embedding of its results *)
Definition exc_of_code (c : nat) : string :=
  match c with
  | 5%nat => "KeyError" | 9%nat => "IndexError" | 10%nat => "TypeError" | _ => "ValueError"
  end.
Definition to_py {A B} (f : A -> B) (r : mres A) : pyres B :=
  match r with MOk a => PRet (f a) | MErr c => PRaise (exc_of_code c) end.
Definition md_of_dist (F : OF) (e : F) (d : dist F) : md F := mk_md F (d_ps F d) (map Z.of_nat (d_shape F d)) e (d_zero F d).
(* marker result of a branch the translation does not model (sampling: random) *)
Definition not_modelled : string := "<not modelled: mode_sampling>".
