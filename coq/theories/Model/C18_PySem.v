(* C18 — the numpy vocabulary of gen/c18_py2coq.py (definitions only): the meaning the translator gives to the opaque primitives of the
   loop skeletons it regenerates from quara's source.  Matrices are functions nat -> nat -> complex (sizes come from the translator's
   static types); complex scalars are pairs over the ordered field.
     mutil.kron / sparse.kron -> Mat.kron     A @ B -> Mat.mmul     np.trace -> Mat.mtrace     X.conj() / np.conjugate -> QObj.cconj
     X.conj().T / X.T.conj() -> QObj.cadj     np.eye -> mid         np.zeros -> mzero          + - (matrices) -> madd / msub
     scalar * matrix -> mscale                1j -> ci              real / real -> kdiv        complex / real -> cdivr
     A[i, j] = v -> mset                      enumerate -> enum     l[k:] -> skipn k           itertools.product(range a, range b) -> list_prod
     reduce(add, l) -> reduce_add  (Python raises TypeError on the empty list; here mzero — the equivalence theorems assume l <> [])
     x < y (reals) -> rltb     l[i] = v (list of reals) -> lset     np.diag(l) -> np_diag     numpy.linalg.eigh -> OPAQUE (its results are parameters)
     l[k] -> mnth  (Python raises IndexError out of range; here mzero — only used with k < length l)                              *)
From Coq Require Import Arith List Bool.
From QV.Core Require Import OF Sums Mat Cplx.
From QV.Model Require Import QObj.
Import ListNotations.

Section PySem.
Context (F : OF).
Notation Cx := (CF F).
Notation cmat := (cmat F).
Definition ci : Cx := (c0 F, c1 F).
Definition rc (r : F) : Cx := zof r.
Definition cdivr (z : Cx) (r : F) : Cx := (kdiv F (re z) r, kdiv F (im z) r).
Definition mset (A : cmat) (a b : nat) (v : Cx) : cmat := fun i j => if Nat.eqb i a && Nat.eqb j b then v else A i j.
Definition enum {A : Type} (l : list A) : list (nat * A) := combine (seq 0 (length l)) l.
Definition reduce_add (l : list cmat) : cmat := match l with [] => mzero | x :: t => fold_left (fun a b => madd a b) t x end.
Definition mnth (l : list cmat) (k : nat) : cmat := nth k l mzero.
(* real scalars / lists of reals (the eigenvalues numpy.linalg.eigh returns):  x < y -> rltb ;  l[i] = v -> lset ;  np.diag(l) -> np_diag *)
Definition rltb (x y : F) : bool := negb (kleb F y x).
Fixpoint lset (l : list F) (i : nat) (v : F) : list F :=
  match l, i with [], _ => [] | _ :: t, O => v :: t | x :: t, S i' => x :: lset t i' v end.
Definition np_diag (l : list F) : cmat := fun i j => if Nat.eqb i j then zof (nth i l (c0 F)) else c0 Cx.
End PySem.
Arguments enum {A} l.
