(* Model of quara/utils/index_util.py (definitions only). Integers are Z, as in Python. *)
From Coq Require Import ZArith List.
Import ListNotations.
Local Open Scope Z_scope.

(* index_multi_dimensional_from_index_serial: walk the lengths from the back, peel
   [tmp % len], continue with [tmp // len]; the collected digits are returned front-first. *)
Definition multi_step (st : list Z * Z) (len : Z) : list Z * Z :=
  let '(acc, tmp) := st in ((tmp mod len) :: acc, tmp / len).
Definition multi_from_serial (shape : list Z) (k : Z) : list Z :=
  fst (fold_left multi_step (rev shape) ([], k)).

(* index_serial_from_index_multi_dimensional: ValueError (None) on a length mismatch;
   otherwise accumulate  serial += idx * temp_len ; temp_len *= length  from the back. *)
Definition serial_step (st : Z * Z) (p : Z * Z) : Z * Z :=
  let '(serial, temp) := st in let '(len, idx) := p in (serial + idx * temp, temp * len).
Definition serial_from_multi (shape idx : list Z) : option Z :=
  if Nat.eqb (length shape) (length idx)
  then Some (fst (fold_left serial_step (rev (combine shape idx)) (0, 1)))
  else None.
