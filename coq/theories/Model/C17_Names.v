(* C17 — the catalogues as NAMED tables (definitions only): for every family and system the list of
   (name as quara spells it, code of the textbook table of Model/C17_Tables.v).  The names are PRINTED from the table codes
   (1-qutrit state 6 L + 2 A + d  ->  level ++ axis ++ digit, 2-qutrit gate (b0, b1, k) -> base ++ base ++ angle, products joined by "_"
   in itertools.product order), so the association name <-> table lives here, not in the harness: the harness asks for these lists,
   compares the NAME lists with quara's get_*_names* functions and compares the object generated under each name with the table
   stored next to it.  TRUSTED SPEC (together with C17_Tables.v): this is what the names mean. *)
From Coq Require Import String Ascii List ZArith Arith Bool.
From QV.Model Require Import C17_Tables.
Import ListNotations.
Open Scope string_scope.

Definition join_us (l : list string) : string := String.concat "_" l.
(* itertools.product(l, repeat = n) *)
Fixpoint nprod {A} (l : list A) (n : nat) : list (list A) :=
  match n with O => [[]] | S k => flat_map (fun a => map (cons a) (nprod l k)) l end.

Definition lvl_name (L : nat) : string := match L with 0 => "01" | 1 => "12" | _ => "02" end.
Definition ax_name (A : nat) : string := match A with 0 => "x" | 1 => "y" | _ => "z" end.
Definition angle_name (k : nat) : string := match k with 1 => "90" | _ => "180" end.

(* ---------------- states: (name, table) *)
Definition st1q_name (k : nat) : string := nth k ["x0"; "x1"; "y0"; "y1"; "z0"; "z1"; "a"] "".
Definition st1t_name (c : nat) : string := lvl_name (c / 6) ++ ax_name ((c / 2) mod 3) ++ (if Nat.eqb (c mod 2) 0 then "0" else "1").
Definition bell_name (k : nat) : string := nth k ["bell_phi_plus"; "bell_phi_minus"; "bell_psi_plus"; "bell_psi_minus"] "".
(* systems: 0 one qubit, 1 two qubits, 2 three qubits, 3 one qutrit, 4 two qutrits *)
Definition cat_states (sys : nat) : list (string * sname) :=
  match sys with
  | 0 => map (fun k => (st1q_name k, SQ [k])) (seq 0 7)
  | 1 => (map (fun k => (bell_name k, SBell k)) (seq 0 4) ++ map (fun ks => (join_us (map st1q_name ks), SQ ks)) (nprod (seq 0 7) 2))%list
  | 2 => ([("ghz", SGhz); ("werner", SWerner)] ++ map (fun ks => (join_us (map st1q_name ks), SQ ks)) (nprod (seq 0 7) 3))%list
  | 3 => ([("0_1_2_superposition", ST012)] ++ map (fun c => (st1t_name c, ST [c])) (seq 0 18))%list
  | _ => ([("00_11_22_superposition", ST001122)] ++ map (fun cs => (join_us (map st1t_name cs), ST cs)) (nprod (seq 0 18) 2))%list
  end.

(* ---------------- POVMs: (name, codes of the single-name tables whose product it is) *)
Definition povm1_name (k : nat) : string :=
  nth k ["x"; "y"; "z"; "bell"; "01x3"; "01y3"; "z3"; "z2"; "02x3"; "02y3"; "12x3"; "12y3"; "xxparity"; "zzparity"] "".
Definition povm_prod (ks : list nat) (n : nat) : list (string * list nat) := map (fun c => (join_us (map povm1_name c), c)) (nprod ks n).
Definition cat_povms (sys : nat) : list (string * list nat) :=
  match sys with
  | 0 => povm_prod [0; 1; 2] 1
  | 1 => (map (fun k => (povm1_name k, [k])) [3; 12; 13] ++ povm_prod [0; 1; 2] 2)%list
  | 2 => povm_prod [0; 1; 2] 3
  | 3 => povm_prod (seq 4 8) 1
  | _ => povm_prod (seq 4 8) 2
  end.
(* rank-1 single names (quara's get_povm_names_rank1): everything but z2 and the parity POVMs *)
Definition povm1_rank1 (k : nat) : bool := negb (Nat.eqb k 7 || Nat.eqb k 12 || Nat.eqb k 13).

(* ---------------- measurement processes: (name, table code) *)
Definition mproc_name (k : nat) : string :=
  nth k ["x-type1"; "y-type1"; "z-type1"; "bell-type1"; "z3-type1"; "z2-type1"; "xxparity-type1"; "zzparity-type1";
         "x-type2"; "y-type2"; "z-type2"; "z3-type2"; "z2-type2"] "".
Definition cat_mprocs : list (string * nat) := map (fun k => (mproc_name k, k)) (seq 0 13).
(* system of a measurement-process name (as for cat_states) *)
Definition mproc_sys (k : nat) : nat := match k with 0 | 1 | 2 | 8 | 9 | 10 => 0 | 3 | 6 | 7 => 1 | _ => 3 end.

(* ---------------- gates: (name, kind, index); the id order is appended by the caller: G2 k sw, G3 k ids *)
Definition gate1q_name (k : nat) : string :=
  nth k ["x90"; "x180"; "x"; "y90"; "y180"; "y"; "z90"; "z180"; "z"; "phase"; "phase_daggered"; "piover8"; "piover8_daggered"; "hadamard"; "zm90"] "".
Definition gate2q_name (k : nat) : string := nth k ["cx"; "cz"; "swap"; "zx90"; "zz90"] "".
Definition gate3q_name (k : nat) : string := nth k ["toffoli"; "fredkin"] "".
Definition gate1t_name (k : nat) : string := lvl_name ((k mod 9) / 3) ++ ax_name ((k mod 9) mod 3) ++ (if (k <? 9)%nat then "90" else "180").
Definition cat_gates (sys : nat) : list (string * nat) :=
  match sys with
  | 0 => map (fun k => (gate1q_name k, k)) (seq 0 15)
  | 1 => map (fun k => (gate2q_name k, k)) (seq 0 5)
  | 2 => map (fun k => (gate3q_name k, k)) (seq 0 2)
  | _ => map (fun k => (gate1t_name k, k)) (seq 0 18)
  end.

(* ---------------- 2-qutrit gates: a term (b0, b1, k) is  k * (pi/4) * base3 b0 (x) base3 b1,  k = 1 (angle 90) or 2 (angle 180) *)
Definition base_name (b : nat) : string := match b with O => "i" | S c => lvl_name (c / 3) ++ ax_name (c mod 3) end.
Definition term_name (t : nat * nat * nat) : string := let '(b0, b1, k) := t in base_name b0 ++ base_name b1 ++ angle_name k.
(* get_gate_names_2qutrit_single_base_matrix: product(base names without "ii", angles) *)
Definition terms_2qutrit : list (nat * nat * nat) :=
  flat_map (fun b0 => flat_map (fun b1 => if Nat.eqb b0 0 && Nat.eqb b1 0 then [] else [(b0, b1, 1); (b0, b1, 2)]) (seq 0 10)) (seq 0 10).
Definition term_eqb (s t : nat * nat * nat) : bool :=
  let '(a, b, c) := s in let '(d, e, f) := t in Nat.eqb a d && Nat.eqb b e && Nat.eqb c f.
Definition cat_gates_2qutrit_single : list (string * list (nat * nat * nat)) := map (fun t => (term_name t, [t])) terms_2qutrit.
(* get_gate_names_2qutrit_two_base_matrices: name1_name2 for name1 != name2 *)
Definition cat_gates_2qutrit_double : list (string * list (nat * nat * nat)) :=
  flat_map (fun s => flat_map (fun t => if term_eqb s t then [] else [(term_name s ++ "_" ++ term_name t, [s; t])]) terms_2qutrit) terms_2qutrit.
Definition cat_gates_2qutrit := (cat_gates_2qutrit_single ++ cat_gates_2qutrit_double)%list.
(* a cross-shaped part of the two-term names: every term in first position next to four representative second terms (both angles)
   and every term in second position after the same four (i01x90, i01x180, 02zi90, 12y12y180): 1564 names.  The quick tier re-proves the
   parser theorem on the one-term names and this part, the thorough tier on all 39 204 names. *)
Definition rep_terms : list (nat * nat * nat) := [(0, 1, 1); (0, 1, 2); (9, 0, 1); (5, 5, 2)]%nat.
Definition is_rep (t : nat * nat * nat) : bool := existsb (term_eqb t) rep_terms.
Definition cat_gates_2qutrit_cross : list (string * list (nat * nat * nat)) :=
  filter (fun e => match snd e with [s; t] => is_rep s || is_rep t | _ => false end) cat_gates_2qutrit_double.
Definition cat_gates_2qutrit_quick := (cat_gates_2qutrit_single ++ cat_gates_2qutrit_cross)%list.

(* the zero-argument function of gate_typical.py that returns the base matrix b *)
Definition base_method (b : nat) : string :=
  match b with O => "calc_base_matrix_1qutrit_identity" | S c => "calc_base_matrix_1qutrit_" ++ ax_name (c mod 3) ++ "_" ++ lvl_name (c / 3) end.

(* ---------------- state ensembles (1 qubit) and plain name lists *)
Definition cat_ensembles : list string := ["z0"; "z1"; "x0"].
Definition state_names (sys : nat) : list string := map fst (cat_states sys).
Definition all_state_names : list string := flat_map state_names (seq 0 5).
Definition povm_names (sys : nat) : list string := map fst (cat_povms sys).
Definition gate_names (sys : nat) : list string := map fst (cat_gates sys).

(* ---------------- which vector functions of state_typical.py a state name dispatches to, in tensor order (the ATOMS of C17_PySem's formal
   pure-state vectors): zero-argument functions get_state_<name>_pure_state_vector, the Bell states through get_state_bell_pure_state_vector(name) *)
Definition vec_method (n : string) : string := "get_state_" ++ n ++ "_pure_state_vector".
Definition state_atoms (s : sname) : list string :=
  match s with
  | SQ ks => map (fun k => vec_method (st1q_name k)) ks
  | SBell k => ["get_state_bell_pure_state_vector:" ++ bell_name k]
  | SGhz => [vec_method "ghz"] | SWerner => [vec_method "werner"]
  | ST ks => map (fun c => vec_method (st1t_name c)) ks
  | ST012 => [vec_method "0_1_2_superposition"] | ST001122 => [vec_method "00_11_22_superposition"]
  end.

(* ---------------- POVM dispatch: the pure-state vectors of a rank-1 POVM name, outcome by outcome (itertools.product order over the factors),
   each as the list of vector-function atoms of its Kronecker factors; the auxiliary validity lists in quara's order *)
Fixpoint lcart {A} (ls : list (list A)) : list (list A) := match ls with [] => [[]] | l :: r => flat_map (fun a => map (cons a) (lcart r)) l end.
Definition povm1_outcome_atoms (k : nat) : list (list string) := map (fun out => concat (map state_atoms out)) (povm_states k).
Definition povm_atoms (ks : list nat) : list (list string) := map (fun c => concat c) (lcart (map povm1_outcome_atoms ks)).
Definition povm_rank1_names : list string := ["x"; "y"; "z"; "bell"; "z3"; "01x3"; "01y3"; "02x3"; "02y3"; "12x3"; "12y3"].
Definition povm_not_rank1_names : list string := ["z2"; "xxparity"; "zzparity"].
