(* C06 — vocabulary for the functions REGENERATED from quara's source by gen/c06_py2coq.py (definitions only).
   The translator turns the list / loop / dispatch / threshold logic of quara/objects/operators.py into Gallina over this vocabulary; the numerical
   kernels stay ABSTRACT: matrices M, vectors V and scalars S are type parameters, `a @ b`, `.T`, `.conjugate()`, `/`, `<=` ... are operation
   parameters of the section.  coq/gen/C06_Equiv.v instantiates them with the model's function matrices over an ordered field and proves the
   regenerated functions equal to the hand-written model Model/C06_Compose.v.

   Python objects are records holding exactly the attributes the translated code reads; a constructor CALL in the source (Gate(...), MProcess(...),
   StateEnsemble(...), MultinomialDistribution(...)) becomes a constructor of [pres] holding the call's arguments - what the quara constructors do
   with them (validation, defaults) is NOT part of the translated slice (it is modelled by hand: C01, C16, Model/C06_Compose.v). *)
From Coq Require Import List Bool ZArith String.
Import ListNotations.

(* exception monad: a Python function returns a value or raises *)
Inductive pyres (A : Type) := POk (a : A) | PExc (name : string).
Arguments POk {A} a. Arguments PExc {A} name.
Definition pbind {A B} (r : pyres A) (f : A -> pyres B) : pyres B := match r with POk a => f a | PExc e => PExc e end.
(* for x in l: body   (body updates the loop-carried state or raises) *)
Fixpoint pfor {X St} (l : list X) (body : X -> St -> pyres St) (st : St) : pyres St :=
  match l with [] => POk st | x :: t => pbind (body x st) (pfor t body) end.
(* reading a local variable that may be unbound *)
Definition pget {A} (v : option A) : pyres A := match v with Some a => POk a | None => PExc "UnboundLocalError" end.
Fixpoint zip {A B} (l : list A) (l' : list B) : list (A * B) :=
  match l, l' with a :: t, b :: t' => (a, b) :: zip t t' | _, _ => [] end.
Fixpoint enumerate_from {A} (k : nat) (l : list A) : list (nat * A) := match l with [] => [] | a :: t => (k, a) :: enumerate_from (S k) t end.

Inductive pty := TState | TGate | TPovm | TMProcess | TStateEnsemble | TMultinomialDistribution | TList.
Definition pty_eqb (a b : pty) : bool :=
  match a, b with
  | TState, TState | TGate, TGate | TPovm, TPovm | TMProcess, TMProcess | TStateEnsemble, TStateEnsemble
  | TMultinomialDistribution, TMultinomialDistribution | TList, TList => true
  | _, _ => false
  end.

Section Objects.
Variables M V S : Type.
Record r_state := { st_sys : Z; st_phys : bool; st_vec : V }.
Record r_gate := { ga_sys : Z; ga_phys : bool; ga_hs : M }.
Record r_povm := { pv_sys : Z; pv_phys : bool; pv_vecs : list V; pv_nums_local_outcomes : list nat }.
Record r_mproc := { mq_sys : Z; mq_phys : bool; mq_hss : list M; mq_shape : list nat; mq_eps_zero : S; mq_mode_sampling : bool }.
Record r_dist := { di_ps : list S; di_shape : list nat; di_is_zero_dist : bool }.
Record r_ens := { es_states : list r_state; es_prob_dist : r_dist; es_eps_zero : S }.
Inductive pobj :=
  | PState (o : r_state) | PGate (o : r_gate) | PPovm (o : r_povm) | PMProcess (o : r_mproc)
  | PStateEnsemble (o : r_ens) | PMultinomialDistribution (o : r_dist).
Definition ty_of (o : pobj) : pty :=
  match o with PState _ => TState | PGate _ => TGate | PPovm _ => TPovm | PMProcess _ => TMProcess
             | PStateEnsemble _ => TStateEnsemble | PMultinomialDistribution _ => TMultinomialDistribution end.
(* attribute reads on a dynamically typed operand: AttributeError when the class has no such attribute *)
Definition obj_composite_system (o : pobj) : pyres Z :=
  match o with PState r => POk (st_sys r) | PGate r => POk (ga_sys r) | PPovm r => POk (pv_sys r) | PMProcess r => POk (mq_sys r)
             | _ => PExc "AttributeError" end.
Definition obj_is_physicality_required (o : pobj) : pyres bool :=
  match o with PState r => POk (st_phys r) | PGate r => POk (ga_phys r) | PPovm r => POk (pv_phys r) | PMProcess r => POk (mq_phys r)
             | _ => PExc "AttributeError" end.

(* results: the arguments of the constructor call that ends a branch, the call of another (translated or opaque) function, a plain value *)
Inductive pres :=
  | RGate (sys : Z) (hs : M) (phys : bool)
  | RState (sys : Z) (vec : V) (phys : bool)
  | RPovm (sys : Z) (vecs : list V) (phys : bool)
  | RMProcess (sys : Z) (hss : list M) (shape : list nat) (phys : bool)            (* eps_zero / mode_sampling not passed: constructor defaults *)
  | RMultinomialDistribution (ps : list S) (shape : list nat)
  | REnsembleOfObjs (states : list pobj) (dist : r_dist)                          (* StateEnsemble(new_states, elem2.prob_dist), new_states = composed objects *)
  | REnsemble (states : list r_state) (ps : list S) (shape : list nat) (eps : S)  (* StateEnsemble(states, MultinomialDistribution(ps, shape), eps_zero) *)
  | ROpaque (what : string).                                                      (* a branch the translator is told not to enter (mode_sampling) *)
End Objects.

(* the operations the translator does not look into (table OPS of gen/c06_py2coq.py): numerical kernels, composite-system constants, the recursive use of
   compose_qoperations on one (operand, state) pair, matrix_util.truncate_and_normalize on a 1-d array *)
Record pyops (M V S : Type) := {
  op_m_matmul : M -> M -> M;  op_m_matvec : M -> V -> V;  op_m_vecmat : V -> M -> V;  op_m_transpose : M -> M;
  op_m_row0 : M -> V;  op_v_scale : S -> V -> V;
  op_v_conj : V -> V;  op_v_real : V -> V;  op_v_first : V -> S;  op_v_div : V -> S -> V;  op_v_zero : V;  op_v_vdot : V -> V -> S;
  op_s_atol : S;  op_s_zero : S;  op_s_one : S;  op_s_mul : S -> S -> S;  op_s_div : S -> S -> S;  op_s_max : S -> S -> S;
  op_s_leb : S -> S -> bool;  op_s_ltb : S -> S -> bool;  op_s_eq0 : S -> bool;  op_s_sum : list S -> S;
  op_cs_sqrt_dim : Z -> S;  op_cs_ortho : Z -> bool;  op_cs_ivec : Z -> V;
  op_k_truncate_and_normalize : list S -> list S;
  op_k_compose : pobj M V S -> pobj M V S -> pyres (pobj M V S) }.
Section Helpers.
Variables M V S : Type.
Definition pv_num_outcomes (p : r_povm V) : nat := List.length (pv_vecs V p).       (* Povm._num_outcomes = len(vecs) (constructor) *)
Definition obj_ps (o : pobj M V S) : pyres (list S) := match o with PMultinomialDistribution _ _ _ d => POk (di_ps S d) | _ => PExc "AttributeError" end.
(* MultinomialDistribution.__getitem__(int) for a non-negative index: plain sequence access, IndexError outside (C16) *)
Definition dist_getitem (d : r_dist S) (i : nat) : pyres S := match nth_error (di_ps S d) i with Some x => POk x | None => PExc "IndexError" end.
Definition list_last {A} (l : list A) : pyres A := match rev l with x :: _ => POk x | [] => PExc "IndexError" end.
(* elem2.states[0].generate_zero_obj(): a State of the same system with the zero vector, physicality not required *)
Definition zero_state_of (v_zero : V) (l : list (r_state V)) : pyres (r_state V) :=
  match l with s :: _ => POk (Build_r_state V (st_sys V s) false v_zero) | [] => PExc "IndexError" end.
Definition arg_is_list (a : pobj M V S + list (pobj M V S)) : bool := match a with inl _ => false | inr _ => true end.
End Helpers.
Arguments pv_num_outcomes {V} p. Arguments obj_ps {M V S} o. Arguments dist_getitem {S} d i. Arguments zero_state_of {V} v_zero l.
Arguments arg_is_list {M V S} a.
Arguments st_sys {V}. Arguments st_phys {V}. Arguments st_vec {V}.
Arguments ga_sys {M}. Arguments ga_phys {M}. Arguments ga_hs {M}.
Arguments pv_sys {V}. Arguments pv_phys {V}. Arguments pv_vecs {V}. Arguments pv_nums_local_outcomes {V}.
Arguments mq_sys {M S}. Arguments mq_phys {M S}. Arguments mq_hss {M S}. Arguments mq_shape {M S}. Arguments mq_eps_zero {M S}. Arguments mq_mode_sampling {M S}.
Arguments di_ps {S}. Arguments di_shape {S}. Arguments di_is_zero_dist {S}.
Arguments es_states {V S}. Arguments es_prob_dist {V S}. Arguments es_eps_zero {V S}.
Arguments ty_of {M V S} o. Arguments obj_composite_system {M V S} o. Arguments obj_is_physicality_required {M V S} o.

Arguments op_m_matmul {M V S} p. Arguments op_m_matvec {M V S} p. Arguments op_m_vecmat {M V S} p. Arguments op_m_transpose {M V S} p. Arguments op_v_conj {M V S} p. Arguments op_v_real {M V S} p. Arguments op_v_first {M V S} p. Arguments op_v_div {M V S} p. Arguments op_v_zero {M V S} p. Arguments op_v_vdot {M V S} p. Arguments op_s_zero {M V S} p. Arguments op_s_one {M V S} p. Arguments op_s_mul {M V S} p. Arguments op_s_div {M V S} p. Arguments op_s_max {M V S} p. Arguments op_s_leb {M V S} p. Arguments op_s_ltb {M V S} p. Arguments op_s_eq0 {M V S} p. Arguments op_s_sum {M V S} p. Arguments op_cs_sqrt_dim {M V S} p. Arguments op_cs_ortho {M V S} p. Arguments op_cs_ivec {M V S} p. Arguments op_k_truncate_and_normalize {M V S} p. Arguments op_k_compose {M V S} p. Arguments op_m_row0 {M V S} p. Arguments op_v_scale {M V S} p. Arguments op_s_atol {M V S} p.
