(* C15 — the few Python idioms the translator gen/c15_py2coq.py emits for the physicality-check functions
   (quara/simulation/standard_qtomography_simulation_check.py: execute_physicality_violation_check;
    quara/data_analysis/physicality_violation_check.py: get_eq_const_eps, _convert_result_to_qoperation, calc_unphysical_qobjects_n,
    is_physical_qobjects_all, is_eq_constraint_satisfied_all, is_ineq_constraint_satisfied_all).  Definitions only.

   A Python expression that may raise (here: IndexError of  l[i]) denotes an  option ; [None] = the exception.
   estimation_results is seen as  list (list est) : one row per EstimationResult = its estimated_qoperation_sequence,
   an estimate being the record of Model/C15_PhysCheck.v (on_para_eq_constraint, equality defect, inequality defect). *)
From Coq Require Import List Arith Bool.
From QV.Model Require Import C15_PhysCheck.
Import ListNotations.

Definition obind {A B : Type} (x : option A) (f : A -> option B) : option B :=
  match x with Some a => f a | None => None end.
(* list comprehension  [f a for a in l]  whose body may raise: left to right, the first exception aborts *)
Fixpoint omap {A B : Type} (f : A -> option B) (l : list A) : option (list B) :=
  match l with
  | [] => Some []
  | a :: t => obind (f a) (fun b => obind (omap f t) (fun bs => Some (b :: bs)))
  end.
(* for-loop over l threading the variables the body rebinds *)
Fixpoint ofold {S A : Type} (f : S -> A -> option S) (l : list A) (s : S) : option S :=
  match l with
  | [] => Some s
  | a :: t => obind (f s a) (fun s' => ofold f t s')
  end.
(* l[i] for a non-negative int i *)
Definition py_idx {A : Type} (l : list A) (i : nat) : option A := nth_error l i.
(* b in l  for a list of bools *)
Definition py_in (b : bool) (l : list bool) : bool := existsb (Bool.eqb b) l.
(* type(estimator) == Class *)
Definition kind_eqb (a b : estkind) : bool :=
  match a, b with
  | ELinear, ELinear | EProjLinear, EProjLinear | ELossMin, ELossMin | EOther, EOther => true
  | _, _ => false
  end.

(* ------------------------------------------------------------------ random streams as Python objects (stream-dataflow translation)
   Functions translated in this style: utils/number_util.to_stream, Standard{Qst,Povmt,Qpt,Qmpt}.generate_empi_dists_sequence,
   simulation._generate_empi_dists_and_calc_estimate, generate_empi_dists_and_calc_estimate, execute_simulation.
   A seed_or_generator VALUE is None, an integer (python int or numpy integer: isinstance(x, (int, np.integer))) or a stream OBJECT;
   stream objects have identity and state: the process-global np.random, the Generator the caller passed in, or the id-th
   Generator created by  np.random.Generator(np.random.MT19937(seed))  during the call.  The state records how many task-draws
   (one Experiment.generate_empi_dists_sequence call = one task-draw) each object has served. *)
From Coq Require Import ZArith.
From QV.Model Require Import C15_Dataflow.

Inductive stream := SAmb | SArg | SNew (id : nat).
Inductive sval := VNone | VInt (z : Z) | VStream (s : stream).
Record sstate := { s_amb : nat; s_arg : nat; s_new : list (Z * nat) }.
Definition st0 : sstate := {| s_amb := 0; s_arg := 0; s_new := [] |}.
Definition sm (A : Type) := sstate -> A * sstate.
Definition sret {A} (a : A) : sm A := fun st => (a, st).
Definition sbind {A B} (x : sm A) (f : A -> sm B) : sm B := fun st => let (a, st') := x st in f a st'.
(* for _ in range(n): body  threading the rebound variable *)
Fixpoint sloop {S} (n : nat) (body : S -> sm S) (s : S) : sm S :=
  match n with O => sret s | S k => sbind (body s) (sloop k body) end.

Definition sv_is_none (v : sval) : bool := match v with VNone => true | _ => false end.
Definition sv_is_int (v : sval) : bool := match v with VInt _ => true | _ => false end.   (* isinstance(v, (int, np.integer)) *)
(* np.random.Generator(np.random.MT19937(v)) : a NEW generator object seeded with the integer v *)
Definition sv_alloc (v : sval) : sm sval := fun st =>
  match v with
  | VInt z => (VStream (SNew (length (s_new st))), {| s_amb := s_amb st; s_arg := s_arg st; s_new := s_new st ++ [(z, 0)] |})
  | _ => (v, st)      (* not reachable in the translated code: guarded by isinstance *)
  end.
Fixpoint bump (l : list (Z * nat)) (id : nat) : list (Z * nat) :=
  match l, id with
  | [], _ => []
  | (z, u) :: t, O => (z, S u) :: t
  | x :: t, S k => x :: bump t k
  end.
(* one task-draw on a stream object.  [origin] describes the Generator the caller passed in (root, spawn path, position) *)
Definition draw_stream (origin : Z * list nat * nat) (s : stream) : sm key := fun st =>
  match s with
  | SAmb => (KAmbient (s_amb st), {| s_amb := S (s_amb st); s_arg := s_arg st; s_new := s_new st |})
  | SArg => let '(r, p, o) := origin in
            (KSeed r p (o + s_arg st), {| s_amb := s_amb st; s_arg := S (s_arg st); s_new := s_new st |})
  | SNew id => match nth_error (s_new st) id with
               | Some (z, u) => (KSeed z [] u, {| s_amb := s_amb st; s_arg := s_arg st; s_new := bump (s_new st) id |})
               | None => (KAmbient 0, st)
               end
  end.
(* Experiment.generate_empi_dists_sequence(..., seed_or_generator=v): ONE task-draw on the stream v denotes (a value that is not a
   stream object is converted there as to_stream does: None -> np.random, an integer -> a fresh generator) *)
Definition experiment_draw (origin : Z * list nat * nat) (v : sval) : sm key :=
  match v with
  | VStream s => draw_stream origin s
  | VNone => draw_stream origin SAmb
  | VInt _ => sbind (sv_alloc v) (fun w => match w with VStream s => draw_stream origin s | _ => sret (KAmbient 0) end)
  end.
(* the values of the model's seed arguments *)
Definition sval_of_seedarg (a : seedarg) : sval :=
  match a with SNone => VNone | SInt n => VInt n | SGen _ _ _ => VStream SArg end.
Definition origin_of_seedarg (a : seedarg) : Z * list nat * nat :=
  match a with SGen r p o => (r, p, o) | _ => (0%Z, [], 0) end.
Definition sval_of_seed_data (sd : option Z) : sval := match sd with Some n => VInt n | None => VNone end.

(* ------------------------------------------------------------------ depolarising-noise constructors (numbers in an ordered field)
   Functions translated in this style: objects/gate.get_depolarizing_channel, DepolarizedQOperationGenerationSetting.{__init__,
   generate_state, generate_povm, generate_gate, generate_mprocess}, qoperation_typical.generate_qoperation_depolarized (per mode).
   Objects are their numbers: a state = coefficient vector, a POVM = list of vectors, a gate = HS matrix, an MProcess = list of HS
   matrices; [n] = c_sys.dim ** 2.  compose_qoperations(X, Y) is dispatched on the STATIC types of its operands; its meaning on
   coefficients is the composition rule of quara.objects.operators (property C06): gate after state = hs @ vec, POVM after gate =
   vec @ hs for every element, gate after gate = hs1 @ hs2, gate after MProcess = hs1 @ hs_x for every outcome. *)
From QV.Core Require Import OF Sums Mat.
From QV.Model Require Import QObj.
Section DepolSem.
Context (F : OF).
(* a <= b <= c *)
Definition py_chain_le (a b c : F) : bool := kleb F a b && kleb F b c.
(* np.array([x] + [y] * (n - 1)) *)
Definition vec_cons1 (x y : F) : rvec F := fun a => if Nat.eqb a 0 then x else y.
(* np.diag(v) *)
Definition np_diag (v : rvec F) : rmat F := fun a b => if Nat.eqb a b then v a else c0 F.
Definition compose_gate_state (n : nat) (H : rmat F) (v : rvec F) : rvec F := mv n H v.
Definition compose_povm_gate (n : nat) (vs : list (rvec F)) (H : rmat F) : list (rvec F) :=
  map (fun v => fun b => sumn n (fun a => cmul F (v a) (H a b))) vs.
Definition compose_gate_gate (n : nat) (H G : rmat F) : rmat F := mmul n H G.
Definition compose_gate_mprocess (n : nat) (H : rmat F) (Gs : list (rmat F)) : list (rmat F) := map (mmul n H) Gs.
End DepolSem.

(* ------------------------------------------------------------------ spawn structure of the flow entry point
   Function translated in this style: simulation_flow.execute_simulation_test_setting_unit.
   SeedSequence(seed).spawn(n) = the n children with spawn keys [0] .. [n-1]; Generator(MT19937(child)) = the stream with that key at
   position 0.  joblib.Parallel(...)([delayed(task)(.., i, .., g, ..) for i, g in enumerate(gens)]) = the list of the task results in
   SUBMISSION order (theorem C15_par_exec_schedule_irrelevant: for every schedule that runs each task), the tasks being functions of
   their arguments; list(itertools.chain.from_iterable(rs)) = concat rs. *)
Definition py_spawn_streams (seed : Z) (n : nat) : list key := spawn seed [] n.
Definition py_parallel_enumerate {A R : Type} (task : nat -> A -> R) (l : list A) : list R :=
  map (fun ia => task (fst ia) (snd ia)) (combine (seq 0 (length l)) l).

(* ------------------------------------------------------------------ generation settings as seen by the flow's dispatch helper
   Function translated in this style: simulation_flow._generate_with_stream (its test _takes_stream is checked textually: "generate
   has a parameter named seed_or_generator").  A generation setting is abstracted by that one bit: the settings whose generate takes the
   stream (random effective Lindbladian) make ONE task-draw on the stream they are given (None -> np.random); the others (depolarized,
   plain) are deterministic, and calling their generate WITH an argument is a TypeError. *)
Definition setting_generate (origin : Z * list nat * nat) (takes : bool) (v : sval) : sm genkey :=
  if takes then sbind (experiment_draw origin v) (fun k => sret (GKey k)) else sret GTypeError.
Definition setting_generate_default (origin : Z * list nat * nat) (takes : bool) : sm genkey :=
  if takes then sbind (experiment_draw origin VNone) (fun k => sret (GKey k)) else sret GNoRandom.
(* [f x for x in l] with a stateful body *)
Fixpoint smapM {A B : Type} (f : A -> sm B) (l : list A) : sm (list B) :=
  match l with
  | [] => sret []
  | a :: t => sbind (f a) (fun b => sbind (smapM f t) (fun bs => sret (b :: bs)))
  end.

(* ------------------------------------------------------------------ which objects the repetitions' estimation tasks are handed
   Function translated in this style: simulation.execute_estimation (the task list of its joblib.Parallel call).
   Every task receives, for estimator / loss / algo, either the simulation setting's own object (shared by all tasks) or a deep copy
   made for this task.  A task loads its data into the loss object it was handed and then optimises over it (Model/C15_Dataflow.v: step). *)
Inductive objref := OShared | OFresh.
Record est_task := { t_estimator : objref; t_loss : objref; t_algo : objref }.
(* the loss object of task t: its own copy (Some t) or the one shared object (None) *)
Definition loss_register (tasks : list est_task) (t : nat) : option nat :=
  match nth_error tasks t with
  | Some tk => match t_loss tk with OFresh => Some t | OShared => None end
  | None => None
  end.
Definition obj_eqb (a b : option nat) : bool :=
  match a, b with Some x, Some y => Nat.eqb x y | None, None => true | _, _ => false end.
(* execution of a schedule of load / optimise steps over loss OBJECTS: [regs o] = the task whose data object o currently carries *)
Fixpoint run_objs (reg_of : nat -> option nat) (regs : option nat -> option nat) (sched : list step) : list (nat * option nat) :=
  match sched with
  | [] => []
  | SetData t :: r => run_objs reg_of (fun o => if obj_eqb o (reg_of t) then Some t else regs o) r
  | Optimize t :: r => (t, regs (reg_of t)) :: run_objs reg_of regs r
  end.
Definition step_task (s : step) : nat := match s with SetData t => t | Optimize t => t end.
