(* C13 - configuration state machines of the loss-function and minimisation-algorithm objects that
   LossMinimizationEstimator.calc_estimate_sequence re-configures for every dataset (definitions only).

   calc_estimate_sequence does, per dataset:
     loss.set_from_standard_qtomography_option_data(qt, loss_option, data, grad?, hess?)
        = set_from_option; set_prob_dists_q(data); set_func_prob_dists_from_standard_qt(qt);
          [set_func_gradient_prob_dists_from_standard_qt(qt)]; _set_weights_by_mode(option.mode_weight, data)
     algo.set_from_option(algo_option); algo.set_constraint_from_standard_qt_and_option(qt, algo_option);
     algo.set_from_loss(loss); algo.optimize(loss, loss_option, algo_option)

   The numerical content is abstract here: [D] a dataset together with its tomography (matA, vecB, q, N),
   [W] a list of weight matrices, [invw] the inverse-covariance weights computed from a dataset,
   [val d w] any observation of the configured loss (value / gradient at any point) when the weights in
   effect are [w] ([None] = unweighted).  Model/C13_LossNum.v gives the concrete instance that is executed. *)
From Coq Require Import List Bool.
Import ListNotations.

Section Loss.
Context {D W V : Type}.
Context (invw : bool -> D -> W).          (* false: inverse_sample_covariance, true: inverse_unbiased_covariance *)
Context (val : D -> option W -> V).

(* option.mode_weight.  [Unhandled] = "unbiased_inverse_covariance": a spelling accepted by
   WeightedProbabilityBasedSquaredErrorOption which had no branch in _set_weights_by_mode before fix
   c12-se-alias-mode and is handled like "inverse_unbiased_covariance" since. *)
Inductive wmode := Identity | Custom (w : W) | InvSample | InvUnbiased | Unhandled.

(* The repairs of fixes/c12-se-*.diff can be present independently of each other:
     fx_id     c12-se-identity-mode-reset    "identity" resets the weights (was: pass)
     fx_alias  c12-se-alias-mode             "unbiased_inverse_covariance" has a branch (was: none)
     fx_ext    c12-se-fast-extended-weights  the fast loss rebuilds / clears its extension whenever weights are set
   [repaired] (all three) is the model that the harness compares with the code; [as_coded] (none) is the code
   as it was before these fixes; the mixed ones only serve to name which repair is missing. *)
Record fixes := { fx_id : bool; fx_alias : bool; fx_ext : bool }.
Definition as_coded : fixes := {| fx_id := false; fx_alias := false; fx_ext := false |}.
Definition repaired : fixes := {| fx_id := true; fx_alias := true; fx_ext := true |}.

(* WeightedProbabilityBasedSquaredError._set_weights_by_mode *)
Definition new_weights_p (p : fixes) (o : wmode) (d : D) (old : option W) : option W :=
  match o with
  | Identity => if fx_id p then None else old
  | Unhandled => if fx_alias p then Some (invw true d) else old
  | Custom w => Some w
  | InvSample => Some (invw false d)
  | InvUnbiased => Some (invw true d)
  end.
(* ... as coded before the fixes: identity is "pass", the alias matches no branch *)
Definition new_weights (o : wmode) (d : D) (old : option W) : option W :=
  match o with
  | Identity | Unhandled => old
  | Custom w => Some w
  | InvSample => Some (invw false d)
  | InvUnbiased => Some (invw true d)
  end.

(* what the call means: the weights named by the option, for this dataset, nothing else *)
Definition spec_weights (o : wmode) (d : D) : option W :=
  match o with
  | Identity => None
  | Custom w => Some w
  | InvSample => Some (invw false d)
  | InvUnbiased | Unhandled => Some (invw true d)
  end.
Definition spec (d : D) (o : wmode) : V := val d (spec_weights o d).

Inductive lop := Configure (d : D) (o : wmode) | SetW (w : option W).

(* ---- WeightedProbabilityBasedSquaredError (generic): fields _prob_dists_q/_func_prob_dists (= d), _weight_matrices.
   [g_step] AS CODED BEFORE fixes c12-se-identity-mode-reset / c12-se-alias-mode; [g_step_p repaired] below is the repaired code *)
Record gstate := { g_data : option D; g_w : option W }.
Definition g_init (w0 : option W) : gstate := {| g_data := None; g_w := w0 |}.
Definition g_step (s : gstate) (op : lop) : gstate :=
  match op with
  | Configure d o => {| g_data := Some d; g_w := new_weights o d (g_w s) |}
  | SetW w => {| g_data := g_data s; g_w := w |}
  end.
Definition g_run (ops : list lop) (s : gstate) : gstate := fold_left g_step ops s.
(* value()/gradient(): "if self.weight_matrices:" *)
Definition g_value (s : gstate) : option V := option_map (fun d => val d (g_w s)) (g_data s).
(* the same object with a given set of repairs present *)
Definition g_step_p (p : fixes) (s : gstate) (op : lop) : gstate :=
  match op with
  | Configure d o => {| g_data := Some d; g_w := new_weights_p p o d (g_w s) |}
  | SetW w => {| g_data := g_data s; g_w := w |}
  end.
Definition g_run_p (p : fixes) (ops : list lop) (s : gstate) : gstate := fold_left (g_step_p p) ops s.

(* ---- StandardQTomographyBasedWeightedProbabilityBasedSquaredError (fast): additionally
   _prob_dists_q_flat/_matA/_vecB (= d) and _extend_weight_matrix, represented by the weights it was
   built from.  [f_step] AS CODED BEFORE fixes c12-se-fast-extended-weights / c12-se-identity-mode-reset /
   c12-se-alias-mode: _calc_extend_weight_matrix() runs inside set_func_(gradient_)prob_dists_from_standard_qt,
   i.e. BEFORE _set_weights_by_mode, and returns early when weight_matrices is None; nothing else refreshes it. *)
Record fstate := { f_data : option D; f_w : option W; f_ext : option W }.
Definition f_init (w0 : option W) : fstate := {| f_data := None; f_w := w0; f_ext := None |}.
Definition f_step (s : fstate) (op : lop) : fstate :=
  match op with
  | Configure d o =>
      {| f_data := Some d;
         f_w := new_weights o d (f_w s);
         f_ext := match f_w s with Some w => Some w | None => f_ext s end |}
  | SetW w => {| f_data := f_data s; f_w := w; f_ext := f_ext s |}
  end.
Definition f_run (ops : list lop) (s : fstate) : fstate := fold_left f_step ops s.
(* value()/gradient(): "if self._extend_weight_matrix is not None:" *)
Definition f_value (s : fstate) : option V := option_map (fun d => val d (f_ext s)) (f_data s).

(* the same object with a given set of repairs present.  With fx_ext: _calc_extend_weight_matrix clears the
   extension when there are no weights, and set_weight_matrices (called by _set_weights_by_mode and by the
   user) rebuilds it, so the extension always mirrors the weights. *)
Definition f_step_p (p : fixes) (s : fstate) (op : lop) : fstate :=
  match op with
  | Configure d o =>
      let w := new_weights_p p o d (f_w s) in
      {| f_data := Some d; f_w := w;
         f_ext := if fx_ext p then w else match f_w s with Some x => Some x | None => f_ext s end |}
  | SetW w => {| f_data := f_data s; f_w := w; f_ext := if fx_ext p then w else f_ext s |}
  end.
Definition f_run_p (p : fixes) (ops : list lop) (s : fstate) : fstate := fold_left (f_step_p p) ops s.

(* all repairs, written out: rebuild the extension after the weights are set (and drop it when there are none) *)
Definition f_step_fixed (s : fstate) (op : lop) : fstate :=
  match op with
  | Configure d o => let w := spec_weights o d in {| f_data := Some d; f_w := w; f_ext := w |}
  | SetW w => {| f_data := f_data s; f_w := w; f_ext := w |}
  end.
Definition g_step_fixed (s : gstate) (op : lop) : gstate :=
  match op with
  | Configure d o => {| g_data := Some d; g_w := spec_weights o d |}
  | SetW w => {| g_data := g_data s; g_w := w |}
  end.

(* ---- (StandardQTomographyBased)WeightedRelativeEntropy AS CODED BEFORE fixes c12-re-set-weights-by-mode and
   c12-re-fast-extend-weights: _set_weights_by_mode is the inherited no-op
   (the subclass method is misspelt _sets_weight_by_mode and never called), so configuring never touches
   the weights; the fast variant recomputes _extend_weights from the current weights and the NEW q inside
   set_func_prob_dists_from_standard_qt. *)
Record rstate := { r_data : option D; r_w : option W; r_ext : option W }.
Definition r_init (w0 : option W) : rstate := {| r_data := None; r_w := w0; r_ext := None |}.
Definition r_step (s : rstate) (op : lop) : rstate :=
  match op with
  | Configure d _ => {| r_data := Some d; r_w := r_w s;
                        r_ext := match r_w s with Some w => Some w | None => r_ext s end |}
  | SetW w => {| r_data := r_data s; r_w := w; r_ext := r_ext s |}
  end.
Definition r_run (ops : list lop) (s : rstate) : rstate := fold_left r_step ops s.
(* "if self.weights is not None: self._extend_weights * ..." *)
Definition r_value (s : rstate) : option V :=
  option_map (fun d => val d (match r_w s with Some _ => r_ext s | None => None end)) (r_data s).

(* ... and as repaired (the model compared with the code): _set_weights_by_mode exists, "identity" resets the
   weights, "custom" installs the option's (the option class accepts no other mode; for those the method has
   no branch); set_weights of the fast variant rebuilds the extension once the data are there.  The extension
   is only read when the weights are not None. *)
Definition r_new_weights (o : wmode) (old : option W) : option W :=
  match o with Identity => None | Custom w => Some w | _ => old end.
Definition r_step_fixed (s : rstate) (op : lop) : rstate :=
  match op with
  | Configure d o =>
      let w := r_new_weights o (r_w s) in
      {| r_data := Some d; r_w := w;
         r_ext := match w with Some x => Some x
                  | None => match r_w s with Some x => Some x | None => r_ext s end end |}
  | SetW w => {| r_data := r_data s; r_w := w;
                 r_ext := match w, r_data s with Some x, Some _ => Some x | _, _ => r_ext s end |}
  end.
Definition r_run_fixed (ops : list lop) (s : rstate) : rstate := fold_left r_step_fixed ops s.

(* the weights that the last non-identity configuration / setter of a history left behind *)
Fixpoint last_weights (ops : list lop) (w0 : option W) : option W :=
  match ops with
  | [] => w0
  | Configure d o :: t => last_weights t (new_weights o d w0)
  | SetW w :: t => last_weights t w
  end.
Definition all_identity (ops : list lop) : Prop :=
  Forall (fun op => match op with Configure _ Identity => True | Configure _ Unhandled => True | _ => False end) ops.
End Loss.

Arguments Identity {W}. Arguments InvSample {W}. Arguments InvUnbiased {W}. Arguments Unhandled {W}.
Arguments Custom {W} w. Arguments Configure {D W} d o. Arguments SetW {D W} w.

(* ---- ProjectedGradientDescent.  [a_step] AS CODED BEFORE fix pgd-cached-func-proj: _func_proj is built from
   (qt, option) on the FIRST call of set_constraint_from_standard_qt_and_option and kept
   ("if self._func_proj is not None: return"); _qt, _option, _loss are overwritten on every call.
   [a_step_fixed user] as repaired (the model compared with the code): a projection handed to the constructor
   ([user]) is kept, otherwise the projection is rebuilt from (qt, option) on every call. *)
Section Algo.
Context {Q O P : Type}.
Context (mkproj : Q -> O -> P).
Record astate := { a_proj : option P; a_qt : option Q; a_opt : option O }.
Definition a_init (p0 : option P) : astate := {| a_proj := p0; a_qt := None; a_opt := None |}.
Definition a_step (s : astate) (c : Q * O) : astate :=
  {| a_proj := match a_proj s with Some p => Some p | None => Some (mkproj (fst c) (snd c)) end;
     a_qt := Some (fst c); a_opt := Some (snd c) |}.
Definition a_run (cs : list (Q * O)) (s : astate) : astate := fold_left a_step cs s.
Definition a_step_fixed (user : option P) (s : astate) (c : Q * O) : astate :=
  {| a_proj := match user with Some p => Some p | None => Some (mkproj (fst c) (snd c)) end;
     a_qt := Some (fst c); a_opt := Some (snd c) |}.
End Algo.

(* ---- one estimation = configure loss, configure algorithm, optimise.  [solve] is the optimiser as an
   oracle: it sees the configured loss only through [val] and the algorithm through (projection, qt, option). *)
Section Estimate.
Context {D W V Q O P R : Type}.
Context (invw : bool -> D -> W) (val : D -> option W -> V) (mkproj : Q -> O -> P) (qt_of : D -> Q).
Context (solve : option V -> option P -> option Q -> option O -> R).
Record job := { j_data : D; j_mode : @wmode W; j_opt : O }.
Definition est_step_g (st : @gstate D W * @astate Q O P) (j : job) : (@gstate D W * @astate Q O P) * R :=
  let l := g_step invw (fst st) (Configure (j_data j) (j_mode j)) in
  let a := a_step mkproj (snd st) (qt_of (j_data j), j_opt j) in
  ((l, a), solve (g_value val l) (a_proj a) (a_qt a) (a_opt a)).
Definition est_step_f (st : @fstate D W * @astate Q O P) (j : job) : (@fstate D W * @astate Q O P) * R :=
  let l := f_step invw (fst st) (Configure (j_data j) (j_mode j)) in
  let a := a_step mkproj (snd st) (qt_of (j_data j), j_opt j) in
  ((l, a), solve (f_value val l) (a_proj a) (a_qt a) (a_opt a)).
(* the estimation loop with the repairs [p] of the loss present and the repaired algorithm object (no user projection) *)
Definition est_step_gp (p : fixes) (st : @gstate D W * @astate Q O P) (j : job) : (@gstate D W * @astate Q O P) * R :=
  let l := g_step_p invw p (fst st) (Configure (j_data j) (j_mode j)) in
  let a := a_step_fixed mkproj None (snd st) (qt_of (j_data j), j_opt j) in
  ((l, a), solve (g_value val l) (a_proj a) (a_qt a) (a_opt a)).
Definition est_step_fp (p : fixes) (st : @fstate D W * @astate Q O P) (j : job) : (@fstate D W * @astate Q O P) * R :=
  let l := f_step_p invw p (fst st) (Configure (j_data j) (j_mode j)) in
  let a := a_step_fixed mkproj None (snd st) (qt_of (j_data j), j_opt j) in
  ((l, a), solve (f_value val l) (a_proj a) (a_qt a) (a_opt a)).
(* the meaning of one job: fresh loss, fresh algorithm *)
Definition est_spec (j : job) : R :=
  solve (Some (spec invw val (j_data j) (j_mode j))) (Some (mkproj (qt_of (j_data j)) (j_opt j)))
        (Some (qt_of (j_data j))) (Some (j_opt j)).
Fixpoint est_run_g st (js : list job) : (@gstate D W * @astate Q O P) :=
  match js with [] => st | j :: t => est_run_g (fst (est_step_g st j)) t end.
Fixpoint est_run_f st (js : list job) : (@fstate D W * @astate Q O P) :=
  match js with [] => st | j :: t => est_run_f (fst (est_step_f st j)) t end.
Fixpoint est_run_gp p st (js : list job) : (@gstate D W * @astate Q O P) :=
  match js with [] => st | j :: t => est_run_gp p (fst (est_step_gp p st j)) t end.
Fixpoint est_run_fp p st (js : list job) : (@fstate D W * @astate Q O P) :=
  match js with [] => st | j :: t => est_run_fp p (fst (est_step_fp p st j)) t end.
End Estimate.
