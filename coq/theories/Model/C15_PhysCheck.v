(* C15 — the simulation's built-in physicality check as a decision table (definitions only), generic in the
   ordered field.  Mirrors StandardQTomographySimulationCheck.execute_physicality_violation_check and
   quara/data_analysis/physicality_violation_check.{is_physical_qobjects_all, calc_unphysical_qobjects_n,
   is_eq_constraint_satisfied_all, is_ineq_constraint_satisfied_all, get_eq_const_eps}.

   A stored estimate is seen by the check only through
     e_para : on_para_eq_constraint of the regenerated object,
     e_eq   : its equality-constraint defect  (|tr rho - 1|, max|sum_x E_x - I|, max|HS[0] - e_0|, ...),
     e_ineq : its inequality-constraint defect (max(0, -lambda_min) of the density / element / Choi matrix),
   and  is_eq_constraint_satisfied(eps) = (e_eq <= eps),  is_ineq_constraint_satisfied(eps) = (e_ineq <= eps)
   (the verdict functions themselves belong to C01).  Estimates are indexed [repetition][num_data index].
   [None] stands for the IndexError the Python code raises on empty inputs. *)
From Coq Require Import List Arith Bool.
From QV.Core Require Import OF.
Import ListNotations.

Inductive estkind := ELinear | EProjLinear | ELossMin | EOther.
(* type(estimator) (compared with ==, so subclasses are EOther); algo_option truthiness and its two flags *)
Record chkcfg := { k_kind : estkind; k_has_option : bool; k_algo_eq : bool; k_algo_ineq : bool }.

Section PhysCheck.
Context (F : OF).
Record thresholds := { t_atol : F; t_eq_false : F; t_ineq : F }.   (* Settings.get_atol(), 1e-5, 1e-5 *)
Record est := { e_para : bool; e_eq : F; e_ineq : F }.

Definition eq_eps (th : thresholds) (para : bool) : F := if para then t_atol th else t_eq_false th.
Definition eq_ok (e : est) (eps : F) : bool := kleb F (e_eq e) eps.
Definition ineq_ok (e : est) (eps : F) : bool := kleb F (e_ineq e) eps.
Definition physical (e : est) (eqeps ineqeps : F) : bool := eq_ok e eqeps && ineq_ok e ineqeps.

Definition get (ests : list (list est)) (r i : nat) : option est :=
  match nth_error ests r with Some row => nth_error row i | None => None end.
(* a (strict) list comprehension of verdicts followed by "False not in ..." *)
Fixpoint all_opt (l : list (option bool)) : option bool :=
  match l with
  | [] => Some true
  | x :: t => match x, all_opt t with Some b, Some c => Some (b && c) | _, _ => None end
  end.
Definition column (ests : list (list est)) (i : nat) (p : est -> bool) : option bool :=
  all_opt (map (fun row => option_map p (nth_error row i)) ests).

(* is_physical_qobjects_all: per num_data index, threshold from the FIRST repetition's object *)
Definition is_physical_all (th : thresholds) (ests : list (list est)) (n_num : nat) : option bool :=
  all_opt (map (fun i => match get ests 0 i with
                         | None => None
                         | Some e0 => column ests i (fun e => physical e (eq_eps th (e_para e0)) (t_ineq th))
                         end) (seq 0 n_num)).
(* is_eq_constraint_satisfied_all: threshold from estimation_results[0].estimated_qoperation *)
Definition is_eq_all (th : thresholds) (ests : list (list est)) (n_num : nat) : option bool :=
  match get ests 0 0 with
  | None => None
  | Some e0 => all_opt (map (fun i => column ests i (fun e => eq_ok e (eq_eps th (e_para e0)))) (seq 0 n_num))
  end.
Definition is_ineq_all (th : thresholds) (ests : list (list est)) (n_num : nat) : option bool :=
  all_opt (map (fun i => column ests i (fun e => ineq_ok e (t_ineq th))) (seq 0 n_num)).

Definition check (th : thresholds) (c : chkcfg) (ests : list (list est)) (n_num : nat) : option bool :=
  match k_kind c with
  | EProjLinear => is_physical_all th ests n_num
  | ELinear => match get ests 0 0 with
               | None => None
               | Some e0 => if e_para e0 then is_eq_all th ests n_num else Some true
               end
  | ELossMin =>
      if k_has_option c then
        all_opt ((if k_algo_eq c then [is_eq_all th ests n_num] else []) ++
                 (if k_algo_ineq c then [is_ineq_all th ests n_num] else []))
      else Some true
  | EOther => Some true
  end.

(* ---- the specification side: which constraints the estimator was configured to enforce *)
Definition enforced_eq (c : chkcfg) (para : bool) : bool :=
  match k_kind c with
  | EProjLinear => true | ELinear => para | ELossMin => k_has_option c && k_algo_eq c | EOther => false end.
Definition enforced_ineq (c : chkcfg) : bool :=
  match k_kind c with
  | EProjLinear => true | ELossMin => k_has_option c && k_algo_ineq c | _ => false end.
Definition violates (th : thresholds) (c : chkcfg) (para : bool) (e : est) : bool :=
  (enforced_eq c para && negb (kleb F (e_eq e) (eq_eps th para))) ||
  (enforced_ineq c && negb (kleb F (e_ineq e) (t_ineq th))).
Definition rectangular (ests : list (list est)) (n_num : nat) : Prop := Forall (fun row => length row = n_num) ests.
Definition uniform_para (ests : list (list est)) (para : bool) : Prop :=
  Forall (fun row => Forall (fun e => e_para e = para) row) ests.
End PhysCheck.

Arguments t_atol {F} t. Arguments t_eq_false {F} t. Arguments t_ineq {F} t.
Arguments e_para {F} e. Arguments e_eq {F} e. Arguments e_ineq {F} e.
