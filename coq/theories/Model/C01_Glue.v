(* C01 — semantics of the "glue" of quara's verdict methods (definitions only): tolerance resolution
   (atol = Settings.get_atol() if atol is None else atol), argument routing (is_physical -> is_eq/is_ineq_constraint_satisfied ->
   is_trace_one / ... -> matrix_util), conjunctions, branches on basis flags, loops over elements with early return, the constructors'
   raise.  gen/c01_py2coq.py regenerates terms of this language from /repo's CURRENT source on every run; coq/gen/C01_Equiv.v proves
   that their evaluation, with the numeric primitives read as in Model/C01_Verdicts.v, IS the hand-written verdict model.

   Everything numeric is opaque: a boolean-valued expression that is not glue (np.isclose(...), np.all(... >= 0), a call of another
   translated function, ...) is a PRIMITIVE [BPrim id holes]: [id] indexes the table of templates (canonical source text of the
   expression and of the numeric statements it depends on, with every tolerance-valued sub-expression replaced by a numbered hole) and
   [holes] are the tolerance expressions filling the holes.  A tolerance value is [option F] ([None] = Python's None). *)
From Coq Require Import String List Bool Arith.
From QV.Core Require Import OF.
From QV.Model Require Import C01_Verdicts.
Import ListNotations.

Section C01Glue.
Context (F : OF).

(* tolerance-valued expressions *)
Inductive tol :=
| TVar (x : string)                        (* a parameter / local holding a tolerance *)
| TSettings                                (* Settings.get_atol() *)
| TIfNone (x : string) (a b : tol)         (* a if x is None else b *)
| TZero                                    (* the literal 0.0 *)
| TNone                                    (* the literal None / an omitted optional argument *)
| TDefaultRtol                             (* numpy's default rtol (1e-5) when the keyword is omitted *)
| TDefaultAtol.                            (* numpy's default atol (1e-8) when the keyword is omitted *)

Inductive bexp :=
| BTrue | BFalse
| BAnd (a b : bexp) | BOr (a b : bexp) | BNot (a : bexp)
| BEqFalse (a : bexp)                      (* a == False *)
| BIsTrue (a : bexp)                       (* a is True / a == True *)
| BFlag (s : string)                       (* boolean attribute: self.is_physicality_required, c_sys.is_orthonormal_hermitian_0thprop_identity *)
| BVar (x : string)                        (* local bound to a boolean *)
| BPrim (id : nat) (holes : list tol).     (* numeric primitive / call of another function, see above *)

Inductive stmt :=
| SRet (b : bexp)
| SRaise
| SPass                                                    (* end of the block without return *)
| SLetTol (x : string) (t : tol) (k : stmt)
| SLetBool (x : string) (b : bexp) (k : stmt)
| SIf (c : bexp) (th el : stmt)                            (* el = the else branch followed by the rest of the block *)
| SLoop (iter : string) (body : stmt) (k : stmt).          (* for _ in iter: body (SPass = next element, anything else leaves the function); then k *)

Inductive outcome := ORet (b : bool) | ORaise | OPass.

(* numpy's default atol 1e-8 *)
Definition np_atol : F :=
  let t := @kten F in kdiv F (c1 F) (cmul F t (cmul F t (cmul F t (cmul F t (cmul F t (cmul F t (cmul F t t))))))).

Record genv := {
  g_settings : F;                                          (* the global Settings atol in force *)
  g_flag : string -> bool;
  g_len : string -> nat;                                   (* number of elements of an iterated collection *)
  g_prim : nat -> nat -> list (option F) -> bool           (* primitive id, loop index, hole values *)
}.

Definition tenv := string -> option F.
Definition benv := string -> bool.
Definition upd {A} (e : string -> A) (x : string) (v : A) : string -> A := fun y => if String.eqb y x then v else e y.

Fixpoint eval_tol (g : genv) (te : tenv) (t : tol) : option F :=
  match t with
  | TVar x => te x
  | TSettings => Some (g_settings g)
  | TIfNone x a b => match te x with None => eval_tol g te a | Some _ => eval_tol g te b end
  | TZero => Some (c0 F)
  | TNone => None
  | TDefaultRtol => Some (@np_rtol F)
  | TDefaultAtol => Some np_atol
  end.

Fixpoint eval_b (g : genv) (te : tenv) (be : benv) (i : nat) (b : bexp) : bool :=
  match b with
  | BTrue => true | BFalse => false
  | BAnd a c => eval_b g te be i a && eval_b g te be i c
  | BOr a c => eval_b g te be i a || eval_b g te be i c
  | BNot a => negb (eval_b g te be i a)
  | BEqFalse a => negb (eval_b g te be i a)
  | BIsTrue a => eval_b g te be i a
  | BFlag s => g_flag g s
  | BVar x => be x
  | BPrim id hs => g_prim g id i (map (eval_tol g te) hs)
  end.

(* first outcome that is not OPass among f 0, f 1, ..., f (n-1) *)
Fixpoint scan (f : nat -> outcome) (start n : nat) : outcome :=
  match n with
  | O => OPass
  | S m => match f start with OPass => scan f (S start) m | o => o end
  end.

Fixpoint eval (g : genv) (te : tenv) (be : benv) (i : nat) (s : stmt) : outcome :=
  match s with
  | SRet b => ORet (eval_b g te be i b)
  | SRaise => ORaise
  | SPass => OPass
  | SLetTol x t k => eval g (upd te x (eval_tol g te t)) be i k
  | SLetBool x b k => eval g te (upd be x (eval_b g te be i b)) i k
  | SIf c th el => if eval_b g te be i c then eval g te be i th else eval g te be i el
  | SLoop iter body k =>
      match scan (fun j => eval g te be j body) 0 (g_len g iter) with
      | OPass => eval g te be i k
      | o => o
      end
  end.

(* calling a translated function: parameters bound positionally to the hole values, no boolean locals *)
Fixpoint bind (params : list string) (args : list (option F)) : tenv :=
  match params, args with
  | p :: ps, a :: az => upd (bind ps az) p a
  | p :: ps, [] => upd (bind ps []) p None            (* omitted optional argument *)
  | [], _ => fun _ => None
  end.
Definition call (g : genv) (params : list string) (body : stmt) (i : nat) (args : list (option F)) : outcome :=
  eval g (bind params args) (fun _ => false) i body.
Definition ret_true (o : outcome) : bool := match o with ORet b => b | _ => false end.
Definition raises (o : outcome) : bool := match o with ORaise => true | _ => false end.
(* ---------------------------------------------------------------- the Settings class (quara/settings.py): a class attribute read by
   get_atol and written by set_atol after a type guard.  [pyarg]: the argument is a Python float (value x) or anything else. *)
Inductive sstmt :=
| SsRet (attr : string)                          (* return cls.<attr> *)
| SsRequireFloat (arg : string) (k : sstmt)      (* if type(<arg>) != float: raise TypeError(...) ; k *)
| SsStore (attr arg : string).                   (* cls.<attr> = <arg> *)
Inductive pyarg := PFloat (x : F) | POther.
Inductive sresult := RVal (x : F) | RNone | RTypeError.
Definition clsstate := string -> F.
Fixpoint eval_s (s : sstmt) (cls : clsstate) (a : pyarg) : clsstate * sresult :=
  match s with
  | SsRet attr => (cls, RVal (cls attr))
  | SsRequireFloat _ k => match a with PFloat _ => eval_s k cls a | POther => (cls, RTypeError) end
  | SsStore attr _ => match a with PFloat x => (upd cls attr x, RNone) | POther => (upd cls attr (c0 F), RNone) end
  end.
(* ---------------------------------------------------------------- _generate_origin_obj / _generate_zero_obj: arrays that are zero except
   for (at most) one entry given by a scalar expression in sqrt(dim) ([sd]) and the number of elements ([m] = len(self.vecs) / len(self.hss)) *)
Inductive scal := SOne | SSqrtDim | SLen | SDiv (a b : scal).
Inductive arr := AZeros | ASet1 (i : nat) (s : scal) | ASet2 (i j : nat) (s : scal).
Fixpoint eval_sc (sd : F) (m : nat) (s : scal) : F :=
  match s with SOne => c1 F | SSqrtDim => sd | SLen => @knat F m | SDiv a b => kdiv F (eval_sc sd m a) (eval_sc sd m b) end.
Definition eval_arr1 (sd : F) (m : nat) (x : arr) : nat -> F :=
  match x with ASet1 i s => fun a => if Nat.eqb a i then eval_sc sd m s else c0 F | _ => fun _ => c0 F end.
Definition eval_arr2 (sd : F) (m : nat) (x : arr) : nat -> nat -> F :=
  match x with ASet2 i j s => fun a b => if Nat.eqb a i && Nat.eqb b j then eval_sc sd m s else c0 F | _ => fun _ _ => c0 F end.
End C01Glue.

Arguments eval_tol {F} g te t. Arguments eval_b {F} g te be i b. Arguments eval {F} g te be i s. Arguments call {F} g params body i args.
Arguments bind {F} params args. Arguments upd {A} e x v. Arguments np_atol {F}.
Arguments PFloat {F} x. Arguments POther {F}. Arguments RVal {F} x. Arguments RNone {F}. Arguments RTypeError {F}.
Arguments eval_s {F} s cls a.
Arguments eval_sc {F} sd m s. Arguments eval_arr1 {F} sd m x _. Arguments eval_arr2 {F} sd m x _ _.
Arguments g_settings {F} g. Arguments g_flag {F} g _. Arguments g_len {F} g _. Arguments g_prim {F} g _ _ _. Arguments Build_genv {F} _ _ _ _.
