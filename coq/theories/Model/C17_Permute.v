(* C17 — model of the id bookkeeping of the 3-qubit catalogue gates (definitions only).
   quara/objects/gate_typical.py:
     get_permutation_matrix_from_ascending_order(ids)   matP[i_original, i_sorted] = 1  for the FIRST i_original with
                                                        ids[i_original] == sorted(ids)[i_sorted]   (loop with `break`)
     permute_pauli_symbol(symbol, ids)                  Pauli symbol -> indices (i x y z -> 0 1 2 3), multiply by the
                                                        permutation matrix, indices -> symbol
   generate_gate_toffoli_hamiltonian_mat / generate_gate_fredkin_hamiltonian_mat write their Hamiltonians as sums of 3-letter
   Pauli symbols in ROLE order (toffoli: control control target; fredkin: control swapped swapped), "ids[k] is for role k",
   call permute_pauli_symbol on every symbol and read the result in ascending order of ids (the tensor order of the
   composite system).
     [permute_fixed]   matP^T @ indices   the code after fix toffoli-fredkin-cyclic-ids-inverted (what the harness compares with)
     [permute_coded]   matP   @ indices   the code as it was before that fix (kept only for the refutation theorem)        *)
From Coq Require Import List Arith Bool.
Import ListNotations.

(* sorted(ids) *)
Fixpoint ins_asc (x : nat) (l : list nat) : list nat :=
  match l with [] => [x] | y :: t => if x <=? y then x :: l else y :: ins_asc x t end.
Definition sorted_ids (l : list nat) : list nat := fold_right ins_asc [] l.

(* index of the first occurrence *)
Fixpoint first_index (x : nat) (l : list nat) : option nat :=
  match l with [] => None | y :: t => if x =? y then Some 0 else option_map S (first_index x t) end.

(* matP[i_original][i_sorted] *)
Definition matP (ids : list nat) (i_original i_sorted : nat) : bool :=
  match first_index (nth i_sorted (sorted_ids ids) 0) ids with Some k => k =? i_original | None => false end.

Fixpoint sumf (n : nat) (f : nat -> nat) : nat := match n with O => 0 | S m => sumf m f + f m end.

(* numpy  M @ v  for a 0/1 matrix and a vector of Pauli indices, n = len(ids) *)
Definition permute_coded (ids v : list nat) : list nat :=
  let n := length ids in map (fun i => sumf n (fun j => if matP ids i j then nth j v 0 else 0)) (seq 0 n).
Definition permute_fixed (ids v : list nat) : list nat :=
  let n := length ids in map (fun j => sumf n (fun i => if matP ids i j then nth i v 0 else 0)) (seq 0 n).

(* the intended meaning ("ids[k] is for role k", result read in ascending order of ids):
   the letter at ascending position p is the letter of the role k whose id is the p-th smallest *)
Definition permute_spec (ids v out : list nat) : Prop :=
  length out = length ids /\
  forall p, p < length ids -> exists k, k < length ids /\ nth k ids 0 = nth p (sorted_ids ids) 0 /\ nth p out 0 = nth k v 0.
