(* C07 — the vocabulary the C07 translator (gen/c07_py2coq.py) emits: Python list operations on integers and SYMBOLIC numpy
   expressions with their denotation (definitions only).  The translator turns matrix_util._left_permutation_matrix,
   matrix_util.calc_permutation_matrix, matrix_util.convert_list_by_permutation_matrix and the index loop of
   QOperation._permutation_matrix_from_qutrits_to_qubits into Gallina over these combinators on every run; coq/gen/C07_Equiv2.v
   proves the regenerated functions equal to the hand-written model of Model/C07_Tensor.v / C07_Embed.v.
   What is TRUSTED here (the meaning given to the numpy / Python primitives): np.eye(n) = identity of size n; np.kron = Kronecker
   product (second factor minor); a @ b = matrix product, ValueError (None) on a dimension mismatch; _K(d1, d2) = the commutation
   matrix modelled by [Kmat] (tied to the code's literal sum by C07_K_is_sum_of_units and, per run, by the `perm` sub-check);
   np.prod / reduce(mul, .) = product; Python slicing, indexing, item assignment and range on lists of integers;
   itertools.product(names, repeat=n) = all n-tuples in lexicographic order (first component slowest). *)
From Coq Require Import Arith List Bool ZArith Lia.
From QV.Core Require Import OF Sums Mat.
From QV.Model Require Import C07_Tensor.
Import ListNotations.

(* ---- Python lists of integers *)
Definition pyidx {A : Type} (l : list A) (e : Z) : nat := Z.to_nat (if (e <? 0)%Z then (Z.of_nat (length l) + e)%Z else e).
(* l[e]  (IndexError is not modelled: default value; the equivalence proofs show the index is in range where the code uses it) *)
Definition pynth (l : list Z) (e : Z) : Z := nth (pyidx l e) l 0%Z.
(* l[:e], l[e:] *)
Definition pyslice_to {A : Type} (l : list A) (e : Z) : list A := firstn (pyidx l e) l.
Definition pyslice_from {A : Type} (l : list A) (e : Z) : list A := skipn (pyidx l e) l.
(* l[e] = v *)
Fixpoint upd_nat {A : Type} (l : list A) (i : nat) (v : A) : list A :=
  match l, i with
  | [], _ => []
  | _ :: r, O => v :: r
  | x :: r, S j => x :: upd_nat r j v
  end.
Definition pyupd {A : Type} (l : list A) (e : Z) (v : A) : list A := upd_nat l (pyidx l e) v.
(* functools.reduce(operator.mul, l)  (TypeError on the empty list is not modelled: 0) *)
Definition pyreduce_mul (l : list Z) : Z := match l with [] => 0%Z | x :: r => fold_left Z.mul r x end.
(* np.prod(l) *)
Definition pyprod (l : list Z) : Z := fold_left Z.mul l 1%Z.
(* range(n) *)
Definition pyrange (n : Z) : list Z := map Z.of_nat (seq 0 (Z.to_nat n)).
(* itertools.product(names, repeat=n) as a list of lists *)
Fixpoint pyproduct (names : list Z) (n : nat) : list (list Z) :=
  match n with
  | O => [[]]
  | S k => flat_map (fun d => map (cons d) (pyproduct names k)) names
  end.

(* specification of convert_list_by_permutation_matrix: entry r of the result is old[c] for the FIRST column c (in the order
   [cols]) with P[r, c] == 1; None stands for the placeholder True the code leaves when row r has no 1 *)
Definition hit (P : Z -> Z -> Z) (r c : Z) : bool := (P r c =? 1)%Z.
Definition conv_row (old : list Z) (P : Z -> Z -> Z) (cols : list Z) (r : Z) : option Z := option_map (pynth old) (find (hit P r) cols).
Definition conv_list (old : list Z) (P : Z -> Z -> Z) (n m : nat) : list (option Z) :=
  map (fun r => conv_row old P (map Z.of_nat (seq 0 m)) (Z.of_nat r)) (seq 0 n).

(* padding coefficient of the qutrit -> qubit embedding as written in the per-type _embed_* methods:
   a constant, 1 / n, or 1 / np.sqrt(n) *)
Inductive coef := CConst (z : Z) | CInv (n : Z) | CInvSqrt (n : Z).

(* nested binary products as written by tensor_product's loop *)
Inductive ptree := PLeaf (id : Z) | PNode (l r : ptree).
(* operators._tensor_product: which pairs of operand types (codes: Gate 0, MProcess 1, SparseMatrixBasis 2, MatrixBasis 3, State 4,
   StateEnsemble 5, Povm 6) are accepted and what is done with them (0..6 = the dedicated product function called as F(elem1, elem2):
   Gate_Gate, Gate_MProcess, MProcess_Gate, MProcess_MProcess, State_State, StateEnsemble_StateEnsemble, Povm_Povm; 10 / 11 = sparse /
   dense basis of all kron(v1, v2) in itertools.product order; 20 / 21 = State (x) StateEnsemble / StateEnsemble (x) State entry-wise
   with the ensemble's distribution); None = TypeError *)
(* an argument of tensor_product's star-args `elements`: one operand or a Python list of operands (flattened one level by _to_list) *)
Inductive parg := AItem (t : ptree) | AList (l : list ptree).
Definition flatten_args (els : list parg) : list ptree := flat_map (fun e => match e with AList l => l | AItem t => [t] end) els.
(* _to_list: ValueError (None) when fewer than two operands remain after flattening *)
Definition to_list_spec (els : list parg) : option (list ptree) :=
  let l := flatten_args els in if (length l <? 2)%nat then None else Some l.
(* tensor_product as a whole (star-args `elements`): left fold, in argument order, over the flattened operands *)
Definition tensor_product_spec (els : list parg) : option ptree :=
  match flatten_args els with x :: y :: r => Some (fold_left PNode (y :: r) x) | _ => None end.

Definition tp_table : list (Z * Z * Z) :=
  [(0, 0, 0); (0, 1, 1); (1, 0, 2); (1, 1, 3); (2, 2, 10); (3, 3, 11); (4, 4, 4); (4, 5, 20); (5, 4, 21); (5, 5, 5); (6, 6, 6)]%Z.
Definition tp_dispatch (t1 t2 : Z) : option Z :=
  option_map snd (find (fun e : Z * Z * Z => (fst (fst e) =? t1)%Z && (snd (fst e) =? t2)%Z) tp_table).

(* ---- symbolic numpy expressions *)
Inductive sym := SEye (n : Z) | SK (d1 d2 : Z) | SKron (a b : sym) | SMatmul (a b : sym).

Section Den.
Context {R : CR}.
Local Notation mat := (@Mat.mat R).
Fixpoint sden (s : sym) : option (nat * mat) :=
  match s with
  | SEye n => if (n <? 0)%Z then None else Some (Z.to_nat n, mid)
  | SK d1 d2 => if ((d1 <? 0) || (d2 <? 0))%Z%bool then None else Some ((Z.to_nat d1 * Z.to_nat d2)%nat, Kmat (Z.to_nat d1) (Z.to_nat d2))
  | SKron a b =>
      match sden a, sden b with
      | Some (na, A), Some (nb, B) => Some ((na * nb)%nat, kron nb nb A B)
      | _, _ => None
      end
  | SMatmul a b =>
      match sden a, sden b with
      | Some (na, A), Some (nb, B) => if Nat.eqb na nb then Some (na, mmul na A B) else None
      | _, _ => None
      end
  end.
End Den.
