(* C16 — operators._compose_qoperations_MProcess_StateEnsemble (mode_sampling = False) and StateEnsemble.__init__ as coded
   (definitions only).  The per-state measurement _compose_qoperations_MProcess_State_for_States is an ORACLE [meas] (it may raise),
   State.generate_zero_obj an oracle [zero_obj]; what is modelled is everything around them: the order in which old entries are
   measured, how the blocks are concatenated, the shape, the zero-distribution branch, the new distribution (constructor with the
   DEFAULT threshold), eps_zero = max, and the validation of the new ensemble. *)
From Coq Require Import ZArith List Bool String.
From QV.Core Require Import OF.
From QV.Model Require Import IndexUtil Multinomial C16_PySem.
Import ListNotations.
Local Open Scope Z_scope.

Section Compose.
Context (F : OF) (tol : F) (St : Type).
Context (meas : St -> F -> pyres (list St * list F)) (zero_obj : St -> St).

(* StateEnsemble(states, prob_dist, eps_zero) *)
Definition ens_init (states : list St) (d : md F) (eps : F) : pyres (ensemble F St) :=
  if ltb F eps (c0 F) then PRaise "ValueError"
  else if negb (Nat.eqb (List.length states) (List.length (md_ps F d))) then PRaise "ValueError"
  else PRet (mk_ens states d eps).

(* the old entries are measured in order; the first measurement that raises ends everything *)
Fixpoint collect (old : list (St * F)) : pyres (list St * list F) :=
  match old with
  | [] => PRet ([], [])
  | (s, p) :: t => pbind (meas s p) (fun '(ss, pp) => pbind (collect t) (fun '(ss', pp') => PRet (ss ++ ss', pp ++ pp')))
  end.

(* an ensemble whose distribution is the zero distribution: all-zero table of the new shape, zero objects made from states[0] *)
Definition zero_table (states : list St) (shape : list Z) : pyres (list F * list St) :=
  let n := fold_left Z.mul shape 1 in
  let ps := repeat (c0 F) (Z.to_nat n) in
  if n <=? 0 then PRet (ps, [])
  else match states with [] => PRaise "IndexError" | s0 :: _ => PRet (ps, repeat (zero_obj s0) (Z.to_nat n)) end.

Definition py_max (a b : F) : F := if ltb F a b then b else a.
(* MultinomialDistribution(ps, shape) with the default eps_zero *)
Definition md_new (ps : list F) (shape : list nat) : pyres (md F) :=
  to_py (md_of_dist F tol) (construct F tol tol ps (Some shape)).

Definition compose_ens (mshape : list nat) (mp_eps : F) (old_shape : list nat) (e : ensemble F St) : pyres (ensemble F St) :=
  pbind (if md_is_zero_dist F (ens_prob_dist e)
         then zero_table (ens_states e) (map Z.of_nat (old_shape ++ mshape))
         else pbind (collect (combine (ens_states e) (md_ps F (ens_prob_dist e)))) (fun '(ss, pp) => PRet (pp, ss)))
    (fun '(pp, ss) => pbind (md_new pp (old_shape ++ mshape)) (fun d => ens_init ss d (py_max mp_eps (ens_eps_zero e)))).

(* _compose_qoperations_MProcess_State (mode_sampling = False): ONE state measured (weight 1.0); the ensemble's distribution carries
   the instrument's own outcome shape — also when that shape is a multi-index (a composite instrument B o A has shape (m1, m2)) *)
Definition compose_state (mshape : list nat) (mp_eps : F) (s : St) : pyres (ensemble F St) :=
  pbind (meas s (c1 F)) (fun '(ss, pp) => pbind (md_new pp mshape) (fun d => ens_init ss d mp_eps)).

(* the block an old entry is replaced by, as (state, probability) entries ([] when the oracle raises) *)
Definition block_of (e : St * F) : list (St * F) :=
  match meas (fst e) (snd e) with PRet (ss, pp) => combine ss pp | PRaise _ => [] end.
End Compose.
