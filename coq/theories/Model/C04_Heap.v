(* C04 — a small array-heap model (buffers, views, in-place updates, fresh allocations) of
   mprocess.convert_var_to_hss + MProcess.calc_proj_eq_constraint_with_var, to state "never modifies its argument".
   Definitions only.  A NumPy array is a reference (buffer id, offset) into the heap; reshape / indexing / iteration
   give VIEWS (same buffer), copy.copy / copy.deepcopy / np.insert / np.hstack / np.reshape(list) allocate fresh buffers.

   [h_proj_eq_with_var]            the code WITH repair fixes/mprocess-proj-eq-var-mutates-argument.diff
                                   (hss = copy.deepcopy(convert_var_to_hss(...))): this is the faithful model, the one the
                                   harness executes and compares with the implementation.
   [h_proj_eq_with_var_prefix]     the code AS IT WAS BEFORE that repair (the hss are views of var when the flag is False and
                                   `hs[0] -= vec / len(hss)` writes through them).  Kept only for the `_refuted` theorem and for
                                   the diagnostic the harness prints when the defect re-appears. *)
From Coq Require Import Arith Bool List.
From QV.Core Require Import OF Sums Mat.
From QV.Model Require Import QObj C04_Proj.
Import ListNotations.

Section C04Heap.
Context (F : OF).
Notation "0" := (c0 F).
Infix "+" := (cadd F). Infix "-" := (csub F). Infix "/" := (kdiv F).

Definition heap := nat -> nat -> F.                               (* buffer id -> index -> value *)
Record aref := { buf : nat; off : nat }.                          (* a contiguous 1-D view *)
Definition rd (h : heap) (r : aref) (i : nat) : F := h (buf r) (off r + i)%nat.
(* in-place  r[0:len] -= v  *)
Definition isub (h : heap) (r : aref) (len : nat) (v : nat -> F) : heap :=
  fun b i => if Nat.eqb b (buf r) && (off r <=? i)%nat && (i <? off r + len)%nat then h b i - v (i - off r)%nat else h b i.
(* a fresh buffer holding the given contents *)
Definition alloc (h : heap) (fresh : nat) (c : nat -> F) : heap := fun b i => if Nat.eqb b fresh then c i else h b i.

(* vector.reshape((m, n, n)) iterated: m views of length n*n into the same buffer *)
Definition hss_views (base : aref) (m n : nat) : list aref :=
  map (fun x => {| buf := buf base; off := (off base + x * (n * n))%nat |}) (seq 0 m).
Definition aref0 : aref := {| buf := 0; off := 0 |}.
(* convert_var_to_hss: flag -> copy.copy(var) + np.insert (a NEW buffer [fresh]) ; otherwise  vector = var  (NO copy) *)
Definition h_convert_var_to_hss (flag : bool) (fresh m n : nat) (h : heap) (var : aref) : heap * list aref :=
  if flag then (alloc h fresh (mp_var_to_stacked F true m n (rd h var)), hss_views {| buf := fresh; off := 0 |} m n)
  else (h, hss_views var m n).
Definition read_hss (n : nat) (h : heap) (hss : list aref) : nat -> @mat F :=
  fun x a b => rd h (nth x hss aref0) (a * n + b)%nat.
(* the body of calc_proj_eq_constraint_with_var after the conversion *)
Definition h_spread (flag : bool) (fresh2 m n : nat) (h1 : heap) (hss : list aref) : heap * aref :=
  let vec := fun b => fold_right (fun r acc => rd h1 r b + acc) 0 hss - e0 b in          (* vec = sum hs[0]; vec[0] -= 1 *)
  let h2 := fold_left (fun hh r => isub hh r n (fun b => vec b / of_nat (length hss))) hss h1 in   (* hs[0] -= vec / len(hss) *)
  (alloc h2 fresh2 (mp_hss_to_var F flag m n (read_hss n h2 hss)), {| buf := fresh2; off := 0 |}).     (* convert_hss_to_var: new array *)
(* copy.deepcopy(list of m arrays of n*n entries): new storage, disjoint from everything else (modelled as m consecutive
   windows of one fresh buffer; element k of the copy is element k mod n*n of the array number k / (n*n)) *)
Definition h_deepcopy (fresh3 m n : nat) (h1 : heap) (hss : list aref) : heap * list aref :=
  (alloc h1 fresh3 (fun k => rd h1 (nth (k / (n * n)) hss aref0) (k mod (n * n))), hss_views {| buf := fresh3; off := 0 |} m n).

(* the code with repair mprocess-proj-eq-var-mutates-argument:  hss = copy.deepcopy(convert_var_to_hss(...)) *)
Definition h_proj_eq_with_var (flag : bool) (fresh1 fresh2 fresh3 m n : nat) (h : heap) (var : aref) : heap * aref :=
  let '(h1, hss) := h_convert_var_to_hss flag fresh1 m n h var in
  let '(h1', hss') := h_deepcopy fresh3 m n h1 hss in
  h_spread flag fresh2 m n h1' hss'.
(* AS CODED BEFORE repair mprocess-proj-eq-var-mutates-argument:  hss = convert_var_to_hss(...)  (no copy) *)
Definition h_proj_eq_with_var_prefix (flag : bool) (fresh1 fresh2 m n : nat) (h : heap) (var : aref) : heap * aref :=
  let '(h1, hss) := h_convert_var_to_hss flag fresh1 m n h var in h_spread flag fresh2 m n h1 hss.
End C04Heap.
