(* C01 — model of the physicality verdicts of quara, exactly as coded (definitions only).
   Generic in the ordered field F, in the matrix basis B (passed as data) and in the global Settings atol.
     quara/utils/matrix_util.py : isclose, allclose, is_hermitian, is_positive_semidefinite
     quara/objects/state.py     : is_trace_one, is_hermitian, is_positive_semidefinite, is_physical, constructor
     quara/objects/povm.py      : is_identity_sum, is_positive_semidefinite, ...
     quara/objects/gate.py      : is_tp (both branches), is_cp
     quara/objects/mprocess.py  : is_sum_tp, is_cp
     quara/objects/qoperation.py: is_physical, generate_origin_obj, generate_zero_obj
   [rtol] is an explicit argument of the two verdicts State.is_trace_one and Povm.is_identity_sum:
     rtol = 0         the code AFTER the repairs fixes/C01-state-is-trace-one-rtol.diff / fixes/C01-povm-is-identity-sum-rtol.diff
                      (np.isclose(tr, 1, atol=atol, rtol=0.0); np.allclose(sum, I, atol=atol, rtol=0.0)) -- this is the model the
                      harness compares the implementation with and the one the positive theorems of Props/C01.v are about;
     rtol = [np_rtol] the code AS CODED BEFORE those repairs (np.isclose(tr, 1, atol=atol); np.allclose(sum, I, atol=atol): numpy's
                      default 1e-5) -- used only by the two [_refuted] theorems and to classify a disagreement in the harness.
   Complex moduli are compared in squared form (|z| <= t  iff  0 <= t /\ |z|^2 <= t^2), so no square root is needed. *)
From Coq Require Import Arith Bool List.
From QV.Core Require Import OF Sums Mat Cplx Psd.
From QV.Model Require Import QObj HermEmbed.

Section C01Model.
Context (F : OF).
Notation "0" := (c0 F). Notation "1" := (c1 F).
Infix "+" := (cadd F). Infix "*" := (cmul F). Infix "-" := (csub F).
Infix "/" := (kdiv F). Notation "- x" := (copp F x).
Notation Cx := (CF F).

(* ---------------------------------------------------------------- scalars *)
Definition kabs (x : F) : F := if kleb F 0 x then x else - x.
Definition knat (n : nat) : F := sumn n (fun _ => 1).
Definition ktwo : F := 1 + 1.
Definition kten : F := ktwo * (ktwo * ktwo + 1).
(* numpy's default relative tolerance 1e-5 *)
Definition np_rtol : F := 1 / (kten * kten * kten * kten * kten).

(* matrix_util.isclose / np.isclose / np.allclose entry test on REAL numbers:  |a-b| <= atol + rtol*|b| *)
Definition isclose (a b atol rtol : F) : bool := kleb F (kabs (a - b)) (atol + rtol * kabs b).
(* the same test on COMPLEX numbers, squared form; [babs] = |b| (in the code b is 0, 1, a Kronecker delta, or rtol = 0) *)
Definition ciscl (a b : Cx) (babs atol rtol : F) : bool :=
  let thr := atol + rtol * babs in kleb F 0 thr && kleb F (znorm2 (zsub a b)) (thr * thr).

Definition rdelta (i j : nat) : F := if Nat.eqb i j then 1 else 0.
Definition cdelta (i j : nat) : Cx := if Nat.eqb i j then c1 Cx else c0 Cx.
Definition all2 (n : nat) (p : nat -> nat -> bool) : bool := allb n (fun i => allb n (fun j => p i j)).

(* Settings.get_atol() when the caller passes atol=None *)
Definition resolve_atol (settings_atol : F) (a : option F) : F :=
  match a with Some x => x | None => settings_atol end.

(* ---------------------------------------------------------------- matrix_util *)
(* is_hermitian: allclose(matrix, matrix.conj().T, atol=atol, rtol=0.0) *)
Definition mutil_is_hermitian (n : nat) (H : cmat F) (atol : F) : bool :=
  all2 n (fun i j => ciscl (H i j) (zconj (H j i)) 0 atol 0).
(* what np.linalg.eigvalsh (UPLO='L') reads: the lower triangle, real part of the diagonal *)
Definition lowerherm (H : cmat F) : cmat F := fun i j =>
  if (j <? i)%nat then H i j else if Nat.eqb i j then zof (re (H i i)) else zconj (H j i).
(* is_positive_semidefinite: Hermitian within atol, and no eigenvalue below -atol
   (eigenvalues with |lambda| <= atol are discarded, the others must be >= 0), i.e.  L + atol*I >= 0 *)
Definition mutil_is_psd (n : nat) (H : cmat F) (atol : F) : bool :=
  if mutil_is_hermitian n H atol then herm_psd_dec F n (lowerherm H) atol else false.

(* constructors: "if self.is_physicality_required and not self.is_physical(): raise ValueError" *)
Definition ctor_raises (required physical : bool) : bool := required && negb physical.

(* ---------------------------------------------------------------- State *)
Definition state_trace (d : nat) (B : nat -> cmat F) (v : rvec F) : Cx := mtrace d (op_of_vec d B v).
Definition state_is_trace_one d B v (atol rtol : F) : bool := ciscl (state_trace d B v) (c1 Cx) 1 atol rtol.
Definition state_is_hermitian d B v (atol : F) : bool := mutil_is_hermitian d (op_of_vec d B v) atol.
Definition state_is_psd d B v (atol : F) : bool := mutil_is_psd d (op_of_vec d B v) atol.
Definition state_is_physical (st rtol : F) d B v (aeq aineq : option F) : bool :=
  state_is_trace_one d B v (resolve_atol st aeq) rtol && state_is_psd d B v (resolve_atol st aineq).
Definition state_ctor_raises (st rtol : F) d B v (required : bool) : bool :=
  ctor_raises required (state_is_physical st rtol d B v None None).
(* _generate_origin_obj / _generate_zero_obj ; sd stands for np.sqrt(dim) *)
Definition state_origin (sd : F) : rvec F := fun a => if Nat.eqb a 0 then 1 / sd else 0.
Definition state_zero : rvec F := fun _ => 0.

(* ---------------------------------------------------------------- Povm (m outcomes, vs x = coefficient vector of element x) *)
Definition povm_sum (d : nat) (B : nat -> cmat F) (m : nat) (vs : nat -> rvec F) : cmat F :=
  fun i j => sumn m (fun x => op_of_vec d B (vs x) i j : Cx).
Definition povm_is_identity_sum d B m vs (atol rtol : F) : bool :=
  all2 d (fun i j => ciscl (povm_sum d B m vs i j) (cdelta i j) (rdelta i j) atol rtol).
Definition povm_is_psd d B (m : nat) (vs : nat -> rvec F) (atol : F) : bool :=
  allb m (fun x => mutil_is_psd d (op_of_vec d B (vs x)) atol).
Definition povm_is_physical (st rtol : F) d B m vs (aeq aineq : option F) : bool :=
  povm_is_identity_sum d B m vs (resolve_atol st aeq) rtol && povm_is_psd d B m vs (resolve_atol st aineq).
Definition povm_ctor_raises (st rtol : F) d B m vs (required : bool) : bool :=
  ctor_raises required (povm_is_physical st rtol d B m vs None None).
Definition povm_origin (sd : F) (m : nat) : nat -> rvec F := fun _ a => if Nat.eqb a 0 then sd / knat m else 0.
Definition povm_zero : nat -> rvec F := fun _ _ => 0.

(* ---------------------------------------------------------------- Gate (HS = real d^2 x d^2 matrix) *)
(* first branch of gate.is_tp (basis flag set): np.allclose(hs[0], e_0, atol=atol, rtol=0.0) *)
Definition gate_is_tp_row (d : nat) (HS : rmat F) (atol : F) : bool :=
  allb (d * d) (fun a => isclose (HS 0%nat a) (rdelta 0 a) atol 0).
(* second branch: for every basis element, np.isclose(Tr[A(B_a)], Tr[B_a], atol=atol, rtol=0.0) *)
Definition gate_image_trace (d : nat) (B : nat -> cmat F) (HS : rmat F) (a : nat) : Cx :=
  mtrace d (op_of_vec d B (fun b => HS b a)).
Definition gate_is_tp_trace d B (HS : rmat F) (atol : F) : bool :=
  allb (d * d) (fun a => ciscl (gate_image_trace d B HS a) (mtrace d (B a)) 0 atol 0).
(* flag = c_sys.is_orthonormal_hermitian_0thprop_identity *)
Definition gate_is_tp (flag : bool) d B (HS : rmat F) (atol : F) : bool :=
  if flag then gate_is_tp_row d HS atol else gate_is_tp_trace d B HS atol.
Definition gate_is_cp d B (HS : rmat F) (atol : F) : bool := mutil_is_psd (d * d) (choi_of_hs d B HS) atol.
Definition gate_is_physical (st : F) (flag : bool) d B HS (aeq aineq : option F) : bool :=
  gate_is_tp flag d B HS (resolve_atol st aeq) && gate_is_cp d B HS (resolve_atol st aineq).
Definition gate_ctor_raises (st : F) flag d B HS (required : bool) : bool :=
  ctor_raises required (gate_is_physical st flag d B HS None None).
Definition gate_origin : rmat F := fun a b => if Nat.eqb a 0 && Nat.eqb b 0 then 1 else 0.
Definition gate_zero : rmat F := fun _ _ => 0.

(* ---------------------------------------------------------------- MProcess (m outcomes, hss x = HS matrix of outcome x) *)
Definition mprocess_sum_hs (m : nat) (hss : nat -> rmat F) : rmat F := fun a b => sumn m (fun x => hss x a b).
Definition mprocess_is_sum_tp (flag : bool) d B m hss (atol : F) : bool :=
  gate_is_tp flag d B (mprocess_sum_hs m hss) atol.
Definition mprocess_is_cp d B (m : nat) (hss : nat -> rmat F) (atol : F) : bool :=
  allb m (fun x => gate_is_cp d B (hss x) atol).
Definition mprocess_is_physical (st : F) flag d B m hss (aeq aineq : option F) : bool :=
  mprocess_is_sum_tp flag d B m hss (resolve_atol st aeq) && mprocess_is_cp d B m hss (resolve_atol st aineq).
(* the constructor first rejects every CompositeSystem whose basis flag is False *)
Definition mprocess_ctor_raises (st : F) flag d B m hss (required : bool) : bool :=
  negb flag || ctor_raises required (mprocess_is_physical st flag d B m hss None None).
Definition mprocess_origin (m : nat) : nat -> rmat F :=
  fun _ a b => if Nat.eqb a 0 && Nat.eqb b 0 then 1 / knat m else 0.
Definition mprocess_zero : nat -> rmat F := fun _ _ _ => 0.

(* ---------------------------------------------------------------- Choi matrix, re-associated for execution
   choi_of_hs d B HS (i,j) = sum_a sum_b HS_ab (B_a (x) conj B_b)_(i,j) = sum_a B_a(i/d,j/d) * T_a(i mod d, j mod d),
   T_a = sum_b HS_ab conj(B_b)        (proved equal to QObj.choi_of_hs in Proofs/C01_Verdicts.v) *)
Definition choi_inner (d : nat) (B : nat -> cmat F) (HS : rmat F) (a : nat) : cmat F :=
  fun k l => sumn (d * d) (fun b => cmul Cx (zof (HS a b)) (zconj (B b k l))).
Definition choi_assoc (d : nat) (B : nat -> cmat F) (T : nat -> cmat F) : cmat F :=
  fun i j => sumn (d * d) (fun a => cmul Cx (B a (i / d)%nat (j / d)%nat) (T a (i mod d)%nat (j mod d)%nat)).
End C01Model.

Arguments kabs {F} x. Arguments knat {F} n. Arguments np_rtol {F}. Arguments isclose {F} a b atol rtol.
Arguments ciscl {F} a b babs atol rtol. Arguments rdelta {F} i j. Arguments cdelta {F} i j.
Arguments resolve_atol {F} settings_atol a. Arguments mutil_is_hermitian {F} n H atol.
Arguments lowerherm {F} H _ _. Arguments mutil_is_psd {F} n H atol.
Arguments state_trace {F} d B v. Arguments state_is_trace_one {F} d B v atol rtol.
Arguments state_is_hermitian {F} d B v atol. Arguments state_is_psd {F} d B v atol.
Arguments state_is_physical {F} st rtol d B v aeq aineq. Arguments state_ctor_raises {F} st rtol d B v required.
Arguments state_origin {F} sd _. Arguments state_zero {F} _.
Arguments povm_sum {F} d B m vs _ _. Arguments povm_is_identity_sum {F} d B m vs atol rtol.
Arguments povm_is_psd {F} d B m vs atol. Arguments povm_is_physical {F} st rtol d B m vs aeq aineq.
Arguments povm_ctor_raises {F} st rtol d B m vs required. Arguments povm_origin {F} sd m _ _. Arguments povm_zero {F} _ _.
Arguments gate_is_tp_row {F} d HS atol. Arguments gate_image_trace {F} d B HS a.
Arguments gate_is_tp_trace {F} d B HS atol. Arguments gate_is_tp {F} flag d B HS atol.
Arguments gate_is_cp {F} d B HS atol. Arguments gate_is_physical {F} st flag d B HS aeq aineq.
Arguments gate_ctor_raises {F} st flag d B HS required. Arguments gate_origin {F} _ _. Arguments gate_zero {F} _ _.
Arguments mprocess_sum_hs {F} m hss _ _. Arguments mprocess_is_sum_tp {F} flag d B m hss atol.
Arguments mprocess_is_cp {F} d B m hss atol. Arguments mprocess_is_physical {F} st flag d B m hss aeq aineq.
Arguments mprocess_ctor_raises {F} st flag d B m hss required. Arguments mprocess_origin {F} m _ _ _.
Arguments mprocess_zero {F} _ _ _. Arguments choi_inner {F} d B HS a _ _. Arguments choi_assoc {F} d B T _ _.
