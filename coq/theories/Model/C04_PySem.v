(* C04 — the fragment of Python's value semantics needed to execute the flag handling of the projection-closure factories
   (the six QOperation.func_calc_proj_... methods): values None / True / False, truthiness, `or` / `and` (which return an OPERAND, not a bool),
   `not`, conditional expressions, comparison with a constant.  Definitions only.  Used by the text regenerated on every run
   by gen/c04_py2coq.py and by coq/gen/C04_Equiv.v. *)
From Coq Require Import Bool ZArith.

Inductive pyval : Type := PNone | PBool (b : bool).
Definition truthy (v : pyval) : bool := match v with PNone => false | PBool b => b end.
Definition por (a b : pyval) : pyval := if truthy a then a else b.                 (* a or b *)
Definition pand (a b : pyval) : pyval := if truthy a then b else a.                (* a and b *)
Definition pnot (a : pyval) : pyval := PBool (negb (truthy a)).                    (* not a *)
Definition pif (c a b : pyval) : pyval := if truthy c then a else b.               (* a if c else b ; `if c: x = a` *)
Definition peqc (a c : pyval) : pyval :=                                           (* a is c / a == c  for a constant c *)
  PBool (match a, c with PNone, PNone => true | PBool x, PBool y => Bool.eqb x y | _, _ => false end).
(* the requested flag as a Python value: the parameter's default is None *)
Definition of_req (r : option bool) : pyval := match r with None => PNone | Some b => PBool b end.

(* SPECIFICATION of the factories' flag handling: an explicitly requested parametrisation wins, None means the object's own *)
Definition resolve (req : option bool) (own : bool) : bool := match req with None => own | Some b => b end.
(* SPECIFICATION of the assembly rule of MProcess.calc_proj_ineq_constraint_with_var: only in the constrained parametrisation,
   and only for the LAST hs, the first dim^2 entries (its first row) are dropped *)
Definition mp_ineq_delete (flag : bool) (i m : Z) : bool := flag && (i =? m - 1)%Z.
Definition mp_ineq_slice (dim : Z) : Z * Z := (0%Z, (dim * dim)%Z).
