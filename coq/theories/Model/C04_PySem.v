(* C04 — the fragment of Python's value semantics needed to execute the flag handling of the projection-closure factories
   (the six QOperation.func_calc_proj_... methods): values None / True / False, truthiness, `or` / `and` (which return an OPERAND, not a bool),
   `not`, conditional expressions, comparison with a constant.  Definitions only.  Used by the text regenerated on every run
   by gen/c04_py2coq.py and by coq/gen/C04_Equiv.v. *)
From Coq Require Import Bool ZArith List.
From QV.Core Require Import OF.

Inductive pyval : Type := PNone | PBool (b : bool).
Definition truthy (v : pyval) : bool := match v with PNone => false | PBool b => b end.
Definition por (a b : pyval) : pyval := if truthy a then a else b.                 (* a or b *)
Definition pand (a b : pyval) : pyval := if truthy a then b else a.                (* a and b *)
Definition pnot (a : pyval) : pyval := PBool (negb (truthy a)).                    (* not a *)
Definition pif (c a b : pyval) : pyval := if truthy c then a else b.               (* a if c else b ; `if c: x = a` *)
Definition peqc (a c : pyval) : pyval :=                                           (* a is c / a == c  for a constant c *)
  PBool (match a, c with PNone, PNone => true | PBool x, PBool y => Bool.eqb x y | _, _ => false end).
(* the requested flag as a Python value: the parameter's default is None *)
Definition of_req (r : option bool) : pyval := match r with None => PNone | Some b => PBool b end.

(* SPECIFICATION of the factories' flag handling: an explicitly requested parametrisation wins, None means the object's own *)
Definition resolve (req : option bool) (own : bool) : bool := match req with None => own | Some b => b end.
(* SPECIFICATION of the assembly rule of MProcess.calc_proj_ineq_constraint_with_var: only in the constrained parametrisation,
   and only for the LAST hs, the first dim^2 entries (its first row) are dropped *)
Definition mp_ineq_delete (flag : bool) (i m : Z) : bool := flag && (i =? m - 1)%Z.
Definition mp_ineq_slice (dim : Z) : Z * Z := (0%Z, (dim * dim)%Z).

(* ---- in-place index / slice assignments of constants, as the equality projections of State and Gate perform them on a COPY of
   their operand:  x[i] = c, x[lo:hi] = c  (W1; x[i] is the slice [i, i+1));  x[r][c] = .., x[r][lo:hi] = ..  (W2; hi = None: to the end) *)
Inductive wval : Type := VZero | VOne | VInvSqrtDim.                               (* 0, 1, 1 / np.sqrt(dim) *)
Inductive write : Type := W1 (lo : Z) (hi : option Z) (v : wval) | W2 (r lo : Z) (hi : option Z) (v : wval).
Section C04Writes.
Context (F : OF).
Definition wv (sd : F) (v : wval) : F := match v with VZero => c0 F | VOne => c1 F | VInvSqrtDim => kdiv F (c1 F) sd end.
Definition in_slice (lo : Z) (hi : option Z) (i : nat) : bool :=
  (lo <=? Z.of_nat i)%Z && match hi with None => true | Some h => (Z.of_nat i <? h)%Z end.
Definition interp1 (sd : F) (ws : list write) (x : nat -> F) : nat -> F :=
  fold_left (fun acc w => match w with W1 lo hi v => (fun i => if in_slice lo hi i then wv sd v else acc i) | W2 _ _ _ _ => acc end) ws x.
Definition interp2 (sd : F) (ws : list write) (H : nat -> nat -> F) : nat -> nat -> F :=
  fold_left (fun acc w => match w with W2 r lo hi v => (fun a b => if (Z.of_nat a =? r)%Z && in_slice lo hi b then wv sd v else acc a b) | W1 _ _ _ => acc end) ws H.
End C04Writes.
