(* C14 — _random_number_to_data transcribed over IEEE binary64 (Coq primitive floats), used ONLY for the
   supplementary floating-point witness (Proofs/C14_Float.v).  Not extracted, not part of Props/C14.v (primitive
   floats show up in Print Assumptions as kernel primitives).
     rn2data_f             the code as repaired by fixes/C14-rn2data-fallback-zero-probability (single loop)
     rn2data_f_before_fix  the code AS CODED BEFORE that fix (`return len(probdist) - 1`) *)
From Coq Require Import Floats List ZArith.
Import ListNotations.
Local Open Scope float_scope.

Fixpoint rn2d_f (ps : list float) (cum r : float) (idx : nat) (lp : Z) : Z :=
  match ps with
  | [] => lp
  | p :: t => let c := cum + p in
              if r <? c then Z.of_nat idx else rn2d_f t c r (S idx) (if 0 <? p then Z.of_nat idx else lp)
  end.
Definition rn2data_f (ps : list float) (r : float) : Z := rn2d_f ps 0 r O (Z.of_nat (length ps) - 1)%Z.

Fixpoint rn2d_go_f (ps : list float) (cum r : float) (idx : nat) : option nat :=
  match ps with
  | [] => None
  | p :: t => let c := cum + p in if r <? c then Some idx else rn2d_go_f t c r (S idx)
  end.
Definition rn2data_f_before_fix (ps : list float) (r : float) : Z :=
  match rn2d_go_f ps 0 r O with Some i => Z.of_nat i | None => (Z.of_nat (length ps) - 1)%Z end.

(* the double nearest to 0.1 *)
Definition tenth : float := 0x1.999999999999ap-4.
(* [0.1]*10 + [0.0] ; the largest double below 1 (= the largest value Generator.random() can return) *)
Definition witness_ps : list float := repeat tenth 10 ++ [0].
Definition witness_r : float := 0x1.fffffffffffffp-1.
