(* C17 — textbook tables of the catalogued objects (definitions only).  TRUSTED SPEC: these tables say what
   the names mean.  Entries live in Z[i, sqrt 2] (Core/C17_Z8) and every object carries ONE positive integer n:
     state  |psi> = v / sqrt n         gate  U = m / sqrt n        basis element  B = m / sqrt (num/den)
     POVM element  E = m / n           Kraus operator  K = m / n
   so every table is exactly representable; the harness compares an implementation float f with a table entry
   e / sqrt n  after evaluating e with the implementation's own sqrt 2.  Matrices are functions nat -> nat -> z8
   over the ring record Z8R so that the Core/Mat vocabulary (mmul, kron, meq ...) applies. *)
From Coq Require Import ZArith List Bool Arith.
From QV.Core Require Import OF Sums Mat C17_Z8.
Import ListNotations.

Notation zmat := (@mat Z8R).
Notation zvec := (@vec Z8R).

(* ---- small matrix vocabulary over Z8 *)
Definition lmat (rows : list (list z8)) : zmat := fun i j => nth j (nth i rows []) z8_0.
Definition lvec (l : list z8) : zvec := fun i => nth i l z8_0.
Definition zadj (A : zmat) : zmat := fun i j => z8conj (A j i).
Definition zE (r c : nat) : zmat := fun i j => if Nat.eqb i r && Nat.eqb j c then z8_1 else z8_0.
Definition zI : zmat := fun i j => if Nat.eqb i j then z8_1 else z8_0.
Definition zsc (c : z8) (A : zmat) : zmat := fun i j => z8mul c (A i j).
Definition zplus (A B : zmat) : zmat := fun i j => z8add (A i j) (B i j).
Definition zminus (A B : zmat) : zmat := fun i j => z8sub (A i j) (B i j).
Definition zkron (p : nat) (A B : zmat) : zmat := kron p p A B.        (* right factor is p x p *)
Definition zkronv (p : nat) (u v : zvec) : zvec := fun k => z8mul (u (k / p)%nat) (v (k mod p)%nat).
Definition zouter (u v : zvec) : zmat := fun i j => z8mul (u i) (z8conj (v j)).   (* |u><v| *)
Definition zmv (d : nat) (A : zmat) (v : zvec) : zvec := mv d A v.
Definition zinner (d : nat) (A B : zmat) : z8 :=                     (* tr (A^dagger B) *)
  @sumn Z8R d (fun i => @sumn Z8R d (fun j => z8mul (z8conj (A i j)) (B i j))).
Definition zn1 : z8 := z8z (-1).
Definition zni : z8 := mk8 0 (-1) 0 0.                                (* -i *)

(* Pauli matrices *)
Definition pI : zmat := zI.
Definition pX : zmat := lmat [[z8_0; z8_1]; [z8_1; z8_0]].
Definition pY : zmat := lmat [[z8_0; zni]; [z8_i; z8_0]].
Definition pZ : zmat := lmat [[z8_1; z8_0]; [z8_0; zn1]].
Definition pauli (k : nat) : zmat := match k with 0 => pI | 1 => pX | 2 => pY | _ => pZ end.
Definition P0 : zmat := zE 0 0.
Definition P1 : zmat := zE 1 1.

(* ================= states ================= *)
Record tstate := mkS { ts_dim : nat; ts_v : zvec; ts_n : Z }.          (* |psi> = v / sqrt n *)

(* 1-qubit names in catalogue order: x0 x1 y0 y1 z0 z1 a *)
Definition st1q (k : nat) : tstate :=
  match k with
  | 0 => mkS 2 (lvec [z8_1; z8_1]) 2
  | 1 => mkS 2 (lvec [z8_1; zn1]) 2
  | 2 => mkS 2 (lvec [z8_1; z8_i]) 2
  | 3 => mkS 2 (lvec [z8_1; zni]) 2
  | 4 => mkS 2 (lvec [z8_1; z8_0]) 1
  | 5 => mkS 2 (lvec [z8_0; z8_1]) 1
  | _ => mkS 2 (lvec [z8_s; mk8 1 1 0 0]) 4          (* a = (|0> + e^{i pi/4}|1>)/sqrt2 = (sqrt2, 1+i)/2 *)
  end.
(* 1-qutrit names in catalogue order  product(level in 01 12 02, axis in x y z, d in 0 1):  code = 6 L + 2 A + d *)
Definition lvl_lo (L : nat) : nat := match L with 0 => 0 | 1 => 1 | _ => 0 end.
Definition lvl_hi (L : nat) : nat := match L with 0 => 1 | 1 => 2 | _ => 2 end.
Definition evec (k : nat) : zvec := fun i => if Nat.eqb i k then z8_1 else z8_0.
Definition st1t (code : nat) : tstate :=
  let L := (code / 6)%nat in let A := ((code / 2) mod 3)%nat in let d := (code mod 2)%nat in
  let lo := lvl_lo L in let hi := lvl_hi L in
  match A with
  | 0 => mkS 3 (fun i => z8add (evec lo i) (z8mul (if Nat.eqb d 0 then z8_1 else zn1) (evec hi i))) 2
  | 1 => mkS 3 (fun i => z8add (evec lo i) (z8mul (if Nat.eqb d 0 then z8_i else zni) (evec hi i))) 2
  | _ => mkS 3 (evec (if Nat.eqb d 0 then lo else hi)) 1
  end.
Definition st_kron (s t : tstate) : tstate :=
  mkS (ts_dim s * ts_dim t) (zkronv (ts_dim t) (ts_v s) (ts_v t)) (ts_n s * ts_n t).
Definition st_one : tstate := mkS 1 (fun _ => z8_1) 1.
Definition st_prod (l : list tstate) : tstate := fold_left st_kron l st_one.

Inductive sname :=
  | SQ (ks : list nat)        (* tensor product of 1-qubit names *)
  | SBell (k : nat)           (* phi+ phi- psi+ psi- *)
  | SGhz | SWerner
  | ST (ks : list nat)        (* tensor product of 1-qutrit names *)
  | ST012 | ST001122.

Definition state_tbl (s : sname) : tstate :=
  match s with
  | SQ ks => st_prod (map st1q ks)
  | SBell 0 => mkS 4 (lvec [z8_1; z8_0; z8_0; z8_1]) 2
  | SBell 1 => mkS 4 (lvec [z8_1; z8_0; z8_0; zn1]) 2
  | SBell 2 => mkS 4 (lvec [z8_0; z8_1; z8_1; z8_0]) 2
  | SBell _ => mkS 4 (lvec [z8_0; z8_1; zn1; z8_0]) 2
  | SGhz => mkS 8 (lvec [z8_1; z8_0; z8_0; z8_0; z8_0; z8_0; z8_0; z8_1]) 2
  | SWerner => mkS 8 (lvec [z8_0; z8_1; z8_1; z8_0; z8_1; z8_0; z8_0; z8_0]) 3
  | ST ks => st_prod (map st1t ks)
  | ST012 => mkS 3 (lvec [z8_1; z8_1; z8_1]) 3
  | ST001122 => mkS 9 (lvec [z8_1; z8_0; z8_0; z8_0; z8_1; z8_0; z8_0; z8_0; z8_1]) 3
  end.

(* ================= gates ================= *)
Record tgate := mkG { tg_dim : nat; tg_m : zmat; tg_n : Z }.           (* U = m / sqrt n *)

(* rotation by 90 / 180 degrees about a "Pauli-like" sigma with sigma^2 = P (projector), P = I for qubits:
   exp(-i (theta/2) sigma) = cos(theta/2) P - i sin(theta/2) sigma + (I - P) *)
Definition rot90 (d : nat) (sigma P : zmat) : tgate :=
  mkG d (zplus (zminus P (zsc z8_i sigma)) (zsc z8_s (zminus zI P))) 2.
Definition rot180 (d : nat) (sigma P : zmat) : tgate :=
  mkG d (zplus (zsc zni sigma) (zminus zI P)) 1.

(* 1-qubit names in catalogue order:
   x90 x180 x y90 y180 y z90 z180 z phase phase_daggered piover8 piover8_daggered hadamard zm90 *)
Definition gate1q (k : nat) : tgate :=
  match k with
  | 0 => rot90 2 pX zI | 1 => rot180 2 pX zI | 2 => mkG 2 pX 1
  | 3 => rot90 2 pY zI | 4 => rot180 2 pY zI | 5 => mkG 2 pY 1
  | 6 => rot90 2 pZ zI | 7 => rot180 2 pZ zI | 8 => mkG 2 pZ 1
  | 9 => mkG 2 (lmat [[z8_1; z8_0]; [z8_0; z8_i]]) 1
  | 10 => mkG 2 (lmat [[z8_1; z8_0]; [z8_0; zni]]) 1
  | 11 => mkG 2 (lmat [[z8z 2; z8_0]; [z8_0; mk8 0 0 1 1]]) 4        (* diag(1, (1+i)/sqrt2) = diag(2, (1+i) sqrt2)/2 *)
  | 12 => mkG 2 (lmat [[z8z 2; z8_0]; [z8_0; mk8 0 0 1 (-1)]]) 4
  | 13 => mkG 2 (lmat [[z8_1; z8_1]; [z8_1; zn1]]) 2
  | _ => mkG 2 (zplus zI (zsc z8_i pZ)) 2                              (* zm90 = exp(+i pi/4 Z) *)
  end.

(* 2-qubit names in catalogue order: cx cz swap zx90 zz90.  [sw] = the ids are given in descending order
   (ids[0] > ids[1]): control / "Z" role on the SECOND tensor factor. *)
Definition gate2q (k : nat) (sw : bool) : tgate :=
  match k with
  | 0 => if sw then mkG 4 (zplus (zkron 2 zI P0) (zkron 2 pX P1)) 1
         else mkG 4 (zplus (zkron 2 P0 zI) (zkron 2 P1 pX)) 1
  | 1 => mkG 4 (zplus (zkron 2 P0 zI) (zkron 2 P1 pZ)) 1
  | 2 => mkG 4 (fun i j => if Nat.eqb j ((i mod 2) * 2 + i / 2) then z8_1 else z8_0) 1
  | 3 => if sw then rot90 4 (zkron 2 pX pZ) zI else rot90 4 (zkron 2 pZ pX) zI
  | _ => rot90 4 (zkron 2 pZ pZ) zI
  end.

(* 3-qubit names: toffoli fredkin.  ids = [i0; i1; i2] is a permutation of 0 1 2 naming tensor positions
   (position 0 = most significant bit):  toffoli: i0, i1 control, i2 target;  fredkin: i0 control, i1 i2 swapped. *)
Definition bit3 (k p : nat) : nat := ((k / (Nat.pow 2 (2 - p))) mod 2)%nat.
Definition setbit3 (k p b : nat) : nat := (k - bit3 k p * Nat.pow 2 (2 - p) + b * Nat.pow 2 (2 - p))%nat.
Definition toffoli_fun (i0 i1 i2 k : nat) : nat :=
  if Nat.eqb (bit3 k i0) 1 && Nat.eqb (bit3 k i1) 1 then setbit3 k i2 (1 - bit3 k i2) else k.
Definition fredkin_fun (i0 i1 i2 k : nat) : nat :=
  if Nat.eqb (bit3 k i0) 1 then setbit3 (setbit3 k i1 (bit3 k i2)) i2 (bit3 k i1) else k.
Definition perm_gate (d : nat) (f : nat -> nat) : tgate :=
  mkG d (fun i j => if Nat.eqb i (f j) then z8_1 else z8_0) 1.
Definition gate3q (k : nat) (ids : list nat) : tgate :=
  let i0 := nth 0 ids 0 in let i1 := nth 1 ids 0 in let i2 := nth 2 ids 0 in
  match k with 0 => perm_gate 8 (toffoli_fun i0 i1 i2) | _ => perm_gate 8 (fredkin_fun i0 i1 i2) end.

(* 1-qutrit single Gell-Mann rotations, catalogue order: (01x 01y 01z 12x 12y 12z 02x 02y 02z) x (90, 180) *)
Definition sig3 (L A : nat) : zmat :=
  let lo := lvl_lo L in let hi := lvl_hi L in
  match A with
  | 0 => zplus (zE lo hi) (zE hi lo)
  | 1 => zplus (zsc zni (zE lo hi)) (zsc z8_i (zE hi lo))
  | _ => zminus (zE lo lo) (zE hi hi)
  end.
Definition proj3 (L : nat) : zmat := zplus (zE (lvl_lo L) (lvl_lo L)) (zE (lvl_hi L) (lvl_hi L)).
Definition gate1t (k : nat) : tgate :=
  let b := (k mod 9)%nat in let L := (b / 3)%nat in let A := (b mod 3)%nat in
  if (k <? 9)%nat then rot90 3 (sig3 L A) (proj3 L) else rot180 3 (sig3 L A) (proj3 L).

(* 2-qutrit gates whose Hamiltonian is ONE product of base matrices:  name <b0><b1><angle>,
   base matrix names of one qutrit: 0 = i (identity), 1 + 3 L + A  for level L (01 12 02) and axis A (x y z);
   sigma = b0 (x) b1 satisfies sigma^2 = P (a projector), so the rotation formula applies; k = 1 (90) or 2 (180) *)
Definition base3 (b : nat) : zmat := match b with O => zI | S c => sig3 (c / 3) (c mod 3) end.
Definition gate2t (b0 b1 k : nat) : tgate :=
  let sigma := zkron 3 (base3 b0) (base3 b1) in let P := mmul 9 sigma sigma in
  if Nat.eqb k 1 then rot90 9 sigma P else rot180 9 sigma P.

Inductive gname :=
  | GId (d : nat) | G1 (k : nat) | G2 (k : nat) (sw : bool) | G3 (k : nat) (ids : list nat) | GT1 (k : nat)
  | GT2 (b0 b1 k : nat).
Definition gate_tbl (g : gname) : tgate :=
  match g with
  | GId d => mkG d zI 1 | G1 k => gate1q k | G2 k sw => gate2q k sw | G3 k ids => gate3q k ids | GT1 k => gate1t k
  | GT2 b0 b1 k => gate2t b0 b1 k
  end.

(* action of a table gate on a table state:  (m v) / sqrt (n_g n_s) *)
Definition gate_apply (g : tgate) (s : tstate) : tstate :=
  mkS (tg_dim g) (zmv (tg_dim g) (tg_m g) (ts_v s)) (tg_n g * ts_n s).
(* equality of the DENSITY operators  v v^dagger / n  (insensitive to a global phase) *)
Definition dens_eq (d : nat) (s t : tstate) : Prop :=
  forall i j, (i < d)%nat -> (j < d)%nat ->
    z8mul (z8z (ts_n t)) (zouter (ts_v s) (ts_v s) i j) = z8mul (z8z (ts_n s)) (zouter (ts_v t) (ts_v t) i j).
Fixpoint allbn (n : nat) (p : nat -> bool) : bool := match n with O => true | S k => allbn k p && p k end.
Definition dens_eqb (d : nat) (s t : tstate) : bool :=
  allbn d (fun i => allbn d (fun j =>
    z8eqb (z8mul (z8z (ts_n t)) (zouter (ts_v s) (ts_v s) i j)) (z8mul (z8z (ts_n s)) (zouter (ts_v t) (ts_v t) i j)))).

(* ---- textbook action triples  (gate, input state, output state)  *)
Definition sq (l : list nat) := SQ l.
Definition triples_1q : list (gname * sname * sname) :=
  (* hadamard 13 *) [ (G1 13, sq[4], sq[0]); (G1 13, sq[5], sq[1]); (G1 13, sq[0], sq[4]); (G1 13, sq[1], sq[5]); (G1 13, sq[2], sq[3]);
  (* x 2, x180 1 *)   (G1 2, sq[4], sq[5]); (G1 2, sq[5], sq[4]); (G1 2, sq[0], sq[0]); (G1 2, sq[2], sq[3]); (G1 1, sq[4], sq[5]); (G1 1, sq[3], sq[2]);
  (* y 5, y180 4 *)   (G1 5, sq[4], sq[5]); (G1 5, sq[0], sq[1]); (G1 5, sq[2], sq[2]); (G1 4, sq[5], sq[4]); (G1 4, sq[1], sq[0]);
  (* z 8, z180 7 *)   (G1 8, sq[0], sq[1]); (G1 8, sq[2], sq[3]); (G1 8, sq[4], sq[4]); (G1 7, sq[1], sq[0]); (G1 7, sq[3], sq[2]);
  (* phase 9 *)       (G1 9, sq[0], sq[2]); (G1 9, sq[2], sq[1]); (G1 9, sq[1], sq[3]); (G1 9, sq[3], sq[0]); (G1 9, sq[5], sq[5]);
  (* phase^dag 10 *)  (G1 10, sq[2], sq[0]); (G1 10, sq[0], sq[3]);
  (* T 11, T^dag 12 *) (G1 11, sq[0], sq[6]); (G1 12, sq[6], sq[0]); (G1 11, sq[4], sq[4]);
  (* x90 0 *)         (G1 0, sq[4], sq[3]); (G1 0, sq[5], sq[2]); (G1 0, sq[2], sq[4]); (G1 0, sq[0], sq[0]);
  (* y90 3 *)         (G1 3, sq[4], sq[0]); (G1 3, sq[0], sq[5]); (G1 3, sq[5], sq[1]); (G1 3, sq[2], sq[2]);
  (* z90 6, zm90 14 *) (G1 6, sq[0], sq[2]); (G1 6, sq[2], sq[1]); (G1 14, sq[0], sq[3]); (G1 14, sq[2], sq[0]); (G1 6, sq[5], sq[5]) ].
Definition triples_2q : list (gname * sname * sname) :=
  (* cx, control = first *)  [ (G2 0 false, sq[4;4], sq[4;4]); (G2 0 false, sq[5;4], sq[5;5]); (G2 0 false, sq[5;5], sq[5;4]); (G2 0 false, sq[4;5], sq[4;5]);
                               (G2 0 false, sq[0;4], SBell 0); (G2 0 false, sq[1;4], SBell 1); (G2 0 false, sq[0;5], SBell 2); (G2 0 false, sq[1;5], SBell 3);
  (* cx, control = second *)   (G2 0 true, sq[4;5], sq[5;5]); (G2 0 true, sq[5;5], sq[4;5]); (G2 0 true, sq[5;4], sq[5;4]); (G2 0 true, sq[4;0], SBell 0); (G2 0 true, sq[5;1], SBell 3);
  (* cz *)                     (G2 1 false, sq[0;5], sq[1;5]); (G2 1 false, sq[5;0], sq[5;1]); (G2 1 false, sq[0;4], sq[0;4]); (G2 1 false, sq[5;5], sq[5;5]);
  (* swap *)                   (G2 2 false, sq[4;5], sq[5;4]); (G2 2 false, sq[0;3], sq[3;0]); (G2 2 false, sq[6;4], sq[4;6]); (G2 2 false, SBell 3, SBell 3);
  (* zx90 *)                   (G2 3 false, sq[4;4], sq[4;3]); (G2 3 false, sq[5;4], sq[5;2]); (G2 3 true, sq[4;4], sq[3;4]); (G2 3 true, sq[4;5], sq[2;5]);
  (* zz90 *)                   (G2 4 false, sq[0;4], sq[2;4]); (G2 4 false, sq[0;5], sq[3;5]); (G2 4 false, sq[4;0], sq[4;2]) ].
Definition perms3 : list (list nat) := [[0;1;2]; [0;2;1]; [1;0;2]; [1;2;0]; [2;0;1]; [2;1;0]].
(* basis state |b0 b1 b2> as product of z0 (code 4) / z1 (code 5) *)
Definition zst (b0 b1 b2 : nat) : sname := sq[4 + b0; 4 + b1; 4 + b2].
Definition upd3 (l : list nat) (p v : nat) : list nat := map (fun i => if Nat.eqb i p then v else nth i l 0) [0; 1; 2].
Definition zst_l (l : list nat) : sname := zst (nth 0 l 0) (nth 1 l 0) (nth 2 l 0).
Definition triples_3q : list (gname * sname * sname) :=
  flat_map (fun ids => let i0 := nth 0 ids 0 in let i1 := nth 1 ids 0 in let i2 := nth 2 ids 0 in
    (* toffoli: both controls set flips the target; one control clear leaves the state *)
    [ (G3 0 ids, zst_l (upd3 (upd3 [0;0;0] i0 1) i1 1), zst_l [1;1;1]);
      (G3 0 ids, zst_l [1;1;1], zst_l (upd3 (upd3 [0;0;0] i0 1) i1 1));
      (G3 0 ids, zst_l (upd3 [0;0;0] i0 1), zst_l (upd3 [0;0;0] i0 1));
      (G3 0 ids, zst_l (upd3 (upd3 [0;0;0] i1 1) i2 1), zst_l (upd3 (upd3 [0;0;0] i1 1) i2 1));
    (* fredkin: control set swaps the two targets; control clear leaves the state *)
      (G3 1 ids, zst_l (upd3 (upd3 [0;0;0] i0 1) i1 1), zst_l (upd3 (upd3 [0;0;0] i0 1) i2 1));
      (G3 1 ids, zst_l (upd3 (upd3 [0;0;0] i0 1) i2 1), zst_l (upd3 (upd3 [0;0;0] i0 1) i1 1));
      (G3 1 ids, zst_l (upd3 [0;0;0] i1 1), zst_l (upd3 [0;0;0] i1 1)) ]) perms3
  ++ [ (G3 0 [0;1;2], sq[5;5;0], sq[5;5;0]); (G3 0 [0;1;2], sq[5;5;1], sq[5;5;1]); (G3 1 [0;1;2], sq[5;0;3], sq[5;3;0]) ].
Definition st3 (l : list nat) := ST l.
Definition triples_1t : list (gname * sname * sname) :=
  (* 01x90 k=0: |0> -> (|0> - i|1>)/sqrt2 = 01y1 (code 3) *)  [ (GT1 0, st3[4], st3[3]);
  (* 01x180 k=9 *)  (GT1 9, st3[4], st3[5]); (GT1 9, st3[17], st3[17]);
  (* 01y90 k=1: |0> -> 01x0 *) (GT1 1, st3[4], st3[0]);
  (* 01z90 k=2: 01x0 -> 01y0 *) (GT1 2, st3[0], st3[2]);
  (* 12x180 k=12: |1> -> |2> *) (GT1 12, st3[10], st3[11]); (GT1 12, st3[4], st3[4]);
  (* 12y90 k=4: |1> -> 12x0 (code 6) *) (GT1 4, st3[10], st3[6]);
  (* 12z90 k=5: 12x0 -> 12y0 (code 8) *) (GT1 5, st3[6], st3[8]);
  (* 02y180 k=16: |0> -> |2> *) (GT1 16, st3[16], st3[17]);
  (* 02x90 k=6: |0> -> 02y1 (code 15) *) (GT1 6, st3[16], st3[15]);
  (* 02z180 k=17: 02x0 (12) -> 02x1 (13) *) (GT1 17, st3[12], st3[13]); (GT1 17, st3[5], st3[5]) ].
Definition triples_all := triples_1q ++ triples_2q ++ triples_3q ++ triples_1t.
Definition triple_holds (t : gname * sname * sname) : Prop :=
  let '(g, a, b) := t in dens_eq (tg_dim (gate_tbl g)) (gate_apply (gate_tbl g) (state_tbl a)) (state_tbl b).
Definition triple_holdsb (t : gname * sname * sname) : bool :=
  let '(g, a, b) := t in dens_eqb (tg_dim (gate_tbl g)) (gate_apply (gate_tbl g) (state_tbl a)) (state_tbl b).

(* ================= named matrix bases ================= *)
(* element = (matrix m, num, den) denoting  m / sqrt (num / den) *)
Record telem := mkE { te_m : zmat; te_num : Z; te_den : Z }.
Definition te_kron (p : nat) (a b : telem) : telem :=
  mkE (zkron p (te_m a) (te_m b)) (te_num a * te_num b) (te_den a * te_den b).
(* n-fold products in the order of  [kron(v1, v2) for v1, v2 in product(basis, basis_1q)]  repeated n-1 times *)
Fixpoint te_power (p : nat) (b1 : list telem) (n : nat) : list telem :=
  match n with
  | O => [] | S O => b1
  | S k => flat_map (fun a => map (fun b => te_kron p a b) b1) (te_power p b1 k)
  end.
Definition herm_like (dim : nat) (offn offd : Z) (diag : nat -> telem) : list telem :=
  flat_map (fun col =>
    flat_map (fun row => [ mkE (zplus (zE row col) (zE col row)) offn offd;
                           mkE (zplus (zsc zni (zE row col)) (zsc z8_i (zE col row))) offn offd ]) (seq 0 col)
    ++ [diag col]) (seq 0 dim).
(* generalized Gell-Mann diagonal elements: diag(1, .., 1, -col, 0, ..) *)
Definition ggm_diag (col : nat) : zmat :=
  fun i j => if Nat.eqb i j then (if (i <? col)%nat then z8_1 else if Nat.eqb i col then z8z (- Z.of_nat col) else z8_0) else z8_0.
Definition ggm_1 (dim : nat) (normalized : bool) : list telem :=
  herm_like dim (if normalized then 2 else 1) 1
    (fun col => match col with
                | O => if normalized then mkE zI (Z.of_nat dim) 1 else mkE zI (Z.of_nat dim) 2
                | _ => if normalized then mkE (ggm_diag col) (Z.of_nat (col * (col + 1))) 1
                       else mkE (ggm_diag col) (Z.of_nat (col * (col + 1))) 2
                end).
(* kinds: 0 comp row-major, 1 comp column-major, 2 pauli, 3 normalized pauli, 4 hermitian, 5 normalized hermitian,
          6 gell-mann, 7 normalized gell-mann, 8 generalized gell-mann, 9 normalized generalized gell-mann.
   n = number of tensor factors (kinds 2 3 8 9), dim = dimension of one factor. *)
Definition basis_tbl (kind n dim : nat) : list telem :=
  match kind with
  | 0 => flat_map (fun r => map (fun c => mkE (zE r c) 1 1) (seq 0 dim)) (seq 0 dim)
  | 1 => flat_map (fun c => map (fun r => mkE (zE r c) 1 1) (seq 0 dim)) (seq 0 dim)
  | 2 => te_power 2 (map (fun k => mkE (pauli k) 1 1) [0; 1; 2; 3]) n
  | 3 => te_power 2 (map (fun k => mkE (pauli k) 2 1) [0; 1; 2; 3]) n
  | 4 => herm_like dim 1 1 (fun col => mkE (zE col col) 1 1)
  | 5 => herm_like dim 2 1 (fun col => mkE (zE col col) 1 1)
  | 6 => ggm_1 3 false
  | 7 => ggm_1 3 true
  | 8 => te_power dim (ggm_1 dim false) n
  | _ => te_power dim (ggm_1 dim true) n
  end.
Definition basis_dim (kind n dim : nat) : nat :=
  match kind with 2 | 3 => Nat.pow 2 n | 6 | 7 => 3 | 8 | 9 => Nat.pow dim n | _ => dim end.

(* table predicates (decidable by computation for a given table) *)
Definition tb_orthogonal (d : nat) (tb : list telem) : Prop :=
  forall a b, (a < length tb)%nat -> (b < length tb)%nat -> a <> b ->
    zinner d (te_m (nth a tb (mkE zI 1 1))) (te_m (nth b tb (mkE zI 1 1))) = z8_0.
(* squared norm of  m / sqrt(num/den)  is  c :  den <m, m> = c num *)
Definition tb_norm2 (d : nat) (c : Z) (tb : list telem) : Prop :=
  forall a, (a < length tb)%nat -> let e := nth a tb (mkE zI 1 1) in
    z8mul (z8z (te_den e)) (zinner d (te_m e) (te_m e)) = z8z (c * te_num e).
Definition tb_hermitian (d : nat) (tb : list telem) : Prop :=
  forall a i j, (a < length tb)%nat -> (i < d)%nat -> (j < d)%nat ->
    te_m (nth a tb (mkE zI 1 1)) i j = z8conj (te_m (nth a tb (mkE zI 1 1)) j i).
(* element 0 is a multiple of the identity, all others are traceless *)
Definition tb_traceless (d : nat) (tb : list telem) : Prop :=
  (forall i j, (i < d)%nat -> (j < d)%nat -> te_m (nth 0 tb (mkE zI 1 1)) i j = zI i j) /\
  forall a, (0 < a < length tb)%nat -> mtrace d (te_m (nth a tb (mkE zI 1 1))) = z8_0.
Definition tb_orthogonalb (d : nat) (tb : list telem) : bool :=
  let k := length tb in
  allbn k (fun a => allbn k (fun b => Nat.eqb a b ||
    z8eqb (zinner d (te_m (nth a tb (mkE zI 1 1))) (te_m (nth b tb (mkE zI 1 1)))) z8_0)).
Definition tb_norm2b (d : nat) (c : Z) (tb : list telem) : bool :=
  allbn (length tb) (fun a => let e := nth a tb (mkE zI 1 1) in
    z8eqb (z8mul (z8z (te_den e)) (zinner d (te_m e) (te_m e))) (z8z (c * te_num e))).
Definition tb_hermitianb (d : nat) (tb : list telem) : bool :=
  allbn (length tb) (fun a => allbn d (fun i => allbn d (fun j =>
    z8eqb (te_m (nth a tb (mkE zI 1 1)) i j) (z8conj (te_m (nth a tb (mkE zI 1 1)) j i))))).
Definition tb_tracelessb (d : nat) (tb : list telem) : bool :=
  allbn d (fun i => allbn d (fun j => z8eqb (te_m (nth 0 tb (mkE zI 1 1)) i j) (zI i j))) &&
  allbn (length tb) (fun a => Nat.eqb a 0 || z8eqb (mtrace d (te_m (nth a tb (mkE zI 1 1)))) z8_0).

(* ================= POVMs and measurement processes ================= *)
(* a POVM / Kraus element  m / n  *)
Record tfrac := mkF { tf_m : zmat; tf_n : Z }.
Definition proj_of (s : tstate) : tfrac := mkF (zouter (ts_v s) (ts_v s)) (ts_n s).           (* |s><s| *)
Definition tf_add (a b : tfrac) : tfrac :=
  mkF (zplus (zsc (z8z (tf_n b)) (tf_m a)) (zsc (z8z (tf_n a)) (tf_m b))) (tf_n a * tf_n b).
Definition tf_kron (p : nat) (a b : tfrac) : tfrac := mkF (zkron p (tf_m a) (tf_m b)) (tf_n a * tf_n b).
(* 1-qutrit state codes used below: 01x0 0, 01x1 1, 01y0 2, 01y1 3, 01z0 4 (|0>), 01z1 5 (|1>), 12x0 6, 12x1 7,
   12y0 8, 12y1 9, 02x0 12, 02x1 13, 02y0 14, 02y1 15, 02z1 17 (|2>) *)
(* single POVM names: 0 x, 1 y, 2 z, 3 bell, then 1-qutrit catalogue order 4 01x3, 5 01y3, 6 z3, 7 z2, 8 02x3,
   9 02y3, 10 12x3, 11 12y3, then the 2-qubit parity POVMs 12 xxparity ((I + XX)/2, (I - XX)/2), 13 zzparity
   ((I + ZZ)/2, (I - ZZ)/2) ; each outcome is a list of states whose projectors are summed *)
Definition povm_states (k : nat) : list (list sname) :=
  match k with
  | 0 => [[sq[0]]; [sq[1]]] | 1 => [[sq[2]]; [sq[3]]] | 2 => [[sq[4]]; [sq[5]]]
  | 3 => [[SBell 0]; [SBell 1]; [SBell 2]; [SBell 3]]
  | 4 => [[st3[0]]; [st3[1]]; [st3[17]]] | 5 => [[st3[2]]; [st3[3]]; [st3[17]]]
  | 6 => [[st3[4]]; [st3[5]]; [st3[17]]] | 7 => [[st3[4]]; [st3[5]; st3[17]]]
  | 8 => [[st3[12]]; [st3[13]]; [st3[5]]] | 9 => [[st3[14]]; [st3[15]]; [st3[5]]]
  | 10 => [[st3[6]]; [st3[7]]; [st3[4]]] | 11 => [[st3[8]]; [st3[9]]; [st3[4]]]
  | 12 => [[sq[0;0]; sq[1;1]]; [sq[0;1]; sq[1;0]]] | _ => [[sq[4;4]; sq[5;5]]; [sq[4;5]; sq[5;4]]]
  end.
Definition povm_dim (k : nat) : nat := match k with 0 | 1 | 2 => 2 | 3 | 12 | 13 => 4 | _ => 3 end.
Definition tf_sum (l : list tfrac) : tfrac :=
  match l with [] => mkF (fun _ _ => z8_0) 1 | a :: t => fold_left tf_add t a end.
Definition povm1_tbl (k : nat) : list tfrac := map (fun out => tf_sum (map (fun s => proj_of (state_tbl s)) out)) (povm_states k).
(* product names  a_b_c :  elements in the order of itertools.product, Kronecker products *)
Fixpoint povm_tbl (ks : list nat) : (nat * list tfrac) :=
  match ks with
  | [] => (1%nat, [mkF (fun _ _ => z8_1) 1])
  | k :: rest => let '(dr, er) := povm_tbl rest in
      ((povm_dim k * dr)%nat, flat_map (fun a => map (fun b => tf_kron dr a b) er) (povm1_tbl k))
  end.
(* sum of the elements equals the identity:  sum_x m_x / n_x = I *)
Definition tf_is_identity (d : nat) (f : tfrac) : Prop :=
  forall i j, (i < d)%nat -> (j < d)%nat -> tf_m f i j = z8mul (z8z (tf_n f)) (zI i j).
Definition tf_is_identityb (d : nat) (f : tfrac) : bool :=
  allbn d (fun i => allbn d (fun j => z8eqb (tf_m f i j) (z8mul (z8z (tf_n f)) (zI i j)))).

(* measurement processes: outcome -> list of Kraus operators m / n.
   names: 0 x-type1 1 y-type1 2 z-type1 3 bell-type1 4 z3-type1 5 z2-type1 6 xxparity-type1 7 zzparity-type1
          8 x-type2 9 y-type2 10 z-type2 11 z3-type2 12 z2-type2 *)
Definition ketbra (s t : tstate) (n : Z) : tfrac := mkF (zouter (ts_v s) (ts_v t)) n.          (* |s><t| , n = sqrt(n_s n_t) *)
Definition type1_of (k : nat) : list (list tfrac) :=
  map (fun out => map (fun s => proj_of (state_tbl s)) out) (povm_states k).
(* type 2:  K_{x,k} = |first state of outcome 0><state k of outcome x|  (all states of one name share n) *)
Definition type2_of (k : nat) : list (list tfrac) :=
  let first := state_tbl (hd (sq[4]) (hd [] (povm_states k))) in
  map (fun out => map (fun s => ketbra first (state_tbl s) (ts_n first)) out) (povm_states k).
Definition mproc_tbl (k : nat) : list (list tfrac) :=
  match k with
  | 0 => type1_of 0 | 1 => type1_of 1 | 2 => type1_of 2 | 3 => type1_of 3 | 4 => type1_of 6 | 5 => type1_of 7
  | 6 => [[mkF (zplus (zkron 2 zI zI) (zkron 2 pX pX)) 2]; [mkF (zminus (zkron 2 zI zI) (zkron 2 pX pX)) 2]]
  | 7 => [[mkF (zplus (zkron 2 zI zI) (zkron 2 pZ pZ)) 2]; [mkF (zminus (zkron 2 zI zI) (zkron 2 pZ pZ)) 2]]
  | 8 => type2_of 0 | 9 => type2_of 1 | 10 => type2_of 2 | 11 => type2_of 6 | _ => type2_of 7
  end.
Definition mproc_dim (k : nat) : nat := match k with 0 | 1 | 2 | 8 | 9 | 10 => 2 | 3 | 6 | 7 => 4 | _ => 3 end.
(* trace preservation of the sum:  sum_{x,k} K^dagger K = I ;  K^dagger K = m^dagger m / n^2 *)
Definition kdk (d : nat) (f : tfrac) : tfrac := mkF (mmul d (zadj (tf_m f)) (tf_m f)) (tf_n f * tf_n f).
(* the POVM a measurement process induces: outcome x |-> sum_k K_{x,k}^dagger K_{x,k}; and the single POVM name
   whose measurement the process name stands for (x-type1 / x-type2 -> x, ..., xxparity-type1 -> xxparity) *)
Definition mproc_induced_povm (k : nat) : list tfrac := map (fun out => tf_sum (map (kdk (mproc_dim k)) out)) (mproc_tbl k).
Definition mproc_povm_name (k : nat) : nat :=
  match k with 0 | 8 => 0 | 1 | 9 => 1 | 2 | 10 => 2 | 3 => 3 | 4 | 11 => 6 | 5 | 12 => 7 | 6 => 12 | _ => 13 end.
(* equality of fractions  a.m / a.n = b.m / b.n  (positive denominators), entrywise, without division *)
Definition tf_eq (d : nat) (a b : tfrac) : Prop :=
  forall i j, (i < d)%nat -> (j < d)%nat -> z8mul (z8z (tf_n b)) (tf_m a i j) = z8mul (z8z (tf_n a)) (tf_m b i j).
Definition tf_eqb (d : nat) (a b : tfrac) : bool :=
  allbn d (fun i => allbn d (fun j => z8eqb (z8mul (z8z (tf_n b)) (tf_m a i j)) (z8mul (z8z (tf_n a)) (tf_m b i j)))).

(* ================= 2-qutrit Hamiltonians ================= *)
(* base matrix names as for [base3]; a single-base-matrix gate name  <b0><b1><angle>  has  H = (pi/4) * k * (b0 (x) b1),  k = 1 (90) or 2 (180);
   a two-base-matrix name is the sum.  The table gives  H / (pi/4). *)
Definition ham2t_single (b0 b1 k : nat) : zmat := zsc (z8z (Z.of_nat k)) (zkron 3 (base3 b0) (base3 b1)).
Definition ham2t (terms : list (nat * nat * nat)) : zmat :=
  fold_left (fun acc t => let '(b0, b1, k) := t in zplus acc (ham2t_single b0 b1 k)) terms (fun _ _ => z8_0).
