(* C09 — linear estimation (definitions only), generic in the ordered field.

   Mirrors quara/protocol/qtomography/standard/linear_estimator.py (calc_estimate_sequence, calc_estimate),
   standard_qtomography.py (is_fullrank_matA) and standard_qtomography_estimator.py (estimated_var) — the code AFTER
   the repairs fixes/fullrank-guard-column-rank.diff and fixes/linear-estimator-unequal-outcome-counts.diff (see below).

     A      : m x n matrix (rows = (schedule, outcome) pairs, columns = variables)      calc_matA()
     b      : m vector                                                                   calc_vecB()
     f      : m vector, the flattened stack of the empirical distributions of one dataset
     x      = (A^T A)^-1 A^T (f - b)                                                     the estimate

   The inverse is NOT modelled as an algorithm that is trusted: [gj] (Gauss-Jordan over the field, on lists) only
   PRODUCES a candidate M (or a candidate kernel vector); [solve] accepts it only after the exact check
   M (A^T A) = I  (resp.  (A^T A) w = 0, w <> 0).  All theorems are about an arbitrary M passing that check. *)
From Coq Require Import Arith List Bool ZArith.
From QV.Core Require Import OF Sums Mat.
Import ListNotations.

Section LinEst.
Context (F : OF).
Notation mat := (@mat F).
Notation vec := (@vec F).
Notation f0 := (c0 F).
Notation f1 := (c1 F).

(* ------------------------------------------------------------------ mathematical layer *)
Definition gram (m : nat) (A : mat) : mat := mmul m (mT A) A.                       (* A^T A,  n x n *)
Definition estimate (m n : nat) (M A : mat) (b f : vec) : vec :=                     (* M A^T (f - b) *)
  mv n M (mv m (mT A) (vsub f b)).
Definition residual (n : nat) (A : mat) (b f x : vec) : vec := vsub (mv n A x) (vsub f b).   (* A x - (f - b) *)
Definition nrm2 (m : nat) (u : vec) : F := dot m u u.
Definition predict (n : nat) (A : mat) (b v : vec) : vec := vadd (mv n A v) b.       (* forward model A v + b *)
(* the certificate: M is a left inverse of G on the n x n block *)
Definition left_inverse_cert (n : nat) (M G : mat) : Prop := meq n n (mmul n M G) mid.
(* the opposite certificate: a non-zero kernel vector *)
Definition kernel_cert (n : nat) (G : mat) (w : vec) : Prop :=
  veq n (mv n G w) vzero /\ exists i, (i < n)%nat /\ w i <> f0.

(* ------------------------------------------------------------------ materialisation (lists <-> functions) *)
Definition lvec (n : nat) (v : vec) : list F := map v (seq 0 n).
Definition vofl (l : list F) : vec := fun i => nth i l f0.
Definition vfrz (n : nat) (v : vec) : vec := vofl (lvec n v).
Definition lrows (m n : nat) (A : mat) : list (list F) := map (fun i => lvec n (A i)) (seq 0 m).
Definition mofr (r : list (list F)) : mat := fun i j => nth j (nth i r []) f0.
Definition mfrz (m n : nat) (A : mat) : mat := mofr (lrows m n A).

(* executable estimate: intermediate vectors are materialised; proved pointwise equal to [estimate] *)
Definition estimate_x (m n : nat) (M A : mat) (b f : vec) : vec :=
  mv n M (vfrz n (mv m (mT A) (vfrz m (vsub f b)))).

(* ------------------------------------------------------------------ executable exact checks *)
Fixpoint alln (n : nat) (p : nat -> bool) : bool := match n with O => true | S k => alln k p && p k end.
Definition veqb (n : nat) (x y : vec) : bool := alln n (fun i => keqb F (x i) (y i)).
Definition cert_okb (n : nat) (M G : mat) : bool :=
  alln n (fun i => alln n (fun j => keqb F (mmul n M G i j) (mid i j))).
Definition ker_okb (n : nat) (G : mat) (w : vec) : bool :=
  alln n (fun i => keqb F (mv n G w i) f0) && negb (alln n (fun i => keqb F (w i) f0)).

(* ------------------------------------------------------------------ Gauss-Jordan on lists (UNTRUSTED producer) *)
Definition row := list F.
Definition is0 (x : F) : bool := keqb F x f0.
Definition rget (r : row) (c : nat) : F := nth c r f0.
Definition rscale (k : F) (r : row) : row := map (fun x => cmul F k x) r.
Fixpoint rsubmul (k : F) (p s : row) : row :=                    (* s - k * p *)
  match p, s with
  | x :: p', y :: s' => csub F y (cmul F k x) :: rsubmul k p' s'
  | _, _ => []
  end.
(* split off the first row whose entry in column c is non-zero *)
Fixpoint pick (c : nat) (rows : list row) : option (row * list row) :=
  match rows with
  | [] => None
  | r :: t => if is0 (rget r c)
              then match pick c t with Some (p, rest) => Some (p, r :: rest) | None => None end
              else Some (r, t)
  end.
Definition elim_with (c : nat) (p r : row) : row :=
  let k := rget r c in if is0 k then r else rsubmul k p r.
(* one step on column c: state = (rows that already carry a pivot, remaining rows); None = no pivot in column c *)
Definition gj_step (c : nat) (st : list row * list row) : option (list row * list row) :=
  let '(dn, td) := st in
  match pick c td with
  | None => None
  | Some (p, rest) =>
      let p' := rscale (kinv F (rget p c)) p in
      Some (map (elim_with c p') dn ++ [p'], map (elim_with c p') rest)
  end.
Fixpoint gj_loop (fuel c : nat) (st : list row * list row) : (list row * list row) + (nat * list row) :=
  match fuel with
  | O => inl st
  | S k => match gj_step c st with
           | Some st' => gj_loop k (S c) st'
           | None => inr (c, fst st)
           end
  end.
Definition unit_row (n i : nat) : row := map (fun j => if Nat.eqb i j then f1 else f0) (seq 0 n).
Fixpoint augment (n i : nat) (rows : list row) : list row :=
  match rows with [] => [] | r :: t => (firstn n r ++ unit_row n i) :: augment n (S i) t end.
Inductive gj_res := GJ_inv (rows : list row) | GJ_ker (w : row).
(* inverse candidate of an n x n matrix given by rows; or, when column c has no pivot, the kernel candidate
   w = e_c - sum_{k<c} R[k][c] e_k  read off the reduced rows *)
Definition gj (n : nat) (rows : list row) : gj_res :=
  match gj_loop n 0 ([], augment n 0 rows) with
  | inl (dn, _) => GJ_inv (map (skipn n) dn)
  | inr (c, dn) => GJ_ker (map (fun r => copp F (rget r c)) dn ++ f1 :: repeat f0 (n - c - 1))
  end.
(* number of pivots of an m x n matrix (stands for np.linalg.matrix_rank; tied by the correspondence only) *)
Fixpoint rank_loop (fuel c : nat) (st : list row * list row) (acc : nat) : nat :=
  match fuel with
  | O => acc
  | S k => match gj_step c st with
           | Some st' => rank_loop k (S c) st' (S acc)
           | None => rank_loop k (S c) st acc
           end
  end.
Definition rank_of (m n : nat) (A : mat) : nat := rank_loop n 0 ([], lrows m n A) 0.

(* ------------------------------------------------------------------ the solve step with its certificates *)
Inductive solved := S_inv (M : mat) | S_ker (w : vec) | S_fail.
Definition solve_g (n : nat) (G : mat) : solved :=
  match gj n (lrows n n G) with
  | GJ_inv rows => let M := mofr rows in if cert_okb n M G then S_inv M else S_fail
  | GJ_ker w => let wv := vofl w in if ker_okb n G wv then S_ker wv else S_fail
  end.
Definition solve (m n : nat) (A : mat) : solved := solve_g n (mfrz n n (gram m A)).

(* ------------------------------------------------------------------ the estimator as coded *)
(* The FAITHFUL model is the code AFTER the two repairs
     fixes/fullrank-guard-column-rank.diff               is_fullrank_matA: rank == matA.shape[1]   (was: min(matA.shape))
     fixes/linear-estimator-unequal-outcome-counts.diff  f = np.hstack(blocks)                      (was: np.vstack(blocks).flatten())
   The two definitions "as coded before fix ..." are kept, clearly labelled, only to state what was wrong (Props 15, 16).
   The loop and the estimator are written once, parametrised by the stacking function and the guard. *)
(* one dataset = one (sample count, empirical distribution) pair per schedule *)
Definition dataset := list (Z * list F).
(* np.hstack(blocks) on 1-d blocks: concatenation; defined only when there is at least one block (else ValueError) *)
Definition hstack (blocks : list (list F)) : option (list F) :=
  match blocks with
  | [] => None
  | _ :: _ => Some (concat blocks)
  end.
(* AS CODED BEFORE FIX linear-estimator-unequal-outcome-counts:
   np.vstack(blocks).flatten(): defined only when there is at least one block and all blocks have equal length *)
Definition vstack_flatten (blocks : list (list F)) : option (list F) :=
  match blocks with
  | [] => None
  | b0 :: _ => if forallb (fun b => Nat.eqb (length b) (length b0)) blocks then Some (concat blocks) else None
  end.
Inductive eres :=
  | E_ok (xs : list (list F))   (* estimated_var_sequence *)
  | E_guard                     (* `if not qtomography.is_fullrank_matA(): raise Exception` *)
  | E_singular                  (* np.linalg.inv on an exactly singular A^T A behind a passing guard: LinAlgError or a
                                   meaningless matrix.  Unreachable with the repaired guard (Props 17: C09_never_singular) *)
  | E_stack                     (* np.hstack / np.vstack: ValueError *)
  | E_shape                     (* f - b: operands of different length (numpy would broadcast a one-entry f against a longer
                                   b; that malformed input is not modelled and never generated) *)
  | E_internal.                 (* the untrusted producer failed its check (never observed) *)
(* is_fullrank_matA: rank == number of columns (= number of variables) *)
Definition coded_guard (m n : nat) (A : mat) : bool := Nat.eqb (rank_of m n A) n.
(* AS CODED BEFORE FIX fullrank-guard-column-rank: rank == min(matA.shape) *)
Definition coded_guard_before_fix (m n : nat) (A : mat) : bool := Nat.eqb (rank_of m n A) (Nat.min m n).
(* the loop `for empi_dists in empi_dists_sequence: ... estimate_sequence.append(v)` *)
Fixpoint est_loop_with (stack : list (list F) -> option (list F)) (one : list F -> list F) (m : nat)
                       (sq : list dataset) (acc : list (list F)) : eres :=
  match sq with
  | [] => E_ok acc
  | ds :: rest =>
      match stack (map snd ds) with
      | None => E_stack
      | Some f => if Nat.eqb (length f) m then est_loop_with stack one m rest (acc ++ [one f]) else E_shape
      end
  end.
Definition one_estimate (m n : nat) (M A : mat) (b f : list F) : list F :=
  lvec n (estimate_x m n M A (vofl b) (vofl f)).
Definition calc_estimate_sequence_with (guard : nat -> nat -> mat -> bool) (stack : list (list F) -> option (list F))
                                       (m n : nat) (A : mat) (b : list F) (sq : list dataset) : eres :=
  if negb (guard m n A) then E_guard
  else match solve m n A with
       | S_inv M => est_loop_with stack (one_estimate m n M A b) m sq []
       | S_ker _ => E_singular
       | S_fail => E_internal
       end.
(* LinearEstimator.calc_estimate_sequence / calc_estimate (repaired code) *)
Definition est_loop := est_loop_with hstack.
Definition calc_estimate_sequence := calc_estimate_sequence_with coded_guard hstack.
Definition calc_estimate (m n : nat) (A : mat) (b : list F) (ds : dataset) : eres :=
  calc_estimate_sequence m n A b [ds].
(* AS CODED BEFORE the two fixes (used only by the two `_refuted` statements) *)
Definition calc_estimate_sequence_before_fix := calc_estimate_sequence_with coded_guard_before_fix vstack_flatten.
Definition calc_estimate_before_fix (m n : nat) (A : mat) (b : list F) (ds : dataset) : eres :=
  calc_estimate_sequence_before_fix m n A b [ds].
(* StandardQTomographyEstimationResult.estimated_var / estimated_var_sequence *)
Definition estimated_var (xs : list (list F)) : list F := nth 0 xs [].
Definition estimated_var_sequence (xs : list (list F)) : list (list F) := xs.

(* ------------------------------------------------------------------ helpers used by the executable wrappers *)
Definition absF (x : F) : F := if kleb F f0 x then x else copp F x.
Definition maxF (x y : F) : F := if kleb F x y then y else x.
Definition norm_inf (n : nat) (G : mat) : F :=          (* max_i sum_j |G_ij| *)
  fold_right maxF f0 (map (fun i => sumn n (fun j => absF (G i j))) (seq 0 n)).
End LinEst.

Arguments gram {F} m A _ _. Arguments estimate {F} m n M A b f _. Arguments residual {F} n A b f x _.
Arguments nrm2 {F} m u. Arguments predict {F} n A b v _.
Arguments left_inverse_cert {F} n M G. Arguments kernel_cert {F} n G w.
Arguments lvec {F} n v. Arguments vofl {F} l _. Arguments vfrz {F} n v _. Arguments lrows {F} m n A.
Arguments mofr {F} r _ _. Arguments mfrz {F} m n A _ _. Arguments estimate_x {F} m n M A b f _.
Arguments veqb {F} n x y. Arguments cert_okb {F} n M G. Arguments ker_okb {F} n G w.
Arguments gj {F} n rows. Arguments rank_of {F} m n A. Arguments solve {F} m n A. Arguments solve_g {F} n G.
Arguments S_inv {F} M. Arguments S_ker {F} w. Arguments S_fail {F}.
Arguments vstack_flatten {F} blocks. Arguments hstack {F} blocks. Arguments coded_guard {F} m n A.
Arguments coded_guard_before_fix {F} m n A.
Arguments E_ok {F} xs. Arguments E_guard {F}. Arguments E_singular {F}. Arguments E_stack {F}.
Arguments E_shape {F}. Arguments E_internal {F}.
Arguments est_loop_with {F} stack one m sq acc. Arguments est_loop {F} one m sq acc. Arguments one_estimate {F} m n M A b f.
Arguments calc_estimate_sequence_with {F} guard stack m n A b sq.
Arguments calc_estimate_sequence {F} m n A b sq. Arguments calc_estimate {F} m n A b ds.
Arguments calc_estimate_sequence_before_fix {F} m n A b sq. Arguments calc_estimate_before_fix {F} m n A b ds.
Arguments estimated_var {F} xs. Arguments estimated_var_sequence {F} xs. Arguments norm_inf {F} n G.
