(* C07 — model of quara's tensor products (definitions only).
   Anchors: quara/utils/matrix_util.py (_U, _K, _left_permutation_matrix, _check_cross_system_position,
   calc_permutation_matrix, convert_list_by_permutation_matrix), quara/objects/operators.py (tensor_product,
   _tensor_product_hs_hs, _tensor_product_State_State/_Povm_Povm/_Gate_Gate/_MProcess_MProcess), composite_system.py (sort by name).
   Generic in the commutative ring.  Vectors / matrices are functions (Core/Mat.v); sizes are explicit.
   [mode]: Fixed = the code AFTER the repairs fixes/C07-left-permutation-matrix-size-product (sizes of I_head / I_tail are
   the PRODUCT of the neighbouring sizes, reduce(mul, ...)) and fixes/C07-mprocess-tensor-outcome-layout (hs1 outer loop);
   this is the model the harness compares quara with.  Coded = the code AS IT WAS BEFORE those repairs (reduce(add, ...),
   hs2 outer loop); it is kept only for the refutation theorems and to let the harness name the defect if it returns. *)
From Coq Require Import Arith List Bool ZArith Lia.
From QV.Core Require Import OF Sums Mat.
Import ListNotations.

Inductive pres (A : Type) := POk (a : A) | PErr (code : nat).
Arguments POk {A} a. Arguments PErr {A} code.
(* error codes: 1 = matmul dimension mismatch (numpy ValueError), 2 = fuel exhausted (model artefact: the Python loop has no bound),
   3 = duplicate subsystem name (CompositeSystem raises ValueError) *)
Inductive mode := Coded | Fixed.
Inductive kind := KVec | KRows | KHs.   (* State-like (one-sided), Povm-like (rows = outcomes), Gate-like (HS matrices) *)

Definition prodn (l : list nat) : nat := fold_right Nat.mul 1%nat l.
Definition sumnat (l : list nat) : nat := fold_right Nat.add 0%nat l.
(* Coded: reduce(add, l), as coded before fix C07-left-permutation-matrix-size-product; Fixed: reduce(mul, l) *)
Definition agg (m : mode) (l : list nat) : nat := match m with Coded => sumnat l | Fixed => prodn l end.

(* _check_cross_system_position: first position whose name is smaller than its predecessor's *)
Fixpoint check_cross_from (former : Z) (pos : nat) (l : list Z) : option nat :=
  match l with
  | [] => None
  | x :: r => if (x <? former)%Z then Some pos else check_cross_from x (S pos) r
  end.
Definition check_cross (l : list Z) : option nat :=
  match l with [] => None | x :: r => check_cross_from x 1%nat r end.

(* l[pos-1], l[pos] = l[pos], l[pos-1] *)
Fixpoint swap_at {A : Type} (pos : nat) (l : list A) : list A :=
  match pos, l with
  | S O, a :: b :: r => b :: a :: r
  | S (S p), a :: r => a :: swap_at (S p) r
  | _, _ => l
  end.

(* CompositeSystem: sorted(systems, key=name) — stable insertion sort on (name, payload) *)
Fixpoint insert_by_name {B : Type} (x : Z * B) (l : list (Z * B)) : list (Z * B) :=
  match l with
  | [] => [x]
  | y :: r => if (fst x <? fst y)%Z then x :: y :: r else y :: insert_by_name x r
  end.
Fixpoint sort_by_name {B : Type} (l : list (Z * B)) : list (Z * B) :=
  match l with [] => [] | x :: r => insert_by_name x (sort_by_name r) end.
Fixpoint nodupb (l : list Z) : bool :=
  match l with [] => true | x :: r => negb (existsb (Z.eqb x) r) && nodupb r end.

(* index maps of permutation matrices:  (P x)_i = x_(s i),  P = pmat s *)
Definition Kmap (d1 d2 : nat) (i : nat) : nat := ((i mod d2) * d1 + i / d2)%nat.
Definition lpm_map (t dpos dprev : nat) (i : nat) : nat :=
  let k := (dpos * dprev)%nat in
  (((i / t / k) * k + Kmap dpos dprev ((i / t) mod k)) * t + i mod t)%nat.

Definition head_size (m : mode) (pos : nat) (sizes : list nat) : nat :=
  if (pos <? 2)%nat then 1%nat else agg m (firstn (pos - 1) sizes).
Definition tail_size (m : mode) (pos : nat) (sizes : list nat) : nat :=
  if (pos <? length sizes - 1)%nat then agg m (skipn (pos + 1) sizes) else 1%nat.
(* number of rows = columns of np.kron(np.kron(I_head, K), I_tail) *)
Definition left_perm_dim (m : mode) (pos : nat) (sizes : list nat) : nat :=
  (head_size m pos sizes * (nth pos sizes 0 * nth (pos - 1) sizes 0) * tail_size m pos sizes)%nat.
Definition left_perm_map (m : mode) (pos : nat) (sizes : list nat) : nat -> nat :=
  lpm_map (tail_size m pos sizes) (nth pos sizes 0%nat) (nth (pos - 1) sizes 0%nat).

(* calc_permutation_matrix on index maps (the executed version): map of  L @ P  is  i |-> s_P (s_L i) *)
Fixpoint calc_perm_map_loop (memo : nat -> (nat -> nat) -> nat -> nat) (m : mode) (fuel total : nat)
    (names : list Z) (sizes : list nat) (s : nat -> nat) : pres (nat -> nat) :=
  match check_cross names with
  | None => POk s
  | Some pos =>
      match fuel with
      | O => PErr 2
      | S f =>
          if (left_perm_dim m pos sizes =? total)%nat
          then calc_perm_map_loop memo m f total (swap_at pos names) (swap_at pos sizes)
                 (memo total (fun i => s (left_perm_map m pos sizes i)))
          else PErr 1
      end
  end.
Definition calc_perm_map (memo : nat -> (nat -> nat) -> nat -> nat) (m : mode) (fuel : nat)
    (names : list Z) (sizes : list nat) : pres (nat -> nat) :=
  calc_perm_map_loop memo m fuel (prodn sizes) names sizes (fun i => i).

Section C07.
Context {R : CR}.
Notation "0" := (c0 R). Notation "1" := (c1 R).
Infix "+" := (cadd R). Infix "*" := (cmul R).
Local Notation mat := (@Mat.mat R). Local Notation vec := (@Mat.vec R).

Definition kronv (n2 : nat) (a b : vec) : vec := fun i => a (i / n2)%nat * b (i mod n2)%nat.
Definition colm (x : vec) : mat := fun i _ => x i.

(* _U(dim1, dim2, i, j), _K(dim1, dim2) = sum_{row<dim1, col<dim2} U(row,col) (x) U(col,row) *)
Definition Umat (i j : nat) : mat := fun r c => if (Nat.eqb r i && Nat.eqb c j)%bool then 1 else 0.
Definition Kmat_sum (d1 d2 : nat) : mat := fun i j =>
  sumn d1 (fun row => sumn d2 (fun col => kron d2 d1 (Umat row col) (Umat col row) i j)).
(* closed form used below (Proofs/C07_Perm.v: Kmat_sum_eq):  K[r*d2+c, c*d1+r] = 1 *)
Definition pmat (s : nat -> nat) : mat := fun i j => if Nat.eqb j (s i) then 1 else 0.
Definition Kmat (d1 d2 : nat) : mat := pmat (Kmap d1 d2).

(* np.kron(np.kron(I_head, K(dpos, dprev)), I_tail) — the head size only enters through the dimension *)
Definition lpm (t dpos dprev : nat) : mat :=
  kron t t (kron (dpos * dprev) (dpos * dprev) mid (Kmat dpos dprev)) mid.
Definition left_perm_matrix (m : mode) (pos : nat) (sizes : list nat) : mat :=
  lpm (tail_size m pos sizes) (nth pos sizes 0%nat) (nth (pos - 1) sizes 0%nat).

(* calc_permutation_matrix: bubble loop; [total] = np.prod(size_list); left_perm @ perm_matrix raises when the
   coded dimension differs from total *)
Fixpoint calc_perm_loop (m : mode) (fuel total : nat) (names : list Z) (sizes : list nat) (P : mat) : pres mat :=
  match check_cross names with
  | None => POk P
  | Some pos =>
      match fuel with
      | O => PErr 2
      | S f =>
          if (left_perm_dim m pos sizes =? total)%nat
          then calc_perm_loop m f total (swap_at pos names) (swap_at pos sizes)
                 (mmul total (left_perm_matrix m pos sizes) P)
          else PErr 1
      end
  end.
Definition calc_perm_matrix (m : mode) (fuel : nat) (names : list Z) (sizes : list nat) : pres mat :=
  calc_perm_loop m fuel (prodn sizes) names sizes mid.

(* ---- denotation of lists of factors (specification side) *)
Definition rfac := (nat * nat * mat)%type.          (* rows, columns, matrix *)
Definition frows (f : rfac) : nat := fst (fst f).
Definition fcols (f : rfac) : nat := snd (fst f).
Definition fmat (f : rfac) : mat := snd f.
Definition rsize (fs : list rfac) : nat := prodn (map frows fs).
Definition csize (fs : list rfac) : nat := prodn (map fcols fs).
Fixpoint tensm (fs : list rfac) : mat :=
  match fs with
  | [] => fun _ _ => 1
  | f :: r => kron (rsize r) (csize r) (fmat f) (tensm r)
  end.
Definition vfac := (nat * vec)%type.
Definition vsize (fs : list vfac) : nat := prodn (map fst fs).
Fixpoint tens (fs : list vfac) : vec :=
  match fs with
  | [] => fun _ => 1
  | f :: r => kronv (vsize r) (snd f) (tens r)
  end.

(* ---- _tensor_product_hs_hs, first part: |HS1>> (x) |HS2>>  ->  reshape((I (x) K(d2,d1) (x) I) @ from_vec)
   d1, d2 = hs1.shape[0], hs2.shape[0] *)
Definition hs_hs_core (d1 d2 : nat) (hs1 hs2 : mat) : mat :=
  let n := (d1 * (d2 * d1) * d2)%nat in
  unvecr (d1 * d2) (mv n (lpm d2 d2 d1) (kronv (d2 * d2) (vecr d1 hs1) (vecr d2 hs2))).

(* ---- objects: names ascending, per-subsystem row / column sizes in that order, the matrix.
   State: rows = dim^2, cols = 1 (column vector); Povm: rows = local outcome counts, cols = dim^2 (row x = vecs[x]);
   Gate / one HS of an MProcess: rows = cols = dim^2. *)
Record robj := { o_names : list Z; o_rs : list nat; o_cs : list nat; o_m : mat }.

Definition tp_obj (k : kind) (md : mode) (fuel : nat) (o1 o2 : robj) : pres robj :=
  let names := o_names o1 ++ o_names o2 in
  let rs := o_rs o1 ++ o_rs o2 in
  let cs := o_cs o1 ++ o_cs o2 in
  if negb (nodupb names) then PErr 3 else
  let srt := sort_by_name (combine names (combine rs cs)) in
  let mk := fun M => {| o_names := map fst srt; o_rs := map (fun x => fst (snd x)) srt;
                        o_cs := map (fun x => snd (snd x)) srt; o_m := M |} in
  let X := match k with
           | KHs => hs_hs_core (prodn (o_rs o1)) (prodn (o_rs o2)) (o_m o1) (o_m o2)
           | _ => kron (prodn (o_rs o2)) (prodn (o_cs o2)) (o_m o1) (o_m o2)
           end in
  match k with
  | KVec =>
      match calc_perm_matrix md fuel names rs with
      | PErr c => PErr c
      | POk Q => POk (mk (mmul (prodn rs) Q X))
      end
  | _ =>
      (* Povm: each vec is multiplied by P(dim^2 sizes), then the list is permuted by Q(local outcome counts);
         Gate: P @ hs @ P.T with one P(dim^2 sizes) *)
      match calc_perm_matrix md fuel names cs with
      | PErr c => PErr c
      | POk P =>
          match calc_perm_matrix md fuel names rs with
          | PErr c => PErr c
          | POk Q => POk (mk (mmul (prodn cs) (mmul (prodn rs) Q X) (mT P)))
          end
      end
  end.

(* tensor_product of several elements: left fold; nested calls give arbitrary groupings *)
Inductive texp := TLeaf (o : robj) | TNode (l r : texp).
Fixpoint eval (k : kind) (md : mode) (fuel : nat) (t : texp) : pres robj :=
  match t with
  | TLeaf o => POk o
  | TNode l r =>
      match eval k md fuel l with
      | PErr c => PErr c
      | POk a => match eval k md fuel r with PErr c => PErr c | POk b => tp_obj k md fuel a b end
      end
  end.
(* executed version of [tp_obj]: permutation matrices are represented by their index maps
   (Proofs/C07_Main.v: calc_perm_map_correct; Proofs/C07_Fast.v: tp_obj_fast_rel, eval_fast_sound, eval_fast_total),
   the first part of _tensor_product_hs_hs by its closed form kron (Proofs/C07_Perm.v: hs_hs_core_kron) *)
Definition tp_obj_fast (memo : nat -> (nat -> nat) -> nat -> nat) (k : kind) (md : mode) (fuel : nat) (o1 o2 : robj) : pres robj :=
  let names := o_names o1 ++ o_names o2 in
  let rs := o_rs o1 ++ o_rs o2 in
  let cs := o_cs o1 ++ o_cs o2 in
  if negb (nodupb names) then PErr 3 else
  let srt := sort_by_name (combine names (combine rs cs)) in
  let mk := fun M => {| o_names := map fst srt; o_rs := map (fun x => fst (snd x)) srt;
                        o_cs := map (fun x => snd (snd x)) srt; o_m := M |} in
  let X := kron (prodn (o_rs o2)) (prodn (o_cs o2)) (o_m o1) (o_m o2) in
  match k with
  | KVec =>
      match calc_perm_map memo md fuel names rs with
      | PErr c => PErr c
      | POk sq => POk (mk (fun i j => X (sq i) j))
      end
  | _ =>
      match calc_perm_map memo md fuel names cs with
      | PErr c => PErr c
      | POk sp =>
          match calc_perm_map memo md fuel names rs with
          | PErr c => PErr c
          | POk sq => POk (mk (fun i j => X (sq i) (sp j)))
          end
      end
  end.
Fixpoint eval_fast (memo : nat -> (nat -> nat) -> nat -> nat) (k : kind) (md : mode) (fuel : nat) (t : texp) : pres robj :=
  match t with
  | TLeaf o => POk o
  | TNode l r =>
      match eval_fast memo k md fuel l with
      | PErr c => PErr c
      | POk a => match eval_fast memo k md fuel r with PErr c => PErr c | POk b => tp_obj_fast memo k md fuel a b end
      end
  end.

Definition fold_tp (k : kind) (md : mode) (fuel : nat) (o : robj) (os : list robj) : pres robj :=
  fold_left (fun acc e => match acc with PErr c => PErr c | POk a => tp_obj k md fuel a e end) os (POk o).

(* ---- MProcess (x) MProcess outcome layout.  shape = shape1 + shape2 and hs(index) uses the row-major serial index.
   [mp_slot] = which pair (i1, i2) of operand outcomes is stored at serial position s.
   mp_slot_fixed: the repaired code appends  for hs1 in elem1.hss: for hs2 in elem2.hss  (position i1 * n2 + i2);
   mp_slot_coded: AS CODED BEFORE fix C07-mprocess-tensor-outcome-layout,  for hs2 in elem2.hss: for hs1 in elem1.hss
   (position i2 * n1 + i1). *)
Definition mp_slot_coded (n1 n2 s : nat) : nat * nat := ((s mod n1)%nat, (s / n1)%nat).
Definition mp_slot_fixed (n1 n2 s : nat) : nat * nat := ((s / n2)%nat, (s mod n2)%nat).
Definition mp_slot (m : mode) := match m with Coded => mp_slot_coded | Fixed => mp_slot_fixed end.
(* the list of HS matrices of the product: entry s is the product of hss1[i1], hss2[i2] with (i1,i2) = mp_slot s *)
Definition tp_mprocess_hss (m : mode) (n1 n2 : nat) (prod : nat -> nat -> mat) : nat -> mat :=
  fun s => let '(i1, i2) := mp_slot m n1 n2 s in prod i1 i2.

(* ---- StateEnsemble (x) StateEnsemble: states and probabilities, i-major / j-minor, shape = shape1 + shape2 *)
Definition tp_probs (n2 : nat) (p1 p2 : vec) : vec := kronv n2 p1 p2.
End C07.

Arguments kronv {R} n2 a b _. Arguments colm {R} x _ _. Arguments pmat {R} s _ _. Arguments Kmat {R} d1 d2 _ _.
Arguments Kmat_sum {R} d1 d2 _ _. Arguments Umat {R} i j _ _.
Arguments lpm {R} t dpos dprev _ _. Arguments left_perm_matrix {R} m pos sizes _ _.
Arguments tensm {R} fs _ _. Arguments tens {R} fs _. Arguments hs_hs_core {R} d1 d2 hs1 hs2 _ _.
