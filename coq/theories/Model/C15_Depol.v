(* C15 — depolarising noise (definitions only), generic in the ordered field.
   quara builds the depolarised object by COMPOSITION with  get_depolarizing_channel(p) = Gate(diag(1, 1-p, ..., 1-p))
   (HS matrix w.r.t. an orthonormal Hermitian basis with B_0 = I/sqrt d):
     state     compose(dp, state)    : vec'   = hs_dp @ vec
     povm      compose(povm, dp)     : vec_x' = conj(vec_x) @ hs_dp         (vectors are real)
     gate      compose(dp, gate)     : hs'    = hs_dp @ hs
     mprocess  compose(dp, mprocess) : hs_x'  = hs_dp @ hs_x   for every outcome x
   (DepolarizedQOperationGenerationSetting.generate_*, qoperation_typical.generate_qoperation_depolarized,
    tester_typical.generate_tester_{states,povms}_depolarized).  [n] = d*d is the number of basis elements. *)
From Coq Require Import List Arith Bool.
From QV.Core Require Import OF Sums Mat Cplx.
From QV.Model Require Import QObj.
Import ListNotations.

Section Depol.
Context (F : OF).
Notation "0" := (c0 F). Notation "1" := (c1 F).
Infix "+" := (cadd F). Infix "*" := (cmul F). Infix "-" := (csub F). Infix "/" := (kdiv F).

(* error branch of get_depolarizing_channel / DepolarizedQOperationGenerationSetting: not (0 <= p <= 1) -> ValueError *)
Definition rate_ok (p : F) : bool := kleb F 0 p && kleb F p 1.

Definition depol_hs (p : F) : rmat F := fun a b => if Nat.eqb a b then (if Nat.eqb a 0 then 1 else 1 - p) else 0.

(* what the code computes *)
Definition depol_state (n : nat) (p : F) (v : rvec F) : rvec F := mv n (depol_hs p) v.
Definition depol_povm_elem (n : nat) (p : F) (v : rvec F) : rvec F := fun b => sumn n (fun a => v a * depol_hs p a b).
Definition depol_gate (n : nat) (p : F) (HS : rmat F) : rmat F := mmul n (depol_hs p) HS.
Definition depol_mprocess (n : nat) (p : F) (HSs : list (rmat F)) : list (rmat F) := map (depol_gate n p) HSs.
(* NOT what the code computes: the noise channel on the OTHER side,  compose(gate, dp) : hs' = hs @ hs_dp  (noise BEFORE the gate,
   G o D_p).  Only used to state that the side matters (Proofs/C15_Depol.v): for a unital trace-preserving G both sides
   coincide, for a non-unital G this is (1-p) G + p G o D, not the stated mixture. *)
Definition depol_gate_wrong_side (n : nat) (p : F) (HS : rmat F) : rmat F := mmul n HS (depol_hs p).
(* unital: the map fixes the maximally mixed operator (first COLUMN of the HS matrix = e_0) *)
Definition hs_unital (n : nat) (HS : rmat F) := forall a, (a < n)%nat -> HS a 0%nat = (if Nat.eqb a 0 then 1 else 0).
Definition depol_povm (n : nat) (p : F) (vs : list (rvec F)) : list (rvec F) := map (depol_povm_elem n p) vs.

(* the stated mixtures, coefficient level: keep the B_0 component, shrink the others by (1-p) *)
Definition mix_vec (p : F) (v : rvec F) : rvec F := fun a => (1 - p) * v a + p * (if Nat.eqb a 0 then v 0%nat else 0).
Definition mix_hs (p : F) (HS : rmat F) : rmat F := fun a b => (1 - p) * HS a b + p * (if Nat.eqb a 0 then HS 0%nat b else 0).

(* the stated mixture, operator level:  D_p(X) = (1-p) X + p tr(X) I/d  on d x d complex matrices *)
Definition ctrace (d : nat) (X : cmat F) : CF F := sumn d (fun i => X i i).
Definition cscale (c : CF F) (X : cmat F) : cmat F := fun i j => cmul (CF F) c (X i j).
Definition D_op (d : nat) (dF : F) (p : F) (X : cmat F) : cmat F := fun i j =>
  cadd (CF F) (cmul (CF F) (zof (1 - p)) (X i j))
              (cmul (CF F) (zof (p / dF)) (if Nat.eqb i j then ctrace d X else c0 (CF F))).

(* basis facts used by the operator-level theorem (all hold for quara's normalised Pauli / Gell-Mann bases) *)
Definition basis_rest_traceless (d : nat) (B : nat -> cmat F) :=
  forall a, (0 < a)%nat -> (a < d * d)%nat -> ctrace d (B a) = c0 (CF F).

(* trace-preservation of an HS matrix w.r.t. such a basis: first row = e_0 (gate.is_tp); sum over outcomes for an MProcess *)
Definition hs_tp (n : nat) (HS : rmat F) := forall b, (b < n)%nat -> HS 0%nat b = (if Nat.eqb b 0 then 1 else 0).
Definition hs_sum (HSs : list (rmat F)) : rmat F := fun a b => fold_right (fun H acc => H a b + acc) 0 HSs.
Definition vec_sum (vs : list (rvec F)) : rvec F := fun a => fold_right (fun v acc => v a + acc) 0 vs.
(* unit trace of a coefficient vector: sd * v_0 = 1 ; POVM completeness: sum_x v_x = sd * e_0 *)
Definition vec_unit_trace (sd : F) (v : rvec F) := sd * v 0%nat = 1.
Definition povm_complete (n : nat) (sd : F) (vs : list (rvec F)) :=
  forall a, (a < n)%nat -> vec_sum vs a = (if Nat.eqb a 0 then sd else 0).
End Depol.
