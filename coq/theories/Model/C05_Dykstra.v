(* C05 — model of QOperation.calc_proj_physical / calc_proj_physical_with_var
   (quara/objects/qoperation.py:691-827, 958-1112): the Dykstra-type alternating projection with the two
   correction terms p, q, the Birgin-Raydan stopping quantity, the loop with fuel = max_iteration and the
   iteration history.  DEFINITIONS ONLY.

   Vectors are functions nat -> F used on the index range [0, n) (the "stacked vector" of the object).
   The two projections are ORACLES:  PA k u  is the result of the FIRST projection of sweep k (0-based, the
   code's loop variable) applied to u, PB k v the SECOND one.  For mode_proj_order = "eq_ineq" PA is the equality
   projection and PB the inequality projection, for "ineq_eq" the other way round ([step_mode]).  Indexing the
   oracle by the sweep number only makes the model more general (a pure projection ignores k); it lets the
   executable instance feed the implementation's own recorded projection outputs.
   [frz] is an executable identity on [0, n) (materialises a vector; function-vectors would otherwise recompute
   the whole history on every access). *)
From Coq Require Import List Arith Bool.
From QV.Core Require Import OF Sums Mat.
Import ListNotations.

Section Dykstra.
Context (F : OF).
Notation vec := (@vec F).
Context (n : nat) (frz : vec -> vec) (PA PB : nat -> vec -> vec).

Record dstate := mkst { sx : vec; sy : vec; sp : vec; sq : vec }.

(* p_prev = q_prev = 0, x_prev = the input, y_prev = None (never read by the loop: the only consumer of y_prev is
   the unused full Birgin-Raydan quantity, evaluated for k >= 1 only); the placeholder is the zero vector *)
Definition init (x0 : vec) : dstate := mkst (frz x0) vzero vzero vzero.

(* one sweep, exactly in the order of the code:
     y_next = PA(x_prev + p_prev);  p_next = x_prev + p_prev - y_next;
     x_next = PB(y_next + q_prev);  q_next = y_next + q_prev - x_next *)
Definition step (k : nat) (s : dstate) : dstate :=
  let u := frz (vadd (sx s) (sp s)) in
  let y' := frz (PA k u) in
  let p' := frz (vsub u y') in
  let v := frz (vadd y' (sq s)) in
  let x' := frz (PB k v) in
  let q' := frz (vsub v x') in
  mkst x' y' p' q'.

(* the arguments handed to the two projections in sweep k (what the harness re-submits to the implementation's
   own projection routines to check that the recorded y, x really are projections of x+p and y+q) *)
Definition arg_first (s : dstate) : vec := frz (vadd (sx s) (sp s)).
Definition arg_second (s s' : dstate) : vec := frz (vadd (sy s') (sq s)).

Fixpoint iter (k : nat) (s0 : dstate) : dstate :=
  match k with O => s0 | S j => step j (iter j s0) end.

(* _calc_stopping_criterion_birgin_raydan2_vectors : the quantity that IS used *)
Definition sqr (a : F) : F := cmul F a a.
Definition br (s s' : dstate) : F :=
  sumn n (fun i => cadd F (sqr (csub F (sp s i) (sp s' i))) (sqr (csub F (sq s i) (sq s' i)))).
(* _calc_stopping_criterion_birgin_raydan_vectors : defined in the code, not used by the loop *)
Definition two : F := cadd F (c1 F) (c1 F).
Definition br_full (s s' : dstate) : F :=
  csub F (csub F (br s s') (cmul F two (dot n (sp s) (vsub (sy s') (sy s)))))
         (cmul F two (dot n (sq s) (vsub (sx s') (sx s)))).

(* the a-posteriori optimality gap  <p_k, y_k - x_k>  and squared distances *)
Definition gap (s : dstate) : F := dot n (sp s) (vsub (sy s) (sx s)).
Definition dist2 (a b : vec) : F := dot n (vsub a b) (vsub a b).

(* error_value < eps_proj_physical  (strict) *)
Definition ltb (a b : F) : bool := negb (kleb F b a).

Record runres := mkrun {
  r_final : dstate;                 (* the state whose x is returned *)
  r_hist : list dstate;             (* history["x"|"y"|"p"|"q"], including the initial entry *)
  r_errs : list (option F);         (* history["error_value"]; None for the first sweep *)
  r_stopped : bool;                 (* left the loop through `break` *)
  r_steps : nat }.                  (* number of sweeps executed = k + 1 at exit *)

(* for k in range(max_iteration): sweep; if k >= 1: test; record; if is_stopping: break *)
Fixpoint loop (eps : F) (fuel k : nat) (s : dstate) (hist : list dstate) (errs : list (option F)) : runres :=
  match fuel with
  | O => mkrun s hist errs false k
  | S f =>
      let s' := step k s in
      let e := if (1 <=? k)%nat then Some (br s s') else None in
      let stop := match e with Some v => ltb v eps | None => false end in
      if stop then mkrun s' (hist ++ [s']) (errs ++ [e]) true (S k)
      else loop eps f (S k) s' (hist ++ [s']) (errs ++ [e])
  end.

(* max_iteration = 0: the code dereferences the unbound loop variable (UnboundLocalError) -> None *)
Definition run_dykstra (eps : F) (max_iter : nat) (x0 : vec) : option runres :=
  match max_iter with
  | O => None
  | _ => Some (loop eps max_iter 0 (init x0) [init x0] [])
  end.
(* `if k == max_iteration - 1: print(Warning ...)` — also printed when the LAST allowed sweep converged *)
Definition warned (max_iter : nat) (r : runres) : bool := Nat.eqb (r_steps r) max_iter.
(* out of fuel proper: the loop ended without `break`; the last iterate is returned all the same *)
Definition out_of_fuel (r : runres) : bool := negb (r_stopped r).
End Dykstra.

Arguments mkst {F} _ _ _ _. Arguments sx {F} _ _. Arguments sy {F} _ _. Arguments sp {F} _ _. Arguments sq {F} _ _.
Arguments r_final {F} _. Arguments r_hist {F} _. Arguments r_errs {F} _. Arguments r_stopped {F} _. Arguments r_steps {F} _.

(* what [frz] has to satisfy (the executable instance is Exec.Base.vfreeze, see vfreeze_spec) *)
Definition frz_ok (F : OF) (n : nat) (frz : @vec F -> @vec F) : Prop :=
  forall v i, (i < n)%nat -> frz v i = v i.

(* mode_proj_order: "eq_ineq" -> first = equality projection; anything else that passed validation = "ineq_eq" *)
Section Mode.
Context (F : OF).
Notation vec := (@vec F).
Context (n : nat) (frz : vec -> vec) (Peq Pineq : nat -> vec -> vec).
Definition first_proj (eq_first : bool) := if eq_first then Peq else Pineq.
Definition second_proj (eq_first : bool) := if eq_first then Pineq else Peq.
Definition step_mode (eq_first : bool) : nat -> dstate F -> dstate F :=
  step F frz (first_proj eq_first) (second_proj eq_first).
Definition iter_mode (eq_first : bool) : nat -> dstate F -> dstate F :=
  iter F frz (first_proj eq_first) (second_proj eq_first).
Definition run_mode (eq_first : bool) (eps : F) (max_iter : nat) (x0 : vec) : option (runres F) :=
  run_dykstra F n frz (first_proj eq_first) (second_proj eq_first) eps max_iter x0.
End Mode.
