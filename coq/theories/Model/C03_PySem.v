(* C03 — the few Python-value combinators the regenerated SetQOperations methods are written with (gen/c03_py2coq.py);
   definitions only.  pyres = "a value or an exception of this class". *)
From Coq Require Import ZArith Bool List String.
From QV.Model Require Import C03_VarObj C03_SetQOps.
Import ListNotations.
Local Open Scope string_scope.

Inductive pyerr := EIndex | EValue | EUnbound | EKey.
Inductive pyres (A : Type) := POk (a : A) | PErr (e : pyerr).
Arguments POk {A} a.
Arguments PErr {A} e.
Definition pbind {A B : Type} (x : pyres A) (f : A -> pyres B) : pyres B :=
  match x with POk a => f a | PErr e => PErr e end.
(* reading a local variable that may not have been assigned: UnboundLocalError *)
Definition pget {A : Type} (x : option A) : pyres A := match x with Some a => POk a | None => PErr EUnbound end.
(* a `for` loop whose body may raise: stops at the first exception *)
Fixpoint pfold {S I : Type} (f : S -> I -> pyres S) (l : list I) (st : S) : pyres S :=
  match l with [] => POk st | i :: t => pbind (f st i) (pfold f t) end.
(* range(n) (empty for n <= 0) and the indices of enumerate(l) *)
Definition py_range (n : Z) : list Z := map Z.of_nat (seq 0 (Z.to_nat n)).
Definition py_enum_idx {A : Type} (l : list A) : list Z := map Z.of_nat (seq 0 (List.length l)).
(* self.size_var_<kind>(i) = len(self.<kind>s[i].to_var()): list indexing with Python's wrap-around of negative indices,
   IndexError outside [-len, len) *)
Definition py_call_size (l : list Z) (i : Z) : pyres Z :=
  let len := Z.of_nat (List.length l) in
  let j := if (i <? 0)%Z then (len + i)%Z else i in
  if ((0 <=? j) && (j <? len))%Z%bool then POk (nth (Z.to_nat j) l 0%Z) else PErr EIndex.

(* the dict returned by _get_operation_mode_to_total_index_map *)
Record fimap := { fi_state : Z; fi_gate : Z; fi_povm : Z; fi_mprocess : Z }.
Definition fim_get (m : fimap) (key : string) : pyres Z :=
  if String.eqb key "state" then POk (fi_state m) else if String.eqb key "gate" then POk (fi_gate m)
  else if String.eqb key "povm" then POk (fi_povm m) else if String.eqb key "mprocess" then POk (fi_mprocess m)
  else PErr EKey.
Definition kind_name (k : kind) : string :=
  match k with KState => "state" | KGate => "gate" | KPovm => "povm" | KMproc => "mprocess" end.

(* layouts: a vector that is the concatenation of the variable blocks of these kinds has this length; one operation's vector *)
Definition layout_len (s : sizes) (l : list kind) : Z := sumz (map (size_kind s) l).
Definition opref_len (s : sizes) (r : kind * Z) : pyres Z := py_call_size (s (fst r)) (snd r).

(* the operations of a set in a given order of kinds, each as (kind, index within its kind, number of variables) *)
Definition all_ops (s : sizes) (order : list kind) : list (kind * Z * Z) :=
  flat_map (fun k => map (fun i => (k, Z.of_nat i, nth i (s k) 0%Z)) (seq 0 (List.length (s k)))) order.
Definition op_kind (o : kind * Z * Z) : kind := fst (fst o).
Definition op_index (o : kind * Z * Z) : Z := snd (fst o).
Definition op_size (o : kind * Z * Z) : Z := snd o.

(* v[a:b] for 0 <= a <= b, and the pieces a front-to-back consumption of v hands out for a list of sizes *)
Definition slice {A : Type} (v : list A) (a b : Z) : list A := firstn (Z.to_nat (b - a)) (skipn (Z.to_nat a) v).
Fixpoint chunks_model {A : Type} (szs : list Z) (v : list A) : list (list A) :=
  match szs with [] => [] | z :: t => firstn (Z.to_nat z) v :: chunks_model t (skipn (Z.to_nat z) v) end.
