(* C06 — specification vocabulary (what "quantum mechanics prescribes"), definitions only.
   Operators are d x d complex matrices; a channel / instrument element is given by Kraus operators. *)
From Coq Require Import List Arith Bool.
From QV.Core Require Import OF Sums Mat Cplx Psd.
From QV.Model Require Import QObj HermEmbed.
Import ListNotations.

Section C06Spec.
Context (F : OF).
Notation Cx := (CF F).
Notation CM := (cmat F).
(* rho |-> sum_K K rho K^dagger *)
Definition kraus_apply (d : nat) (Ks : list CM) (X : CM) : CM :=
  fun i j => fold_right (fun K acc => cadd Cx (mmul d (mmul d K X) (cadj K) i j) acc) (c0 Cx) Ks.
(* the effect of an instrument element:  sum_K K^dagger K   ( tr(sum K rho K^dagger) = tr(effect rho) ) *)
Definition kraus_effect (d : nat) (Ks : list CM) : CM :=
  fun i j => fold_right (fun K acc => cadd Cx (mmul d (cadj K) K i j) acc) (c0 Cx) Ks.
(* Hermitian positive semidefinite, through the real symmetric embedding (DESIGN 2.9) *)
Definition cpsd (d : nat) (H : CM) : Prop := hermitian d H /\ PSD F (d + d) (embed F d H).
(* real part of the trace *)
Definition ctr (d : nat) (X : CM) : F := re (mtrace d X).
(* tr(A^dagger X), real part: the operator inner product the Born rule uses *)
Definition op_inner (d : nat) (A X : CM) : F := re (hs_inner d A X).
End C06Spec.
