(* C08 — semantics of the small Python / numpy vocabulary that gen/c08_py2coq.py translates to (definitions only).

   The translator regenerates, on every run, Gallina definitions of the index / stacking logic of the tomography forward model from
   /repo's CURRENT source (StandardQst/Povmt/Qmpt._set_coeffs, calc_c_qpt, cqpt_to_cqmpt, calc_matA, calc_vecB, the split of
   calc_prob_dists, the slice of calc_fisher_matrix, num_outcomes, the num_variables formulas); coq/gen/C08_Equiv.v re-proves that
   they equal the hand-written model of Model/C08_Forward.v. This file is the meaning the translator gives to each construct.

   Representation: a 1-D float array is [list F]; a 2-D array is the list of its rows [list (list F)] (its shape[1] is the length
   of the first row, 0 when there is no row: the equivalence theorems assume non-empty rectangular matrices where that matters);
   Python ints are Z; a Python list is a list; a dict keyed by (int, int) is an association list IN INSERTION ORDER (assignment
   to an existing key replaces the value in place, as Python does); a schedule is the list of the indices of its items (the item
   NAMES are C20's business).  Indexing and slicing follow Python (negative indices count from the end, slices clamp). *)
From Coq Require Import ZArith Arith List Bool.
From QV.Core Require Import OF.
Import ListNotations.

(* ------------------------------------------------------------------ Python lists / ints *)
Definition zlen {A} (l : list A) : Z := Z.of_nat (length l).
(* l[i] *)
Definition znth {A} (d : A) (l : list A) (i : Z) : A :=
  if (i <? 0)%Z then nth (length l - Z.to_nat (- i)) l d else nth (Z.to_nat i) l d.
(* l[i] = v  for an index in range (out of range: IndexError, the list is left as it is) *)
Definition py_list_set {A} (l : list A) (i : Z) (v : A) : list A :=
  if ((0 <=? i)%Z && (i <? Z.of_nat (length l))%Z)%bool then firstn (Z.to_nat i) l ++ v :: skipn (S (Z.to_nat i)) l else l.
Definition zrange (n : Z) : list Z := map Z.of_nat (seq 0 (Z.to_nat n)).                       (* range(n) *)
Definition zenumerate {A} (l : list A) : list (Z * A) := combine (map Z.of_nat (seq 0 (length l))) l.
Definition list_repeat {A} (l : list A) (k : Z) : list A := concat (repeat l (Z.to_nat k)).   (* l * k *)
Definition zsum (l : list Z) : Z := fold_right Z.add 0%Z l.                                  (* sum(...) of ints *)
(* normalised slice bound: Python clamps; None = open end *)
Definition slice_bound (len : nat) (i : Z) : nat :=
  if (i <? 0)%Z then (len - Z.to_nat (- i))%nat else Nat.min (Z.to_nat i) len.
(* l[lo:hi] with step 1 *)
Definition py_slice {A} (l : list A) (lo hi : option Z) : list A :=
  let n := length l in
  let a := match lo with Some i => slice_bound n i | None => O end in
  let b := match hi with Some i => slice_bound n i | None => n end in
  firstn (b - a) (skipn a l).
Fixpoint nodupz (l : list Z) : list Z :=                                                       (* set(l), as a duplicate-free list *)
  match l with [] => [] | x :: t => if existsb (Z.eqb x) t then nodupz t else x :: nodupz t end.
Fixpoint cumsum_from (acc : Z) (l : list Z) : list Z :=
  match l with [] => [] | x :: t => (acc + x)%Z :: cumsum_from (acc + x)%Z t end.
Definition np_cumsum (l : list Z) : list Z := cumsum_from 0%Z l.

(* ------------------------------------------------------------------ dicts keyed by (int, int), insertion ordered *)
Definition zkey := (Z * Z)%type.
Definition zkey_eqb (a b : zkey) : bool := (fst a =? fst b)%Z && (snd a =? snd b)%Z.
Fixpoint dict_set {T} (d : list (zkey * T)) (k : zkey) (v : T) : list (zkey * T) :=
  match d with
  | [] => [(k, v)]
  | (k', v') :: t => if zkey_eqb k' k then (k', v) :: t else (k', v') :: dict_set t k v
  end.
(* Python tuple order *)
Definition zkey_leb (a b : zkey) : bool := (fst a <? fst b)%Z || ((fst a =? fst b)%Z && (snd a <=? snd b)%Z).
Fixpoint zinsert {T} (e : zkey * T) (l : list (zkey * T)) : list (zkey * T) :=
  match l with
  | [] => [e]
  | h :: t => if zkey_leb (fst e) (fst h) then e :: l else h :: zinsert e t
  end.
(* sorted(d.items()) : keys are unique, so values are never compared *)
Definition dict_sorted_items {T} (d : list (zkey * T)) : list (zkey * T) := fold_right zinsert [] d.
(* dicts keyed by an int *)
Fixpoint dictz_set {T} (d : list (Z * T)) (k : Z) (v : T) : list (Z * T) :=
  match d with
  | [] => [(k, v)]
  | (k', v') :: t => if (k' =? k)%Z then (k', v) :: t else (k', v') :: dictz_set t k v
  end.
Fixpoint dictz_get {T} (dflt : T) (d : list (Z * T)) (k : Z) : T :=
  match d with [] => dflt | (k', v) :: t => if (k' =? k)%Z then v else dictz_get dflt t k end.

Section Np.
Context (F : OF).
Notation "0" := (c0 F).
Definition vec := list F.
Definition mat := list (list F).

(* ------------------------------------------------------------------ numpy *)
Definition np_zeros1 (n : Z) : vec := repeat 0 (Z.to_nat n).                                   (* np.zeros(n) *)
Definition np_zeros2 (r c : Z) : mat := repeat (repeat 0 (Z.to_nat c)) (Z.to_nat r).           (* np.zeros((r, c)) *)
Definition np_flatten (m : mat) : vec := concat m.                                             (* m.flatten() *)
Definition np_hstack1 (l : list vec) : vec := concat l.                                        (* np.hstack of 1-D arrays *)
Fixpoint rows_app (a b : mat) : mat :=
  match a, b with r :: a', s :: b' => (r ++ s) :: rows_app a' b' | _, _ => [] end.
(* np.hstack of 2-D arrays with the same number of rows: row i = concatenation of the rows i *)
Definition np_hstack2 (l : list mat) : mat :=
  match l with [] => [] | m :: t => fold_left rows_app t m end.
Definition np_vstack2 (l : list mat) : mat := concat l.                                        (* np.vstack of 2-D arrays *)
Definition np_vstack1 (l : list vec) : mat := l.                                               (* np.vstack / np.array of 1-D arrays *)
Definition np_split1 (v : vec) (k : Z) : vec * vec := (firstn (Z.to_nat k) v, skipn (Z.to_nat k) v).   (* np.split(v, [k]) *)
(* np.split(v, indices) : pieces v[0:i1], v[i1:i2], ..., v[ik:] (indices ascending and within range in every use) *)
Fixpoint split_at_from (pos : Z) (idx : list Z) (v : vec) : list vec :=
  match idx with
  | [] => [v]
  | i :: t => firstn (Z.to_nat (i - pos)) v :: split_at_from i t (skipn (Z.to_nat (i - pos)) v)
  end.
Definition np_split (v : vec) (idx : list Z) : list vec := split_at_from 0%Z idx v.
Definition np_tile1 (v : vec) (k : Z) : vec := concat (repeat v (Z.to_nat k)).                 (* np.tile(v, k) *)
Definition np_outer (p s : vec) : mat := map (fun a => map (fun b => cmul F a b) s) p.         (* np.outer(p, s) *)
Fixpoint vmap2 (f : F -> F -> F) (a b : vec) : vec :=
  match a, b with x :: a', y :: b' => f x y :: vmap2 f a' b' | _, _ => [] end.
Definition vec_add (a b : vec) : vec := vmap2 (cadd F) a b.
Definition vec_sub (a b : vec) : vec := vmap2 (csub F) a b.
Definition vec_neg (a : vec) : vec := map (copp F) a.
Definition mat_neg (m : mat) : mat := map vec_neg m.
Definition shape0 (m : mat) : Z := zlen m.
Definition shape1 (m : mat) : Z := match m with r :: _ => zlen r | [] => 0%Z end.
Definition cols_to (m : mat) (k : Z) : mat := map (fun r => py_slice r None (Some k)) m.       (* m[:, :k] *)
Definition cols_from (m : mat) (k : Z) : mat := map (fun r => py_slice r (Some k) None) m.     (* m[:, k:] *)
Definition col0 (m : mat) : vec := map (fun r => nth O r 0) m.                                 (* m.T[0] *)
Definition ldot (r v : vec) : F := fold_right (cadd F) 0 (vmap2 (cmul F) r v).
Definition matvec (A : mat) (v : vec) : vec := map (fun r => ldot r v) A.                      (* A @ v *)
(* scipy.linalg.block_diag of the matrices of l : block x occupies the columns after the widths of the earlier blocks; no argument: shape (1, 0) *)
Definition widths (l : list mat) : nat := fold_right (fun m acc => (Z.to_nat (shape1 m) + acc)%nat) O l.
Fixpoint block_diag_from (pre total : nat) (l : list mat) : mat :=
  match l with
  | [] => []
  | m :: t => let w := Z.to_nat (shape1 m) in
              map (fun r => repeat 0 pre ++ r ++ repeat 0 (total - pre - w)) m ++ block_diag_from (pre + w) total t
  end.
Definition sp_block_diag (l : list mat) : mat :=
  match l with [] => [[]] | _ => block_diag_from O (widths l) l end.
End Np.
