(* C08 — tomography forward model (definitions only), generic in the ordered field.

   Mirrors quara/protocol/qtomography/standard/{standard_qtomography,standard_qst,standard_povmt,standard_qpt,
   standard_qmpt}.py at the pinned commit:
     _set_coeffs     : a dictionary keyed by (schedule index, outcome index) whose value is the pair
                       (row of 1st-order coefficients, 0th-order coefficient)   [the code keeps two dictionaries
                       _coeffs_1st / _coeffs_0th that are always written together with the same key]
     calc_matA/vecB  : sorted(dict.items()) stacked
     calc_prob_dists : np.split(A var + b, np.cumsum(sizes)[:-1]), sizes[j] = num_outcomes(j), truncate_and_normalize on
                       every piece                       [code after fix calc-prob-dists-mixed-outcome-counts]
     calc_fisher_matrix's slicing  rows [start, start + num_outcomes(j)), start = sum of num_outcomes(i), i < j
                                                         [code after fix calc-fisher-matrix-mixed-outcome-counts]
     is_fullrank_matA: matrix_rank(A) == A.shape[1]      [code after fix fullrank-guard-column-rank (owner C09)]
   The definitions [calc_prob_dists_reshape], [fisher_prob_dist_evenslice], [is_fullrank_matA_minshape] are the code AS IT WAS
   BEFORE those fixes (reshape((num_schedules, -1)); size = int(len(A)/num_schedules); == min(A.shape)); they are kept only
   as the subject of the *_refuted theorems and of the compatibility theorems (equal outcome counts: same result).
   The model also contains, INDEPENDENTLY of the coefficient dictionaries, the circuit semantics of one schedule
   (quara/qcircuit/experiment.py calc_prob_dist -> operators.compose_qoperations) computed with the
   coefficient algebra of Model/QObj.v ([born], HS matrix times state vector), the unknown being
   [object_of_var v] (the convert_var_to_vec / vecs / hs / hss functions of State, Povm, Gate, MProcess).

   Tester vectors and coefficient rows are LISTS (numpy arrays with a definite length); the candidate variable
   vector is a function nat -> F.  sqrt(dim) is the parameter [sd]. *)
From Coq Require Import Arith List Bool.
From QV.Core Require Import OF Sums Mat Cplx.
From QV.Model Require Import QObj.
Import ListNotations.

Section C08.
Context (F : OF).
Notation "0" := (c0 F). Notation "1" := (c1 F).
Infix "+" := (cadd F). Infix "*" := (cmul F). Infix "-" := (csub F). Infix "/" := (kdiv F).
Notation "- x" := (copp F x).

Definition lvec := list F.
Definition vl (l : lvec) : rvec F := fun i => nth i l 0.                    (* array -> function *)
Definition dotl (r : lvec) (v : rvec F) : F := sumn (length r) (fun i => nth i r 0 * v i).   (* row @ var *)
Definition zeros (k : nat) : lvec := repeat 0 k.                             (* np.zeros(k) *)
Definition tile (l : lvec) (k : nat) : lvec := concat (repeat l k).           (* np.tile(l, k) *)
Fixpoint map2 {A B D : Type} (f : A -> B -> D) (a : list A) (b : list B) : list D :=
  match a, b with x :: a', y :: b' => f x y :: map2 f a' b' | _, _ => [] end.
Definition enumerate {A : Type} (l : list A) : list (nat * A) := combine (seq O (length l)) l.
Definition lsum (l : list F) : F := fold_right (cadd F) 0 l.
Definition natsum (l : list nat) : nat := fold_right Nat.add O l.

(* ------------------------------------------------------------------ the coefficient dictionary *)
Definition key := (nat * nat)%type.                       (* (schedule_index, outcome index) *)
Definition coeff := (lvec * F)%type.                      (* (coeffs_1st row, coeffs_0th) *)
Definition entry := (key * coeff)%type.
Definition dict := list entry.                            (* in insertion order *)

(* Python tuple order on the keys *)
Definition key_leb (a b : key) : bool :=
  (fst a <? fst b)%nat || ((fst a =? fst b)%nat && (snd a <=? snd b)%nat).
Definition key_lt (a b : key) : Prop := (fst a < fst b)%nat \/ (fst a = fst b /\ snd a < snd b)%nat.
(* sorted(d.items()) : a stable sort on the key (keys are unique in a dict, values are never compared) *)
Fixpoint insert_entry (e : entry) (l : dict) : dict :=
  match l with
  | [] => [e]
  | h :: t => if key_leb (fst e) (fst h) then e :: l else h :: insert_entry e t
  end.
Definition sorted_items (d : dict) : dict := fold_right insert_entry [] d.
Definition calc_matA (d : dict) : list lvec := map (fun e => fst (snd e)) (sorted_items d).
Definition calc_vecB (d : dict) : list F := map (fun e => snd (snd e)) (sorted_items d).

(* for schedule_index, schedule in enumerate(schedules): for x, ... in enumerate(...): d[(schedule_index, x)] = ... *)
Definition build_dict (per_schedule : list (list coeff)) : dict :=
  flat_map (fun jr => map (fun xr => ((fst jr, fst xr), snd xr)) (enumerate (snd jr))) (enumerate per_schedule).

(* A var + b *)
Definition affine (A : list lvec) (b : list F) (v : rvec F) : list F := map2 (fun r c => dotl r v + c) A b.
Definition eval_rows (rows : list coeff) (v : rvec F) : list F := map (fun r => dotl (fst r) v + snd r) rows.
(* first row of schedule j in the stacked matrix *)
Definition offset (counts : list nat) (j : nat) : nat := natsum (firstn j counts).

(* ------------------------------------------------------------------ QST  (StandardQst._set_coeffs) *)
(* a tester POVM is the list of its element vectors; a schedule [("state",0),("povm",i)] is the number i *)
Definition qst_rows (para : bool) (sd : F) (povm : list lvec) : list coeff :=
  map (fun vec => if para then (tl vec, hd 0 vec / sd) else (vec, 0)) povm.
Definition qst_per_schedule (para : bool) (sd : F) (povms : list (list lvec)) (scheds : list nat) : list (list coeff) :=
  map (fun i => qst_rows para sd (nth i povms [])) scheds.
Definition qst_coeffs para sd povms scheds : dict := build_dict (qst_per_schedule para sd povms scheds).
Definition qst_num_variables (para : bool) (d : nat) : nat := if para then (d * d - 1)%nat else (d * d)%nat.
Definition qst_counts (povms : list (list lvec)) (scheds : list nat) : list nat :=
  map (fun i => length (nth i povms [])) scheds.                                   (* num_outcomes(j) *)
(* State.convert_var_to_vec : np.insert(var, 0, 1/sqrt(dim)) *)
Definition state_of_var (para : bool) (sd : F) (v : rvec F) : rvec F :=
  if para then (fun i => match i with O => 1 / sd | S k => v k end) else v.
(* compose(povm, state): [vdot(povm_element, state.vec) for povm_element in povm.vecs] *)
Definition born_povm_state (d : nat) (povm : list lvec) (s : rvec F) : list F := map (fun pv => born d (vl pv) s) povm.
Definition qst_born (d : nat) (para : bool) (sd : F) (povm : list lvec) (v : rvec F) : list F :=
  born_povm_state d povm (state_of_var para sd v).

(* ------------------------------------------------------------------ POVMT  (StandardPovmt._set_coeffs) *)
(* a tester state is its vector; a schedule [("state",i),("povm",0)] is the number i; m = num_outcomes *)
Definition povmt_c (n m x : nat) (s : lvec) : lvec := zeros (x * n) ++ s ++ zeros ((m - 1 - x) * n).
Definition povmt_row (para : bool) (sd : F) (m x : nat) (s : lvec) : coeff :=
  let n := length s in                                         (* vec_size *)
  let c := povmt_c n m x s in
  if para then
    let a_prime := firstn (n * (m - 1)) c in                   (* np.split(c, [vec_size * (m - 1)]) *)
    let c_prime := skipn (n * (m - 1)) c in
    (map2 (csub F) a_prime (tile c_prime (m - 1)), sd * nth O c_prime 0)
  else (c, 0).
Definition povmt_rows (para : bool) (sd : F) (m : nat) (s : lvec) : list coeff :=
  map (fun x => povmt_row para sd m x s) (seq O m).
Definition povmt_per_schedule para sd m (states : list lvec) (scheds : list nat) : list (list coeff) :=
  map (fun i => povmt_rows para sd m (nth i states [])) scheds.
Definition povmt_coeffs para sd m states scheds : dict := build_dict (povmt_per_schedule para sd m states scheds).
Definition povmt_num_variables (para : bool) (d m : nat) : nat := if para then ((m - 1) * (d * d))%nat else (m * (d * d))%nat.
Definition povmt_counts (m : nat) (scheds : list nat) : list nat := map (fun _ => m) scheds.       (* num_outcomes(j) *)
(* Povm.convert_var_to_vecs : last element = (sqrt(dim),0,...,0) - sum of the others *)
Definition povm_of_var (para : bool) (sd : F) (n m : nat) (v : rvec F) (x : nat) : rvec F :=
  if para && (x =? m - 1)%nat
  then fun i => (if (i =? O)%nat then sd else 0) - sumn (m - 1) (fun x' => v (x' * n + i)%nat)
  else fun i => v (x * n + i)%nat.
Definition povmt_born (d : nat) (para : bool) (sd : F) (m : nat) (s : lvec) (v : rvec F) : list F :=
  map (fun x => born d (povm_of_var para sd (d * d) m v x) (vl s)) (seq O m).

(* ------------------------------------------------------------------ QPT  (calc_c_qpt) *)
(* schedule [("state",i),("gate",0),("povm",k)] is the pair (i,k) *)
Definition outer_flat (p s : lvec) : lvec := flat_map (fun a => map (fun b => a * b) s) p.  (* np.outer(p, s).flatten() *)
Definition qpt_c_rows (s : lvec) (povm : list lvec) : list lvec := map (fun pv => outer_flat pv s) povm.  (* c_dict[j] *)
Definition qpt_rows (para : bool) (s : lvec) (povm : list lvec) : list coeff :=
  map (fun c => if para then (skipn (length s) c, nth O c 0) else (c, 0)) (qpt_c_rows s povm).
Definition qpt_per_schedule para (states : list lvec) (povms : list (list lvec)) (scheds : list (nat * nat)) :=
  map (fun ik => qpt_rows para (nth (fst ik) states []) (nth (snd ik) povms [])) scheds.
Definition qpt_coeffs para states povms scheds : dict := build_dict (qpt_per_schedule para states povms scheds).
Definition qpt_num_variables (para : bool) (d : nat) : nat :=
  if para then (d * d * (d * d) - d * d)%nat else (d * d * (d * d))%nat.
Definition qpt_counts (povms : list (list lvec)) (scheds : list (nat * nat)) : list nat :=
  map (fun ik => length (nth (snd ik) povms [])) scheds.
(* Gate.convert_var_to_hs : np.insert(reshaped, 0, np.eye(1, dim**2), axis=0) *)
Definition hs_of_var (para : bool) (n : nat) (v : rvec F) : rmat F :=
  if para then fun a b => match a with O => if (b =? O)%nat then 1 else 0 | S a' => v (a' * n + b)%nat end
  else fun a b => v (a * n + b)%nat.
(* compose(povm, gate, state) = compose(povm, compose(gate, state)) : vec' = hs @ vec, then Born *)
Definition born_gate (d : nat) (povm : list lvec) (HS : rmat F) (s : lvec) : list F :=
  born_povm_state d povm (mv (d * d) HS (vl s)).
Definition qpt_born (d : nat) (para : bool) (s : lvec) (povm : list lvec) (v : rvec F) : list F :=
  born_gate d povm (hs_of_var para (d * d) v) s.

(* ------------------------------------------------------------------ QMPT  (cqpt_to_cqmpt) *)
Definition row_width (rows : list lvec) : nat := match rows with r :: _ => length r | [] => O end.   (* c_qpt.shape[1] *)
(* scipy.linalg.block_diag of k copies of the matrix [rows] (block_diag() of nothing is an array of shape (1,0)) *)
Definition block_diag (k : nat) (rows : list lvec) : list lvec :=
  match k with
  | O => [[]]
  | _ => let w := row_width rows in
         flat_map (fun x => map (fun r => zeros (x * w) ++ r ++ zeros ((k - 1 - x) * w)) rows) (seq O k)
  end.
(* returns (a_qmpt, b_qmpt); n = dim ** 2 *)
Definition cqpt_to_cqmpt (para : bool) (n m : nat) (c_qpt : list lvec) : list lvec * list F :=
  if para then
    let w := row_width c_qpt in
    let d_qpt := map (firstn n) c_qpt in
    let e_qpt := map (skipn n) c_qpt in
    let a_0 := map (fun r => r ++ zeros (w - n)) (block_diag (m - 1) c_qpt) in
    let d_dash := map (fun dr => map (copp F) dr ++ zeros (w - n)) d_qpt in
    let a_1 := map2 (fun dd e => tile dd (m - 1) ++ e) d_dash e_qpt in
    let b_0 := zeros (length d_qpt * (m - 1)) in
    let b_1 := map (fun dr => nth O dr 0) d_qpt in
    (a_0 ++ a_1, b_0 ++ b_1)
  else let c := block_diag m c_qpt in (c, zeros (length c)).
(* for element_index, a in enumerate(a_qmpt): ... b_qmpt[element_index]  -- IndexError when b is shorter (None) *)
Definition qmpt_rows (para : bool) (n m : nat) (s : lvec) (povm : list lvec) : option (list coeff) :=
  let ab := cqpt_to_cqmpt para n m (qpt_c_rows s povm) in
  if (length (fst ab) <=? length (snd ab))%nat then Some (combine (fst ab) (snd ab)) else None.
Fixpoint all_some {A : Type} (l : list (option A)) : option (list A) :=
  match l with
  | [] => Some []
  | None :: _ => None
  | Some a :: t => match all_some t with Some r => Some (a :: r) | None => None end
  end.
Definition qmpt_per_schedule para n m (states : list lvec) (povms : list (list lvec)) (scheds : list (nat * nat)) :=
  all_some (map (fun ik => qmpt_rows para n m (nth (fst ik) states []) (nth (snd ik) povms [])) scheds).
Definition qmpt_coeffs para n m states povms scheds : option dict :=
  match qmpt_per_schedule para n m states povms scheds with Some ps => Some (build_dict ps) | None => None end.
Definition qmpt_num_variables (para : bool) (d m : nat) : nat :=
  if para then (m * (d * d * (d * d)) - d * d)%nat else (m * (d * d * (d * d)))%nat.
Definition qmpt_counts (m : nat) (povms : list (list lvec)) (scheds : list (nat * nat)) : list nat :=
  map (fun ik => (m * length (nth (snd ik) povms []))%nat) scheds.
(* MProcess.convert_var_to_hss : first row of the last HS = e_0 - sum of the first rows of the others *)
Definition hss_of_var (para : bool) (n m : nat) (v : rvec F) (x : nat) : rmat F :=
  if para && (x =? m - 1)%nat
  then fun a b => match a with
                  | O => (if (b =? O)%nat then 1 else 0) - sumn (m - 1) (fun x' => v (x' * (n * n) + b)%nat)
                  | S a' => v ((m - 1) * (n * n) + a' * n + b)%nat
                  end
  else fun a b => v (x * (n * n) + a * n + b)%nat.
(* compose(povm, mprocess, state): joint distribution, instrument outcome x major, POVM outcome y minor *)
Definition qmpt_born (d : nat) (para : bool) (m : nat) (s : lvec) (povm : list lvec) (v : rvec F) : list F :=
  flat_map (fun x => born_gate d povm (hss_of_var para (d * d) m v x) s) (seq O m).
(* the two-step path the code takes (MProcess o State -> StateEnsemble (p_x, rho_x), then Povm o StateEnsemble):
   p_x = sqrt(dim) (HS_x s)_0 ,  rho_x = HS_x s / p_x ,  result p_x * <pv_y, rho_x> *)
Definition ensemble_path (d : nat) (sd : F) (pv : lvec) (HS : rmat F) (s : lvec) : F :=
  let w := mv (d * d) HS (vl s) in let p := sd * w O in p * born d (vl pv) (fun i => w i / p).

(* ------------------------------------------------------------------ calc_prob_dists, Fisher slicing *)
Fixpoint chunk (w k : nat) (l : list F) : list (list F) :=
  match k with O => [] | S k' => firstn w l :: chunk w k' (skipn w l) end.
(* matrix_util.truncate_and_normalize on one row: np.where(row < eps, 0, row) / sum *)
Definition trunc_norm (eps : F) (row : list F) : list F :=
  let t := map (fun x => if kleb F eps x then x else 0) row in
  map (fun x => x / lsum t) t.
(* np.split(l, np.cumsum(counts)[:-1]) : len(counts) pieces (one piece for an empty [counts]); piece j has counts[j] entries,
   except that the LAST piece takes everything that is left *)
Fixpoint split_np (counts : list nat) (l : list F) : list (list F) :=
  match counts with
  | [] => [l]
  | [_] => [l]
  | c :: t => firstn c l :: split_np t (skipn c l)
  end.
(* one row per schedule, cut at the schedules' own outcome counts *)
Fixpoint split_counts (counts : list nat) (l : list F) : list (list F) :=
  match counts with [] => [] | c :: t => firstn c l :: split_counts t (skipn c l) end.
(* calc_prob_dists AFTER fix calc-prob-dists-mixed-outcome-counts; counts[j] = self.num_outcomes(j).
   (What is returned is this list of rows; the code stacks them into a 2-D array when all counts are equal and returns the
   list of 1-D arrays otherwise -- a difference of container the harness checks, not modelled.) *)
Definition calc_prob_dists (eps : F) (A : list lvec) (b : list F) (v : rvec F) (counts : list nat) : list (list F) :=
  map (trunc_norm eps) (split_np counts (affine A b v)).
(* calc_fisher_matrix AFTER fix calc-fisher-matrix-mixed-outcome-counts: the predicted distribution of schedule j it uses,
   matA[start:stop] @ var + vecB[start:stop],  start = sum(num_outcomes(i) for i in range(j)), stop = start + num_outcomes(j) *)
Definition fisher_prob_dist (A : list lvec) (b : list F) (v : rvec F) (counts : list nat) (j : nat) : list F :=
  let start := offset counts j in let c := nth j counts O in
  affine (firstn c (skipn start A)) (firstn c (skipn start b)) v.

(* ---- the code as it was BEFORE the two fixes (subject of the *_refuted and compatibility theorems only) *)
(* before fix calc-prob-dists-mixed-outcome-counts:
   tmp.reshape((num_schedules, -1)) : ValueError (None) unless the length is a multiple of num_schedules *)
Definition calc_prob_dists_reshape (eps : F) (A : list lvec) (b : list F) (v : rvec F) (S : nat) : option (list (list F)) :=
  let tmp := affine A b v in
  let L := length tmp in
  match S with
  | O => None
  | _ => if (L mod S =? O)%nat then Some (map (trunc_norm eps) (chunk (L / S) S tmp)) else None
  end.
(* before fix calc-fisher-matrix-mixed-outcome-counts:
   rows [size*j, size*(j+1)) with size = int(len(matA) / num_schedules) *)
Definition fisher_prob_dist_evenslice (A : list lvec) (b : list F) (v : rvec F) (S j : nat) : list F :=
  let size := (length A / S)%nat in
  affine (firstn size (skipn (size * j) A)) (firstn size (skipn (size * j) b)) v.

(* ------------------------------------------------------------------ rank by exact elimination *)
Definition vsubs (c : F) (r p : lvec) : lvec := map2 (fun x y => x - c * y) r p.          (* r - c p *)
(* first row with a non-zero head, and all the other rows *)
Fixpoint find_pivot (rows : list lvec) : option (lvec * list lvec) :=
  match rows with
  | [] => None
  | r :: t => if keqb F (hd 0 r) 0
              then match find_pivot t with Some (p, rest) => Some (p, r :: rest) | None => None end
              else Some (r, t)
  end.
(* rank of a matrix with [n] columns, by column-wise elimination *)
Fixpoint rank_elim (n : nat) (rows : list lvec) : nat :=
  match n with
  | O => O
  | S n' => match find_pivot rows with
            | None => rank_elim n' (map (@tl F) rows)
            | Some (p, rest) => S (rank_elim n' (map (fun r => vsubs (hd 0 r / hd 0 p) (tl r) (tl p)) rest))
            end
  end.
Definition fullcolrank_dec (cols : nat) (A : list lvec) : bool := (rank_elim cols A =? cols)%nat.
(* is_fullrank_matA AFTER fix fullrank-guard-column-rank (owner C09): np.linalg.matrix_rank(matA) == matA.shape[1]
   (matrix_rank itself is an oracle; the exact elimination stands for it) *)
Definition is_fullrank_matA (cols : nat) (A : list lvec) : bool := fullcolrank_dec cols A.
(* before that fix: np.linalg.matrix_rank(matA) == min(matA.shape) -- true for a wide matA with independent rows *)
Definition is_fullrank_matA_minshape (cols : nat) (A : list lvec) : bool := (rank_elim cols A =? Nat.min (length A) cols)%nat.

(* ------------------------------------------------------------------ specification vocabulary *)
(* full column rank of a matrix with [n] columns: the kernel is trivial *)
Definition kernel_trivial (n : nat) (A : list lvec) : Prop :=
  forall v : rvec F, (forall r, In r A -> dotl r v = 0) -> forall i, (i < n)%nat -> v i = 0.
(* informational completeness of a family of effects (coefficient vectors): they separate coefficient vectors *)
Definition separating (n : nat) (effects : list lvec) : Prop :=
  forall s s' : rvec F, (forall e, In e effects -> dot n (vl e) s = dot n (vl e) s') -> forall i, (i < n)%nat -> s i = s' i.
(* the unknown is identified by the statistics of the schedules: equal predicted data => equal variables *)
Definition identifiable (n : nat) (stat : rvec F -> list F) : Prop :=
  forall v v' : rvec F, stat v = stat v' -> forall i, (i < n)%nat -> v i = v' i.
Definition well_formed_vec (d : nat) (l : lvec) : Prop := length l = (d * d)%nat.
(* a list on which truncate_and_normalize is the identity: entries are 0 or at least eps, and they sum to 1 *)
Definition valid_dist (eps : F) (p : list F) : Prop := (forall x, In x p -> x = 0 \/ kle F eps x) /\ lsum p = 1.
End C08.

Arguments vl {F} l _. Arguments dotl {F} r v. Arguments zeros {F} k. Arguments tile {F} l k.
Arguments lsum {F} l. Arguments calc_matA {F} d. Arguments calc_vecB {F} d. Arguments build_dict {F} per_schedule.
Arguments affine {F} A b v. Arguments eval_rows {F} rows v. Arguments sorted_items {F} d.
