(* C06 — concrete rational instances (definitions only): the 2-qubit normalised Pauli basis (entries +-1/2, +-i/2, sd = 2:
   the exactly-rational orthonormal Hermitian basis with B_0 = I/sd, DESIGN 2.5), two non-commuting instruments with 3 and 2
   outcomes given by Kraus operators, a product state, and eigen-decompositions for generate_mprocess(mode 1). *)
From Coq Require Import List Arith Bool ZArith QArith Qcanon.
From QV.Core Require Import OF QcOF Sums Mat Cplx.
From QV.Model Require Import QObj Multinomial C06_Compose.
Import ListNotations.

Notation QF := Qc_OF.
Definition q (a : Z) (b : positive) : Qc := Q2Qc (a # b).
Definition cq (a b : Qc) : cplx QF := (a, b).
Definition cz : cplx QF := cq (Q2Qc 0) (Q2Qc 0).
Definition cmat_of_rows (r : list (list (cplx QF))) : cmat QF := fun i j => nth j (nth i r []) cz.
Definition rmat_of_rows (r : list (list Qc)) : rmat QF := fun i j => nth j (nth i r []) 0%Qc.
Definition one := cq (q 1 1) (q 0 1). Definition mone := cq (q (-1) 1) (q 0 1). Definition ii := cq (q 0 1) (q 1 1). Definition mii := cq (q 0 1) (q (-1) 1).

(* Pauli matrices and the 2-qubit normalised Pauli basis  B_(4a+b) = (sigma_a (x) sigma_b) / 2 *)
Definition sigma (a : nat) : cmat QF :=
  match a with
  | 0%nat => cmat_of_rows [[one; cz]; [cz; one]]
  | 1%nat => cmat_of_rows [[cz; one]; [one; cz]]
  | 2%nat => cmat_of_rows [[cz; mii]; [ii; cz]]
  | _ => cmat_of_rows [[one; cz]; [cz; mone]]
  end.
Definition pauli2 (c : nat) : cmat QF :=
  fun i j => zmul (cq (q 1 2) (q 0 1)) (kron 2 2 (sigma (c / 4)) (sigma (c mod 4)) i j).
Definition w_d : nat := 4.
Definition w_n : nat := 16.
Definition w_sd : Qc := q 2 1.

(* executable checks of the basis predicates (bounded quantifiers as boolean sweeps) *)
Definition ceqb (x y : cplx QF) : bool := Qc_eq_bool (fst x) (fst y) && Qc_eq_bool (snd x) (snd y).
Fixpoint alln (k : nat) (p : nat -> bool) : bool := match k with O => true | S j => alln j p && p j end.
Definition chk_orthonormal (d : nat) (B : nat -> cmat QF) : bool :=
  alln (d * d) (fun a => alln (d * d) (fun b => ceqb (hs_inner d (B a) (B b)) (if Nat.eqb a b then one else cz))).
Definition chk_hermitian (d : nat) (B : nat -> cmat QF) : bool :=
  alln (d * d) (fun a => alln d (fun i => alln d (fun j => ceqb (B a i j) (zconj (B a j i))))).
Definition chk_0th (d : nat) (sd : Qc) (B : nat -> cmat QF) : bool :=
  alln d (fun i => alln d (fun j => ceqb (zmul (cq sd (q 0 1)) (B 0%nat i j)) (if Nat.eqb i j then one else cz))).

(* ---- Kraus operators (4 x 4).  kk a b = a (x) b for 2 x 2 blocks *)
Definition kk (a b : cmat QF) : cmat QF := kron 2 2 a b.
Definition half := cq (q 1 2) (q 0 1). Definition mhalf := cq (q (-1) 2) (q 0 1).
Definition P0 := cmat_of_rows [[one; cz]; [cz; cz]].          (* |0><0| *)
Definition P1 := cmat_of_rows [[cz; cz]; [cz; one]].          (* |1><1| *)
Definition Pp := cmat_of_rows [[half; half]; [half; half]].    (* |+><+| *)
Definition Pm := cmat_of_rows [[half; mhalf]; [mhalf; half]].  (* |-><-| *)
Definition I2 := sigma 0.
(* instrument A ("z-type", 3 outcomes): |0><0| (x) |0><0| , |0><0| (x) |1><1| , |1><1| (x) I *)
Definition krausA : list (list (cmat QF)) := [[kk P0 P0]; [kk P0 P1]; [kk P1 I2]].
(* instrument B ("x-type", 2 outcomes): |+><+| (x) I , |-><-| (x) I *)
Definition krausB : list (list (cmat QF)) := [[kk Pp I2]; [kk Pm I2]].
Definition frz16 (M : rmat QF) : rmat QF :=
  let rows := map (fun i => map (fun j => M i j) (seq 0 16)) (seq 0 16) in fun i j => nth j (nth i rows []) 0%Qc.
Definition hssA : list (rmat QF) := map (fun Ks => frz16 (hs_of_kraus 4 pauli2 Ks)) krausA.
Definition hssB : list (rmat QF) := map (fun Ks => frz16 (hs_of_kraus 4 pauli2 Ks)) krausB.
Definition w_eps : Qc := q 1 100000000.
Definition w_atol : Qc := q 1 10000000000000.
Definition mpA : mproc QF := Build_mproc QF 1%Z hssA [3%nat] w_eps.
Definition mpB : mproc QF := Build_mproc QF 1%Z hssB [2%nat] w_eps.
(* state  rho = |psi><psi| (x) diag(2/3, 1/3),  psi = (2, 1)/sqrt 5 *)
Definition rhoA := cmat_of_rows [[cq (q 4 5) (q 0 1); cq (q 2 5) (q 0 1)]; [cq (q 2 5) (q 0 1); cq (q 1 5) (q 0 1)]].
Definition rhoB := cmat_of_rows [[cq (q 2 3) (q 0 1); cz]; [cz; cq (q 1 3) (q 0 1)]].
Definition w_rho : cmat QF := kk rhoA rhoB.
Definition w_vec : rvec QF := let l := map (fun a => vec_of_op 4 pauli2 w_rho a) (seq 0 16) in fun a => nth a l 0%Qc.

Definition vz : rvec QF := fun _ => 0%Qc.
Definition w_compose2 (fix_mm fix_ps : bool) := compose2 QF w_n w_sd w_atol w_eps true vz fix_mm fix_ps.
Definition w_fold (fix_mm fix_ps : bool) := compose_qoperations QF w_n w_sd w_atol w_eps true vz fix_mm fix_ps.
Definition w_bind (r : mres (qobj QF)) (f : qobj QF -> mres (qobj QF)) := match r with MOk x => f x | MErr c => MErr c end.
(* shape and probabilities of a result *)
Definition dist_of (r : mres (qobj QF)) : option (list nat * list Qc) :=
  match r with
  | MOk (QEns _ E) => Some (d_shape _ (en_dist _ E), d_ps _ (en_dist _ E))
  | _ => None
  end.
Fixpoint qcl_eqb (a b : list Qc) : bool :=
  match a, b with [], [] => true | x :: s, y :: t => Qc_eq_bool x y && qcl_eqb s t | _, _ => false end.
Definition dist_eqb (a b : option (list nat * list Qc)) : bool :=
  match a, b with
  | Some (s, l), Some (s', l') => list_eqb s s' && qcl_eqb l l'
  | None, None => true
  | _, _ => false
  end.
(* A after B on rho, as  A o (B o rho)  (the n-ary call) and as  (A o B) o rho *)
Definition w_seq (fix_mm : bool) := w_fold fix_mm false [QMProc QF mpA; QMProc QF mpB; QState QF 1%Z w_vec].
Definition w_left (fix_mm : bool) :=
  w_bind (w_compose2 fix_mm false (QMProc QF mpA) (QMProc QF mpB)) (fun AB => w_compose2 fix_mm false AB (QState QF 1%Z w_vec)).
(* traces of the post states ( sd * v_0 ) of a result *)
Definition traces_of (r : mres (qobj QF)) : option (list Qc) :=
  match r with MOk (QEns _ E) => Some (map (fun st : rvec QF => (w_sd * st 0%nat)%Qc) (en_states _ E)) | _ => None end.

(* ---- post state after a cut (finding C06-3): Z-measurement of qubit 0 with eps_zero = 1/100 on diag(199/200, 1/200) (x) I/2 *)
Definition krausZ : list (list (cmat QF)) := [[kk P0 I2]; [kk P1 I2]].
Definition mpZ : mproc QF := Build_mproc QF 1%Z (map (fun Ks => frz16 (hs_of_kraus 4 pauli2 Ks)) krausZ) [2%nat] (q 1 100).
Definition rhoC := cmat_of_rows [[cq (q 199 200) (q 0 1); cz]; [cz; cq (q 1 200) (q 0 1)]].
Definition rhoD := cmat_of_rows [[half; cz]; [cz; half]].
Definition w_vec2 : rvec QF := let l := map (fun a => vec_of_op 4 pauli2 (kk rhoC rhoD) a) (seq 0 16) in fun a => nth a l 0%Qc.
Definition w_cut (fix_ps : bool) := w_compose2 false fix_ps (QMProc QF mpZ) (QState QF 1%Z w_vec2).

(* ---- generate_mprocess(mode 1): eigen-decompositions  Pi = V diag(w) V^dagger  with rational unitary V (d = 2) *)
Definition c35 := cq (q 3 5) (q 0 1). Definition c45 := cq (q 4 5) (q 0 1). Definition mc45 := cq (q (-4) 5) (q 0 1). Definition i45 := cq (q 0 1) (q 4 5).
Definition V_real := cmat_of_rows [[c35; mc45]; [c45; c35]].           (* rotation: rows <> columns *)
Definition V_cplx := cmat_of_rows [[c35; i45]; [i45; c35]].            (* symmetric (rows = columns) but complex *)
Definition w_eig : nat -> Qc := fun k => match k with 0%nat => q 1 4 | _ => q 3 4 end.
Definition eig_matrix (V : cmat QF) : cmat QF :=            (* V diag(w) V^dagger *)
  fun i j => sumn 2 (fun k => zmul (zmul (V i k) (cq (w_eig k) (q 0 1))) (zconj (V j k)) : CF QF).
Definition chk_unitary (V : cmat QF) : bool :=
  alln 2 (fun i => alln 2 (fun j => ceqb (sumn 2 (fun k => zmul (zconj (V k i)) (V k j) : CF QF)) (if Nat.eqb i j then one else cz))).
(* does the comp-basis HS matrix induce the effect Pi ?  ( induced vector entry (a,b) = Pi[b,a] ) *)
Definition chk_induces (Hcb Pi : cmat QF) : bool :=
  alln 4 (fun c => ceqb (induced_effect_cb QF 2 Hcb c) (Pi (c mod 2)%nat (c / 2)%nat)).
