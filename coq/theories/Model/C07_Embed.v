(* C07 — model of the qutrit -> two-qubit embedding (definitions only).
   Anchors: quara/objects/qoperation.py (_permutation_matrix_from_qutrits_to_qubits, _calc_matrix_from_qutrits_to_qubits,
   embed_qoperation_from_qutrits_to_qubits) and the per-type _embed_qoperation_from_qutrits_to_qubits in state.py (density matrix,
   coeff 0), povm.py (every element, coeff 1/m), gate.py (every Kraus matrix, coeff 1/sqrt(#Kraus)), mprocess.py (every Kraus
   matrix of every outcome, coeff 1/sqrt(total #Kraus)).  Generic in the commutative ring (complex matrices: R = CF F).
   The Kraus matrices themselves come from an eigendecomposition (oracle); the model takes them as input. *)
From Coq Require Import Arith List Bool Lia.
From QV.Core Require Import OF Sums Mat.
From QV.Model Require Import C07_Tensor.
Import ListNotations.

(* does the n-digit base-4 number a contain the digit 3 ("3 in qubit" for the tuple of itertools.product(range(4), repeat=n)) *)
Fixpoint has3 (n a : nat) : bool :=
  match n with O => false | S k => Nat.eqb (a mod 4) 3 || has3 k (a / 4) end.
(* the loop over enumerate(basis_qubits): running counts of tuples with / without a 3; (index_qubits, index_qutrits) *)
Definition emb_step (n : nat) (st : list (nat * nat) * nat * nat) (a : nat) : list (nat * nat) * nat * nat :=
  let '(acc, ninc, nexc) := st in
  if has3 n a then ((a, 3 ^ n + ninc) :: acc, S ninc, nexc) else ((a, nexc) :: acc, ninc, S nexc).
Definition emb_pairs (n : nat) : list (nat * nat) :=
  let '(acc, _, _) := fold_left (emb_step n) (seq 0 (4 ^ n)) ([], 0, 0) in rev acc.
(* permutation_matrix[index_qubits, index_qutrits] = 1: the index map of the matrix *)
Definition emb_perm (n : nat) : nat -> nat :=
  let tbl := map snd (emb_pairs n) in fun a => nth a tbl 0.

Section Embed.
Context {R : CR}.
Notation "0" := (c0 R). Notation "1" := (c1 R).
Infix "+" := (cadd R). Infix "*" := (cmul R).
Local Notation mat := (@Mat.mat R).

(* np.block([[mat_qutrits, zero], [zero.T, coeff * I]]) with mat_qutrits n3 x n3 *)
Definition emb_block (n3 : nat) (coeff : R) (M : mat) : mat := fun i j =>
  if (i <? n3)%nat then (if (j <? n3)%nat then M i j else 0)
  else (if Nat.eqb i j then coeff else 0).
(* perm_matrix @ mat_blocks @ perm_matrix.T *)
Definition embed_mat (n4 n3 : nat) (s : nat -> nat) (coeff : R) (M : mat) : mat :=
  mmul n4 (mmul n4 (pmat s) (emb_block n3 coeff M)) (mT (pmat s)).
(* executed version (Proofs/C07_Embed.v: embed_fast_eq) *)
Definition embed_fast (n3 : nat) (s : nat -> nat) (coeff : R) (M : mat) : mat :=
  fun a b => emb_block n3 coeff M (s a) (s b).
End Embed.
Arguments emb_block {R} n3 coeff M _ _. Arguments embed_mat {R} n4 n3 s coeff M _ _. Arguments embed_fast {R} n3 s coeff M _ _.
