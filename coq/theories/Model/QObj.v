(* Shared vocabulary for the quantum objects (definitions only), generic in the ordered field.
   A matrix basis is  B : nat -> cmat  with d*d elements of size d x d; states / POVM elements are real
   coefficient vectors w.r.t. B, gates / instruments real d^2 x d^2 Hilbert-Schmidt (HS) matrices w.r.t. B.
   These definitions are FROZEN once other files depend on them: add new ones, do not change these. *)
From Coq Require Import Arith List Bool.
From QV.Core Require Import OF Sums Mat Cplx.
Import ListNotations.

Section QObj.
Context (F : OF).
Notation Cx := (CF F).
Definition cmat := @mat (CF F).
Definition rmat := @mat F.
Definition cvec := @vec (CF F).
Definition rvec := @vec F.

Definition cconj (A : cmat) : cmat := fun i j => zconj (A i j).          (* entrywise conjugate *)
Definition cadj (A : cmat) : cmat := fun i j => zconj (A j i).           (* conjugate transpose *)
Definition cre (A : cmat) : rmat := fun i j => re (A i j).
Definition cim (A : cmat) : rmat := fun i j => im (A i j).
Definition cof (A : rmat) : cmat := fun i j => zof (A i j).
Definition hermitian (d : nat) (A : cmat) := forall i j, (i < d)%nat -> (j < d)%nat -> A i j = zconj (A j i).

(* Hilbert-Schmidt inner product <A, X> = tr(A^dagger X) of d x d complex matrices *)
Definition hs_inner (d : nat) (A X : cmat) : Cx :=
  sumn d (fun i => sumn d (fun j => cmul Cx (zconj (A i j)) (X i j))).

(* ---- states / POVM elements: coefficient vector <-> operator *)
Definition op_of_vec (d : nat) (B : nat -> cmat) (v : rvec) : cmat :=
  fun i j => sumn (d * d) (fun a => cmul Cx (zof (v a)) (B a i j)).
Definition cvec_of_op (d : nat) (B : nat -> cmat) (X : cmat) : cvec := fun a => hs_inner d (B a) X.
Definition vec_of_op (d : nat) (B : nat -> cmat) (X : cmat) : rvec := fun a => re (hs_inner d (B a) X).

(* ---- gates: HS matrix (w.r.t. B) <-> Choi matrix, Kraus operators *)
Definition bbc (d : nat) (B : nat -> cmat) (a b : nat) : cmat := kron d d (B a) (cconj (B b)).   (* B_a (x) conj B_b *)
Definition choi_of_hs (d : nat) (B : nat -> cmat) (HS : rmat) : cmat :=
  fun i j => sumn (d * d) (fun a => sumn (d * d) (fun b => cmul Cx (zof (HS a b)) (bbc d B a b i j))).
Definition chs_of_choi (d : nat) (B : nat -> cmat) (Ch : cmat) : cmat :=
  fun a b => hs_inner (d * d) (bbc d B a b) Ch.
Definition hs_of_choi (d : nat) (B : nat -> cmat) (Ch : cmat) : rmat := fun a b => re (chs_of_choi d B Ch a b).
(* HS matrix of X |-> sum_K K X K^dagger :  HS_ab = sum_K <B_a, K B_b K^dagger> *)
Definition chs_of_kraus (d : nat) (B : nat -> cmat) (Ks : list cmat) : cmat :=
  fun a b => fold_right (fun K acc => cadd Cx (hs_inner d (B a) (mmul d (mmul d K (B b)) (cadj K))) acc) (c0 Cx) Ks.
Definition hs_of_kraus (d : nat) (B : nat -> cmat) (Ks : list cmat) : rmat := fun a b => re (chs_of_kraus d B Ks a b).
(* the operator a gate maps X to, computed through coefficients *)
Definition apply_hs (d : nat) (B : nat -> cmat) (HS : rmat) (X : cmat) : cmat :=
  op_of_vec d B (mv (d * d) HS (vec_of_op d B X)).

(* ---- measurement statistics *)
Definition born (d : nat) (pv sv : rvec) : F := dot (d * d) pv sv.       (* <Pi, rho> through coefficient vectors *)

(* ---- basis predicates *)
Definition basis_orthonormal (d : nat) (B : nat -> cmat) :=
  forall a b, (a < d * d)%nat -> (b < d * d)%nat ->
    hs_inner d (B a) (B b) = (if Nat.eqb a b then c1 Cx else c0 Cx).
Definition basis_hermitian (d : nat) (B : nat -> cmat) := forall a, (a < d * d)%nat -> hermitian d (B a).
(* completeness: every matrix unit is reproduced ( sum_a conj(B_a ij) B_a kl = delta_ik delta_jl ) *)
Definition basis_complete (d : nat) (B : nat -> cmat) :=
  forall i j k l, (i < d)%nat -> (j < d)%nat -> (k < d)%nat -> (l < d)%nat ->
    sumn (d * d) (fun a => cmul Cx (zconj (B a i j)) (B a k l)) =
    (if Nat.eqb i k && Nat.eqb j l then c1 Cx else c0 Cx).
(* B_0 = I / sd *)
Definition basis_0th_identity (d : nat) (sd : F) (B : nat -> cmat) :=
  forall i j, (i < d)%nat -> (j < d)%nat -> cmul Cx (zof sd) (B 0%nat i j) = (if Nat.eqb i j then c1 Cx else c0 Cx).
End QObj.

Arguments cconj {F} A _ _. Arguments cadj {F} A _ _. Arguments cre {F} A _ _. Arguments cim {F} A _ _.
Arguments cof {F} A _ _. Arguments hs_inner {F} d A X. Arguments op_of_vec {F} d B v _ _.
Arguments cvec_of_op {F} d B X _. Arguments vec_of_op {F} d B X _. Arguments bbc {F} d B a b _ _.
Arguments choi_of_hs {F} d B HS _ _. Arguments chs_of_choi {F} d B Ch _ _. Arguments hs_of_choi {F} d B Ch _ _.
Arguments chs_of_kraus {F} d B Ks _ _. Arguments hs_of_kraus {F} d B Ks _ _. Arguments apply_hs {F} d B HS X _ _.
Arguments born {F} d pv sv. Arguments hermitian {F} d A.
Arguments basis_orthonormal {F} d B. Arguments basis_hermitian {F} d B. Arguments basis_complete {F} d B.
Arguments basis_0th_identity {F} d sd B.
