(* C11 — model of the linear maps of quara/interface/cvxpy/conversion.py (definitions only).
   A CVXPY variable and quara's variable (on_para_eq_constraint = True) are the same real vector [var];
   the functions below are what the Python expressions compute when [var] carries numbers.

   quara's own variable -> object conversion (the reference the CVXPY maps must agree with):
     convert_quara_variable_to_state_vec      C11_state_vec          then  op_of_vec   (Model/QObj.v)
     convert_quara_variable_to_povm_vecs      C11_povm_vec           then  op_of_vec
     convert_quara_variable_to_gate_hs        C11_gate_hs            then  choi_of_hs
     convert_quara_variable_to_mprocess_hss   C11_mp_hs              then  choi_of_hs
   CVXPY side, as coded:
     dmat_from_var                            C11_dmat_from_var            (uses eye(d)/d, basis[1:])
     povm_element_from_var                    C11_povm_element_from_var
     choi_from_var                            C11_choi_from_var            (uses eye(d*d)/d, rows a >= 1)
     mprocess_element_choi_from_var           C11_mp_choi_from_var         (code after fix mprocess-element-choi-from-var-last-outcome:
                                                                            last outcome  e_0 - sum_{y<m-1} first rows, the same
                                                                            lines as the _with_sparsity function)
                                              C11_mp_choi_from_var_before_fix   (as coded BEFORE that fix: last outcome
                                                                            + sum over range(m-2), no unit vector)
     *_with_sparsity                          C11_*_sp   = cp.reshape(T @ vec, (k,k)) with cvxpy's default
                                              column-major ('F') order, T's columns being ROW-major flattenings *)
From Coq Require Import Arith List Bool String ZArith.
From QV.Core Require Import OF Sums Mat Cplx.
From QV.Model Require Import QObj C11_Pgdb.
Import ListNotations.

(* num_cvxpy_variable(t, dim, num_outcomes): length of the CVXPY variable = number of real parameters with the equality constraint
   built in.  None = ValueError (unknown type, dim <= 0, missing num_outcomes). *)
Definition C11_num_var (t : string) (dim : Z) (num_outcomes : option Z) : option Z :=
  if (dim <=? 0)%Z then None else
  let D := (dim * dim)%Z in
  if String.eqb t "state" then Some (D - 1)%Z
  else if String.eqb t "povm" then option_map (fun m => ((m - 1) * D)%Z) num_outcomes
  else if String.eqb t "gate" then Some (D * D - D)%Z
  else if String.eqb t "mprocess" then option_map (fun m => (m * (D * D) - D)%Z) num_outcomes
  else None.

(* generate_cvxpy_constraints_from_cvxpy_variable (sparse = false) / ..._with_sparsity (sparse = true): which expression function is
   constrained `>> 0` for which outcome index.  None = ValueError (unknown type). *)
Definition C11_constraint_table (sparse : bool) (t : string) (m : nat) : option (list (string * nat)) :=
  let nm (a b : string) := if sparse then b else a in
  if String.eqb t "state"%string then Some [(nm "dmat_from_var"%string "dmat_from_var_with_sparsity"%string, O)]
  else if String.eqb t "povm"%string then Some (map (fun x => (nm "povm_element_from_var"%string "povm_matrices_from_var_with_sparsity"%string, x)) (seq 0 m))
  else if String.eqb t "gate"%string then Some [(nm "choi_from_var"%string "choi_from_var_with_sparsity"%string, O)]
  else if String.eqb t "mprocess"%string then
    Some (map (fun x => (nm "mprocess_element_choi_from_var"%string "mprocess_element_choi_from_var_with_sparsity"%string, x)) (seq 0 m))
  else None.

(* CvxpyMinimizationAlgorithm.optimize: the dispatch around the solver call.  None = ValueError.
   needs_outcomes: povm / mprocess variables are sized with num_outcomes_estimate();  constrained: "physical" attaches the PSD constraints of
   generate_cvxpy_constraints_from_cvxpy_variable_with_sparsity, "unconstraint" none;  solver: which solve call (SCS receives eps = eps_tol) *)
Definition C11_cvx_needs_outcomes (t : string) : option bool :=
  if (String.eqb t "povm"%string || String.eqb t "mprocess"%string)%bool then Some true
  else if (String.eqb t "state"%string || String.eqb t "gate"%string)%bool then Some false else None.
Definition C11_cvx_constrained (mode : string) : option bool :=
  if String.eqb mode "physical"%string then Some true else if String.eqb mode "unconstraint"%string then Some false else None.
Definition C11_cvx_solver (name : string) : option string :=
  if String.eqb name "scs"%string then Some "SCS(eps=eps_tol)"%string
  else if String.eqb name "mosek"%string then Some "MOSEK(DFEAS=eps_tol)"%string
  else if String.eqb name "cvxopt"%string then Some "CVXOPT"%string else None.

Section C11_Cvx.
Context (F : OF).
Notation Cx := (CF F).
Notation "0" := (c0 F). Notation "1" := (c1 F).
Infix "+" := (cadd F). Infix "*" := (cmul F). Infix "-" := (csub F). Infix "/" := (kdiv F).

Definition C11_delta (i j : nat) : F := if Nat.eqb i j then 1 else 0.

(* ---- quara: variable -> coefficient vectors / HS matrices (on_para_eq_constraint = True) ---- *)
(* [c] = the float 1/np.sqrt(d) *)
Definition C11_state_vec (c : F) (var : rvec F) : rvec F := fun a => match a with O => c | S a' => var a' end.
(* [sd] = the float np.sqrt(d); outcome x of m; each block has D = d*d entries *)
Definition C11_povm_vec (D m : nat) (sd : F) (var : rvec F) (x : nat) : rvec F :=
  if (S x <? m)%nat then fun a => var (x * D + a)%nat
  else fun a => (if Nat.eqb a 0 then sd else 0) - sumn (m - 1) (fun y => var (y * D + a)%nat).
(* Povm.convert_var_to_stacked_vector (on_para_eq_constraint = True) as the affine map  var |-> L var + c  of Model/C11_Pgdb.v
   ([C11_emb]):  the stacked vector is  C11_povm_vec 0 ++ ... ++ C11_povm_vec (m-1);  L is (m*D) x ((m-1)*D), c = sd at position (m-1)*D *)
Definition C11_povm_L (D m : nat) : rmat F := fun k j =>
  if (k <? (m - 1) * D)%nat then (if Nat.eqb k j then 1 else 0)
  else if Nat.eqb (k - (m - 1) * D) (j mod D) then csub F 0 1 else 0.
Definition C11_povm_c (D m : nat) (sd : F) : rvec F := fun k => if Nat.eqb k ((m - 1) * D) then sd else 0.
Definition C11_gate_hs (D : nat) (var : rvec F) : rmat F :=
  fun a b => match a with O => C11_delta b 0 | S a' => var (a' * D + b)%nat end.
Definition C11_mp_hs (D m : nat) (var : rvec F) (x : nat) : rmat F :=
  fun a b =>
    if (S x <? m)%nat then var (x * (D * D) + a * D + b)%nat
    else match a with
         | O => C11_delta b 0 - sumn (m - 1) (fun y => var (y * (D * D) + b)%nat)
         | S a' => var ((m - 1) * (D * D) + a' * D + b)%nat
         end.

(* ---- CVXPY expressions, as coded ---- *)
(* dmat_from_var:  eye(d)/d + sum_{a < d*d-1} var[a] * basis[a+1];   [dd] = d as a field element *)
Definition C11_dmat_from_var (d : nat) (dd : F) (B : nat -> cmat F) (var : rvec F) : cmat F :=
  fun i j => cadd Cx (zof (C11_delta i j / dd))
                     (sumn (d * d - 1) (fun a => cmul Cx (zof (var a)) (B (S a) i j))).
(* povm_element_from_var: vec as in the quara conversion, then sum_a vec[a] * basis[a] *)
Definition C11_povm_element_from_var (d m : nat) (sd : F) (B : nat -> cmat F) (var : rvec F) (x : nat) : cmat F :=
  op_of_vec d B (C11_povm_vec (d * d) m sd var x).
(* choi_from_var:  eye(d*d)/d + sum_{1 <= a < d*d} sum_b var[(a-1)*d*d + b] * (B_a (x) conj B_b) *)
Definition C11_choi_from_var (d : nat) (dd : F) (B : nat -> cmat F) (var : rvec F) : cmat F :=
  fun i j => cadd Cx (zof (C11_delta i j / dd))
    (sumn (d * d - 1) (fun a => sumn (d * d) (fun b =>
        cmul Cx (zof (var (a * (d * d) + b)%nat)) (bbc d B (S a) b i j)))).
(* the flattened HS vector [vec] of outcome x built by mprocess_element_choi_from_var (after the fix) and by
   mprocess_element_choi_from_var_with_sparsity (the two functions share these lines):
     x < m-1 :  var[x*D*D : (x+1)*D*D]
     x = m-1 :  hstack([ e_0 + sum_{y<m-1} (- var[y*D*D : y*D*D+D]),  var[(m-1)*D*D : ] ])                       *)
Definition C11_mp_vec_sp (D m : nat) (var : rvec F) (x : nat) : rvec F :=
  if (S x <? m)%nat then fun k => var (x * (D * D) + k)%nat
  else fun k => if (k <? D)%nat then C11_delta k 0 - sumn (m - 1) (fun y => var (y * (D * D) + k)%nat)
                else var ((m - 1) * (D * D) + (k - D))%nat.
(* mprocess_element_choi_from_var (dense):  sum_ab vec[a*D+b] * (B_a (x) conj B_b) *)
Definition C11_mp_choi_from_var (d m : nat) (B : nat -> cmat F) (var : rvec F) (x : nat) : cmat F :=
  choi_of_hs d B (fun a b => C11_mp_vec_sp (d * d) m var x (a * (d * d) + b)%nat).
(* the same function AS CODED BEFORE FIX mprocess-element-choi-from-var-last-outcome (kept only so that the refutation
   theorem and the harness can recognise a regression to the old behaviour; NOT the model the harness expects) *)
Definition C11_mp_vec_before_fix (D m : nat) (var : rvec F) (x : nat) : rvec F :=
  if (S x <? m)%nat then fun k => var (x * (D * D) + k)%nat
  else fun k => if (k <? D)%nat then sumn (m - 2) (fun y => var (y * (D * D) + k)%nat)
                else var ((m - 1) * (D * D) + (k - D))%nat.
Definition C11_mp_choi_from_var_before_fix (d m : nat) (B : nat -> cmat F) (var : rvec F) (x : nat) : cmat F :=
  choi_of_hs d B (fun a b => C11_mp_vec_before_fix (d * d) m var x (a * (d * d) + b)%nat).

(* ---- the *_with_sparsity variants ---- *)
(* cp.reshape(flat, (k, k)) with the default order 'F':  M[i, j] = flat[i + k*j] *)
Definition C11_reshapeF (k : nat) (flat : nat -> Cx) : cmat F := fun i j => flat (i + k * j)%nat.
(* basis_T_sparse @ vec :  sum_a vec[a] * rowmajor_flatten(B_a) *)
Definition C11_basisT_mul (d : nat) (B : nat -> cmat F) (v : rvec F) : nat -> Cx :=
  fun t => sumn (d * d) (fun a => cmul Cx (zof (v a)) (vecr d (B a) t)).
(* basis_basisconjugate_T_sparse @ vec :  sum_k vec[k] * rowmajor_flatten(B_{k / D} (x) conj B_{k mod D}) *)
Definition C11_bbcT_mul (d : nat) (B : nat -> cmat F) (v : rvec F) : nat -> Cx :=
  fun t => sumn (d * d * (d * d)) (fun k =>
     cmul Cx (zof (v k)) (vecr (d * d) (bbc d B (k / (d * d)) (k mod (d * d))) t)).
Definition C11_dmat_sp (d : nat) (c : F) (B : nat -> cmat F) (var : rvec F) : cmat F :=
  C11_reshapeF d (C11_basisT_mul d B (C11_state_vec c var)).
Definition C11_povm_sp (d m : nat) (sd : F) (B : nat -> cmat F) (var : rvec F) (x : nat) : cmat F :=
  C11_reshapeF d (C11_basisT_mul d B (C11_povm_vec (d * d) m sd var x)).
(* choi_from_var_with_sparsity: hs_vec = hstack([e0 (length D), var]) *)
Definition C11_gate_vec_sp (D : nat) (var : rvec F) : rvec F :=
  fun k => if (k <? D)%nat then C11_delta k 0 else var (k - D)%nat.
Definition C11_choi_sp (d : nat) (B : nat -> cmat F) (var : rvec F) : cmat F :=
  C11_reshapeF (d * d) (C11_bbcT_mul d B (C11_gate_vec_sp (d * d) var)).
(* mprocess_element_choi_from_var_with_sparsity: vec = C11_mp_vec_sp (above), then reshape(T @ vec) *)
Definition C11_mp_choi_sp (d m : nat) (B : nat -> cmat F) (var : rvec F) (x : nat) : cmat F :=
  C11_reshapeF (d * d) (C11_bbcT_mul d B (C11_mp_vec_sp (d * d) m var x)).

(* ---- the CVXPY loss expressions (quara/interface/cvxpy/qtomography/standard/loss_function.py) on predicted probabilities p i j,
   data q i j, schedule ratios c i (num_data_ratios), S schedules with nout i outcomes; [ln] = np.log = cp.log (oracle) *)
Definition C11_gt (a b : F) : bool := negb (kleb F a b).
(* CvxpyUniformSquaredError:  sum_i c_i sum_j (p_ij - q_ij)^2 *)
Definition C11_cvx_se (S : nat) (nout : nat -> nat) (c : nat -> F) (q p : nat -> nat -> F) : F :=
  sumn S (fun i => c i * sumn (nout i) (fun j => (p i j - q i j) * (p i j - q i j))).
(* CvxpyRelativeEntropy:  sum_i c_i sum_{j : q_ij > eps} q_ij (ln q_ij - ln p_ij)   (ALL terms of an outcome are skipped together) *)
Definition C11_cvx_re (ln : F -> F) (eps : F) (S : nat) (nout : nat -> nat) (c : nat -> F) (q p : nat -> nat -> F) : F :=
  sumn S (fun i => c i * sumn (nout i) (fun j => if C11_gt (q i j) eps then q i j * (ln (q i j) - ln (p i j)) else 0)).
(* CvxpyApproximateRelativeEntropyWithZeroProbabilityTerm:  sum_i c_i sum_j ( q_ij > eps ? (p_ij - q_ij)^2 / (2 q_ij) : p_ij ) *)
Definition C11_cvx_are (eps : F) (S : nat) (nout : nat -> nat) (c : nat -> F) (q p : nat -> nat -> F) : F :=
  sumn S (fun i => c i * sumn (nout i) (fun j =>
     if C11_gt (q i j) eps then ((p i j - q i j) * (p i j - q i j)) / ((1 + 1) * q i j) else p i j)).
End C11_Cvx.
