(* C14 — the few Python / numpy notions the translator gen/c14_py2coq.py maps source constructs to (definitions only):
   results with exceptions, list indexing with Python's index semantics, np.zeros, int-array / int, Python values as far as
   to_stream distinguishes them, and the effects of reset_seed / reset_seed_data. *)
From Coq Require Import String ZArith List Bool.
From QV.Core Require Import OF.
From QV.Model Require Import C14_DataGen.
Import ListNotations.

(* the outcome of a call: a value, or an exception of class cls whose message starts with the literal text msg *)
Inductive pyres (T : Type) := PyVal (v : T) | PyExc (cls msg : string).
Arguments PyVal {T} v. Arguments PyExc {T} cls msg.

(* Python index normalisation: 0 <= i < len -> i ; -len <= i < 0 -> len + i ; otherwise IndexError (None) *)
Definition py_norm {A} (l : list A) (i : Z) : option nat :=
  let n := Z.of_nat (length l) in
  if (0 <=? i)%Z then (if (i <? n)%Z then Some (Z.to_nat i) else None)
  else if (- n <=? i)%Z then Some (Z.to_nat (n + i)) else None.
Definition py_nth {A} (l : list A) (i : Z) : option A :=
  match py_norm l i with Some k => nth_error l k | None => None end.
Fixpoint add_at (l : list Z) (k : nat) (c : Z) : list Z :=
  match l, k with
  | [], _ => []
  | x :: t, O => (x + c)%Z :: t
  | x :: t, S k' => x :: add_at t k' c
  end.
(* l[i] += c *)
Definition py_upd_add (l : list Z) (i c : Z) : option (list Z) :=
  match py_norm l i with Some k => Some (add_at l k c) | None => None end.
(* np.zeros((m), dtype=int): ValueError for a negative size *)
Definition py_zeros (m : Z) : option (list Z) := if (m <? 0)%Z then None else Some (repeat 0%Z (Z.to_nat m)).
(* (numpy int array) / (int): elementwise true division (exact here; float64 in the implementation) *)
Definition np_div (F : OF) (a : list Z) (n : Z) : list F := map (fun c => kdiv F (fz F c) (fz F n)) a.

(* Python values as far as number_util.to_stream can tell them apart *)
Inductive pyval :=
| VNone                       (* None *)
| VInt (z : Z)                (* a Python int *)
| VNpInt (z : Z)              (* a numpy integer *)
| VObj (h : nat)              (* any other object; here: a np.random.Generator (handle) *)
| VNpRandom                   (* the module np.random *)
| VNewGen (seed : pyval).     (* np.random.Generator(np.random.MT19937(seed)): a NEW generator object *)
Definition py_is_none (v : pyval) : bool := match v with VNone => true | _ => false end.
(* isinstance(v, (int, np.integer)) *)
Definition py_is_int (v : pyval) : bool := match v with VInt _ | VNpInt _ => true | _ => false end.

(* effects of the seed-handling methods *)
Inductive eff :=
| EffSeedGlobal (a : option Z)        (* np.random.seed(a) *)
| EffResetSeedData (a : option Z).    (* self._experiment.reset_seed_data(a) *)

(* ---- the state-and-exception monad of the translated functions that make random draws / touch objects:
   W = everything mutable (the world); an exception stops the computation, the world stays as it was at the raise ---- *)
Definition SM (W A : Type) : Type := W -> pyres A * W.
Definition mret {W A} (a : A) : SM W A := fun w => (PyVal a, w).
Definition mraise {W A} (cls msg : string) : SM W A := fun w => (PyExc cls msg, w).
Definition mbind {W A B} (m : SM W A) (k : A -> SM W B) : SM W B :=
  fun w => match m w with (PyVal a, w1) => k a w1 | (PyExc cls msg, w1) => (PyExc cls msg, w1) end.
(* a `for` loop whose body may fall through with a new state (inl) or `return` a value (inr) *)
Fixpoint mfor {W X S R} (xs : list X) (s : S) (body : S -> X -> SM W (S + R)) : SM W (S + R) :=
  match xs with
  | [] => mret (inl s)
  | x :: t => mbind (body s x) (fun r => match r with inl s' => mfor t s' body | inr v => mret (inr v) end)
  end.
(* LIST * int *)
Definition py_list_mul {A} (l : list A) (n : Z) : list A := concat (repeat l (Z.to_nat n)).
(* ndarray.tolist() *)
Definition py_tolist {A} (l : list A) : list A := l.
(* `atol if atol else Settings.get_atol()`: None and 0.0 are falsy *)
Definition eff_atol (F : OF) (default : F) (a : option F) : F :=
  match a with Some x => if (kleb F x (c0 F) && kleb F (c0 F) x)%bool then default else x | None => default end.
(* a computation without effects (value or exception) used inside the monad *)
Definition mlift {W A} (r : pyres A) : SM W A := fun w => (r, w).
