(* C05 — value semantics for the Python text of the Dykstra routines of quara/objects/qoperation.py, as emitted by the
   translator gen/c05_py2coq.py (regenerated from /repo on every run).  DEFINITIONS ONLY.

   The translator is a syntax-directed transcription: every Python statement becomes an environment transformer built
   from the combinators below, every expression a [val] built from the operators below.  Nothing is interpreted by the
   translator itself; what an operator does on each shape of value is fixed HERE, fail-closed:
     * a name that was never assigned reads as [VUnbound]; every operator applied to an operand of a shape it does not
       expect (including VUnbound / VErr) yields [VErr];
     * an `if` / loop bound whose value is not of the expected shape sets the variable N_err ("$err", an exception);
   so a generated function can only be proved equal to the model if no such thing happens on any input.
   Vectors are functions on [0, n) as in Model/C05_Dykstra.v; a QOperation object is represented by its stacked vector
   (object-level `+` / `-` are the vector operations: QOperation.__add__ / __sub__, checked per run by the sweep
   equations).  Calls that are NOT translated (the two constraint projections, conversions, copy, zero object) go
   through the [oracle] parameter with their complete argument list. *)
From Coq Require Import List Arith Bool String ZArith.
From QV.Core Require Import OF Sums Mat.
From QV.Model Require Import C05_Dykstra.
Import ListNotations.
Local Open Scope string_scope.

Section PySem.
Context (F : OF) (n : nat).
Notation vec := (@vec F).

Inductive val :=
| VUnbound | VErr | VNone
| VBool (b : bool) | VInt (z : Z) | VNum (x : F) | VStr (s : string)
| VVec (v : vec)
| VList (l : list val) | VTuple (l : list val) | VDict (l : list (string * val)).

(* variable names are numbers (the translator emits  Notation N_<python name> := k%positive ; lookups are then cheap for
   the kernel); the four names of the semantics itself are fixed: *)
Definition name := positive.
Definition N_err : name := 1%positive.       (* "$err"     : an exception was raised *)
Definition N_printed : name := 2%positive.   (* "$printed" : print(...) was executed *)
Definition N_break : name := 3%positive.     (* "$break"   : `break` was executed in the current loop *)
Definition N_ret : name := 4%positive.       (* "$ret"     : the returned value *)
Definition env := name -> val.
Definition empty : env := fun _ => VUnbound.
Definition upd (x : name) (v : val) (e : env) : env := fun y => if Pos.eqb y x then v else e y.
(* the frame of a function: the environment rebuilt on the listed names, in that order (identity on those names) *)
Fixpoint restrict (vars : list name) (e : env) : env :=
  match vars with [] => empty | x :: r => upd x (e x) (restrict r e) end.
Definition str_of_codes (l : list nat) : string := fold_right (fun c s => String (Ascii.ascii_of_nat c) s) EmptyString l.

(* ---- integers embedded in the field (only literals such as 2 occur) *)
Fixpoint nat_inj (k : nat) : F := match k with O => c0 F | S j => cadd F (c1 F) (nat_inj j) end.
Definition z_inj (z : Z) : F :=
  match z with Z0 => c0 F | Zpos p => nat_inj (Pos.to_nat p) | Zneg p => copp F (nat_inj (Pos.to_nat p)) end.

(* ---- operators *)
Definition v_add (a b : val) : val :=
  match a, b with
  | VVec x, VVec y => VVec (vadd x y) | VNum x, VNum y => VNum (cadd F x y) | VInt x, VInt y => VInt (x + y)
  | _, _ => VErr end.
Definition v_sub (a b : val) : val :=
  match a, b with
  | VVec x, VVec y => VVec (vsub x y) | VNum x, VNum y => VNum (csub F x y) | VInt x, VInt y => VInt (x - y)
  | _, _ => VErr end.
Definition v_mul (a b : val) : val :=
  match a, b with
  | VInt x, VNum y => VNum (cmul F (z_inj x) y) | VNum x, VNum y => VNum (cmul F x y) | VInt x, VInt y => VInt (x * y)
  | _, _ => VErr end.
(* `a ** 2` (the translator accepts the literal exponent 2 only) *)
Definition v_pow2 (a : val) : val :=
  match a with VVec x => VVec (fun i => cmul F (x i) (x i)) | VNum x => VNum (cmul F x x) | _ => VErr end.
Definition v_npsum (a : val) : val := match a with VVec x => VNum (sumn n x) | _ => VErr end.
Definition v_npdot (a b : val) : val := match a, b with VVec x, VVec y => VNum (dot n x y) | _, _ => VErr end.
Definition v_lt (a b : val) : val :=
  match a, b with VNum x, VNum y => VBool (ltb F x y) | VInt x, VInt y => VBool (x <? y)%Z | _, _ => VErr end.
Definition v_ge (a b : val) : val := match a, b with VInt x, VInt y => VBool (y <=? x)%Z | _, _ => VErr end.
Definition v_eq (a b : val) : val :=
  match a, b with VInt x, VInt y => VBool (x =? y)%Z | VStr x, VStr y => VBool (String.eqb x y) | _, _ => VErr end.
Definition v_is_none (a : val) : val :=
  match a with VNone => VBool true | VUnbound | VErr => VErr | _ => VBool false end.
Definition v_is_not_none (a : val) : val :=
  match a with VNone => VBool false | VUnbound | VErr => VErr | _ => VBool true end.
(* `and` / `or` on booleans (short-circuit: the right operand is not inspected when the left one decides) *)
Definition v_and (a b : val) : val :=
  match a with VBool false => VBool false | VBool true => match b with VBool _ => b | _ => VErr end | _ => VErr end.
Definition v_or (a b : val) : val :=
  match a with VBool true => VBool true | VBool false => match b with VBool _ => b | _ => VErr end | _ => VErr end.
Definition v_append (l x : val) : val := match l with VList l0 => VList (l0 ++ [x]) | _ => VErr end.
(* tuple unpacking `(a, b) = t`: component i of a tuple of exactly m components *)
Definition v_unpack (m i : nat) (t : val) : val :=
  match t with VTuple l => if Nat.eqb (List.length l) m then List.nth i l VErr else VErr | _ => VErr end.

(* ---- statements *)
Definition raise (e : env) : env := upd N_err (VBool true) e.
Definition s_if (c : val) (t f : env -> env) (e : env) : env :=
  match c with VBool true => t e | VBool false => f e | _ => raise e end.
(* for x in range(cnt): body   with `break` = setting N_break; the frame is rebuilt on [vars] after every sweep *)
Fixpoint for_range (vars : list name) (x : name) (fuel k : nat) (body : env -> env) (e : env) : env :=
  match fuel with
  | O => e
  | S f =>
      let e1 := restrict vars (body (upd x (VInt (Z.of_nat k)) e)) in
      match e1 N_break with VBool true => e1 | _ => for_range vars x f (S k) body e1 end
  end.
Definition s_for (vars : list name) (x : name) (cnt : val) (body : env -> env) (e : env) : env :=
  match cnt with
  | VInt z => for_range vars x (Z.to_nat z) 0 body (restrict vars (upd N_break (VBool false) e))
  | _ => raise e
  end.
(* ---- statement combinators in the form the translator emits: a block is [seq [st; st; ...]], every statement an
   environment transformer whose right-hand sides are functions of the current environment *)
Definition seq (l : list (env -> env)) (e : env) : env := fold_left (fun e st => st e) l e.
Definition s_assign (x : name) (rhs : env -> val) : env -> env := fun e => upd x (rhs e) e.
Definition s_bind (rhs : env -> val) (k : val -> env -> env) : env -> env := fun e => k (rhs e) e.
Definition s_ifs (c : env -> val) (t f : env -> env) : env -> env := fun e => s_if (c e) t f e.
Definition s_fors (vars : list name) (x : name) (cnt : env -> val) (body : env -> env) : env -> env :=
  fun e => s_for vars x (cnt e) body e.
(* initial frame of every generated function *)
Definition env0 : env := upd N_err (VBool false) (upd N_printed (VBool false) empty).
(* value of a call of another generated function: its "$ret" unless it raised *)
Definition call_ret (e : env) : val := match e N_err with VBool false => e N_ret | _ => VErr end.
(* print(f"...{a}...{b}"): formatting reads the names (an unbound one raises), then the fact is recorded in "$printed" *)
Definition is_bad (v : val) : bool := match v with VUnbound | VErr => true | _ => false end.
Definition s_print (vals : list val) (e : env) : env :=
  if existsb is_bad vals then raise e else upd N_printed (VBool true) e.
Definition s_prints (vals : env -> list val) : env -> env := fun e => s_print (vals e) e.
End PySem.

Arguments VUnbound {F}. Arguments VErr {F}. Arguments VNone {F}. Arguments VBool {F} _. Arguments VInt {F} _.
Arguments VNum {F} _. Arguments VStr {F} _. Arguments VVec {F} _. Arguments VList {F} _. Arguments VTuple {F} _.
Arguments VDict {F} _.
Arguments empty {F} _. Arguments upd {F} _ _ _ _. Arguments restrict {F} _ _ _. Arguments raise {F} _ _.
Arguments s_if {F} _ _ _ _. Arguments for_range {F} _ _ _ _ _ _ _. Arguments s_for {F} _ _ _ _ _ _. Arguments env0 {F} _.
Arguments v_add {F} _ _. Arguments v_sub {F} _ _. Arguments v_mul {F} _ _. Arguments v_pow2 {F} _.
Arguments v_lt {F} _ _. Arguments v_ge {F} _ _. Arguments v_eq {F} _ _. Arguments v_is_none {F} _.
Arguments v_is_not_none {F} _. Arguments v_and {F} _ _. Arguments v_or {F} _ _. Arguments v_append {F} _ _.
Arguments v_unpack {F} _ _ _. Arguments call_ret {F} _. Arguments s_print {F} _ _. Arguments is_bad {F} _.
Arguments seq {F} _ _. Arguments s_assign {F} _ _ _. Arguments s_bind {F} _ _ _. Arguments s_ifs {F} _ _ _ _.
Arguments s_fors {F} _ _ _ _ _. Arguments s_prints {F} _ _.
