(* C04 — the executable nearest-PSD-point certificate check for complex Hermitian matrices (definitions only).
   X = operator of the projection's OUTPUT, Y = operator of its INPUT (density matrix / POVM element / Choi matrix).
   [cert_check n X Y eps delta = true] is what the harness evaluates (through the extracted code) on every inequality
   projection the implementation performs; Proofs/C04_Herm.v proves what it implies. *)
From Coq Require Import Arith Bool.
From QV.Core Require Import OF Sums Mat Cplx Psd.
From QV.Model Require Import QObj HermEmbed.

Section C04Cert.
Context (F : OF).
Notation "0" := (c0 F).
Infix "+" := (cadd F). Infix "*" := (cmul F). Infix "-" := (csub F).

Definition csubm (X Y : cmat F) : cmat F := fun i j => zsub (X i j) (Y i j).
(* Re tr(A^dagger B) = sum_ij re A_ij re B_ij + im A_ij im B_ij  (the real Frobenius inner product of complex matrices) *)
Definition cre_inner (n : nat) (A B : cmat F) : F :=
  sumn n (fun i => sumn n (fun j => re (A i j) * re (B i j) + im (A i j) * im (B i j))).
Definition hdist2 (n : nat) (A B : cmat F) : F := cre_inner n (csubm A B) (csubm A B).     (* ||A - B||_F^2 *)
Definition re_trace (n : nat) (A : cmat F) : F := sumn n (fun i => re (A i i)).
(* positive semidefinite Hermitian matrix: through the real symmetric embedding (DESIGN 2.9) *)
Definition herm_PSD (n : nat) (H : cmat F) : Prop := PSD F (n + n) (embed F n H).

Definition cert_check (n : nat) (X Y : cmat F) (eps delta : F) : bool :=
  herm_dec F n X && herm_dec F n Y && kleb F 0 eps
  && herm_psd_dec F n X eps && herm_psd_dec F n (csubm X Y) eps
  && kleb F (cre_inner n X (csubm X Y)) delta && kleb F (copp F delta) (cre_inner n X (csubm X Y)).
End C04Cert.

Arguments csubm {F} X Y _ _. Arguments cre_inner {F} n A B. Arguments hdist2 {F} n A B.
Arguments re_trace {F} n A. Arguments herm_PSD {F} n H. Arguments cert_check {F} n X Y eps delta.
