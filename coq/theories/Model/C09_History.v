(* C09 — one estimator object serving a HISTORY of jobs (definitions only).

   A job is one call  estimator.calc_estimate_sequence(qtomography, empi_dists_sequence): the tomography enters through
   its matA (m x n) and vecB, the data through the list of datasets.  `LinearEstimator.__init__` only calls
   `super().__init__()` and none of the base classes sets a field, `calc_estimate_sequence` assigns to no attribute of
   `self`, of the tomography or of a module: the state an estimator object carries from one call to the next is EMPTY.
   [run_history] threads that state explicitly (type [est_state] = unit) so that the statement "the result of a job does not
   depend on what the object was used for before" is a statement about the model (Proofs/C09_History.v) and the harness
   sub-check `history` ties it to the code: every result of a re-used estimator object is compared with [run_job] of
   that job alone. *)
From Coq Require Import Arith List Bool ZArith.
From QV.Core Require Import OF Sums Mat.
From QV.Model Require Import C09_LinEst.
Import ListNotations.

Section History.
Context (F : OF).

Record job := mkJob { j_m : nat; j_n : nat; j_A : @mat F; j_b : list F; j_sq : list (dataset F) }.

(* the call on a FRESH estimator object *)
Definition run_job (j : job) : eres F := calc_estimate_sequence (j_m j) (j_n j) (j_A j) (j_b j) (j_sq j).

(* what a LinearEstimator object remembers between calls: nothing *)
Definition est_state : Type := unit.
Definition est_init : est_state := tt.
(* one call on an object in state st: the new state and the returned result *)
Definition est_call (st : est_state) (j : job) : est_state * eres F := (st, run_job j).
(* the same object serving the jobs in order *)
Fixpoint run_history (st : est_state) (jobs : list job) : list (eres F) :=
  match jobs with
  | [] => []
  | j :: rest => let '(st', r) := est_call st j in r :: run_history st' rest
  end.
End History.

Arguments mkJob {F} j_m j_n j_A j_b j_sq. Arguments j_m {F} j. Arguments j_n {F} j. Arguments j_A {F} j _ _.
Arguments j_b {F} j. Arguments j_sq {F} j. Arguments run_job {F} j. Arguments est_call {F} st j.
Arguments run_history {F} st jobs.
