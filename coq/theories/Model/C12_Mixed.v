(* C12 — squared-error / relative-entropy loss over schedules with DIFFERENT numbers of outcomes (definitions only).
   After the repairs c12-generic-loss-mixed-outcome-counts / c12-fast-loss-mixed-outcome-counts the generic classes cut
   matA / vecB / the data by each schedule's own outcome count (qt.num_outcomes(j)): the loss is the SUM over the schedules
   of the one-schedule loss (ns = 1, m = that schedule's count) on the schedule's own rows, data and weight.
   This is exactly what the harness sub-check mixed_counts evaluates with the extracted one-schedule model. *)
From Coq Require Import List Arith Bool.
From QV.Core Require Import OF Sums Mat.
From QV.Model Require Import C12_Loss.
Import ListNotations.

Section Mixed.
Context {R : CR}.
Notation "0" := (c0 R). Infix "+" := (cadd R).
Notation mat := (@mat R). Notation vec := (@vec R).

(* one schedule: its outcome count, its rows of matA and vecB, its data, its weight matrix (None = identity) *)
Record sblock := { b_m : nat; b_A : mat; b_b : vec; b_q : vec; b_W : option mat }.
Definition b_wts (B : sblock) : @wts R := match b_W B with Some W => Some (fun _ => W) | None => None end.
Definition b_value (nv : nat) (B : sblock) (v : vec) : R := se_value 1 (b_m B) nv (b_wts B) (b_A B) (b_b B) (b_q B) v.
Definition b_grad (nv : nat) (B : sblock) (v : vec) : vec := se_grad 1 (b_m B) nv (b_wts B) (b_A B) (b_b B) (b_q B) v.
Definition b_hess_half (nv : nat) (B : sblock) (v : vec) : mat := se_hess_half 1 (b_m B) nv (b_wts B) (b_A B) (b_b B) (b_q B) v.
Definition b_spec (nv : nat) (B : sblock) (v : vec) : R := se_spec 1 (b_m B) (b_wts B) (pv nv (b_A B) (b_b B) v) (b_q B).

Fixpoint mix_value (nv : nat) (Bs : list sblock) (v : vec) : R :=
  match Bs with [] => 0 | B :: t => b_value nv B v + mix_value nv t v end.
Fixpoint mix_grad (nv : nat) (Bs : list sblock) (v : vec) : vec :=
  match Bs with [] => fun _ => 0 | B :: t => fun al => b_grad nv B v al + mix_grad nv t v al end.
Fixpoint mix_hess_half (nv : nat) (Bs : list sblock) (v : vec) : mat :=
  match Bs with [] => fun _ _ => 0 | B :: t => fun al be => b_hess_half nv B v al be + mix_hess_half nv t v al be end.
Fixpoint mix_spec (nv : nat) (Bs : list sblock) (v : vec) : R :=
  match Bs with [] => 0 | B :: t => b_spec nv B v + mix_spec nv t v end.
Definition blocks_sym (Bs : list sblock) : Prop := forall B, In B Bs -> wsym 1 (b_m B) (b_wts B).

(* the schedules of a stacked model in which EVERY schedule has m outcomes, as a list of blocks: block j = rows
   [j*m, j*m + m) of A, b, q and the j-th weight matrix *)
Definition shiftv (o : nat) (x : vec) : vec := fun i => x (o + i)%nat.
Definition shiftm (o : nat) (A : mat) : mat := fun i al => A (o + i)%nat al.
Definition block_of (m : nat) (W : @wts R) (A : mat) (b q : vec) (j : nat) : sblock :=
  {| b_m := m; b_A := shiftm (j * m) A; b_b := shiftv (j * m) b; b_q := shiftv (j * m) q;
     b_W := match W with Some w => Some (w j) | None => None end |}.
Definition equal_blocks (ns m : nat) (W : @wts R) (A : mat) (b q : vec) : list sblock := map (block_of m W A b q) (seq 0 ns).
End Mixed.
