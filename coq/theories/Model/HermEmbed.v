(* Real symmetric embedding of a complex matrix  H = A + iB  |->  [[A, -B], [B, A]]  (definitions only). *)
From Coq Require Import Arith Bool.
From QV.Core Require Import OF Sums Mat Cplx Psd.
From QV.Model Require Import QObj.

Section HermEmbed.
Context (F : OF).
Definition embed (n : nat) (H : cmat F) : rmat F := fun i j =>
  if (i <? n)%nat then (if (j <? n)%nat then re (H i j) else copp F (im (H i (j - n)%nat)))
  else (if (j <? n)%nat then im (H (i - n)%nat j) else re (H (i - n)%nat (j - n)%nat)).
Definition shiftI (t : F) (M : rmat F) : rmat F := fun i j => if Nat.eqb i j then cadd F (M i j) t else M i j.
(* decide  H + t I >= 0  for Hermitian H (through the embedding) *)
Definition herm_psd_dec (n : nat) (H : cmat F) (t : F) : bool := psd_dec F (n + n) (shiftI t (embed n H)).
(* exact Hermitian test *)
Fixpoint allb (n : nat) (p : nat -> bool) : bool := match n with O => true | S k => allb k p && p k end.
Definition herm_dec (n : nat) (H : cmat F) : bool :=
  allb n (fun i => allb n (fun j => keqb F (re (H i j)) (re (H j i)) && keqb F (im (H i j)) (copp F (im (H j i))))).
End HermEmbed.
