(* C20 — meaning of the small Python vocabulary the schedule validators are written in (definitions only).

   The translator gen/c20_py2coq.py regenerates, on every run, Gallina definitions from the CURRENT source of
     Experiment._validate_schedule_order                                   (quara/qcircuit/experiment.py)
     StandardQst/StandardPovmt/StandardQpt/StandardQmpt._validate_schedules (quara/protocol/qtomography/standard/*.py)
   in terms of the combinators below; coq/gen/C20_Equiv.v then re-proves that the regenerated functions equal the
   hand-written model (Model/C20_Schedule.v) the property theorems are about.  These validators run on schedules whose
   items already passed _validate_schedule_item, i.e. on lists of typed items (kind name : str, index : int).

   A Python expression either has a value or raises IndexError (sequence index out of range): [option], None = IndexError.
   A condition evaluates to True / False or raises IndexError: [cres].  A validator is a sequence of
   `if <condition>: raise <Exception>(...)` statements: [fres] says which raise statement fired (numbered from 0).

   Part 2 (below) is the vocabulary of Experiment._validate_schedule_item, which runs on ARBITRARY python values
   (Model/C20_Schedule.pyval: values abstracted by their exact type).  There an expression whose meaning the vocabulary does
   not define (len of a non-tuple, indexing a non-tuple, comparing a non-str with a str, a dict key that is not a kind
   name, ...) is None = "stuck": conditions become CStuck and the validator's result FStuck.  coq/gen/C20_Equiv.v proves
   that the regenerated validator is never stuck (every such expression is guarded by an earlier type test). *)
From Coq Require Import ZArith List Bool Arith String.
From QV.Model Require Import C20_Schedule.
Import ListNotations.

(* schedule[a]  for a constant a; Python semantics of negative indices *)
Definition py_item (s : list titem) (a : Z) : option titem :=
  let n := Z.of_nat (List.length s) in
  if (0 <=? a)%Z then nth_error s (Z.to_nat a)
  else if (0 <=? n + a)%Z then nth_error s (Z.to_nat (n + a))
  else None.
(* schedule[a][0]  and  schedule[a][1] *)
Definition py_name (it : option titem) : option string := option_map (fun x => kind_name (fst x)) it.
Definition py_index (it : option titem) : option Z := option_map snd it.
(* len(schedule) *)
Definition py_len (s : list titem) : option Z := Some (Z.of_nat (List.length s)).
(* collections.Counter([v[0] for v in schedule])[name]   (a missing key counts 0, no KeyError) *)
Definition py_count (s : list titem) (name : string) : option Z :=
  Some (Z.of_nat (List.length (filter (fun it => String.eqb (kind_name (fst it)) name) s))).

Inductive cres := CTrue | CFalse | CIndexError | CStuck.
Definition c_bool (b : bool) : cres := if b then CTrue else CFalse.
(* a or b / a and b : short-circuit — b is not evaluated (cannot raise) when a decides *)
Definition c_or (a b : cres) : cres := match a with CFalse => b | _ => a end.
Definition c_and (a b : cres) : cres := match a with CTrue => b | _ => a end.
Definition c_not (a : cres) : cres := match a with CTrue => CFalse | CFalse => CTrue | e => e end.
(* comparisons: both operands are evaluated first *)
Definition c_str_eq (a b : option string) : cres :=
  match a, b with Some x, Some y => c_bool (String.eqb x y) | _, _ => CIndexError end.
Definition c_str_in (a : option string) (l : list string) : cres :=
  match a with Some x => c_bool (existsb (String.eqb x) l) | None => CIndexError end.
Inductive zcmp := ZEq | ZLt | ZLe.
Definition c_z (op : zcmp) (a b : option Z) : cres :=
  match a, b with
  | Some x, Some y => c_bool (match op with ZEq => (x =? y)%Z | ZLt => (x <? y)%Z | ZLe => (x <=? y)%Z end)
  | _, _ => CIndexError
  end.

Inductive fres :=
| FPass                               (* fell off the end: returns None *)
| FRaise (stmt : nat) (exc : string)  (* the stmt-th raise statement fired, raising the exception class named exc *)
| FIndexError                         (* an index expression in a condition ran off the end of the schedule *)
| FStuck.                             (* part 2 only: an expression outside the defined vocabulary was evaluated *)
(* if c: raise r  ; rest *)
Definition f_if (c : cres) (r rest : fres) : fres :=
  match c with CTrue => r | CFalse => rest | CIndexError => FIndexError | CStuck => FStuck end.

(* ================================================================== part 2: arbitrary python values, object lists *)
Inductive ptype := TTuple | TStr | TInt.
(* type(v) == T  (exact type: bool is not int, subclasses are "other") *)
Definition pv_has_type (v : pyval) (t : ptype) : bool :=
  match v, t with PTuple _, TTuple | PStr _, TStr | PInt _, TInt => true | _, _ => false end.
Definition cv_type_ne (v : option pyval) (t : ptype) : cres :=
  match v with Some x => c_bool (negb (pv_has_type x t)) | None => CStuck end.
(* len(v), v[i] : defined for tuples *)
Definition pv_len (v : option pyval) : option Z :=
  match v with Some (PTuple l) => Some (Z.of_nat (List.length l)) | _ => None end.
Definition pv_sub (v : option pyval) (i : Z) : option pyval :=
  match v with Some (PTuple l) => if (0 <=? i)%Z then nth_error l (Z.to_nat i) else None | _ => None end.
(* a value used as an int / compared with str constants: defined for exact ints / strs *)
Definition pv_int (v : option pyval) : option Z := match v with Some (PInt z) => Some z | _ => None end.
Definition cv_z (op : zcmp) (a b : option Z) : cres :=
  match a, b with
  | Some x, Some y => c_bool (match op with ZEq => (x =? y)%Z | ZLt => (x <? y)%Z | ZLe => (x <=? y)%Z end)
  | _, _ => CStuck
  end.
Definition cv_str_eq (v : option pyval) (c : string) : cres :=
  match v with Some (PStr s) => c_bool (String.eqb s c) | _ => CStuck end.
Definition cv_str_in (v : option pyval) (l : list string) : cres :=
  match v with Some (PStr s) => c_bool (existsb (String.eqb s) l) | _ => CStuck end.
(* the object lists:  self._states ... are the fields of a cfg;  objdict  is None or a dict with the four kind names as keys *)
Definition env_true (d : option cfg) : bool := match d with Some _ => true | None => false end.   (* truthiness of objdict *)
Definition env_get (d : option cfg) (key : string) : option (list bool) :=                      (* objdict["povm"] *)
  match d, kind_of_name key with Some c, Some k => Some (objs c k) | _, _ => None end.
Definition env_get_v (d : option cfg) (key : option pyval) : option (list bool) :=                (* objdict[item_name] *)
  match key with Some (PStr s) => env_get d s | _ => None end.
Definition ol_len (l : option (list bool)) : option Z := option_map (fun x => Z.of_nat (List.length x)) l.
Definition ol_empty (l : option (list bool)) : cres :=                                           (* not <list> *)
  match l with Some x => c_bool (is_nil x) | None => CStuck end.
(* <targets> = <expressions> : the right-hand sides are evaluated before anything that follows *)
Definition f_bind {A} (v : option A) (k : option A -> fres) : fres := match v with Some _ => k v | None => FStuck end.

(* ================================================================== part 3: procedures — loops, try/except, calls, state
   Used for Experiment._validate_schedules, __init__, the five setters, _validate_schedule_index / calc_prob_dist and the
   schedule prologue of the four tomography constructors.  An exception is identified by its class NAME; `except (A, B)`
   catches exactly the listed names (the classes raised in the translated code — TypeError, ValueError, IndexError,
   QuaraScheduleItemError, QuaraScheduleOrderError — are pairwise unrelated by inheritance, so name matching is exact;
   an exception of any other class simply is not caught here, which can only make the re-proof fail, never pass wrongly). *)
Inductive xres :=
| XPass                    (* the statement(s) completed *)
| XRaise (exc : string)    (* an exception of the class named exc propagates *)
| XStuck.                  (* outside the defined vocabulary *)
Definition x_of_fres (f : fres) : xres :=
  match f with FPass => XPass | FRaise _ e => XRaise e | FIndexError => XRaise "IndexError" | FStuck => XStuck end.
(* s1 ; s2 *)
Definition x_seq (a b : xres) : xres := match a with XPass => b | _ => a end.
(* try: body  except (names): <handler, which ends in a raise> *)
Definition x_try (body : xres) (names : list string) (handler : xres) : xres :=
  match body with
  | XRaise e => if existsb (String.eqb e) names then handler else body
  | r => r
  end.
(* for x in <list>: body x      (the first iteration that does not complete ends the loop) *)
Fixpoint x_for {A} (l : list A) (body : A -> xres) : xres :=
  match l with [] => XPass | a :: r => x_seq (body a) (x_for r body) end.
(* for j, item in enumerate(schedule): ...   where schedule is an arbitrary value: a non-iterable one raises TypeError *)
Definition x_for_sched (s : rsched) (body : pyval -> xres) : xres :=
  match s with SSeq items => x_for items body | SNonIter => XRaise "TypeError" end.
(* self._validate_schedule_order(schedule): the order validator is translated on TYPED items; a raw schedule is typed when
   every item is a (kind name : str, index : int) 2-tuple (parse_items), anything else is outside the vocabulary *)
Definition x_call_order (order : list titem -> fres) (s : rsched) : xres :=
  match s with
  | SSeq items => match parse_items items with Some t => x_of_fres (order t) | None => XStuck end
  | SNonIter => XStuck
  end.
(* a class guard `for i, schedule in enumerate(schedules): <guard body>` on raw schedules, same convention *)
Definition x_call_guard (guard : list titem -> fres) (s : rsched) : xres := x_call_order guard s.

(* statements that change the experiment: (state after, outcome).  s_then x st k : x completed -> continue with k, otherwise
   the exception propagates and the state is what it was at that point *)
Definition s_then (x : xres) (st : exp) (k : exp * xres) : exp * xres := match x with XPass => k | r => (st, r) end.
Definition set_objs (e : exp) (k : kind) (v : list bool) : exp := mkexp (with_objs (e_cfg e) k v) (e_scheds e).
Definition set_scheds (e : exp) (ss : list rsched) : exp := mkexp (e_cfg e) ss.
(* an optional list argument:  [] if x is None else x *)
Definition or_nil (x : option (list bool)) : list bool := match x with Some l => l | None => [] end.

(* calc_prob_dist: what is handed to compose_qoperations *)
Inductive crun :=
| CRCompose (targets : list titem)   (* op.compose_qoperations is called with the referenced objects as arguments, in THIS order *)
| CRRaise (exc : string)
| CRStuck.
(* self.schedules[schedule_index]  for a validated int index *)
Definition sl_get (ss : list rsched) (i : option Z) : option rsched :=
  match i with Some z => if (0 <=? z)%Z then nth_error ss (Z.to_nat z) else None | None => None end.
Definition sl_len (ss : list rsched) : option Z := Some (Z.of_nat (List.length ss)).
(* for item in schedule: k, i = item ; target = key_map[k][i] ; if not target: raise ValueError(..) ; targets.appendleft(target)
   [present c it] : the referenced object is not None (quara objects are truthy) *)
Definition item_present (c : cfg) (it : titem) : bool := nth (Z.to_nat (snd it)) (objs c (fst it)) false.
Fixpoint collect_left (c : cfg) (items : list pyval) (targets : list titem) (exc : string) : crun :=
  match items with
  | [] => CRCompose targets
  | v :: r => match parse_item v with
              | Some it => if item_present c it then collect_left c r (it :: targets) exc else CRRaise exc
              | None => CRStuck
              end
  end.
(* the same loop with targets.append(target): the objects are collected in schedule order *)
Fixpoint collect_right (c : cfg) (items : list pyval) (targets : list titem) (exc : string) : crun :=
  match items with
  | [] => CRCompose targets
  | v :: r => match parse_item v with
              | Some it => if item_present c it then collect_right c r (targets ++ [it]) exc else CRRaise exc
              | None => CRStuck
              end
  end.
(* compose_qoperations( *reversed(targets) ) *)
Definition cr_rev (r : crun) : crun := match r with CRCompose l => CRCompose (rev l) | x => x end.

(* ================================================================== part 4: the element lists handed to __init__ / the setters
   (Experiment._validate_type).  An element is None or an object of some class (quara objects are truthy);
   isinstance(x, C) for the four leaf classes State / Povm / Gate / MProcess is class equality. *)
Inductive elem := ENone | EObj (cls : string).
Definition elem_truthy (x : elem) : bool := match x with ENone => false | EObj _ => true end.
Definition elem_isinstance (x : elem) (cls : string) : bool := match x with ENone => false | EObj c => String.eqb c cls end.
(* what the schedule validators see of such a list: object / None placeholder *)
Definition mask_of (l : list elem) : list bool := map elem_truthy l.

(* ================================================================== part 5: default values of parameters
   A default expression is evaluated ONCE, at function definition; a mutable default (list / dict / set / call / a name whose
   value the translator cannot see) is one object shared by every call — state leaking between instances.  The translator
   lists the default of every parameter of every method of the anchored classes with its kind. *)
Inductive dkind := DNone | DConst | DTuple | DMutable.
Definition dkind_immutable (d : dkind) : bool := match d with DMutable => false | _ => true end.
