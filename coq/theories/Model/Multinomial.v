(* Model of quara/objects/multinomial_distribution.py and math/probability.validate_prob_dist
   (definitions only), generic in the ordered field.  Tensors are flat row-major lists with a
   shape (list nat); axes are numbered from 0. *)
From Coq Require Import List Arith Bool ZArith.
From QV.Core Require Import OF.
From QV.Model Require Import IndexUtil.
Import ListNotations.

Section Multinomial.
Context (F : OF).
Notation "0" := (c0 F). Notation "1" := (c1 F).
Infix "+" := (cadd F). Infix "*" := (cmul F). Infix "-" := (csub F). Infix "/" := (kdiv F).
Notation "- x" := (copp F x).

Definition ltb (x y : F) : bool := negb (kleb F y x).
Definition lsum (l : list F) : F := fold_left (cadd F) l 0.
Definition absF (x : F) : F := if kleb F 0 x then x else - x.

(* error codes: 1 negative entry, 2 size/shape mismatch, 3 sum is not 1, 4 index out of range,
   5 duplicate axis (KeyError), 6 conditioning on a zero-probability event, 7 argument lengths differ,
   8 negative index/value, 9 IndexError, 10 empty shape (TypeError) *)
Inductive mres (A : Type) := MOk (a : A) | MErr (code : nat).
Arguments MOk {A} a. Arguments MErr {A} code.

(* validate_prob_dist(ps, eps=1e-8 =: tol, validate_sum) *)
Definition validate (tol : F) (validate_sum : bool) (ps : list F) : mres unit :=
  if existsb (fun p => ltb p 0 && negb (kleb F (absF (p - 0)) tol)) ps then MErr 1
  else if validate_sum && negb (kleb F (absF (lsum ps - 1)) tol) then MErr 3
  else MOk tt.

Definition prodn (l : list nat) : nat := fold_right Nat.mul 1%nat l.

Record dist := { d_ps : list F; d_shape : list nat; d_zero : bool }.

(* MultinomialDistribution.__init__(ps, shape, eps_zero) with eps the effective threshold
   (eps_zero if eps_zero else 1e-8) and tol = 1e-8 the validation tolerance *)
Definition construct (tol eps : F) (ps : list F) (shape : option (list nat)) : mres dist :=
  match validate tol false ps with
  | MErr c => MErr c
  | MOk _ =>
    let sh := match shape with None => [length ps] | Some s => s end in
    if match shape with Some [] => true | _ => false end then MErr 10 (* reduce(mul, ()) : TypeError *) else
    if negb (Nat.eqb (length ps) (prodn sh)) then MErr 2 else
    let zeroed := map (fun p => if ltb p eps then 0 else p) ps in
    let is_zero := forallb (fun p => ltb p eps) ps in
    let has_zero := existsb (fun p => ltb p eps) ps in
    let ps' := if negb is_zero && has_zero then map (fun p => p / lsum zeroed) zeroed else zeroed in
    if is_zero then MOk {| d_ps := ps'; d_shape := sh; d_zero := true |}
    else match validate tol true ps' with
         | MErr c => MErr c
         | MOk _ => MOk {| d_ps := ps'; d_shape := sh; d_zero := false |}
         end
  end.

(* the eps_zero ARGUMENT of __init__:  self._eps_zero = eps_zero if eps_zero else 1e-8
   (None and the falsy value 0.0 select the default [dflt] = 1e-8) *)
Definition eff_eps (dflt : F) (eps_zero : option F) : F :=
  match eps_zero with
  | None => dflt
  | Some e => if kleb F e 0 && kleb F 0 e then dflt else e
  end.
Definition construct_arg (tol dflt : F) (ps : list F) (shape : option (list nat)) (eps_zero : option F) : mres dist :=
  construct tol (eff_eps dflt eps_zero) ps shape.

(* multi-index helpers on nat (row-major) *)
Fixpoint digitsn (shape : list nat) (k : nat) : list nat :=
  match shape with [] => [] | n :: t => ((k / prodn t) mod n)%nat :: digitsn t k end.
Fixpoint rowmajorn (shape idx : list nat) : nat :=
  match shape, idx with n :: t, x :: xs => (x * prodn t + rowmajorn t xs)%nat | _, _ => 0%nat end.
Fixpoint select {A} (mask : list bool) (l : list A) : list A :=
  match mask, l with b :: m, x :: t => if b then x :: select m t else select m t | _, _ => [] end.
Fixpoint list_eqb (a b : list nat) : bool :=
  match a, b with [] , [] => true | x :: s, y :: t => Nat.eqb x y && list_eqb s t | _, _ => false end.

(* raw marginal: entry k' of the result is the sum of all entries whose retained digits are k' *)
Definition marg_raw (shape : list nat) (ps : list F) (keep : list bool) : list F :=
  let newshape := select keep shape in
  map (fun k' =>
         let target := digitsn newshape k' in
         lsum (map (fun k => if list_eqb (select keep (digitsn shape k)) target then nth k ps 0 else 0)
                   (seq 0 (prodn shape))))
      (seq 0 (prodn newshape)).

Fixpoint has_dup (l : list nat) : bool :=
  match l with [] => false | x :: t => existsb (Nat.eqb x) t || has_dup t end.

(* marginalize(outcome_indices_remain); indices arrive as Z because Python accepts negatives.
   The listed indices are examined IN ORDER: out of range -> ValueError (4); an index listed twice -> the second
   axis.remove(index) raises KeyError (5).  Whichever comes first in the list decides. *)
Fixpoint remain_check (nax : nat) (seen : list nat) (remain : list Z) : option nat :=
  match remain with
  | [] => None
  | i :: t => if (i <? 0)%Z || (Z.of_nat nax <=? i)%Z then Some 4%nat
              else if existsb (Nat.eqb (Z.to_nat i)) seen then Some 5%nat
              else remain_check nax (Z.to_nat i :: seen) t
  end.
Definition marginalize (tol : F) (d : dist) (remain : list Z) : mres dist :=
  let nax := length (d_shape d) in
  match remain_check nax [] remain with
  | Some c => MErr c
  | None =>
    let rem := map Z.to_nat remain in
    let keep := map (fun a => existsb (Nat.eqb a) rem) (seq 0 nax) in
    construct tol tol (marg_raw (d_shape d) (d_ps d) keep) (Some (select keep (d_shape d)))
  end.

(* conditionalize(indices, values) *)
Fixpoint assign (cur : list (option nat)) (i v : nat) : list (option nat) :=
  match cur, i with
  | [], _ => []
  | _ :: t, O => Some v :: t
  | c :: t, S i' => c :: assign t i' v
  end.
Fixpoint fill (fixed : list (option nat)) (free : list nat) : list nat :=
  match fixed with
  | [] => []
  | Some v :: t => v :: fill t free
  | None :: t => match free with x :: xs => x :: fill t xs | [] => 0%nat :: fill t [] end
  end.

(* argument checks, in the order the code makes them: lengths differ (7), a negative index or value (8), an index beyond the
   rank or a value beyond its variable's size (IndexError, 9) *)
Definition cond_precheck (sh : list nat) (idxs vals : list Z) : option nat :=
  if negb (Nat.eqb (length idxs) (length vals)) then Some 7%nat else
  if existsb (fun i => (i <? 0)%Z) idxs || existsb (fun i => (i <? 0)%Z) vals then Some 8%nat else
  let iv := combine (map Z.to_nat idxs) (map Z.to_nat vals) in
  if existsb (fun p => (length sh <=? fst p)%nat || (nth (fst p) sh 0%nat <=? snd p)%nat) iv then Some 9%nat else None.
(* the conditioning assignment per axis (a variable listed twice: the LATER value decides) *)
Definition cond_fixed (sh : list nat) (idxs vals : list Z) : list (option nat) :=
  fold_left (fun cur p => assign cur (fst p) (snd p)) (combine (map Z.to_nat idxs) (map Z.to_nat vals)) (map (fun _ => None) sh).
Definition cond_freemask (fixed : list (option nat)) : list bool :=
  map (fun o => match o with None => true | Some _ => false end) fixed.
(* the selected slice, indexed by the free multi-index *)
Definition cond_sel (sh : list nat) (ps : list F) (fixed : list (option nat)) : list F :=
  let newshape := select (cond_freemask fixed) sh in
  map (fun k' => nth (rowmajorn sh (fill fixed (digitsn newshape k'))) ps 0) (seq 0 (prodn newshape)).

Definition conditionalize (tol : F) (d : dist) (idxs vals : list Z) : mres dist :=
  let sh := d_shape d in
  match cond_precheck sh idxs vals with
  | Some c => MErr c
  | None =>
    let fixed := cond_fixed sh idxs vals in
    let newshape := select (cond_freemask fixed) sh in
    let sel := cond_sel sh (d_ps d) fixed in
    let tot := lsum sel in
    if match newshape with [] => true | _ => false end then MErr 10 else
    if kleb F tot 0 && kleb F 0 tot then MErr 6 else
    construct tol tol (map (fun p => p / tot) sel) (Some newshape)
  end.

Definition getitem (d : dist) (idx : list nat) : F := nth (rowmajorn (d_shape d) idx) (d_ps d) 0.

(* __getitem__(idx) / StateEnsemble.state(outcome) as coded: the argument is an int (plain sequence index, negative
   values count from the end, IndexError (9) outside), a tuple (serial index through index_util — ValueError (2) on a rank
   mismatch — then the same sequence access; the individual components are NOT range-checked), or anything else (TypeError, 10) *)
Definition seq_pos (n i : Z) : option nat :=
  if (0 <=? i)%Z && (i <? n)%Z then Some (Z.to_nat i)
  else if (i <? 0)%Z && (0 <=? n + i)%Z then Some (Z.to_nat (n + i))
  else None.
Inductive index_arg := AInt (i : Z) | ATuple (t : list Z) | AOther.
Definition resolve_index (n : Z) (shape : list Z) (a : index_arg) : mres nat :=
  match a with
  | AInt i => match seq_pos n i with Some k => MOk k | None => MErr 9 end
  | ATuple t => match serial_from_multi shape t with
                | None => MErr 2
                | Some s => match seq_pos n s with Some k => MOk k | None => MErr 9 end
                end
  | AOther => MErr 10
  end.
Definition index_get {A} (l : list A) (shape : list Z) (a : index_arg) : mres A :=
  match resolve_index (Z.of_nat (length l)) shape a with
  | MErr c => MErr c
  | MOk k => match nth_error l k with Some v => MOk v | None => MErr 9 end
  end.
End Multinomial.
Arguments seq_pos n i : assert. Arguments resolve_index n shape a : assert. Arguments index_get {A} l shape a.
Arguments MOk {A} a. Arguments MErr {A} code.
