(* C13 - model of the lazily built, individually deletable tables of
   quara/objects/composite_system.py (definitions only).

   Nine private attributes, each [None] or a table:
     BBc    _basis_basisconjugate                 built by basis_basisconjugate()            (no delete method)
     H2C    _dict_from_hs_to_choi                 built by the property of the same name
     C2H    _dict_from_choi_to_hs                 built by the property of the same name
     BT     _basis_T_sparse                       \ both assigned by _calc_basis_sparse(), which is called
     Bc     _basisconjugate_sparse                / when EITHER of the two getters finds its own attribute None
     BcB    _basisconjugate_basis_sparse          \
     BBcT   _basis_basisconjugate_T_sparse         | all four assigned by _calc_basis_basisconjugate_sparse(),
     BBcT1  _basis_basisconjugate_T_sparse_from_1  | called when ANY of the four getters finds its own None
     BhB1   _basishermitian_basis_T_from_1        /
   Every builder reads only [self._total_basis] (a deep copy of it).  A table is tagged with the
   tick at which it was built (a stand-in for Python object identity: a rebuild allocates new
   objects, also for the sibling attributes that were still present). *)
From Coq Require Import List Arith Bool.
Import ListNotations.

Inductive slot := BBc | H2C | C2H | BT | Bc | BcB | BBcT | BBcT1 | BhB1.

Definition slot_idx (s : slot) : nat :=
  match s with BBc => 0 | H2C => 1 | C2H => 2 | BT => 3 | Bc => 4 | BcB => 5 | BBcT => 6 | BBcT1 => 7 | BhB1 => 8 end.
Definition slot_eqb (a b : slot) : bool := Nat.eqb (slot_idx a) (slot_idx b).
Definition all_slots : list slot := [BBc; H2C; C2H; BT; Bc; BcB; BBcT; BBcT1; BhB1].
Definition slot_of_idx (n : nat) : option slot := nth_error all_slots n.

(* the attributes (re)assigned by one cache miss on [s] *)
Definition fills (s : slot) : list slot :=
  match s with
  | BBc => [BBc] | H2C => [H2C] | C2H => [C2H]
  | BT | Bc => [BT; Bc]
  | BcB | BBcT | BBcT1 | BhB1 => [BcB; BBcT; BBcT1; BhB1]
  end.
Definition smem (s : slot) (l : list slot) : bool := existsb (slot_eqb s) l.
(* there is a delete_* method for every attribute except _basis_basisconjugate *)
Definition deletable (s : slot) : bool := match s with BBc => false | _ => true end.

Section Cache.
Context {B T : Type}.
Context (build : B -> slot -> T).      (* what the builder computes for an attribute from the basis *)

Record cache := { c_basis : B; c_tick : nat; c_tab : slot -> option (nat * T) }.
Definition init (b : B) : cache := {| c_basis := b; c_tick := 0; c_tab := fun _ => None |}.

(* [Get s]  : the getter / property of attribute s is called (result = content of the attribute afterwards)
   [Del s]  : delete_<s>()   (no-op when no such method exists)
   [Poke b] : NOT an operation of quara; the basis object is changed in place.  Only used to state
              what goes wrong if a basis could be modified (the elements of a SparseMatrixBasis are
              writable csr matrices in the implementation). *)
Inductive cache_op := Get (s : slot) | Del (s : slot) | Poke (b : B).

Definition rebuild (c : cache) (s : slot) : cache :=
  {| c_basis := c_basis c; c_tick := S (c_tick c);
     c_tab := fun x => if smem x (fills s) then Some (c_tick c, build (c_basis c) x) else c_tab c x |}.

Definition step (c : cache) (op : cache_op) : cache :=
  match op with
  | Get s => match c_tab c s with Some _ => c | None => rebuild c s end
  | Del s => if deletable s
             then {| c_basis := c_basis c; c_tick := c_tick c;
                     c_tab := fun x => if slot_eqb x s then None else c_tab c x |}
             else c
  | Poke b => {| c_basis := b; c_tick := c_tick c; c_tab := c_tab c |}
  end.

Definition run (ops : list cache_op) (c : cache) : cache := fold_left step ops c.

(* the value a getter returns *)
Definition get (c : cache) (s : slot) : option T := option_map snd (c_tab (step c (Get s)) s).
(* the object identity (build tick) of what a getter returns *)
Definition get_tick (c : cache) (s : slot) : option nat := option_map fst (c_tab (step c (Get s)) s).

Definition is_poke (op : cache_op) : bool := match op with Poke _ => true | _ => false end.
Definition quara_ops (ops : list cache_op) : Prop := forallb (fun o => negb (is_poke o)) ops = true.

(* the invariant carried through every history *)
Definition cache_inv (b : B) (c : cache) : Prop :=
  c_basis c = b /\
  forall s, c_tab c s = None \/ exists n, n < c_tick c /\ c_tab c s = Some (n, build b s).
End Cache.

Arguments Get {B} s. Arguments Del {B} s. Arguments Poke {B} b.
