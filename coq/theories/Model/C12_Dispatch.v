(* C12 — the string-level decision tables of the loss-function options and of _set_weights_by_mode (definitions only).
   These are the hand-written counterparts of what gen/c12_py2coq.py REGENERATES from the Python source on every run
   (coq/gen/C12_Equiv.v proves the regenerated functions equal to these, for all inputs).

   quara/loss_function/weighted_probability_based_squared_error.py : WeightedProbabilityBasedSquaredErrorOption.__init__,
                                                                     WeightedProbabilityBasedSquaredError._set_weights_by_mode
   quara/loss_function/weighted_relative_entropy.py                : WeightedRelativeEntropyOption.__init__,
                                                                     WeightedRelativeEntropy._set_weights_by_mode *)
From Coq Require Import String List Bool ZArith.
From QV.Core Require Import OF Sums Mat.
From QV.Model Require Import C12_Loss.
Import ListNotations.
Open Scope string_scope.

(* a Python value that is None or a str *)
Definition oeqb (o : option string) (c : string) : bool := match o with Some s => String.eqb s c | None => false end.
Definition omem (o : option string) (l : list string) : bool := existsb (oeqb o) l.

(* result of an option constructor: ValueError, or the mode_weight that is stored *)
Inductive ores := ORaise | OOk (mode_weight : option string).
(* what a branch of _set_weights_by_mode does *)
Inductive action :=
  | AReset                      (* setter(None) *)
  | ACustom                     (* setter(self.option.weights) *)
  | AInverse (unbiased : bool)  (* setter(inverse-covariance weights of THIS data; unbiased: calc_covariance_mat(q, num_data - 1)) *)
  | APass                       (* "pass": the weights stay as they are *)
  | ANoBranch.                  (* no branch of the if / elif chain matches: nothing happens *)

Definition se_modes : list string :=
  ["identity"; "custom"; "inverse_sample_covariance"; "inverse_unbiased_covariance"; "unbiased_inverse_covariance"].
Definition re_modes : list string := ["identity"; "custom"].
(* "if weights is not None: mode_weight = 'custom'";  "if not mode_weight in [...]: raise ValueError";  super().__init__(...) *)
Definition option_accepts (modes : list string) (mode_weight : option string) (has_weights : bool) : ores :=
  let mw := if has_weights then Some "custom" else mode_weight in
  if omem mw modes then OOk mw else ORaise.

Definition mode_of_string (s : string) : option wmode :=
  if String.eqb s "identity" then Some MIdentity
  else if String.eqb s "custom" then Some MCustom
  else if String.eqb s "inverse_sample_covariance" then Some MInvSample
  else if String.eqb s "inverse_unbiased_covariance" then Some MInvUnbiased
  else if String.eqb s "unbiased_inverse_covariance" then Some MAliasUnbiasedInv
  else None.
Definition action_of (md : wmode) : action :=
  match md with
  | MIdentity => AReset
  | MCustom => ACustom
  | MInvSample => AInverse false
  | MInvUnbiased | MAliasUnbiasedInv => AInverse true
  end.
Definition se_dispatch (mode_weight : option string) : action :=
  match mode_weight with
  | Some s => match mode_of_string s with Some md => action_of md | None => ANoBranch end
  | None => ANoBranch
  end.
Definition re_dispatch (mode_weight : option string) : action :=
  if oeqb mode_weight "identity" then AReset else if oeqb mode_weight "custom" then ACustom else ANoBranch.

(* meaning of an action on the weights ([computed] = the inverse-covariance construction for this data, None = it raised) *)
Definition run_action {R : CR} (a : action) (custom : @wts R) (computed : option (nat -> @mat R)) (cur : @wts R) : cres (@wts R) :=
  match a with
  | AReset => COk None
  | ACustom => COk custom
  | AInverse _ => match computed with Some w => COk (Some w) | None => CErr end
  | APass | ANoBranch => COk cur
  end.
Definition run_action_re {R : CR} (a : action) (custom cur : option (@vec R)) : option (@vec R) :=
  match a with AReset => None | ACustom => custom | _ => cur end.

(* placement of the inverse: "if row == 2 and col == 2: W[0,0] = inv[0,0]  else: W[:row-1, :col-1] = inv" *)
Definition place_special (row col : Z) : bool := ((row =? 2) && (col =? 2))%Z.
Definition place_rows (row col : Z) : Z := (row - 1)%Z.
Definition place_cols (row col : Z) : Z := (col - 1)%Z.
