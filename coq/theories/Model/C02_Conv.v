(* C02 — conversions between the representations of one object: extra definitions on top of the shared
   vocabulary Model/QObj.v (which stays frozen).  DEFINITIONS ONLY; the lemmas are in Proofs/C02_*.v.
   Everything is generic in the ordered field F, in the dimension d and in the matrix basis B (a function
   nat -> cmat with d*d meaningful elements).  Each definition says which quara function it mirrors. *)
From Coq Require Import Arith List Bool.
From QV.Core Require Import OF Sums Mat Cplx.
From QV.Model Require Import QObj HermEmbed.
Import ListNotations.

Section C02Conv.
Context (F : OF).
Notation Cx := (CF F).
Notation cmat := (cmat F).
Notation rmat := (rmat F).
Notation cvec := (cvec F).
Notation rvec := (rvec F).
Notation "0" := (c0 Cx). Notation "1" := (c1 Cx).
Infix "+" := (cadd Cx). Infix "*" := (cmul Cx).

(* ---------------------------------------------------------------- complex-coefficient versions.
   QObj.op_of_vec / choi_of_hs / apply_hs are their restrictions to real coefficients:
     op_of_vec d B v = op_of_cvec d B (fun a => zof (v a)),  choi_of_hs d B HS = cchoi_of_hs d B (cof HS)  (by reflexivity). *)
Definition op_of_cvec (d : nat) (B : nat -> cmat) (c : cvec) : cmat :=
  fun i j => sumn (d * d) (fun a => c a * B a i j).
Definition cchoi_of_hs (d : nat) (B : nat -> cmat) (H : cmat) : cmat :=
  fun i j => sumn (d * d) (fun a => sumn (d * d) (fun b => H a b * bbc d B a b i j)).
Definition capply_hs (d : nat) (B : nat -> cmat) (H : cmat) (X : cmat) : cmat :=
  op_of_cvec d B (mv (d * d) H (cvec_of_op d B X)).

(* the d^4 matrices B_a (x) conj B_b as ONE matrix basis of dimension d*d (index a*(d*d)+b) *)
Definition bb_basis (d : nat) (B : nat -> cmat) : nat -> cmat :=
  fun c => bbc d B (c / (d * d))%nat (c mod (d * d))%nat.

(* what gate.to_hs_from_choi_with_dict computes:  sum_ij (B_a (x) conj B_b)[i,j] * Ch[j,i] = tr(bbc . Ch)  — no conjugate;
   equal to chs_of_choi for a Hermitian basis only *)
Definition chs_of_choi_dict (d : nat) (B : nat -> cmat) (Ch : cmat) : cmat :=
  fun a b => sumn (d * d) (fun i => sumn (d * d) (fun j => bbc d B a b i j * Ch j i)).

(* ---------------------------------------------------------------- basis change (gate.convert_hs, matrix_basis.convert_vec) *)
Definition umat (d : nat) (B B' : nat -> cmat) : cmat := fun a b => hs_inner d (B' a) (B b).  (* U_ab = tr(B'_a^dag B_b) *)
Definition convert_hs (d : nat) (B B' : nat -> cmat) (H : cmat) : cmat :=
  mmul (d * d) (mmul (d * d) (umat d B B') H) (cadj (umat d B B')).
Definition convert_vec (d : nat) (B B' : nat -> cmat) (v : cvec) : cvec := mv (d * d) (umat d B B') v.

(* matrix_basis.get_comp_basis: row-major E_(i*d+j) = |i><j| ; column-major E'_(j*d+i) = |i><j| *)
Definition comp_basis (d : nat) : nat -> cmat :=
  fun r i j => if Nat.eqb i (r / d) && Nat.eqb j (r mod d) then 1 else 0.
Definition comp_basis_col (d : nat) : nat -> cmat :=
  fun r i j => if Nat.eqb i (r mod d) && Nat.eqb j (r / d) then 1 else 0.
Definition comm_perm (d : nat) (r : nat) : nat := ((r mod d) * d + r / d)%nat.
Definition comm_mat (d : nat) : cmat := fun r s => if Nat.eqb s (comm_perm d r) then 1 else 0.   (* commutation matrix *)

(* ---------------------------------------------------------------- linear maps on operators and their HS matrices *)
Definition hs_of_map (d : nat) (B : nat -> cmat) (G : cmat -> cmat) : cmat :=
  fun a b => hs_inner d (B a) (G (B b)).
Definition map_linear (d : nat) (G : cmat -> cmat) : Prop :=
  (forall X Y, meq d d X Y -> meq d d (G X) (G Y)) /\
  (forall n (c : nat -> Cx) (M : nat -> cmat),
     meq d d (G (fun i j => sumn n (fun a => c a * M a i j))) (fun i j => sumn n (fun a => c a * G (M a) i j))).

(* ---------------------------------------------------------------- Kraus *)
Definition sandwich (d : nat) (K X L : cmat) : cmat := mmul d (mmul d K X) L.
Definition kraus_apply (d : nat) (Ks : list cmat) (X : cmat) : cmat :=
  fun i j => fold_right (fun K acc => sandwich d K X (cadj K) i j + acc) 0 Ks.      (* sum_K K X K^dag *)
(* gate.to_hs_from_kraus_matrices:  hs_cb = sum_K K (x) conj K ;  hs = convert_hs hs_cb comp_basis basis ; truncate *)
Definition kraus_hs_cb (d : nat) (Ks : list cmat) : cmat :=
  fun r c => fold_right (fun K acc => kron d d K (cconj K) r c + acc) 0 Ks.
Definition chs_of_kraus_impl (d : nat) (B : nat -> cmat) (Ks : list cmat) : cmat :=
  convert_hs d (comp_basis d) B (kraus_hs_cb d Ks).

(* ---------------------------------------------------------------- process matrix (gate.to_process_matrix_from_hs)
   chi_{al,be} = Tr[(E_al^dag (x) E_be^T) HS_cb],  HS_cb = convert_hs hs basis comp_basis *)
Definition process_matrix_of_cb (d : nat) (Hcb : cmat) : cmat :=
  fun al be => mtrace (d * d) (mmul (d * d) (kron d d (cadj (comp_basis d al)) (mT (comp_basis d be))) Hcb).
Definition process_matrix (d : nat) (B : nat -> cmat) (H : cmat) : cmat :=
  process_matrix_of_cb d (convert_hs d B (comp_basis d) H).
(* the operator  sum_{al,be} chi_{al,be} E_al X E_be^dag  (defining formula of the process matrix) *)
Definition chi_apply (d : nat) (chi : cmat) (X : cmat) : cmat :=
  fun i j => sumn (d * d) (fun al => sumn (d * d) (fun be =>
    chi al be * sandwich d (comp_basis d al) X (cadj (comp_basis d be)) i j)).

(* ---------------------------------------------------------------- matrix_util.truncate_hs  (as repaired by fix truncate-hs-relative-imag-threshold, owner C04)
   thr = eps * max(1, max_ij |re hs_ij|)            (max over an empty array taken as 0; before that fix: thr = eps)
   tmp = where(|im| < thr, re, z);  raise ValueError if some tmp.im != 0;  result = where(|re| < eps, 0, re)
   The two versions coincide whenever every |re hs_ij| <= 1, and whenever no |im hs_ij| lies in [eps, thr). *)
Definition kabs (x : F) : F := if kleb F (c0 F) x then x else copp F x.
Definition kltb (x y : F) : bool := negb (kleb F y x).
Definition kmax (x y : F) : F := if kleb F x y then y else x.
Fixpoint maxn (n : nat) (f : nat -> F) : F := match n with O => c0 F | S k => kmax (maxn k f) (f k) end.   (* max(0, f 0, .., f (n-1)) *)
Definition im_thr (eps : F) (size : F) : F := cmul F eps (kmax (c1 F) size).
Definition trunc_ok (thr : F) (z : Cx) : bool := kltb (kabs (im z)) thr || keqb F (im z) (c0 F).
Definition trunc_val (eps : F) (z : Cx) : F := if kltb (kabs (re z)) eps then c0 F else re z.
Definition hs_size (m n : nat) (H : cmat) : F := maxn m (fun i => maxn n (fun j => kabs (re (H i j)))).
Definition vec_size (n : nat) (v : cvec) : F := maxn n (fun i => kabs (re (v i))).
Definition truncate_hs (eps : F) (m n : nat) (H : cmat) : option rmat :=
  let thr := im_thr eps (hs_size m n H) in            (* computed once, as in the code *)
  if allb m (fun i => allb n (fun j => trunc_ok thr (H i j)))
  then Some (fun i j => trunc_val eps (H i j)) else None.
Definition truncate_vec (eps : F) (n : nat) (v : cvec) : option rvec :=
  let thr := im_thr eps (vec_size n v) in
  if allb n (fun i => trunc_ok thr (v i)) then Some (fun i => trunc_val eps (v i)) else None.

(* conversions as coded (formula + truncation, error branch explicit) *)
Definition vec_of_op_impl (eps : F) (d : nat) (B : nat -> cmat) (X : cmat) : option rvec :=
  truncate_vec eps (d * d) (cvec_of_op d B X).                 (* state.to_vec_from_density_matrix_with_sparsity, povm.to_vec_from_matrix_with_sparsity *)
Definition hs_of_choi_sparse_impl (eps : F) (d : nat) (B : nat -> cmat) (Ch : cmat) : option rmat :=
  truncate_hs eps (d * d) (d * d) (chs_of_choi d B Ch).         (* gate.to_hs_from_choi_with_sparsity *)
Definition hs_of_choi_dict_impl (eps : F) (d : nat) (B : nat -> cmat) (Ch : cmat) : option rmat :=
  truncate_hs eps (d * d) (d * d) (chs_of_choi_dict d B Ch).    (* gate.to_hs_from_choi_with_dict *)
Definition hs_of_kraus_impl (eps : F) (d : nat) (B : nat -> cmat) (Ks : list cmat) : option rmat :=
  truncate_hs eps (d * d) (d * d) (chs_of_kraus_impl d B Ks).   (* gate.to_hs_from_kraus_matrices *)

(* ---------------------------------------------------------------- CompositeSystem cache tables (layouts as built) *)
Definition tbl_basis_T (d : nat) (B : nat -> cmat) : cmat := fun r a => B a (r / d)%nat (r mod d)%nat.              (* basis_T_sparse : d^2 x d^2 *)
Definition tbl_basisconj (d : nat) (B : nat -> cmat) : cmat := fun a r => zconj (B a (r / d)%nat (r mod d)%nat).     (* basisconjugate_sparse *)
Definition tbl_bbc_T (d : nat) (B : nat -> cmat) : cmat :=                                                         (* basis_basisconjugate_T_sparse : d^4 x d^4 *)
  fun r c => bbc d B (c / (d * d))%nat (c mod (d * d))%nat (r / (d * d))%nat (r mod (d * d))%nat.
Definition tbl_bcb (d : nat) (B : nat -> cmat) : cmat :=                                                           (* basisconjugate_basis_sparse *)
  fun c r => zconj (bbc d B (c / (d * d))%nat (c mod (d * d))%nat (r / (d * d))%nat (r mod (d * d))%nat).
Definition tbl_bbc_T_from1 (d : nat) (B : nat -> cmat) : cmat :=                                                   (* basis_basisconjugate_T_sparse_from_1 : d^4 x (d^2-1)^2 *)
  fun r c => bbc d B (c / (d * d - 1) + 1)%nat (c mod (d * d - 1) + 1)%nat (r / (d * d))%nat (r mod (d * d))%nat.
Definition tbl_bhb_T_from1 (d : nat) (B : nat -> cmat) : cmat :=                                                   (* basishermitian_basis_T_from_1 : d^2 x (d^2-1)^2 *)
  fun r c => mmul d (cadj (B (c mod (d * d - 1) + 1)%nat)) (B (c / (d * d - 1) + 1)%nat) (r / d)%nat (r mod d)%nat.

(* the *_with_sparsity implementations: table times flattened argument, reshaped *)
Definition density_sparse (d : nat) (B : nat -> cmat) (c : cvec) : cmat := unvecr d (mv (d * d) (tbl_basis_T d B) c).
Definition cvec_sparse (d : nat) (B : nat -> cmat) (X : cmat) : cvec := mv (d * d) (tbl_basisconj d B) (vecr d X).
Definition choi_sparse (d : nat) (B : nat -> cmat) (H : cmat) : cmat :=
  unvecr (d * d) (mv (d * d * (d * d)) (tbl_bbc_T d B) (vecr (d * d) H)).
Definition chs_sparse (d : nat) (B : nat -> cmat) (Ch : cmat) : cmat :=
  unvecr (d * d) (mv (d * d * (d * d)) (tbl_bcb d B) (vecr (d * d) Ch)).

(* the *_with_dict implementations: lists of the non-zero entries of B_a (x) conj B_b, in the order they are appended *)
Definition cnzb (z : Cx) : bool := negb (keqb F (re z) (c0 F) && keqb F (im z) (c0 F)).
Definition dict_hs_to_choi (d : nat) (B : nat -> cmat) (i j : nat) : list (nat * nat * Cx) :=
  flat_map (fun a => flat_map (fun b => let z := bbc d B a b i j in if cnzb z then [(a, b, z)] else [])
                              (seq 0 (d * d))) (seq 0 (d * d)).
Definition dict_choi_to_hs (d : nat) (B : nat -> cmat) (a b : nat) : list (nat * nat * Cx) :=
  flat_map (fun i => flat_map (fun j => let z := bbc d B a b i j in if cnzb z then [(i, j, z)] else [])
                              (seq 0 (d * d))) (seq 0 (d * d)).
Definition choi_dict (d : nat) (B : nat -> cmat) (H : cmat) : cmat :=
  fun i j => fold_right (fun e acc => H (fst (fst e)) (snd (fst e)) * snd e + acc) 0 (dict_hs_to_choi d B i j).
Definition chs_dict (d : nat) (B : nat -> cmat) (Ch : cmat) : cmat :=
  fun a b => fold_right (fun e acc => snd e * Ch (snd (fst e)) (fst (fst e)) + acc) 0 (dict_choi_to_hs d B a b).

(* ---------------------------------------------------------------- variables <-> HS (gate.convert_var_to_hs / convert_hs_to_var)
   and the Choi wrappers gate.to_choi_from_var / gate.to_var_from_choi *)
Definition para_off (para : bool) : nat := if para then 1%nat else 0%nat.
Definition hs_of_var (d : nat) (para : bool) (v : rvec) : rmat :=
  fun a b => if para then (if Nat.eqb a 0 then (if Nat.eqb b 0 then c1 F else c0 F) else v ((a - 1) * (d * d) + b)%nat)
             else v (a * (d * d) + b)%nat.
Definition var_of_hs (d : nat) (para : bool) (H : rmat) : rvec :=
  fun k => H (k / (d * d) + para_off para)%nat (k mod (d * d))%nat.
Definition cvar_of_hs (d : nat) (para : bool) (H : cmat) : cvec :=
  fun k => H (k / (d * d) + para_off para)%nat (k mod (d * d))%nat.
Definition var_len (d : nat) (para : bool) : nat := ((d * d - para_off para) * (d * d))%nat.
Definition choi_of_var (d : nat) (B : nat -> cmat) (para : bool) (v : rvec) : cmat :=
  choi_of_hs d B (hs_of_var d para v).
(* what the docstring of to_var_from_choi promises: Choi -> HS -> variables *)
Definition var_of_choi_spec (d : nat) (B : nat -> cmat) (para : bool) (Ch : cmat) : rvec :=
  var_of_hs d para (hs_of_choi d B Ch).
(* what gate.to_var_from_choi DOES after fix gate-to-var-from-choi-inverse-map (the model the harness compares with):
   to_hs_from_choi_with_sparsity (formula + truncation, ValueError branch) followed by convert_hs_to_var *)
Definition var_of_choi_fixed (eps : F) (d : nat) (B : nat -> cmat) (para : bool) (Ch : cmat) : option rvec :=
  match hs_of_choi_sparse_impl eps d B Ch with Some H => Some (var_of_hs d para H) | None => None end.
(* AS CODED BEFORE fix gate-to-var-from-choi-inverse-map: to_choi_from_hs_with_sparsity (the FORWARD map) was applied to the
   Choi matrix.  Kept only for the refutation theorem and for naming the old behaviour in a violation message. *)
Definition var_of_choi_before_fix (d : nat) (B : nat -> cmat) (para : bool) (Ch : cmat) : cvec :=
  cvar_of_hs d para (cchoi_of_hs d B Ch).

(* state: state.convert_var_to_vec / convert_vec_to_var with the wrappers to_density_matrix_from_var / to_var_from_density_matrix;
   isd is the implementation's constant 1/sqrt(d) *)
Definition svec_of_var (isd : F) (para : bool) (v : rvec) : rvec :=
  fun a => if para then (if Nat.eqb a 0 then isd else v (a - 1)%nat) else v a.
Definition svar_of_vec (para : bool) (v : rvec) : rvec := fun k => v (k + para_off para)%nat.
Definition density_of_var (isd : F) (d : nat) (B : nat -> cmat) (para : bool) (v : rvec) : cmat :=
  op_of_vec d B (svec_of_var isd para v).
Definition var_of_density_impl (eps : F) (d : nat) (B : nat -> cmat) (para : bool) (X : cmat) : option rvec :=
  match vec_of_op_impl eps d B X with Some v => Some (svar_of_vec para v) | None => None end.

(* povm: povm.convert_var_to_vecs / convert_vecs_to_var; m outcomes, sd is the implementation's sqrt(d);
   with the equality constraint the last element is  (sd,0,..,0) - sum of the others *)
Definition pvecs_of_var (sd : F) (d m : nat) (para : bool) (v : rvec) : nat -> rvec :=
  fun x a => if para && Nat.eqb x (m - 1)
             then csub F (if Nat.eqb a 0 then sd else c0 F) (sumn (m - 1) (fun y => v (y * (d * d) + a)%nat))
             else v (x * (d * d) + a)%nat.
Definition pvar_of_vecs (d : nat) (vs : nat -> rvec) : rvec := fun k => vs (k / (d * d))%nat (k mod (d * d))%nat.

(* ---------------------------------------------------------------- executable basis predicates (exact; used for the concrete rational instance) *)
Definition ceqb (z w : Cx) : bool := keqb F (re z) (re w) && keqb F (im z) (im w).
Definition orthonormal_dec (d : nat) (B : nat -> cmat) : bool :=
  allb (d * d) (fun a => allb (d * d) (fun b => ceqb (hs_inner d (B a) (B b)) (if Nat.eqb a b then 1 else 0))).
Definition complete_dec (d : nat) (B : nat -> cmat) : bool :=
  allb d (fun i => allb d (fun j => allb d (fun k => allb d (fun l =>
    ceqb (sumn (d * d) (fun a => zconj (B a i j) * B a k l)) (if Nat.eqb i k && Nat.eqb j l then 1 else 0))))).
Definition hermitian_basis_dec (d : nat) (B : nat -> cmat) : bool :=
  allb (d * d) (fun a => allb d (fun i => allb d (fun j => ceqb (B a i j) (zconj (B a j i))))).
Definition identity0_dec (d : nat) (sd : F) (B : nat -> cmat) : bool :=
  allb d (fun i => allb d (fun j => ceqb (zof sd * B 0%nat i j) (if Nat.eqb i j then 1 else 0))).

(* ---------------------------------------------------------------- the standing exactly-rational instance: 2-qubit normalised Pauli basis
   B_(4a+b) = (1/2) sigma_a (x) sigma_b  (entries 0, +-1/2, +-i/2; sd = 2), the basis quara builds for two qubits *)
Definition ci : Cx := (c0 F, c1 F).
Definition pauli1 (a : nat) : cmat := fun i j =>
  match a, i, j with
  | 0%nat, 0%nat, 0%nat => 1 | 0%nat, 1%nat, 1%nat => 1
  | 1%nat, 0%nat, 1%nat => 1 | 1%nat, 1%nat, 0%nat => 1
  | 2%nat, 0%nat, 1%nat => copp Cx ci | 2%nat, 1%nat, 0%nat => ci
  | 3%nat, 0%nat, 0%nat => 1 | 3%nat, 1%nat, 1%nat => copp Cx 1
  | _, _, _ => 0 end.
Definition khalf : F := kdiv F (c1 F) (cadd F (c1 F) (c1 F)).
Definition pauli2n (c : nat) : cmat := mscale (zof khalf : Cx) (kron 2 2 (pauli1 (c / 4)%nat) (pauli1 (c mod 4)%nat)).
End C02Conv.

Arguments op_of_cvec {F} d B c _ _. Arguments cchoi_of_hs {F} d B H _ _. Arguments capply_hs {F} d B H X _ _.
Arguments bb_basis {F} d B _ _ _. Arguments chs_of_choi_dict {F} d B Ch _ _.
Arguments umat {F} d B B' _ _. Arguments convert_hs {F} d B B' H _ _. Arguments convert_vec {F} d B B' v _.
Arguments comp_basis {F} d _ _ _. Arguments comp_basis_col {F} d _ _ _. Arguments comm_mat {F} d _ _.
Arguments hs_of_map {F} d B G _ _. Arguments map_linear {F} d G.
Arguments sandwich {F} d K X L _ _. Arguments kraus_apply {F} d Ks X _ _. Arguments kraus_hs_cb {F} d Ks _ _.
Arguments chs_of_kraus_impl {F} d B Ks _ _. Arguments process_matrix_of_cb {F} d Hcb _ _.
Arguments process_matrix {F} d B H _ _. Arguments chi_apply {F} d chi X _ _.
Arguments kabs {F} x. Arguments kltb {F} x y. Arguments kmax {F} x y. Arguments maxn {F} n f. Arguments im_thr {F} eps size.
Arguments hs_size {F} m n H. Arguments vec_size {F} n v. Arguments trunc_ok {F} thr z. Arguments trunc_val {F} eps z.
Arguments truncate_hs {F} eps m n H. Arguments truncate_vec {F} eps n v.
Arguments vec_of_op_impl {F} eps d B X. Arguments hs_of_choi_sparse_impl {F} eps d B Ch.
Arguments hs_of_choi_dict_impl {F} eps d B Ch. Arguments hs_of_kraus_impl {F} eps d B Ks.
Arguments tbl_basis_T {F} d B _ _. Arguments tbl_basisconj {F} d B _ _. Arguments tbl_bbc_T {F} d B _ _.
Arguments tbl_bcb {F} d B _ _. Arguments tbl_bbc_T_from1 {F} d B _ _. Arguments tbl_bhb_T_from1 {F} d B _ _.
Arguments density_sparse {F} d B c _ _. Arguments cvec_sparse {F} d B X _. Arguments choi_sparse {F} d B H _ _.
Arguments chs_sparse {F} d B Ch _ _. Arguments cnzb {F} z. Arguments dict_hs_to_choi {F} d B i j.
Arguments dict_choi_to_hs {F} d B a b. Arguments choi_dict {F} d B H _ _. Arguments chs_dict {F} d B Ch _ _.
Arguments hs_of_var {F} d para v _ _. Arguments var_of_hs {F} d para H _. Arguments cvar_of_hs {F} d para H _.
Arguments choi_of_var {F} d B para v _ _. Arguments var_of_choi_spec {F} d B para Ch _.
Arguments var_of_choi_fixed {F} eps d B para Ch. Arguments var_of_choi_before_fix {F} d B para Ch _. Arguments svec_of_var {F} isd para v _. Arguments svar_of_vec {F} para v _.
Arguments density_of_var {F} isd d B para v _ _. Arguments var_of_density_impl {F} eps d B para X.
Arguments pvecs_of_var {F} sd d m para v _ _. Arguments pvar_of_vecs {F} d vs _.
Arguments ceqb {F} z w. Arguments orthonormal_dec {F} d B. Arguments complete_dec {F} d B. Arguments hermitian_basis_dec {F} d B.
Arguments identity0_dec {F} d sd B. Arguments pauli1 {F} a _ _. Arguments pauli2n {F} c _ _.
