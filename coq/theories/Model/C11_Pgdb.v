(* C11 — model of quara/minimization_algorithm/projected_gradient_descent_backtracking.py
   (ProjectedGradientDescentBacktracking.optimize and _is_doing_for_alpha), definitions only,
   generic in the ordered field.  Vectors are functions nat -> F with an explicit length n.

   Python                                                   model
   ------------------------------------------------------   -------------------------------------------
   y_prev = func_proj(x_prev - gradient(x_prev)/mu) - x_prev  C11_dir P g mu x
   alpha = 1.0; while left > right: alpha = 0.5*alpha         C11_backtrack fuel phi fx gamma slope 1
      left  = value(x_prev + alpha*y_prev)                       phi alpha      (phi a = f (x + a y))
      right = value(x_prev) + gamma*alpha*dot(y_prev, grad)      fx + gamma*alpha*slope
   x_next = x_prev + alpha*y_prev                             C11_point x y alpha
   error_value by mode_stopping_criterion_gradient_descent    C11_err_value sq n mode ...
   value = sum(error_values[-min(len, num_history):])         C11_window_sum h errs   (errs newest first)
   is_doing = value > eps                                     C11_continue h eps errs
   for k in range(1, max_iteration+1) ... break               C11_loop ...

   The Python while loop has no iteration bound (it ends because alpha underflows to 0.0 in floating
   point); the model has explicit [fuel] and a distinct out-of-fuel result.  The square root of the two
   norm-based stopping modes is an oracle function [sq] (constrained by hypotheses where a theorem needs it). *)
From Coq Require Import Arith List Bool.
From QV.Core Require Import OF Sums Mat.
Import ListNotations.

(* LossMinimizationEstimator.calc_estimate_sequence / CvxpyLossMinimizationEstimator.calc_estimate_sequence: the list of estimates is the
   per-data-set result of (configure loss and algorithm for the data set; optimise), independently of the reporting flags *)
Definition C11_estimate_sequence {D V : Type} (configure_and_optimize : D -> V) (datas : list D) : list V := map configure_and_optimize datas.

Section C11_Pgdb.
Context (F : OF).
Notation "0" := (c0 F). Notation "1" := (c1 F).
Infix "+" := (cadd F). Infix "*" := (cmul F). Infix "-" := (csub F). Infix "/" := (kdiv F).
Notation "- x" := (copp F x).
Notation vec := (@vec F).

Definition C11_half : F := 1 / (1 + 1).
Definition C11_two : F := 1 + 1.
Definition C11_absF (a : F) : F := if kleb F 0 a then a else - a.
Definition C11_vdiv (x : vec) (c : F) : vec := fun i => x i / c.
Definition C11_nrm2 (n : nat) (x : vec) : F := dot n x x.

(* ---- one step ---- *)
Definition C11_dir (P : vec -> vec) (g : vec -> vec) (mu : F) (x : vec) : vec :=
  vsub (P (vsub x (C11_vdiv (g x) mu))) x.
Definition C11_point (x y : vec) (alpha : F) : vec := vadd x (vscale alpha y).

(* the Armijo test along the ray; [phi a] = loss at x + a y, [fx] = loss at x, [slope] = <y, grad f(x)> *)
Definition C11_armijo_ok (phi : F -> F) (fx gamma slope alpha : F) : bool :=
  kleb F (phi alpha) (fx + gamma * alpha * slope).
Fixpoint C11_backtrack (fuel : nat) (phi : F -> F) (fx gamma slope alpha : F) : option F :=
  match fuel with
  | O => None
  | S k => if C11_armijo_ok phi fx gamma slope alpha then Some alpha
           else C11_backtrack k phi fx gamma slope (C11_half * alpha)
  end.
(* number of halvings performed (for the correspondence: alpha = 2^-count) *)
Fixpoint C11_backtrack_count (fuel : nat) (phi : F -> F) (fx gamma slope alpha : F) : option nat :=
  match fuel with
  | O => None
  | S k => if C11_armijo_ok phi fx gamma slope alpha then Some O
           else option_map S (C11_backtrack_count k phi fx gamma slope (C11_half * alpha))
  end.
Definition C11_phi (f : vec -> F) (x y : vec) : F -> F := fun a => f (C11_point x y a).
Definition C11_slope (n : nat) (g : vec -> vec) (x y : vec) : F := dot n y (g x).

(* ---- stopping criteria ---- *)
Inductive C11_mode := C11_SingleDiffLoss | C11_SumAbsDiffLoss | C11_SumAbsDiffVar | C11_SumAbsDiffProjGrad.
Definition C11_err_value (sq : F -> F) (n : nat) (mode : C11_mode) (fprev fnext : F) (xprev xnext y : vec) : F :=
  match mode with
  | C11_SingleDiffLoss => fprev - fnext
  | C11_SumAbsDiffLoss => C11_absF (fprev - fnext)
  | C11_SumAbsDiffVar => sq (C11_nrm2 n (vsub xprev xnext))
  | C11_SumAbsDiffProjGrad => sq (C11_nrm2 n y)
  end.
Definition C11_lsum (l : list F) : F := fold_right (cadd F) 0 l.
(* errs : newest first; the last min(len, h) error values *)
Definition C11_window_sum (h : nat) (errs : list F) : F := C11_lsum (firstn h errs).
Definition C11_continue (h : nat) (eps : F) (errs : list F) : bool := negb (kleb F (C11_window_sum h errs) eps).

(* ---- one iteration of the for-loop body, given the direction y ---- *)
Record C11_iter_out := { io_alpha : F; io_halvings : nat; io_x : vec; io_err : F; io_value : F; io_continue : bool }.
(* [C11_body_ray]: everything the body needs from the loss is its restriction [phi] to the ray, f x and the slope *)
Definition C11_body_ray (sq : F -> F) (n : nat) (gamma eps : F) (mode : C11_mode) (h fuel : nat)
    (phi : F -> F) (fx slope : F) (x y : vec) (errs : list F) : option C11_iter_out :=
  match C11_backtrack fuel phi fx gamma slope 1, C11_backtrack_count fuel phi fx gamma slope 1 with
  | Some a, Some c =>
      let x' := C11_point x y a in
      let e := C11_err_value sq n mode fx (phi a) x x' y in
      Some {| io_alpha := a; io_halvings := c; io_x := x'; io_err := e;
              io_value := C11_window_sum h (e :: errs); io_continue := C11_continue h eps (e :: errs) |}
  | _, _ => None
  end.
Definition C11_body (sq : F -> F) (n : nat) (f : vec -> F) (g : vec -> vec) (gamma eps : F) (mode : C11_mode)
    (h fuel : nat) (x y : vec) (errs : list F) : option C11_iter_out :=
  C11_body_ray sq n gamma eps mode h fuel (C11_phi f x y) (f x) (C11_slope n g x y) x y errs.

(* ---- before the loop: start point and the step parameter mu ---- *)
Fixpoint C11_nat_F (k : nat) : F := match k with O => 0 | S j => C11_nat_F j + 1 end.      (* integer literal as a field element *)
(* x_prev = var_start if given, else the variable of the origin object *)
Definition C11_start {V : Type} (origin : V) (var_start : option V) : V := match var_start with Some v => v | None => origin end.
(* mu = option.mu if it is given and non-zero (Python truthiness), else 3 / (2 sqrt(n)) with n = len(var_start) if a start point is given,
   else n = qt.num_variables if a tomography is attached, else ValueError (None);  [sqrtn] = np.sqrt on integers (oracle) *)
Definition C11_mu_formula (sqrtn : nat -> F) (n : nat) : F := (1 + 1 + 1) / ((1 + 1) * sqrtn n).
Definition C11_default_mu (sqrtn : nat -> F) (mu_opt : option F) (start_len qt_nvars : option nat) : option F :=
  let fallback := match start_len with
                  | Some n => Some (C11_mu_formula sqrtn n)
                  | None => option_map (C11_mu_formula sqrtn) qt_nvars
                  end in
  match mu_opt with
  | Some m => if keqb F m 0 then fallback else Some m
  | None => fallback
  end.

(* ---- the whole loop ---- *)
Inductive C11_result :=
| C11_Done (xs : list vec) (errs : list F) (k : nat) (warn : bool)   (* xs, errs newest first; xs includes the start *)
| C11_LineSearchFuel (k : nat)                                       (* the model's line search ran out of fuel in iteration k *)
| C11_NoIteration.                                                   (* max_iteration = 0: Python raises UnboundLocalError *)

(* [rem] = iterations still allowed including the current one, [k] = index of the current iteration (from 1) *)
Fixpoint C11_loop (sq : F -> F) (n : nat) (f : vec -> F) (g : vec -> vec) (P : vec -> vec) (mu gamma eps : F)
    (mode : C11_mode) (h fuel : nat) (rem k : nat) (xs : list vec) (errs : list F) : C11_result :=
  match rem, xs with
  | O, _ => C11_NoIteration
  | _, [] => C11_NoIteration
  | S r, x :: _ =>
      let y := C11_dir P g mu x in
      match C11_body sq n f g gamma eps mode h fuel x y errs with
      | None => C11_LineSearchFuel k
      | Some o =>
          let xs' := io_x o :: xs in
          let errs' := io_err o :: errs in
          if io_continue o then
            match r with
            | O => C11_Done xs' errs' k true           (* k = max_iteration: warning printed, last iterate returned *)
            | S _ => C11_loop sq n f g P mu gamma eps mode h fuel r (S k) xs' errs'
            end
          else C11_Done xs' errs' k (match r with O => true | S _ => false end)
      end
  end.
Definition C11_optimize sq n f g P mu gamma eps mode h fuel (max_iteration : nat) (x0 : vec) : C11_result :=
  C11_loop sq n f g P mu gamma eps mode h fuel max_iteration 1%nat [x0] [].

(* ---- quantities of the a-posteriori optimality certificate ---- *)
(* lower bound on  f z - f x  for a competitor z in C, computable from (x, g, y, mu, z) *)
Definition C11_gap_bound (n : nat) (mu : F) (x gx y z : vec) : F :=
  dot n gx y - mu * dot n y (vsub (vsub z x) y).
(* <g,y> + mu |y|^2  (must be <= 0 when P is a projection onto a convex set containing x) *)
Definition C11_descent_defect (n : nat) (mu : F) (gx y : vec) : F := dot n gx y + mu * C11_nrm2 n y.
(* guaranteed decrease of an accepted step *)
Definition C11_decrease (n : nat) (mu gamma alpha : F) (y : vec) : F := gamma * alpha * mu * C11_nrm2 n y.

(* ---- the squared-error loss with identity weights:  f v = | A v + b - q |^2,  A : m x n ---- *)
Definition C11_resid (m n : nat) (A : @mat F) (b q : vec) (v : vec) : vec := fun i => mv n A v i + b i - q i.
Definition C11_sq_loss (m n : nat) (A : @mat F) (b q : vec) (v : vec) : F :=
  C11_nrm2 m (C11_resid m n A b q v).
Definition C11_sq_grad (m n : nat) (A : @mat F) (b q : vec) (v : vec) : vec :=
  fun a => C11_two * sumn m (fun i => A i a * C11_resid m n A b q v i).
(* curvature bound  lambda = 2 |A|_F^2 *)
Definition C11_sq_lambda (m n : nat) (A : @mat F) : F := C11_two * inner m n A A.

(* ---- predicates used by the theorems ---- *)
Definition C11_convex_set (C : vec -> Prop) : Prop :=
  forall x y t, C x -> C y -> kle F 0 t -> kle F t 1 -> C (vadd x (vscale t (vsub y x))).
(* P maps into C and satisfies the obtuse-angle (variational) inequality of the metric projection onto C *)
Definition C11_obtuse (n : nat) (C : vec -> Prop) (P : vec -> vec) : Prop :=
  forall u, C (P u) /\ forall z, C z -> kle F (dot n (vsub u (P u)) (vsub z (P u))) 0.
(* the same with respect to another inner product [ip] (quara's physical projection works on the stacked FULL vector;
   seen from variable space it is the nearest-point map of the inner product  <x, M y>,  M = L^T L, L the embedding) *)
Definition C11_obtuse_ip (ip : vec -> vec -> F) (C : vec -> Prop) (P : vec -> vec) : Prop :=
  forall u, C (P u) /\ forall z, C z -> kle F (ip (vsub u (P u)) (vsub z (P u))) 0.
Definition C11_ipM (n : nat) (M : @mat F) (x y : vec) : F := dot n x (mv n M y).
(* QOperation.convert_var_to_stacked_vector as an affine map  v |-> L v + c  (L : N x n) and the metric it induces on variables *)
Definition C11_emb (n : nat) (L : @mat F) (c : vec) (v : vec) : vec := fun i => mv n L v i + c i.
Definition C11_metric_of (N : nat) (L : @mat F) : @mat F := mmul N (mT L) L.
(* <M g, y> + mu <y, M y>: the certificate that survives when the projection belongs to the inner product <x, M y> but the
   step is taken along the Euclidean gradient (the code as written; Proofs/C11_Metric.v).  For M = I it is C11_descent_defect. *)
Definition C11_descent_defect_metric (n : nat) (M : @mat F) (mu : F) (gx y : vec) : F :=
  dot n (mv n M gx) y + mu * C11_ipM n M y y.
(* first-order convexity inequality:  f z >= f x + <g x, z - x> *)
Definition C11_first_order_convex (n : nat) (f : vec -> F) (g : vec -> vec) : Prop :=
  forall x z, kle F (f x + dot n (g x) (vsub z x)) (f z).
Fixpoint C11_nonincreasing (l : list F) : Prop :=     (* newest first:  a <= b <= ...  *)
  match l with
  | a :: (b :: _) as t => kle F a b /\ C11_nonincreasing t
  | _ => True
  end.
End C11_Pgdb.

Arguments io_alpha {F} _. Arguments io_halvings {F} _. Arguments io_x {F} _ _. Arguments io_err {F} _.
Arguments io_value {F} _. Arguments io_continue {F} _.
Arguments C11_Done {F} xs errs k warn. Arguments C11_LineSearchFuel {F} k. Arguments C11_NoIteration {F}.
