(* C14 — definitions "AS CODED BEFORE THE FIX" (definitions only).  The models the harness compares with the
   implementation (Model/C14_DataGen.v, Model/C14_Streams.v) are the REPAIRED code; the three definitions below
   transcribe what the pinned tree did before /verif/fixes/C14-*.diff and exist only so that the `_refuted`
   theorems of Props/C14.v (proofs in Proofs/C14_BeforeFix.v) stay true statements about a clearly labelled object.
   Nothing here is extracted or executed by the harness. *)
From Coq Require Import List Arith Bool ZArith.
From QV.Core Require Import OF.
From QV.Model Require Import Multinomial C14_DataGen C14_Streams.
Import ListNotations.

Section BeforeFix.
Context (F : OF).

(* _random_number_to_data before fix C14-rn2data-fallback-zero-probability:  `return len(probdist) - 1` *)
Definition rn2data_before_fix (ps : list F) (r : F) : Z :=
  match rn2d_go F ps (c0 F) r O with
  | Some i => Z.of_nat i
  | None => (Z.of_nat (length ps) - 1)%Z
  end.
Definition gen_data_before_fix (atol : F) (ps : list F) (rs : list F) : mres (list Z) :=
  match validate F atol true ps with
  | MErr c => MErr c
  | MOk _ => MOk (map (rn2data_before_fix ps) rs)
  end.

(* calc_empi_dist_sequence before fix C14-empi-seq-nonpositive-first-num-sum: the first sample size is not compared
   with former_num_sum = 0 *)
Definition empi_seq_before_fix (m : Z) (data : list Z) (num_sums : list Z) : eres (list (Z * list F)) :=
  if (m <? 0)%Z then EErr 1 else
  match num_sums with
  | [] => EOk []
  | n0 :: rest =>
      let len := Z.of_nat (length data) in
      if (len <? n0)%Z then EErr 2 else
      empi_loop F m len data O (repeat O (Z.to_nat m)) n0 rest []
  end.
End BeforeFix.

(* QTomography.reset_seed before fix C14-reset-seed-zero:  `if seed:` — the integer 0 is treated like None *)
Definition tomo_reset_seed_before_fix {G : Type} (gseed : Z -> G) (o : nat) (seed : option Z) : @M G unit := fun w =>
  match seed with
  | Some z => if (z =? 0)%Z then reset_seed_data gseed o (objs w o) w else reset_seed_data gseed o (Some z) w
  | None => reset_seed_data gseed o (objs w o) w
  end.
