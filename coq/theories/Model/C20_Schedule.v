(* C20 — model of schedule validation (definitions only).
   quara/qcircuit/experiment.py : Experiment.__init__, the five setters, _validate_schedules,
   _validate_schedule_item, _validate_schedule_order, calc_prob_dist (index check + None placeholders);
   quara/protocol/qtomography/standard/standard_{qst,povmt,qpt,qmpt}.py : constructor prologue
   ("all" expansion, Experiment(...), _validate_schedules guard), standard_qtomography._validate_schedules_str.

   Python values are abstracted by what the code can observe with  type(x) != T  /  len  /  ==  :
   the abstraction function used by the harness is  type(v) is tuple/str/int/bool/NoneType, else "other".

   This is the model of the code AFTER the two repairs proposed by this property
     fixes/c20-noniterable-schedule.diff   (_validate_schedules:  j, item = None, None  at the top of the loop body)
     fixes/c20-qmpt-schedule-length.diff   (StandardQmpt._validate_schedules:  len(schedule) != 3 or ...)
   The code as it was before these repairs is modelled in Model/C20_PreFix.v (clearly labelled). *)
From Coq Require Import ZArith List Bool Arith String.
Import ListNotations.
Local Open Scope string_scope.

(* ------------------------------------------------------------------ python-ish values *)
Inductive pyval :=
| PNone
| PStr (s : string)          (* type(x) == str *)
| PInt (z : Z)               (* type(x) == int  (bool excluded: type(True) is bool) *)
| PBool (b : bool)
| PTuple (l : list pyval)    (* type(x) == tuple *)
| POther.                    (* float, list, numpy integer, subclasses of str/int/tuple, ... *)

Inductive pyexc := TypeError | ValueError | IndexError.

Inductive kind := KState | KPovm | KGate | KMprocess.
Definition kind_eqb (a b : kind) : bool :=
  match a, b with
  | KState, KState | KPovm, KPovm | KGate, KGate | KMprocess, KMprocess => true
  | _, _ => false
  end.
Definition kind_name (k : kind) : string :=
  match k with KState => "state" | KPovm => "povm" | KGate => "gate" | KMprocess => "mprocess" end.
(* item_name not in ["state", "povm", "gate", "mprocess"]  (exact, case-sensitive string comparison) *)
Definition kind_of_name (s : string) : option kind :=
  if String.eqb s "state" then Some KState
  else if String.eqb s "povm" then Some KPovm
  else if String.eqb s "gate" then Some KGate
  else if String.eqb s "mprocess" then Some KMprocess
  else None.

(* ------------------------------------------------------------------ configuration: the four object lists.
   An entry is [true] for a real object and [false] for a None placeholder (accepted by _validate_type). *)
Record cfg := mkcfg { c_states : list bool; c_povms : list bool; c_gates : list bool; c_mprocesses : list bool }.
Definition objs (c : cfg) (k : kind) : list bool :=
  match k with KState => c_states c | KPovm => c_povms c | KGate => c_gates c | KMprocess => c_mprocesses c end.
Definition size (c : cfg) (k : kind) : Z := Z.of_nat (List.length (objs c k)).
Definition is_nil {A} (l : list A) : bool := match l with [] => true | _ => false end.

(* ------------------------------------------------------------------ _validate_schedule_item *)
Definition titem := (kind * Z)%type.          (* an item that passed validation *)
Inductive ires := IOk (it : titem) | IErr (e : pyexc).

Definition validate_item (c : cfg) (item : pyval) : ires :=
  match item with
  | PTuple vs =>                                            (* type(item) != tuple -> TypeError *)
    match vs with
    | [name; idx] =>                                        (* len(item) != 2 -> ValueError *)
      match name with
      | PStr s =>                                           (* type(item_name) != str -> TypeError *)
        match idx with
        | PInt z =>                                         (* type(item_index) != int -> TypeError *)
          match kind_of_name s with
          | None => IErr ValueError                         (* unknown kind *)
          | Some k =>
            if kind_eqb k KPovm && is_nil (c_povms c) then IErr IndexError
            else if kind_eqb k KMprocess && is_nil (c_mprocesses c) then IErr IndexError
            else if ((0 <=? z) && (z <? size c k))%Z then IOk (k, z)
            else IErr IndexError
          end
        | _ => IErr TypeError
        end
      | _ => IErr TypeError
      end
    | _ => IErr ValueError
    end
  | _ => IErr TypeError
  end.

(* for j, item in enumerate(schedule): validate; the first failing item raises *)
Fixpoint validate_items (c : cfg) (j : nat) (items : list pyval) : (list titem) + (nat * pyexc) :=
  match items with
  | [] => inl []
  | it :: rest =>
    match validate_item c it with
    | IErr e => inr (j, e)
    | IOk t => match validate_items c (S j) rest with
               | inl l => inl (t :: l)
               | inr x => inr x
               end
    end
  end.

(* ------------------------------------------------------------------ _validate_schedule_order
   (runs only after every item of the schedule has passed, so it sees typed items) *)
Inductive order_reason := TooShort | FirstNotState | LastNotMeasurement | TooManyStates | TooManyPovms.
Definition count_kind (k : kind) (s : list titem) : nat :=
  List.length (filter (fun it => kind_eqb (fst it) k) s).
Definition is_meas (k : kind) : bool := match k with KPovm | KMprocess => true | _ => false end.
Definition dflt_item : titem := (KGate, 0%Z).
Definition validate_order (s : list titem) : option order_reason :=
  if (List.length s <? 2)%nat then Some TooShort
  else if negb (kind_eqb (fst (hd dflt_item s)) KState) then Some FirstNotState
  else if negb (is_meas (fst (last s dflt_item))) then Some LastNotMeasurement
  else if (2 <=? count_kind KState s)%nat then Some TooManyStates
  else if (2 <=? count_kind KPovm s)%nat then Some TooManyPovms
  else None.

(* ------------------------------------------------------------------ _validate_schedules
   A schedule is a sequence of values (list, tuple, str, ... — anything iterable) or a non-iterable value.
   For a non-iterable schedule  enumerate(schedule)  raises TypeError inside the try block; the handler formats its
   message with the loop variables  j, item  (both None at that point: they are initialised at the top of the loop
   body) and raises QuaraScheduleItemError. *)
Inductive rsched := SSeq (items : list pyval) | SNonIter.
Inductive vres :=
| VOk
| VItemError (i j : nat) (e : pyexc)        (* QuaraScheduleItemError, schedules[i], item j, caught exception e *)
| VNonIter (i : nat)                        (* QuaraScheduleItemError, schedules[i] is not iterable (j = item = None) *)
| VOrderError (i : nat) (r : order_reason). (* QuaraScheduleOrderError, schedules[i] *)

Fixpoint validate_from (c : cfg) (i : nat) (ss : list rsched) : vres :=
  match ss with
  | [] => VOk
  | SNonIter :: _ => VNonIter i
  | SSeq items :: rest =>
    match validate_items c 0 items with
    | inr (j, e) => VItemError i j e
    | inl typed =>
      match validate_order typed with
      | Some r => VOrderError i r
      | None => validate_from c (S i) rest
      end
    end
  end.
Definition validate_schedules (c : cfg) (ss : list rsched) : vres := validate_from c 0 ss.
(* the two exception classes the property names *)
Definition is_item_error (r : vres) : Prop := match r with VItemError _ _ _ | VNonIter _ => True | _ => False end.
Definition is_order_error (r : vres) : Prop := match r with VOrderError _ _ => True | _ => False end.

(* ------------------------------------------------------------------ constructor and setters *)
Record exp := mkexp { e_cfg : cfg; e_scheds : list rsched }.
Definition construct (c : cfg) (ss : list rsched) : exp + vres :=
  match validate_schedules c ss with VOk => inl (mkexp c ss) | r => inr r end.

Definition with_objs (c : cfg) (k : kind) (v : list bool) : cfg :=
  match k with
  | KState => mkcfg v (c_povms c) (c_gates c) (c_mprocesses c)
  | KPovm => mkcfg (c_states c) v (c_gates c) (c_mprocesses c)
  | KGate => mkcfg (c_states c) (c_povms c) v (c_mprocesses c)
  | KMprocess => mkcfg (c_states c) (c_povms c) (c_gates c) v
  end.
Inductive setop :=
| SetObjs (k : kind) (v : list bool)      (* exp.states = v / exp.povms = v / exp.gates = v / exp.mprocesses = v *)
| SetSchedules (ss : list rsched).        (* exp.schedules = ss *)
(* the list setters validate the CURRENT schedules against the would-be lists (objdict), the schedules setter
   validates the new schedules against the current lists; the attribute is assigned only when validation passes.
   (QuaraScheduleItemError is re-raised as QuaraScheduleItemError with a longer message: same class.) *)
Definition apply_set (e : exp) (op : setop) : exp * vres :=
  match op with
  | SetObjs k v =>
    let c' := with_objs (e_cfg e) k v in
    match validate_schedules c' (e_scheds e) with
    | VOk => (mkexp c' (e_scheds e), VOk)
    | r => (e, r)
    end
  | SetSchedules ss =>
    match validate_schedules (e_cfg e) ss with
    | VOk => (mkexp (e_cfg e) ss, VOk)
    | r => (e, r)
    end
  end.
Definition run_sets (e : exp) (ops : list setop) : exp := fold_left (fun st op => fst (apply_set st op)) ops e.

(* ------------------------------------------------------------------ calc_prob_dist up to the composition *)
Inductive cres :=
| CRun (typed : list titem)     (* all referenced objects present: compose_qoperations is called on them *)
| CValueError (pos : nat)       (* "<kind>s[i] is None" for the item at position pos *)
| CIndexError | CTypeError      (* _validate_schedule_index *)
| COther.                       (* schedule that is not an accepted one (never for a validated experiment) *)
Fixpoint first_none (c : cfg) (pos : nat) (s : list titem) : option nat :=
  match s with
  | [] => None
  | (k, z) :: rest => if nth (Z.to_nat z) (objs c k) false then first_none c (S pos) rest else Some pos
  end.
Definition calc_prob_dist_pre (e : exp) (idx : pyval) : cres :=
  match idx with
  | PInt z =>
    if ((0 <=? z) && (z <? Z.of_nat (List.length (e_scheds e))))%Z then
      match nth (Z.to_nat z) (e_scheds e) SNonIter with
      | SSeq items =>
        match validate_items (e_cfg e) 0 items with
        | inl typed => match first_none (e_cfg e) 0 typed with Some p => CValueError p | None => CRun typed end
        | inr _ => COther
        end
      | SNonIter => COther
      end
    else CIndexError
  | _ => CTypeError
  end.
(* the schedules the property says must execute: last item is the (only) POVM *)
Definition ends_in_povm (s : list titem) : bool := kind_eqb (fst (last s dflt_item)) KPovm.

(* ------------------------------------------------------------------ tomography classes *)
Inductive tclass := Qst | Povmt | Qpt | Qmpt.
(* the Experiment each constructor builds: the estimated object is a None placeholder, testers are real *)
Definition class_cfg (t : tclass) (ns np : nat) : cfg :=
  match t with
  | Qst => mkcfg [false] (repeat true np) [] []
  | Povmt => mkcfg (repeat true ns) [false] [] []
  | Qpt => mkcfg (repeat true ns) (repeat true np) [false] []
  | Qmpt => mkcfg (repeat true ns) (repeat true np) [] [false]
  end.
(* the guards:  [len(schedule) != n or] schedule[0][0] != k0 or schedule[1][0] != k1 [or schedule[2][0] != k2]
   -> ValueError ;  then  schedule[p][1] != 0 -> ValueError.  Python's short-circuit  or  and list indexing
   (IndexError when the schedule is too short) are modelled; the guards run after the Experiment accepted, hence on
   typed items.  Only StandardQmpt has the length test (the other three cannot be reached with a longer schedule:
   theorem tomo_accepts_iff_shape). *)
Definition class_kinds (t : tclass) : list kind :=
  match t with
  | Qst | Povmt => [KState; KPovm]
  | Qpt => [KState; KGate; KPovm]
  | Qmpt => [KState; KMprocess; KPovm]
  end.
Definition class_zero_pos (t : tclass) : nat := match t with Qst => 0 | _ => 1 end.
Definition class_len (t : tclass) : option nat := match t with Qmpt => Some 3%nat | _ => None end.
Inductive gres := GPass | GValueError | GIndexError.
Fixpoint kinds_match (s : list titem) (pos : nat) (ks : list kind) : gres :=
  match ks with
  | [] => GPass
  | k :: ks' =>
    match nth_error s pos with
    | None => GIndexError
    | Some (k', _) => if kind_eqb k' k then kinds_match s (S pos) ks' else GValueError
    end
  end.
Definition index_is_zero (s : list titem) (pos : nat) : gres :=
  match nth_error s pos with
  | None => GIndexError
  | Some (_, z) => if (z =? 0)%Z then GPass else GValueError
  end.
Definition len_ok (t : tclass) (s : list titem) : bool :=
  match class_len t with Some n => (List.length s =? n)%nat | None => true end.
(* the kind tests and the index test (everything but the length test) *)
Definition guard_core (t : tclass) (s : list titem) : gres :=
  match kinds_match s 0 (class_kinds t) with
  | GPass => index_is_zero s (class_zero_pos t)
  | r => r
  end.
Definition guard_one (t : tclass) (s : list titem) : gres :=
  if len_ok t s then guard_core t s else GValueError.
Definition typed_of (c : cfg) (s : rsched) : list titem :=
  match s with
  | SSeq items => match validate_items c 0 items with inl t => t | inr _ => [] end
  | SNonIter => []
  end.
Inductive tres :=
| TOk
| TExp (r : vres)               (* the Experiment constructor raised (r <> VOk) *)
| TGuardValueError (i : nat)    (* the class guard raised ValueError for schedules[i] *)
| TGuardIndexError (i : nat)    (* the class guard ran off the end of schedules[i]: IndexError escapes *)
| TStrValueError.               (* _validate_schedules_str *)
(* for i, schedule in enumerate(schedules): <guard> ;  [g] is the per-schedule guard of the class *)
Fixpoint guard_from (g : list titem -> gres) (c : cfg) (i : nat) (ss : list rsched) : tres :=
  match ss with
  | [] => TOk
  | s :: rest =>
    match g (typed_of c s) with
    | GPass => guard_from g c (S i) rest
    | GValueError => TGuardValueError i
    | GIndexError => TGuardIndexError i
    end
  end.
Definition raw (it : titem) : pyval := PTuple [PStr (kind_name (fst it)); PInt (snd it)].
Definition sched_of (l : list titem) : rsched := SSeq (map raw l).
Definition zseq (n : nat) : list Z := map Z.of_nat (seq 0 n).
(* schedules == "all" *)
Definition class_all (t : tclass) (ns np : nat) : list rsched :=
  match t with
  | Qst => map (fun j => sched_of [(KState, 0%Z); (KPovm, j)]) (zseq np)
  | Povmt => map (fun i => sched_of [(KState, i); (KPovm, 0%Z)]) (zseq ns)
  | Qpt => flat_map (fun i => map (fun j => sched_of [(KState, i); (KGate, 0%Z); (KPovm, j)]) (zseq np)) (zseq ns)
  | Qmpt => flat_map (fun i => map (fun j => sched_of [(KState, i); (KMprocess, 0%Z); (KPovm, j)]) (zseq np)) (zseq ns)
  end.
Inductive sarg := AStr (s : string) | AList (ss : list rsched).
(* Experiment(...) first, then the class guard; [g] = the class guard (parameter so that the code before the
   repair, Model/C20_PreFix.v, shares this definition) *)
Definition tomo_run_with (g : list titem -> gres) (t : tclass) (ns np : nat) (ss : list rsched) : tres :=
  let c := class_cfg t ns np in
  match validate_schedules c ss with
  | VOk => guard_from g c 0 ss
  | r => TExp r
  end.
Definition tomo_run (t : tclass) (ns np : nat) (ss : list rsched) : tres := tomo_run_with (guard_one t) t ns np ss.
Definition tomo_construct (t : tclass) (ns np : nat) (a : sarg) : tres :=
  match a with
  | AStr s => if String.eqb s "all" then tomo_run t ns np (class_all t ns np) else TStrValueError
  | AList ss => tomo_run t ns np ss
  end.

(* the shape each class documents, decidable form (used by the harness as the property predicate) *)
Definition in_rangeb (c : cfg) (it : titem) : bool := ((0 <=? snd it) && (snd it <? size c (fst it)))%Z.
Definition class_shape_typedb (t : tclass) (c : cfg) (s : list titem) : bool :=
  forallb (in_rangeb c) s &&
  match t, s with
  | Qst, [(KState, z0); (KPovm, _)] => (z0 =? 0)%Z
  | Povmt, [(KState, _); (KPovm, z1)] => (z1 =? 0)%Z
  | Qpt, [(KState, _); (KGate, z1); (KPovm, _)] => (z1 =? 0)%Z
  | Qmpt, [(KState, _); (KMprocess, z1); (KPovm, _)] => (z1 =? 0)%Z
  | _, _ => false
  end.
(* parse a raw schedule into typed items without any range / order rule: only the (str kind, int) form *)
Definition parse_item (v : pyval) : option titem :=
  match v with
  | PTuple [PStr s; PInt z] => match kind_of_name s with Some k => Some (k, z) | None => None end
  | _ => None
  end.
Fixpoint parse_items (l : list pyval) : option (list titem) :=
  match l with
  | [] => Some []
  | v :: r => match parse_item v, parse_items r with Some t, Some tr => Some (t :: tr) | _, _ => None end
  end.
Definition class_shapeb (t : tclass) (ns np : nat) (s : rsched) : bool :=
  match s with
  | SSeq items => match parse_items items with
                  | Some typed => class_shape_typedb t (class_cfg t ns np) typed
                  | None => false
                  end
  | SNonIter => false
  end.
