(* C12 — loss values, derivatives and fast paths agree: property theorems only.
   Model: Model/C12_Loss.v.  Squared error / fast path / configuration: any commutative ring or ordered field,
   axiom-free.  Relative-entropy derivatives: over R with Coquelicot (standard real-number axioms). *)
From Coq Require Import Reals Arith List QArith Qcanon Lra Lia.
From Coquelicot Require Import Coquelicot.
From QV.Core Require Import OF Sums Mat QcOF ROF.
From QV.Model Require Import C12_Loss.
From QV.Proofs Require Import C12_Loss C12_Config C12_RelEntropy C12_RelEntropyR C12_Main.
Import ListNotations.

(* ================= squared error: value, gradient, Hessian (any commutative ring) ================= *)

(* the reported value is the defining formula  sum_j (p_j - q_j)^T W_j (p_j - q_j)  (W_j = I without weights) *)
Theorem C12_se_value_is_weighted_squared_distance : forall (R : CR) ns m (W : @wts R) (p q : @vec R),
  se_value_at ns m W p q = se_spec ns m W p q.
Proof. exact @se_value_is_spec. Qed.
Print Assumptions C12_se_value_is_weighted_squared_distance.

(* exact second-order expansion for ALL points v and increments h: the reported gradient and Hessian ARE the
   first and second derivative of the reported value (se_hess = se_hess_half + se_hess_half, next theorem) *)
Theorem C12_se_taylor_exact : forall (R : CR) ns m nv (W : @wts R) (A : @mat R) (b q v h : @vec R),
  wsym ns m W ->
  se_value ns m nv W A b q (vadd v h)
  = cadd R (cadd R (se_value ns m nv W A b q v) (dot nv (se_grad ns m nv W A b q v) h))
           (qfm nv (se_hess_half ns m nv W A b q v) h).
Proof. exact @se_taylor. Qed.
Print Assumptions C12_se_taylor_exact.

Theorem C12_se_hessian_is_twice_half_and_symmetric : forall (R : CR) ns m nv (W : @wts R) (A : @mat R) (b q v : @vec R),
  (forall al be, se_hess ns m nv W A b q v al be
                 = cadd R (se_hess_half ns m nv W A b q v al be) (se_hess_half ns m nv W A b q v al be)) /\
  (wsym ns m W -> msym nv (se_hess ns m nv W A b q v)).
Proof. exact main_se_hessian_is_twice_half_and_symmetric. Qed.
Print Assumptions C12_se_hessian_is_twice_half_and_symmetric.

(* the same with the usual 1/2, over any ordered field (Qc as executed, R as meant) *)
Theorem C12_se_taylor_half : forall (F : OF) ns m nv (W : @wts F) (A : @mat F) (b q v h : @vec F),
  wsym ns m W ->
  se_value ns m nv W A b q (vadd v h)
  = cadd F (cadd F (se_value ns m nv W A b q v) (dot nv (se_grad ns m nv W A b q v) h))
           (kdiv F (qfm nv (se_hess ns m nv W A b q v) h) (cadd F (c1 F) (c1 F))).
Proof. exact se_taylor_half. Qed.
Print Assumptions C12_se_taylor_half.

(* the gradient is affine in v and its increment is the Hessian applied to the increment (no symmetry needed) *)
Theorem C12_se_gradient_increment_is_hessian : forall (R : CR) ns m nv (W : @wts R) (A : @mat R) (b q v h : @vec R) al,
  se_grad ns m nv W A b q (vadd v h) al
  = cadd R (se_grad ns m nv W A b q v al) (mv nv (se_hess ns m nv W A b q v) h al).
Proof. exact @se_grad_shift. Qed.
Print Assumptions C12_se_gradient_increment_is_hessian.

Theorem C12_simple_quadratic_taylor : forall (R : CR) n (ref v h : @vec R),
  sq_value n ref (vadd v h) = cadd R (cadd R (sq_value n ref v) (dot n (sq_grad ref v) h)) (dot n h h) /\
  (forall i, (i < n)%nat -> sq_grad ref (vadd v h) i = cadd R (sq_grad ref v i) (mv n sq_hess h i)).
Proof. exact main_simple_quadratic_taylor. Qed.
Print Assumptions C12_simple_quadratic_taylor.

(* ================= fast path = generic path ================= *)

(* hypothesis = the fast path's own assumptions: all ns schedules have m outcomes (flat length ns*m) and the cached
   block-diagonal extension is the one of the CURRENT weights (or both absent) *)
Theorem C12_fast_value_gradient_eq_generic : forall (R : CR) ns m nv (W : @wts R) (E : option (@mat R)) (A : @mat R) (b q v : @vec R),
  ext_matches (ns * m) m W E ->
  fast_value (ns * m) nv E A b q v = se_value ns m nv W A b q v /\
  forall al, fast_grad (ns * m) nv E A b q v al = se_grad ns m nv W A b q v al.
Proof. exact main_fast_value_gradient_eq_generic. Qed.
Print Assumptions C12_fast_value_gradient_eq_generic.

(* the code as it is: after set_from_standard_qtomography_option_data the fast object holds the same weights as the
   generic one, but its cache is the extension of the weights it held BEFORE the call (untouched if it had none) *)
Theorem C12_fast_cache_is_built_from_previous_weights : forall (R : CR) m md (c : @wts R) k (st st' : @fstate R),
  config_fast m md c k st = COk st' ->
  config_generic md c k (f_w st) = COk (f_w st') /\
  f_ext st' = match f_w st with Some w => Some (ext_of m w) | None => f_ext st end.
Proof. exact main_fast_cache_is_built_from_previous_weights. Qed.
Print Assumptions C12_fast_cache_is_built_from_previous_weights.

(* FULL statement that fails: "for every configuration, fast value = generic value for the same data, weights, mode".
   Witness (2 outcomes, 1 schedule, weights [[3,0],[0,0]] then [[5,0],[0,0]]): a fresh fast object evaluates with the
   identity (value 2 instead of 3), a reused one with the previous data set's weights (3 instead of 5). *)
Theorem C12_fast_path_weights_stale_refuted :
  exists (c1 c2 : nat -> @mat Qc_OF) (A : @mat Qc_OF) (b q v : @vec Qc_OF) (st1 st2 : @fstate Qc_OF),
    config_fast 2 MInvSample None (Some c1) fresh = COk st1 /\
    config_generic MInvSample None (Some c1) None = COk (f_w st1) /\
    fast_value 2 1 (f_ext st1) A b q v <> se_value 1 2 1 (f_w st1) A b q v /\
    fast_value 2 1 (f_ext st1) A b q v = se_value 1 2 1 None A b q v /\
    config_fast 2 MInvSample None (Some c2) st1 = COk st2 /\
    config_generic MInvSample None (Some c2) (f_w st1) = COk (f_w st2) /\
    fast_value 2 1 (f_ext st2) A b q v <> se_value 1 2 1 (f_w st2) A b q v /\
    fast_value 2 1 (f_ext st2) A b q v = se_value 1 2 1 (f_w st1) A b q v.
Proof. exact fast_stale_witness. Qed.
Print Assumptions C12_fast_path_weights_stale_refuted.

(* with the proposed fix (cache rebuilt / cleared after the weights are installed) the fast class agrees with the
   generic one after ANY configuration history on a fresh object *)
Theorem C12_fast_after_fix_agrees_all_histories : forall (R : CR) ns m nv (steps : list (@cstep R)) (st' : @fstate R)
    (A : @mat R) (b q v : @vec R),
  run_fast_fixed m steps fresh = COk st' ->
  run_generic steps None = COk (f_w st') /\
  fast_value (ns * m) nv (f_ext st') A b q v = se_value ns m nv (f_w st') A b q v /\
  forall al, fast_grad (ns * m) nv (f_ext st') A b q v al = se_grad ns m nv (f_w st') A b q v al.
Proof. exact @fixed_fast_agrees. Qed.
Print Assumptions C12_fast_after_fix_agrees_all_histories.

(* ================= weighting modes ================= *)

(* the modes that do take effect in the code as it is: custom, the two inverse-covariance modes (when their
   construction succeeds), and identity on an object that has no weights yet *)
Theorem C12_modes_effective_partial : forall (R : CR) md (c : @wts R) k (cur : @wts R),
  (md = MCustom \/ md = MInvSample \/ md = MInvUnbiased \/ (md = MIdentity /\ cur = None)) ->
  set_weights_by_mode md c k cur = mode_spec md c k.
Proof. exact @modes_effective. Qed.
Print Assumptions C12_modes_effective_partial.

(* FULL statement that fails: "every accepted mode takes effect".  The accepted spelling
   "unbiased_inverse_covariance" matches no branch: the object keeps whatever weights it had. *)
Theorem C12_alias_mode_ignored_refuted :
  (forall (R : CR) (c : @wts R) k (cur : @wts R), set_weights_by_mode MAliasUnbiasedInv c k cur = COk cur) /\
  exists (c1 : nat -> @mat Qc_OF) (A : @mat Qc_OF) (b q v : @vec Qc_OF) (W Wspec : @wts Qc_OF),
    config_generic MAliasUnbiasedInv None (Some c1) None = COk W /\ mode_spec MAliasUnbiasedInv None (Some c1) = COk Wspec /\
    se_value 1 2 1 W A b q v <> se_value 1 2 1 Wspec A b q v.
Proof. exact main_alias_mode_ignored_refuted. Qed.
Print Assumptions C12_alias_mode_ignored_refuted.

(* "identity" on a reused object keeps the previous weights (also finding 14 / property C13) *)
Theorem C12_identity_mode_keeps_old_weights_refuted :
  exists (c1 : nat -> @mat Qc_OF) (A : @mat Qc_OF) (b q v : @vec Qc_OF) (W1 W2 Wspec : @wts Qc_OF),
    config_generic MInvSample None (Some c1) None = COk W1 /\ config_generic MIdentity None None W1 = COk W2 /\
    mode_spec MIdentity None None = COk Wspec /\ se_value 1 2 1 W2 A b q v <> se_value 1 2 1 Wspec A b q v.
Proof. exact identity_mode_witness. Qed.
Print Assumptions C12_identity_mode_keeps_old_weights_refuted.

(* FULL statement that fails: "the inverse-covariance modes take effect for any number of outcomes".
   The slice assignment as coded raises for EVERY outcome count other than 2 (so the witness is m = 3). *)
Theorem C12_inverse_covariance_shape_refuted : forall (F : OF) ns m (invs : nat -> @mat F) md (custom cur : @wts F),
  (1 <= ns)%nat -> (1 <= m)%nat -> m <> 2%nat -> md = MInvSample \/ md = MInvUnbiased ->
  config_generic md custom (inv_cov_weights F false ns m invs) cur = CErr.
Proof. exact inverse_modes_raise. Qed.
Print Assumptions C12_inverse_covariance_shape_refuted.

(* with the proposed fix (W[:row-1,:col-1] = inverse): weights exist for every outcome count, carry the inverse on the
   leading block and zeros on the last row / column, are symmetric when the inverse is, give the reduced quadratic
   form, and coincide with the present behaviour for 2 outcomes *)
Theorem C12_inverse_covariance_after_fix : forall (F : OF) ns m (invs : nat -> @mat F),
  (exists w, inv_cov_weights F true ns m invs = Some w /\
     forall j x y, (j < ns)%nat -> w j x y = if ((x <? m - 1) && (y <? m - 1))%bool then invs j x y else c0 F) /\
  (forall inv : @mat F, msym (m - 1) inv -> msym m (fun x y => if ((x <? m - 1) && (y <? m - 1))%bool then inv x y else c0 F)) /\
  (forall k (inv : @mat F) (d : @vec F),
     qfm (S k) (fun x y => if ((x <? S k - 1) && (y <? S k - 1))%bool then inv x y else c0 F) d = qfm k inv d) /\
  (forall inv : @mat F, exists W W', place_inv F 2 inv = Some W /\ place_inv_fixed F 2 inv = Some W' /\ forall x y, W x y = W' x y).
Proof. exact main_inverse_covariance_after_fix. Qed.
Print Assumptions C12_inverse_covariance_after_fix.

(* the oracle np.linalg.inv: what the executed check certifies determines the inverse uniquely; the covariance
   block that is inverted is symmetric *)
Theorem C12_inverse_certificate : forall (F : OF) k (M inv inv' : @mat F),
  (is_inverse_b F k M inv = true -> is_inverse F k M inv) /\
  (is_inverse F k M inv -> is_inverse F k M inv' -> meq k k inv inv') /\
  (forall (q : @vec F) ncov n32 x y, extracted F q ncov n32 x y = extracted F q ncov n32 y x).
Proof. exact main_inverse_certificate. Qed.
Print Assumptions C12_inverse_certificate.

(* FULL statement that fails: "custom weights given in the option are used by the relative entropy".
   _sets_weight_by_mode is never called: the configuration leaves the weights as they were; witness on the gradient. *)
Theorem C12_relative_entropy_custom_weights_ignored_refuted :
  (forall (R : CR) (custom cur : option (@vec R)), config_re custom cur = cur) /\
  exists (custom : @vec Qc_OF) (A : @mat Qc_OF) (b q v : @vec Qc_OF),
    config_re (Some custom) None = None /\ config_re_spec true (Some custom) = Some custom /\
    re_grad Qc_OF 1 2 1 (config_re (Some custom) None) weps weps A b q v O
      <> re_grad Qc_OF 1 2 1 (config_re_spec true (Some custom)) weps weps A b q v O.
Proof. exact main_relative_entropy_custom_weights_ignored_refuted. Qed.
Print Assumptions C12_relative_entropy_custom_weights_ignored_refuted.

(* ================= relative entropy ================= *)

(* what the executable model reports: value = sum_i c_i * ln a_i with the weighted coefficients c_i (any ordered
   field, any function ln) *)
Theorem C12_re_value_terms : forall (F : OF) (ln : F -> F) ns m (w : option (@vec F)) epsq epsp (p q : @vec F),
  re_value_at F ln ns m w epsq epsp p q
  = sumn (ns * m) (fun i => cmul F (wsc F w (i / m)%nat (re_coef F epsq (q i))) (ln (re_arg F epsq epsp (q i) (p i)))).
Proof. exact re_value_terms. Qed.
Print Assumptions C12_re_value_terms.

(* fast (vectorised) value and gradient = generic ones, for non-negative data and extend-weights built from the
   CURRENT weights; any ordered field, any ln, any outcome count *)
Theorem C12_re_fast_eq_generic : forall (F : OF) (ln : F -> F) ns m (w ew : option (@vec F)) epsq epsp (A : @mat F) (p q : @vec F),
  ew_matches F m w ew (ns * m) -> (forall i, (i < ns * m)%nat -> kle F (c0 F) (q i)) ->
  re_fast_value_at F ln (ns * m) ew epsq epsp p q = re_value_at F ln ns m w epsq epsp p q /\
  forall al, re_fast_grad_at F (ns * m) ew epsq epsp A p q al = re_grad_at F ns m w epsq epsp A p q al.
Proof. exact main_re_fast_eq_generic. Qed.
Print Assumptions C12_re_fast_eq_generic.

Local Open Scope R_scope.
(* away from the clipping thresholds (every entry with q >= eps_q has p > eps_p and q/p > eps_p) the derivative of the
   reported value along ANY direction h is <gradient, h>; any ns, m, nv, any weights *)
Theorem C12_re_gradient_is_derivative_of_value : forall ns m nv (w : option (@vec R_OF)) (epsq epsp : R)
    (A : @mat R_OF) (b q v h : @vec R_OF),
  0 <= epsp -> unclipped (ns * m) epsq epsp (pv nv A b v) q ->
  is_derive (fun t : R => re_value R_OF ln ns m nv w epsq epsp A b q (vadd v (@vscale R_OF t h))) 0
            (dot nv (re_grad R_OF ns m nv w epsq epsp A b q v) h).
Proof. exact re_value_derive. Qed.
Print Assumptions C12_re_gradient_is_derivative_of_value.

(* ... and the derivative of every gradient component along h is (Hessian h) (only p > eps_p is needed) *)
Theorem C12_re_hessian_is_derivative_of_gradient : forall ns m nv (w : option (@vec R_OF)) (epsq epsp : R)
    (A : @mat R_OF) (b q v h : @vec R_OF) al,
  0 <= epsp -> unclipped_p (ns * m) epsq epsp (pv nv A b v) q ->
  is_derive (fun t : R => re_grad R_OF ns m nv w epsq epsp A b q (vadd v (@vscale R_OF t h)) al) 0
            (mv nv (re_hess R_OF ns m nv w epsq epsp A b q v) h al).
Proof. exact re_grad_derive. Qed.
Print Assumptions C12_re_hessian_is_derivative_of_gradient.

(* coordinate form: partial derivatives *)
Theorem C12_re_partial_derivatives : forall ns m nv (w : option (@vec R_OF)) (epsq epsp : R) (A : @mat R_OF) (b q v : @vec R_OF) al be,
  (al < nv)%nat -> (be < nv)%nat -> 0 <= epsp -> unclipped (ns * m) epsq epsp (pv nv A b v) q ->
  is_derive (fun t : R => re_value R_OF ln ns m nv w epsq epsp A b q (vadd v (@vscale R_OF t (unitv al)))) 0
            (re_grad R_OF ns m nv w epsq epsp A b q v al) /\
  is_derive (fun t : R => re_grad R_OF ns m nv w epsq epsp A b q (vadd v (@vscale R_OF t (unitv be))) al) 0
            (re_hess R_OF ns m nv w epsq epsp A b q v al be).
Proof. exact main_re_partial_derivatives. Qed.
Print Assumptions C12_re_partial_derivatives.

(* on the unclipped region the value is the defining formula  sum_j w_j sum_x q ln(q/p) *)
Theorem C12_re_value_is_formula_unclipped : forall ns m (w : option (@vec R_OF)) (epsq epsp : R) (p q : @vec R_OF),
  unclipped (ns * m) epsq epsp p q ->
  re_value_at R_OF ln ns m w epsq epsp p q = re_spec R_OF ln ns m w epsq p q.
Proof. exact re_value_is_spec. Qed.
Print Assumptions C12_re_value_is_formula_unclipped.

(* documented clipping, for the record: where a predicted probability is BELOW eps_p the summand of the value does not
   move at all (derivative 0) while the reported gradient summand is -q s / eps_p — the property excludes this region *)
Theorem C12_re_clipped_region_value_is_flat : forall (epsq epsp q p s : R), p < epsp ->
  is_derive (fun t => re_term R_OF ln epsq epsp q (p + t * s)) 0 0 /\
  (epsq <= q -> re_dterm R_OF epsq epsp q p s = - q * s / epsp).
Proof. exact main_re_clipped_region_value_is_flat. Qed.
Print Assumptions C12_re_clipped_region_value_is_flat.

(* ================= non-vacuity ================= *)
Example C12_ex_symmetric_weights : wsym 1 2 (Some (wW 3)) /\ ext_matches (1 * 2) 2 (Some (wW 3)) (Some (ext_of 2 (wW 3))).
Proof. split.
  - intros j _ x y _ _. unfold wW. now rewrite Bool.andb_comm.
  - apply meq_refl. Qed.
(* q = (3/4, 1/4), p = (1/2, 1/2), thresholds 1e-3: unclipped *)
Example C12_ex_unclipped :
  unclipped (1 * 2) (1 / 1000) (1 / 1000) (fun _ => 1 / 2) (fun i => if Nat.eqb i 0 then 3 / 4 else 1 / 4).
Proof. intros i Hi _. destruct i as [|[|i]]; cbn; [split; lra|split; lra|lia]. Qed.
Example C12_ex_inverse : is_inverse_b Qc_OF 1 (fun _ _ => Q2Qc (2 # 1)) (fun _ _ => Q2Qc (1 # 2)) = true.
Proof. vm_compute. reflexivity. Qed.
Example C12_ex_history : exists st', run_fast_fixed 2 [(MCustom, Some (wW 3), None); (MIdentity, None, None); (MInvSample, None, Some (wW 5))] (@fresh Qc_OF) = COk st'.
Proof. eexists. reflexivity. Qed.
