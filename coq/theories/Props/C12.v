(* C12 — loss values, derivatives and fast paths agree: property theorems only.
   Model: Model/C12_Loss.v = the code WITH the repairs /verif/fixes/c12-*.diff (that is what the harness compares with
   the implementation).  The last section keeps, for the record, the refutations about the code as it was before those
   repairs (definitions named [_prefix]).  Squared error / fast path / configuration: any commutative ring or ordered field,
   axiom-free.  Relative-entropy derivatives: over R with Coquelicot (standard real-number axioms). *)
From Coq Require Import Reals Arith List QArith Qcanon Lra Lia String.
From Coquelicot Require Import Coquelicot.
From QV.Core Require Import OF Sums Mat QcOF ROF.
From QV.Model Require Import C12_Loss C12_Mixed C12_Dispatch C12_Skeleton C12_Slices.
From QV.Proofs Require Import C12_Loss C12_Config C12_RelEntropy C12_RelEntropyR C12_CovPD C12_PDInverse C12_Mixed C12_Dispatch C12_Main.
Import ListNotations.

(* ================= squared error: value, gradient, Hessian (any commutative ring) ================= *)

(* the reported value is the defining formula  sum_j (p_j - q_j)^T W_j (p_j - q_j)  (W_j = I without weights) *)
Theorem C12_se_value_is_weighted_squared_distance : forall (R : CR) ns m (W : @wts R) (p q : @vec R),
  se_value_at ns m W p q = se_spec ns m W p q.
Proof. exact @se_value_is_spec. Qed.
Print Assumptions C12_se_value_is_weighted_squared_distance.

(* exact second-order expansion for ALL points v and increments h: the reported gradient and Hessian ARE the
   first and second derivative of the reported value (se_hess = se_hess_half + se_hess_half, next theorem) *)
Theorem C12_se_taylor_exact : forall (R : CR) ns m nv (W : @wts R) (A : @mat R) (b q v h : @vec R),
  wsym ns m W ->
  se_value ns m nv W A b q (vadd v h)
  = cadd R (cadd R (se_value ns m nv W A b q v) (dot nv (se_grad ns m nv W A b q v) h))
           (qfm nv (se_hess_half ns m nv W A b q v) h).
Proof. exact @se_taylor. Qed.
Print Assumptions C12_se_taylor_exact.

Theorem C12_se_hessian_is_twice_half_and_symmetric : forall (R : CR) ns m nv (W : @wts R) (A : @mat R) (b q v : @vec R),
  (forall al be, se_hess ns m nv W A b q v al be
                 = cadd R (se_hess_half ns m nv W A b q v al be) (se_hess_half ns m nv W A b q v al be)) /\
  (wsym ns m W -> msym nv (se_hess ns m nv W A b q v)).
Proof. exact main_se_hessian_is_twice_half_and_symmetric. Qed.
Print Assumptions C12_se_hessian_is_twice_half_and_symmetric.

(* the same with the usual 1/2, over any ordered field (Qc as executed, R as meant) *)
Theorem C12_se_taylor_half : forall (F : OF) ns m nv (W : @wts F) (A : @mat F) (b q v h : @vec F),
  wsym ns m W ->
  se_value ns m nv W A b q (vadd v h)
  = cadd F (cadd F (se_value ns m nv W A b q v) (dot nv (se_grad ns m nv W A b q v) h))
           (kdiv F (qfm nv (se_hess ns m nv W A b q v) h) (cadd F (c1 F) (c1 F))).
Proof. exact se_taylor_half. Qed.
Print Assumptions C12_se_taylor_half.

(* the gradient is affine in v and its increment is the Hessian applied to the increment (no symmetry needed) *)
Theorem C12_se_gradient_increment_is_hessian : forall (R : CR) ns m nv (W : @wts R) (A : @mat R) (b q v h : @vec R) al,
  se_grad ns m nv W A b q (vadd v h) al
  = cadd R (se_grad ns m nv W A b q v al) (mv nv (se_hess ns m nv W A b q v) h al).
Proof. exact @se_grad_shift. Qed.
Print Assumptions C12_se_gradient_increment_is_hessian.

Theorem C12_simple_quadratic_taylor : forall (R : CR) n (ref v h : @vec R),
  sq_value n ref (vadd v h) = cadd R (cadd R (sq_value n ref v) (dot n (sq_grad ref v) h)) (dot n h h) /\
  (forall i, (i < n)%nat -> sq_grad ref (vadd v h) i = cadd R (sq_grad ref v i) (mv n sq_hess h i)).
Proof. exact main_simple_quadratic_taylor. Qed.
Print Assumptions C12_simple_quadratic_taylor.

(* schedules with DIFFERENT numbers of outcomes (the repaired generic classes cut matA / vecB / data by each schedule's own
   count): the loss is the sum over the schedules of the one-schedule loss; it is the sum of the defining formulas, and
   gradient / Hessian are its derivatives (exact second-order expansion), for any list of schedules of any sizes *)
Theorem C12_se_mixed_outcome_counts : forall (R : CR) nv (Bs : list (@sblock R)) (v h : @vec R),
  mix_value nv Bs v = mix_spec nv Bs v /\
  (blocks_sym Bs ->
     mix_value nv Bs (vadd v h)
     = cadd R (cadd R (mix_value nv Bs v) (dot nv (mix_grad nv Bs v) h)) (qfm nv (mix_hess_half nv Bs v) h)) /\
  (forall al, mix_grad nv Bs (vadd v h) al
     = cadd R (mix_grad nv Bs v al)
              (mv nv (fun a c => cadd R (mix_hess_half nv Bs v a c) (mix_hess_half nv Bs v a c)) h al)).
Proof. exact main_se_mixed_outcome_counts. Qed.
Print Assumptions C12_se_mixed_outcome_counts.

(* the two models agree: for a stacked model in which every schedule has m outcomes, cut into blocks of rows
   [j*m, j*m + m), the sum over the blocks is the flat squared-error model all other theorems are about *)
Theorem C12_mixed_model_consistent_with_equal_counts : forall (R : CR) ns m nv (W : @wts R) (A : @mat R) (b q v : @vec R),
  mix_value nv (equal_blocks ns m W A b q) v = se_value ns m nv W A b q v.
Proof. exact @mix_equal_blocks. Qed.
Print Assumptions C12_mixed_model_consistent_with_equal_counts.

(* how the generic classes cut the stacked forward model: for ANY list of outcome counts, schedule j owns the rows
   [offset j, offset j + outcomes j), consecutive ranges touch, the first starts at 0 and the last ends at the total number of
   rows; a closure built for the slice [lo, hi) with (size = hi - lo, index = 0) reads exactly the rows of that slice
   (coq/gen/C12_Equiv.v re-proves on every run that the index arithmetic REGENERATED from the source is this) *)
Theorem C12_schedule_slices_partition_the_rows : forall sizes : list nat,
  List.length (slices sizes) = List.length sizes /\
  (forall j, (j < List.length sizes)%nat ->
     nth j (slices sizes) (0, 0)%nat = (offset sizes j, offset sizes j + nth j sizes 0)%nat /\
     snd (nth j (slices sizes) (0, 0)%nat) = offset sizes (S j)) /\
  offset sizes 0 = 0%nat /\ offset sizes (List.length sizes) = total sizes /\
  (forall lo hi, (lo <= hi)%nat ->
     (lo + fst (helper_rows (hi - lo) 0) = lo /\ lo + snd (helper_rows (hi - lo) 0) = hi /\
      forall i, (i < hi - lo)%nat -> lo + helper_grad_row (hi - lo) 0 i = lo + i)%nat).
Proof. exact main_schedule_slices_partition_the_rows. Qed.
Print Assumptions C12_schedule_slices_partition_the_rows.

(* ================= fast path = generic path ================= *)

(* hypothesis = the fast path's own assumptions: all ns schedules have m outcomes (flat length ns*m) and the cached
   block-diagonal extension is the one of the CURRENT weights (or both absent) *)
Theorem C12_fast_value_gradient_eq_generic : forall (R : CR) ns m nv (W : @wts R) (E : option (@mat R)) (A : @mat R) (b q v : @vec R),
  ext_matches (ns * m) m W E ->
  fast_value (ns * m) nv E A b q v = se_value ns m nv W A b q v /\
  forall al, fast_grad (ns * m) nv E A b q v al = se_grad ns m nv W A b q v al.
Proof. exact main_fast_value_gradient_eq_generic. Qed.
Print Assumptions C12_fast_value_gradient_eq_generic.

(* after ANY history of configurations (any modes, any data) and direct set_weight_matrices calls on an object whose
   cache was consistent to begin with (a fresh object is) the fast class holds the weights the generic class holds
   and returns the same value and gradient; it raises exactly when the generic class raises *)
Theorem C12_fast_agrees_all_histories : forall (R : CR) ns m nv (steps : list (@cstep R)) (st : @fstate R) (A : @mat R) (b q v : @vec R),
  ext_matches (ns * m) m (f_w st) (f_ext st) ->
  (forall st', run_fast m steps st = COk st' ->
     run_generic steps (f_w st) = COk (f_w st') /\
     fast_value (ns * m) nv (f_ext st') A b q v = se_value ns m nv (f_w st') A b q v /\
     forall al, fast_grad (ns * m) nv (f_ext st') A b q v al = se_grad ns m nv (f_w st') A b q v al) /\
  (run_fast m steps st = CErr -> run_generic steps (f_w st) = CErr).
Proof. exact main_fast_agrees_all_histories. Qed.
Print Assumptions C12_fast_agrees_all_histories.

(* the same with the option OBJECT's identity in the history (steps with the same [oid] were handed the same option object
   - what LossMinimizationEstimator.calc_estimate_sequence does for every data set of a sequence -, other [oid]s are
   equal-but-distinct or different objects; [o_opt] = the object the loss holds): the identities have no influence at all
   (erasing them gives the same run), so the fast class agrees with the generic one after any such history too *)
Theorem C12_fast_agrees_all_histories_with_option_reuse : forall (R : CR) ns m nv (steps : list (@ostep R)) (os : @ostate R)
    (A : @mat R) (b q v : @vec R),
  ext_matches (ns * m) m (f_w (o_st os)) (f_ext (o_st os)) ->
  (forall os', run_fast_o m steps os = COk os' ->
     run_fast m (map erase steps) (o_st os) = COk (o_st os') /\
     (exists c', run_generic_o steps (f_w (o_st os), o_opt os) = COk c' /\ fst c' = f_w (o_st os')) /\
     fast_value (ns * m) nv (f_ext (o_st os')) A b q v = se_value ns m nv (f_w (o_st os')) A b q v /\
     forall al, fast_grad (ns * m) nv (f_ext (o_st os')) A b q v al = se_grad ns m nv (f_w (o_st os')) A b q v al) /\
  (run_fast_o m steps os = CErr -> run_generic_o steps (f_w (o_st os), o_opt os) = CErr).
Proof. exact main_fast_agrees_all_histories_with_option_reuse. Qed.
Print Assumptions C12_fast_agrees_all_histories_with_option_reuse.

(* ================= weighting modes ================= *)

(* a configuration takes effect for the data of the CURRENT configuration: whatever the object holds - in particular when
   it already holds this very option object ([o_opt os = Some oid]) and weights computed from earlier data - the weights
   afterwards are those the option's VALUE (mode, option weights) denotes for the current data ([k]), in both classes,
   and the fast cache is their extension *)
Theorem C12_reconfiguration_uses_option_value_and_current_data_only : forall (R : CR) m oid md (c : @wts R) k (os : @ostate R),
  match step_fast_o m (OConfig oid md c k) os, step_generic_o (OConfig oid md c k) (f_w (o_st os), o_opt os), mode_spec md c k with
  | COk os', COk c', COk w =>
      f_w (o_st os') = w /\ fst c' = w /\ o_opt os' = Some oid /\
      f_ext (o_st os') = match w with Some w' => Some (ext_of m w') | None => None end
  | CErr, CErr, CErr => True
  | _, _, _ => False
  end.
Proof. exact main_reconfiguration_uses_current_data. Qed.
Print Assumptions C12_reconfiguration_uses_option_value_and_current_data_only.

(* EVERY mode the option classes accept takes effect, in the generic and in the fast class, whatever the object held
   before: the weights after the configuration are those the mode denotes (identity: none; custom: the option's;
   the three inverse-covariance spellings: the construction for THIS data) and the fast cache is their extension *)
Theorem C12_modes_effective : forall (R : CR) md (c : @wts R) k (cur : @wts R) m (st : @fstate R),
  config_generic md c k cur = mode_spec md c k /\
  match config_fast m md c k st, mode_spec md c k with
  | COk st', COk w => f_w st' = w /\ f_ext st' = match w with Some w' => Some (ext_of m w') | None => None end
  | CErr, CErr => True
  | _, _ => False
  end.
Proof. exact main_modes_effective. Qed.
Print Assumptions C12_modes_effective.

(* the string-level decision tables (Model/C12_Dispatch.v; coq/gen/C12_Equiv.v re-proves on every run that the tables
   REGENERATED from the Python source equal them): the state-machine model is their interpretation, every mode an option
   object can hold has a branch that installs weights, and an option that is given weights holds mode "custom" *)
Theorem C12_decision_tables : forall (R : CR),
  (forall md (c : @wts R) k (cur : @wts R), set_weights_by_mode md c k cur = run_action (action_of md) c k cur) /\
  (forall (cm : bool) (c cur : option (@vec R)),
     config_re cm c cur = run_action_re (re_dispatch (Some (if cm then "custom" else "identity")%string)) c cur) /\
  (forall mw hw mw', option_accepts se_modes mw hw = OOk mw' ->
     se_dispatch mw' = AReset \/ se_dispatch mw' = ACustom \/ exists ub, se_dispatch mw' = AInverse ub) /\
  (forall mw hw mw', option_accepts re_modes mw hw = OOk mw' -> re_dispatch mw' = AReset \/ re_dispatch mw' = ACustom) /\
  (forall mw, option_accepts se_modes mw true = OOk (Some "custom"%string) /\ option_accepts re_modes mw true = OOk (Some "custom"%string)).
Proof. exact main_decision_tables. Qed.
Print Assumptions C12_decision_tables.

(* the call skeletons of the configuration code (ordered guarded events of set_from_standard_qtomography_option_data, of the
   cache rebuilds, of the overridden setters; coq/gen/C12_Equiv.v re-proves the same for the skeletons REGENERATED from the
   source on every run), given their meaning in Model/C12_Skeleton.v, are exactly the steps of the state machine, for both
   flags, every mode, every object state *)
Theorem C12_call_skeletons_are_the_state_machine : forall (R : CR) m gr he oid md (c : @wts R) k (os : @ostate R)
    (cur : @wts R * option nat) (cm : bool) (cr : option (@vec R)) (ros : @rostate R) (w : @wts R) (st : @fstate R)
    hasq (wr : option (@vec R)) (rs : @rstate R),
  sem_config_fast m sk_se_bodies sk_config gr he oid (action_of md) c k os = step_fast_o m (OConfig oid md c k) os /\
  sem_config_generic sk_config gr he oid (action_of md) c k cur = step_generic_o (OConfig oid md c k) cur /\
  sem_config_re_fast m sk_re_bodies sk_config gr he oid (re_dispatch (Some (if cm then "custom" else "identity")%string)) cr ros
    = step_re_fast_o m (ROConfig oid cm cr) ros /\
  sem_setter (sem_calc_ext m (sb_calc sk_se_bodies)) (sb_setter sk_se_bodies) w st = set_direct_fast m w st /\
  sem_setter_re (sem_calc_ew m (sb_calc sk_re_bodies)) (sb_setter sk_re_bodies) hasq wr rs = set_weights_re_fast m hasq wr rs.
Proof. exact main_call_skeletons_are_the_state_machine. Qed.
Print Assumptions C12_call_skeletons_are_the_state_machine.

(* the result of a configuration depends only on (mode, option weights, data), not on the object's history *)
Theorem C12_configuration_history_independent : forall (R : CR) m md (c : @wts R) k (cur cur' : @wts R) (st st' : @fstate R),
  config_generic md c k cur = config_generic md c k cur' /\ config_fast m md c k st = config_fast m md c k st'.
Proof. exact main_configuration_history_independent. Qed.
Print Assumptions C12_configuration_history_independent.

(* the inverse-covariance construction works for ANY number of outcomes: weights exist, carry the symmetrised inverse on
   the leading (m-1)x(m-1) block and zeros on the last row / column, are symmetric, and give the reduced quadratic form *)
Theorem C12_inverse_covariance_all_outcome_counts : forall (F : OF) ns m (invs : nat -> @mat F),
  exists w, inv_cov_weights F ns m invs = Some w /\
    (forall j x y, w j x y = lead_block F m (sym_half F (invs j)) x y) /\
    wsym ns m (Some w) /\
    (forall k (inv : @mat F) (d : @vec F), qfm (S k) (lead_block F (S k) inv) d = qfm k inv d).
Proof. exact main_inverse_covariance_all_outcome_counts. Qed.
Print Assumptions C12_inverse_covariance_all_outcome_counts.

(* the symmetrisation "(inv + inv.T)/2" in the code changes nothing on the exact inverse: the inverse of a symmetric
   matrix is symmetric (so the weights are exactly the inverse of the regularised covariance block) *)
Theorem C12_inverse_covariance_weights_are_the_inverse_block : forall (F : OF) k (M inv : @mat F),
  msym k M -> is_inverse F k M inv ->
  msym k inv /\ meq k k (sym_half F inv) inv /\
  (forall x y, (x < S k)%nat -> (y < S k)%nat -> lead_block F (S k) (sym_half F inv) x y = lead_block F (S k) inv x y).
Proof. exact main_inverse_covariance_weights_are_the_inverse_block. Qed.
Print Assumptions C12_inverse_covariance_weights_are_the_inverse_block.

(* the matrix handed to np.linalg.inv — leading block of (diag(q) - q q^T)/ncov plus I/n32 — is positive definite for
   every outcome count (q_i >= 0, sum of the leading entries <= 1, ncov > 0, n32 > 0): its quadratic form is >= 0 and
   vanishes only at 0, so its kernel is trivial (a singular matrix is never inverted) *)
Theorem C12_inverse_covariance_block_positive_definite : forall (F : OF) k (q : @vec F) ncov n32,
  (forall i, (i < k)%nat -> kle F (c0 F) (q i)) -> kle F (sumn k q) (c1 F) ->
  kle F (c0 F) ncov -> ncov <> c0 F -> kle F (c0 F) n32 -> n32 <> c0 F ->
  forall x : @vec F,
    kle F (c0 F) (qfm k (extracted F q ncov n32) x) /\
    (qfm k (extracted F q ncov n32) x = c0 F -> forall i, (i < k)%nat -> x i = c0 F) /\
    ((forall a, (a < k)%nat -> mv k (extracted F q ncov n32) x a = c0 F) -> forall i, (i < k)%nat -> x i = c0 F).
Proof. exact main_regularised_block_positive_definite. Qed.
Print Assumptions C12_inverse_covariance_block_positive_definite.

(* ... hence it HAS a two-sided inverse, and only one, for every outcome count (a symmetric positive definite matrix over an
   ordered field is invertible: induction on the dimension with the Schur complement): np.linalg.inv is never handed a
   singular matrix and the inverse-covariance construction cannot fail *)
Theorem C12_inverse_covariance_block_is_invertible : forall (F : OF) k (q : @vec F) ncov n32,
  (forall i, (i < k)%nat -> kle F (c0 F) (q i)) -> kle F (sumn k q) (c1 F) ->
  kle F (c0 F) ncov -> ncov <> c0 F -> kle F (c0 F) n32 -> n32 <> c0 F ->
  exists inv, is_inverse F k (extracted F q ncov n32) inv /\
    forall inv', is_inverse F k (extracted F q ncov n32) inv' -> meq k k inv' inv.
Proof. exact extracted_has_inverse. Qed.
Print Assumptions C12_inverse_covariance_block_is_invertible.

(* every symmetric positive definite matrix has an inverse (the general statement behind the previous theorem) *)
Theorem C12_positive_definite_symmetric_matrix_has_inverse : forall (F : OF) k (M : @mat F),
  msym k M -> posdef F k M -> exists inv, is_inverse F k M inv.
Proof. exact posdef_sym_has_inverse. Qed.
Print Assumptions C12_positive_definite_symmetric_matrix_has_inverse.

(* the oracle np.linalg.inv: what the executed check certifies determines the inverse uniquely; the covariance
   block that is inverted is symmetric *)
Theorem C12_inverse_certificate : forall (F : OF) k (M inv inv' : @mat F),
  (is_inverse_b F k M inv = true -> is_inverse F k M inv) /\
  (is_inverse F k M inv -> is_inverse F k M inv' -> meq k k inv inv') /\
  (forall (q : @vec F) ncov n32 x y, extracted F q ncov n32 x y = extracted F q ncov n32 y x).
Proof. exact main_inverse_certificate. Qed.
Print Assumptions C12_inverse_certificate.

(* relative entropy: both accepted modes take effect (custom: the option's weights; identity: none), in the generic
   and in the fast class, and the fast cache is usable afterwards *)
Theorem C12_re_modes_effective : forall (R : CR) m cm (custom cur : option (@vec R)) (st : @rstate R),
  config_re cm custom cur = config_re_spec cm custom /\
  r_w (config_re_fast m cm custom st) = config_re_spec cm custom /\ rstate_ok m (config_re_fast m cm custom st).
Proof. exact main_re_modes_effective. Qed.
Print Assumptions C12_re_modes_effective.

(* after ANY history of configurations and set_weights calls on a configured fast relative-entropy object: it holds the
   weights the generic object holds, value()/gradient() find their cache (no AttributeError) and return the generic
   value and gradient (non-negative data; any ordered field, any ln, any outcome count) *)
Theorem C12_re_fast_agrees_all_histories : forall (F : OF) (ln : F -> F) ns m (steps : list (@rstep F)) (st : @rstate F)
    epsq epsp (A : @mat F) (p q : @vec F),
  rstate_ok m st -> (forall i, (i < ns * m)%nat -> kle F (c0 F) (q i)) ->
  let st' := run_re_fast m steps st in
  r_w st' = run_re steps (r_w st) /\
  exists sel, re_fast_sel st' = COk sel /\
    re_fast_value_at F ln (ns * m) sel epsq epsp p q = re_value_at F ln ns m (r_w st') epsq epsp p q /\
    forall al, re_fast_grad_at F (ns * m) sel epsq epsp A p q al = re_grad_at F ns m (r_w st') epsq epsp A p q al.
Proof. exact main_re_fast_agrees_all_histories. Qed.
Print Assumptions C12_re_fast_agrees_all_histories.

(* ... and option identities (same option object handed again, e.g. after a direct set_weights) have no influence *)
Theorem C12_re_option_identity_irrelevant : forall (R : CR) m (steps : list (@rostep R)) (os : @rostate R),
  ro_st (run_re_fast_o m steps os) = run_re_fast m (map rerase steps) (ro_st os).
Proof. exact main_re_option_identity_irrelevant. Qed.
Print Assumptions C12_re_option_identity_irrelevant.

(* ================= relative entropy ================= *)

(* what the executable model reports: value = sum_i c_i * ln a_i with the weighted coefficients c_i (any ordered
   field, any function ln) *)
Theorem C12_re_value_terms : forall (F : OF) (ln : F -> F) ns m (w : option (@vec F)) epsq epsp (p q : @vec F),
  re_value_at F ln ns m w epsq epsp p q
  = sumn (ns * m) (fun i => cmul F (wsc F w (i / m)%nat (re_coef F epsq (q i))) (ln (re_arg F epsq epsp (q i) (p i)))).
Proof. exact re_value_terms. Qed.
Print Assumptions C12_re_value_terms.

(* fast (vectorised) value and gradient = generic ones, for non-negative data and extend-weights built from the
   CURRENT weights; any ordered field, any ln, any outcome count *)
Theorem C12_re_fast_eq_generic : forall (F : OF) (ln : F -> F) ns m (w ew : option (@vec F)) epsq epsp (A : @mat F) (p q : @vec F),
  ew_matches F m w ew (ns * m) -> (forall i, (i < ns * m)%nat -> kle F (c0 F) (q i)) ->
  re_fast_value_at F ln (ns * m) ew epsq epsp p q = re_value_at F ln ns m w epsq epsp p q /\
  forall al, re_fast_grad_at F (ns * m) ew epsq epsp A p q al = re_grad_at F ns m w epsq epsp A p q al.
Proof. exact main_re_fast_eq_generic. Qed.
Print Assumptions C12_re_fast_eq_generic.

Local Open Scope R_scope.
(* away from the clipping thresholds (every entry with q >= eps_q has p > eps_p and q/p > eps_p) the derivative of the
   reported value along ANY direction h is <gradient, h>; any ns, m, nv, any weights *)
Theorem C12_re_gradient_is_derivative_of_value : forall ns m nv (w : option (@vec R_OF)) (epsq epsp : R)
    (A : @mat R_OF) (b q v h : @vec R_OF),
  0 <= epsp -> unclipped (ns * m) epsq epsp (pv nv A b v) q ->
  is_derive (fun t : R => re_value R_OF ln ns m nv w epsq epsp A b q (vadd v (@vscale R_OF t h))) 0
            (dot nv (re_grad R_OF ns m nv w epsq epsp A b q v) h).
Proof. exact re_value_derive. Qed.
Print Assumptions C12_re_gradient_is_derivative_of_value.

(* ... and the derivative of every gradient component along h is (Hessian h) (only p > eps_p is needed) *)
Theorem C12_re_hessian_is_derivative_of_gradient : forall ns m nv (w : option (@vec R_OF)) (epsq epsp : R)
    (A : @mat R_OF) (b q v h : @vec R_OF) al,
  0 <= epsp -> unclipped_p (ns * m) epsq epsp (pv nv A b v) q ->
  is_derive (fun t : R => re_grad R_OF ns m nv w epsq epsp A b q (vadd v (@vscale R_OF t h)) al) 0
            (mv nv (re_hess R_OF ns m nv w epsq epsp A b q v) h al).
Proof. exact re_grad_derive. Qed.
Print Assumptions C12_re_hessian_is_derivative_of_gradient.

(* coordinate form: partial derivatives *)
Theorem C12_re_partial_derivatives : forall ns m nv (w : option (@vec R_OF)) (epsq epsp : R) (A : @mat R_OF) (b q v : @vec R_OF) al be,
  (al < nv)%nat -> (be < nv)%nat -> 0 <= epsp -> unclipped (ns * m) epsq epsp (pv nv A b v) q ->
  is_derive (fun t : R => re_value R_OF ln ns m nv w epsq epsp A b q (vadd v (@vscale R_OF t (unitv al)))) 0
            (re_grad R_OF ns m nv w epsq epsp A b q v al) /\
  is_derive (fun t : R => re_grad R_OF ns m nv w epsq epsp A b q (vadd v (@vscale R_OF t (unitv be))) al) 0
            (re_hess R_OF ns m nv w epsq epsp A b q v al be).
Proof. exact main_re_partial_derivatives. Qed.
Print Assumptions C12_re_partial_derivatives.

(* on the unclipped region the value is the defining formula  sum_j w_j sum_x q ln(q/p) *)
Theorem C12_re_value_is_formula_unclipped : forall ns m (w : option (@vec R_OF)) (epsq epsp : R) (p q : @vec R_OF),
  unclipped (ns * m) epsq epsp p q ->
  re_value_at R_OF ln ns m w epsq epsp p q = re_spec R_OF ln ns m w epsq p q.
Proof. exact re_value_is_spec. Qed.
Print Assumptions C12_re_value_is_formula_unclipped.

(* documented clipping, for the record: where a predicted probability is BELOW eps_p the summand of the value does not
   move at all (derivative 0) while the reported gradient summand is -q s / eps_p — the property excludes this region *)
Theorem C12_re_clipped_region_value_is_flat : forall (epsq epsp q p s : R), p < epsp ->
  is_derive (fun t => re_term R_OF ln epsq epsp q (p + t * s)) 0 0 /\
  (epsq <= q -> re_dterm R_OF epsq epsp q p s = - q * s / epsp).
Proof. exact main_re_clipped_region_value_is_flat. Qed.
Print Assumptions C12_re_clipped_region_value_is_flat.

(* ================= for the record: the code as it was BEFORE the repairs ([_prefix] definitions) =================
   True statements about definitions labelled "as coded before fix c12-..." in Model/C12_Loss.v.  The harness does not
   use these definitions; the check reports the corresponding violation again if the implementation falls back to them. *)
Local Close Scope R_scope.

(* before fix c12-se-fast-extended-weights: after the configuration the fast object held the same weights as the generic
   one, but its cache was the extension of the weights it held BEFORE the call (untouched if it had none) *)
Theorem C12_before_fix_fast_cache_is_built_from_previous_weights : forall (R : CR) m md (c : @wts R) k (st st' : @fstate R),
  config_fast_prefix m md c k st = COk st' ->
  config_generic_prefix md c k (f_w st) = COk (f_w st') /\
  f_ext st' = match f_w st with Some w => Some (ext_of m w) | None => f_ext st end.
Proof. exact main_fast_cache_prefix. Qed.
Print Assumptions C12_before_fix_fast_cache_is_built_from_previous_weights.

(* "fast value = generic value for the same data, weights, mode" FAILED.  Witness (2 outcomes, 1 schedule, weights
   [[3,0],[0,0]] then [[5,0],[0,0]]): a fresh fast object evaluated with the identity (value 2 instead of 3), a reused
   one with the previous data set's weights (3 instead of 5). *)
Theorem C12_before_fix_fast_path_weights_stale_refuted :
  exists (c1 c2 : nat -> @mat Qc_OF) (A : @mat Qc_OF) (b q v : @vec Qc_OF) (st1 st2 : @fstate Qc_OF),
    config_fast_prefix 2 MInvSample None (Some c1) fresh = COk st1 /\
    config_generic_prefix MInvSample None (Some c1) None = COk (f_w st1) /\
    fast_value 2 1 (f_ext st1) A b q v <> se_value 1 2 1 (f_w st1) A b q v /\
    fast_value 2 1 (f_ext st1) A b q v = se_value 1 2 1 None A b q v /\
    config_fast_prefix 2 MInvSample None (Some c2) st1 = COk st2 /\
    config_generic_prefix MInvSample None (Some c2) (f_w st1) = COk (f_w st2) /\
    fast_value 2 1 (f_ext st2) A b q v <> se_value 1 2 1 (f_w st2) A b q v /\
    fast_value 2 1 (f_ext st2) A b q v = se_value 1 2 1 (f_w st1) A b q v.
Proof. exact fast_stale_witness. Qed.
Print Assumptions C12_before_fix_fast_path_weights_stale_refuted.

(* before fix c12-se-alias-mode: the accepted spelling "unbiased_inverse_covariance" matched no branch *)
Theorem C12_before_fix_alias_mode_ignored_refuted :
  (forall (R : CR) (c : @wts R) k (cur : @wts R), set_weights_by_mode_prefix MAliasUnbiasedInv c k cur = COk cur) /\
  exists (c1 : nat -> @mat Qc_OF) (A : @mat Qc_OF) (b q v : @vec Qc_OF) (W Wspec : @wts Qc_OF),
    config_generic_prefix MAliasUnbiasedInv None (Some c1) None = COk W /\ mode_spec MAliasUnbiasedInv None (Some c1) = COk Wspec /\
    se_value 1 2 1 W A b q v <> se_value 1 2 1 Wspec A b q v.
Proof. exact main_alias_mode_ignored_refuted. Qed.
Print Assumptions C12_before_fix_alias_mode_ignored_refuted.

(* before fix c12-se-identity-mode-reset: "identity" on a reused object kept the previous weights *)
Theorem C12_before_fix_identity_mode_keeps_old_weights_refuted :
  exists (c1 : nat -> @mat Qc_OF) (A : @mat Qc_OF) (b q v : @vec Qc_OF) (W1 W2 Wspec : @wts Qc_OF),
    config_generic_prefix MInvSample None (Some c1) None = COk W1 /\ config_generic_prefix MIdentity None None W1 = COk W2 /\
    mode_spec MIdentity None None = COk Wspec /\ se_value 1 2 1 W2 A b q v <> se_value 1 2 1 Wspec A b q v.
Proof. exact identity_mode_witness. Qed.
Print Assumptions C12_before_fix_identity_mode_keeps_old_weights_refuted.

(* before fix c12-se-inverse-covariance-shape: the slice assignment raised for EVERY outcome count other than 2 *)
Theorem C12_before_fix_inverse_covariance_shape_refuted : forall (F : OF) ns m (invs : nat -> @mat F) md (custom cur : @wts F),
  (1 <= ns)%nat -> (1 <= m)%nat -> m <> 2%nat -> md = MInvSample \/ md = MInvUnbiased ->
  config_generic_prefix md custom (inv_cov_weights_prefix F ns m invs) cur = CErr.
Proof. exact inverse_modes_raise_prefix. Qed.
Print Assumptions C12_before_fix_inverse_covariance_shape_refuted.

(* before fix c12-re-set-weights-by-mode: _sets_weight_by_mode was never called, the configuration left the weights as
   they were; witness on the gradient *)
Theorem C12_before_fix_relative_entropy_custom_weights_ignored_refuted :
  (forall (R : CR) cm (custom cur : option (@vec R)), config_re_prefix cm custom cur = cur) /\
  exists (custom : @vec Qc_OF) (A : @mat Qc_OF) (b q v : @vec Qc_OF),
    config_re_prefix true (Some custom) None = None /\ config_re_spec true (Some custom) = Some custom /\
    re_grad Qc_OF 1 2 1 (config_re_prefix true (Some custom) None) weps weps A b q v O
      <> re_grad Qc_OF 1 2 1 (config_re_spec true (Some custom)) weps weps A b q v O.
Proof. exact main_relative_entropy_custom_weights_ignored_refuted. Qed.
Print Assumptions C12_before_fix_relative_entropy_custom_weights_ignored_refuted.

(* ================= non-vacuity ================= *)
Example C12_ex_symmetric_weights : wsym 1 2 (Some (wW 3)) /\ ext_matches (1 * 2) 2 (Some (wW 3)) (Some (ext_of 2 (wW 3))).
Proof. split.
  - intros j _ x y _ _. unfold wW. now rewrite Bool.andb_comm.
  - apply meq_refl. Qed.
(* q = (3/4, 1/4), p = (1/2, 1/2), thresholds 1e-3: unclipped *)
Example C12_ex_unclipped :
  unclipped (1 * 2) (1 / 1000)%R (1 / 1000)%R (fun _ => (1 / 2)%R) (fun i => if Nat.eqb i 0 then (3 / 4)%R else (1 / 4)%R).
Proof. intros i Hi _. destruct i as [|[|i]]; cbn; [split; lra|split; lra|lia]. Qed.
Example C12_ex_inverse : is_inverse_b Qc_OF 1 (fun _ _ => Q2Qc (2 # 1)) (fun _ _ => Q2Qc (1 # 2)) = true.
Proof. vm_compute. reflexivity. Qed.
(* a history on a fresh fast object (fresh is consistent): custom, identity, inverse mode, direct setter *)
Example C12_ex_history : ext_matches (1 * 2) 2 (f_w (@fresh Qc_OF)) (f_ext (@fresh Qc_OF)) /\
  exists st', run_fast 2 [SConfig MCustom (Some (wW 3)) None; SConfig MIdentity None None;
                          SConfig MInvSample None (Some (wW 5)); SSet (Some (wW 3))] (@fresh Qc_OF) = COk st'.
Proof. split; [exact I|]. eexists. reflexivity. Qed.
(* hypotheses of C12_inverse_covariance_block_positive_definite: q = (3/4, 1/4), 100 shots *)
Example C12_ex_pd_hypotheses :
  (forall i, (i < 2)%nat -> kle Qc_OF (c0 Qc_OF) (wq i)) /\ kle Qc_OF (sumn 2 wq) (c1 Qc_OF) /\
  kle Qc_OF (c0 Qc_OF) (qn 100) /\ qn 100 <> c0 Qc_OF.
Proof. split; [|split; [|split]].
  - intros i Hi. destruct i as [|[|i]]; [| |lia]; apply (k_leb Qc_OF); vm_compute; reflexivity.
  - apply (k_leb Qc_OF). vm_compute. reflexivity.
  - apply (k_leb Qc_OF). vm_compute. reflexivity.
  - apply qc_neq. vm_compute. reflexivity. Qed.
(* the history of calc_estimate_sequence: ONE option object (oid 7) for two data sets, then an equal-but-distinct one *)
Example C12_ex_option_reuse : exists os',
  run_fast_o 2 [OConfig 7 MInvSample None (Some (wW 3)); OConfig 7 MInvSample None (Some (wW 5)); OConfig 8 MInvSample None (Some (wW 3))]
             {| o_st := @fresh Qc_OF; o_opt := None |} = COk os' /\ o_opt os' = Some 8%nat.
Proof. eexists. split; reflexivity. Qed.
(* two schedules with 3 and 2 outcomes, symmetric weights on the first, none on the second *)
Example C12_ex_mixed_blocks : @blocks_sym Qc_OF
  [ {| b_m := 3; b_A := wA; b_b := wz; b_q := wz; b_W := Some (wW 3 O) |};
    {| b_m := 2; b_A := wA; b_b := wz; b_q := wz; b_W := None |} ].
Proof. intros B [<-|[<-|[]]]; cbn; [|exact I]. intros j _ x y _ _. unfold wW. now rewrite Bool.andb_comm. Qed.
(* outcome counts 3, 2, 2: the slices are [0,3), [3,5), [5,7) *)
Example C12_ex_slices : slices [3; 2; 2]%nat = [(0, 3); (3, 5); (5, 7)]%nat /\ total [3; 2; 2]%nat = 7%nat.
Proof. split; reflexivity. Qed.
(* a configured fast relative-entropy object without weights is a valid starting state *)
Example C12_ex_re_history : rstate_ok 2 {| r_w := None; r_ew := @None (@vec Qc_OF) |}.
Proof. exact I. Qed.
