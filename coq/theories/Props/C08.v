(* C08 — the tomography forward model equals the circuit's Born-rule statistics: property theorems only.

   Vocabulary (Model/C08_Forward.v): tester vectors / coefficient rows are lists, the candidate variable vector
   v : nat -> F is ARBITRARY (every theorem is universal in v: nothing is discharged on a basis of variable space);
   [affine A b v] is  A v + b ;  [calc_matA], [calc_vecB] are the sorted stacking of the (schedule, outcome)-keyed
   dictionary built by the four _set_coeffs ; [qst_born] .. [qmpt_born] are the circuit semantics of ONE schedule
   (Born rule on coefficient vectors, HS matrix times state vector) with the unknown replaced by [object_of_var v]
   ([state_of_var], [povm_of_var], [hs_of_var], [hss_of_var]).  sqrt(dim) is the parameter [sd]; the theorems need
   only  sd <> 0  (weaker than sd * sd = d). All theorems hold for every ordered field F (executed: Qc; meant: R). *)
From Coq Require Import Arith List Bool Lia QArith Qcanon.
From QV.Core Require Import OF QcOF Sums Mat Cplx.
From QV.Model Require Import QObj C08_Forward.
From QV.Model Require C02_Conv.
From QV.Proofs Require C02_Conv.
From QV.Proofs Require Import C08_Forward C08_Shape C08_Operator.
Import ListNotations.

(* ---- forward model = Born statistics, whole stacked vector, schedule by schedule in schedule order, outcome by outcome.
   Any tester list, any schedule list (subsets, repetitions, permutations: [scheds] is an arbitrary list of tester
   indices), both flags, any dimension, any outcome counts, EVERY v. *)
Theorem C08_qst_forward : forall (F : OF) d para sd (povms : list (list (lvec F))) (scheds : list nat) (v : rvec F),
  sd <> c0 F ->
  (forall i, In i scheds -> forall pv, In pv (nth i povms []) -> length pv = (d * d)%nat) ->
  affine (calc_matA (qst_coeffs F para sd povms scheds)) (calc_vecB (qst_coeffs F para sd povms scheds)) v
  = concat (map (fun i => qst_born F d para sd (nth i povms []) v) scheds).
Proof. exact qst_forward. Qed.
Print Assumptions C08_qst_forward.

Theorem C08_povmt_forward : forall (F : OF) d para sd m (states : list (lvec F)) (scheds : list nat) (v : rvec F),
  (0 < d)%nat ->
  (forall i, In i scheds -> length (nth i states []) = (d * d)%nat) ->
  affine (calc_matA (povmt_coeffs F para sd m states scheds)) (calc_vecB (povmt_coeffs F para sd m states scheds)) v
  = concat (map (fun i => povmt_born F d para sd m (nth i states []) v) scheds).
Proof. exact povmt_forward. Qed.
Print Assumptions C08_povmt_forward.

Theorem C08_qpt_forward : forall (F : OF) d para (states : list (lvec F)) (povms : list (list (lvec F)))
    (scheds : list (nat * nat)) (v : rvec F),
  (0 < d)%nat ->
  (forall ik, In ik scheds -> length (nth (fst ik) states []) = (d * d)%nat /\
                              forall pv, In pv (nth (snd ik) povms []) -> length pv = (d * d)%nat) ->
  affine (calc_matA (qpt_coeffs F para states povms scheds)) (calc_vecB (qpt_coeffs F para states povms scheds)) v
  = concat (map (fun ik => qpt_born F d para (nth (fst ik) states []) (nth (snd ik) povms []) v) scheds).
Proof. exact qpt_forward. Qed.
Print Assumptions C08_qpt_forward.

(* QMPT: the constructor succeeds (no IndexError) for m >= 1 (m >= 2 with the equality constraint) and then ... *)
Theorem C08_qmpt_forward : forall (F : OF) d (para : bool) m (states : list (lvec F)) (povms : list (list (lvec F)))
    (scheds : list (nat * nat)),
  (0 < d)%nat -> ((if para then 2 else 1) <= m)%nat ->
  (forall ik, In ik scheds -> length (nth (fst ik) states []) = (d * d)%nat /\
                              forall pv, In pv (nth (snd ik) povms []) -> length pv = (d * d)%nat) ->
  exists dct, qmpt_coeffs F para (d * d) m states povms scheds = Some dct /\
    forall v : rvec F, affine (calc_matA dct) (calc_vecB dct) v
      = concat (map (fun ik => qmpt_born F d para m (nth (fst ik) states []) (nth (snd ik) povms []) v) scheds).
Proof. exact qmpt_forward. Qed.
Print Assumptions C08_qmpt_forward.

(* "restricted to schedule j, outcome x": entry offset_j + x of the stacked prediction, where offset_j is the sum of the
   outcome counts of the earlier schedules (generic in what the per-schedule distributions are) *)
Theorem C08_restrict_to_schedule : forall (F : OF) (l : list F) (borns : list (list F)) j x,
  l = concat borns -> (j < length borns)%nat -> (x < length (nth j borns []))%nat ->
  nth (offset (map (@length F) borns) j + x) l (c0 F) = nth x (nth j borns []) (c0 F).
Proof. exact restrict_to_schedule. Qed.
Print Assumptions C08_restrict_to_schedule.

(* sorted(dict.items()) stacking = rows in (schedule, outcome) insertion order, for ANY per-schedule row lists *)
Theorem C08_sorted_stacking : forall (F : OF) (ps : list (list (coeff F))),
  calc_matA (build_dict ps) = map fst (concat ps) /\ calc_vecB (build_dict ps) = map snd (concat ps).
Proof. intros F ps. split; [apply calc_matA_build|apply calc_vecB_build]. Qed.
Print Assumptions C08_sorted_stacking.

(* ---- A has num_variables columns, and one row per (schedule, outcome) *)
Theorem C08_qst_shape : forall (F : OF) d para sd (povms : list (list (lvec F))) (scheds : list nat),
  (forall i, In i scheds -> forall pv, In pv (nth i povms []) -> length pv = (d * d)%nat) ->
  let dct := qst_coeffs F para sd povms scheds in
  Forall (fun r => length r = qst_num_variables para d) (calc_matA dct) /\
  length (calc_matA dct) = natsum (qst_counts F povms scheds) /\ length (calc_vecB dct) = natsum (qst_counts F povms scheds).
Proof. exact qst_shape. Qed.
Print Assumptions C08_qst_shape.
Theorem C08_povmt_shape : forall (F : OF) d para sd m (states : list (lvec F)) (scheds : list nat),
  (forall i, In i scheds -> length (nth i states []) = (d * d)%nat) ->
  let dct := povmt_coeffs F para sd m states scheds in
  Forall (fun r => length r = povmt_num_variables para d m) (calc_matA dct) /\
  length (calc_matA dct) = (length scheds * m)%nat /\ length (calc_vecB dct) = (length scheds * m)%nat.
Proof. exact povmt_shape. Qed.
Print Assumptions C08_povmt_shape.
Theorem C08_qpt_shape : forall (F : OF) d para (states : list (lvec F)) (povms : list (list (lvec F))) (scheds : list (nat * nat)),
  (forall ik, In ik scheds -> length (nth (fst ik) states []) = (d * d)%nat /\
                              forall pv, In pv (nth (snd ik) povms []) -> length pv = (d * d)%nat) ->
  let dct := qpt_coeffs F para states povms scheds in
  Forall (fun r => length r = qpt_num_variables para d) (calc_matA dct) /\
  length (calc_matA dct) = natsum (qpt_counts F povms scheds) /\ length (calc_vecB dct) = natsum (qpt_counts F povms scheds).
Proof. exact qpt_shape. Qed.
Print Assumptions C08_qpt_shape.

Theorem C08_qmpt_shape : forall (F : OF) d (para : bool) m (states : list (lvec F)) (povms : list (list (lvec F))) (scheds : list (nat * nat)),
  (0 < d)%nat -> ((if para then 2 else 1) <= m)%nat ->
  (forall ik, In ik scheds -> length (nth (fst ik) states []) = (d * d)%nat /\
                              forall pv, In pv (nth (snd ik) povms []) -> length pv = (d * d)%nat) ->
  exists dct, qmpt_coeffs F para (d * d) m states povms scheds = Some dct /\
    Forall (fun r => length r = qmpt_num_variables para d m) (calc_matA dct) /\
    length (calc_matA dct) = natsum (qmpt_counts F m povms scheds) /\ length (calc_vecB dct) = natsum (qmpt_counts F m povms scheds).
Proof. exact qmpt_shape. Qed.
Print Assumptions C08_qmpt_shape.

(* ---- the coefficient-level Born rule of the forward theorems IS the operator-level Born rule: for an orthonormal operator basis B,
   A v + b = Re tr(E^dagger rho(v)) -- resp. Re tr(E^dagger G_v(rho)) -- schedule by schedule, outcome by outcome, the operators being
   rebuilt from the coefficient vectors (QObj.op_of_vec) and gates acting through QObj.apply_hs (C02's vocabulary and library) *)
Theorem C08_qst_forward_operator : forall (F : OF) d (B : nat -> cmat F) para sd (povms : list (list (lvec F))) (scheds : list nat) (v : rvec F),
  basis_orthonormal d B -> sd <> c0 F ->
  (forall i, In i scheds -> forall pv, In pv (nth i povms []) -> length pv = (d * d)%nat) ->
  affine (calc_matA (qst_coeffs F para sd povms scheds)) (calc_vecB (qst_coeffs F para sd povms scheds)) v
  = concat (map (fun i => map (fun pv => op_born F d B (vl pv) (state_of_var F para sd v)) (nth i povms [])) scheds).
Proof. exact qst_forward_op. Qed.
Print Assumptions C08_qst_forward_operator.
Theorem C08_povmt_forward_operator : forall (F : OF) d (B : nat -> cmat F) para sd m (states : list (lvec F)) (scheds : list nat) (v : rvec F),
  basis_orthonormal d B -> (0 < d)%nat -> (forall i, In i scheds -> length (nth i states []) = (d * d)%nat) ->
  affine (calc_matA (povmt_coeffs F para sd m states scheds)) (calc_vecB (povmt_coeffs F para sd m states scheds)) v
  = concat (map (fun i => map (fun x => op_born F d B (povm_of_var F para sd (d * d) m v x) (vl (nth i states []))) (seq O m)) scheds).
Proof. exact povmt_forward_op. Qed.
Print Assumptions C08_povmt_forward_operator.
Theorem C08_qpt_forward_operator : forall (F : OF) d (B : nat -> cmat F) para (states : list (lvec F)) (povms : list (list (lvec F)))
    (scheds : list (nat * nat)) (v : rvec F),
  basis_orthonormal d B -> (0 < d)%nat ->
  (forall ik, In ik scheds -> length (nth (fst ik) states []) = (d * d)%nat /\ forall pv, In pv (nth (snd ik) povms []) -> length pv = (d * d)%nat) ->
  affine (calc_matA (qpt_coeffs F para states povms scheds)) (calc_vecB (qpt_coeffs F para states povms scheds)) v
  = concat (map (fun ik => map (fun pv => op_born_gate F d B (vl pv) (hs_of_var F para (d * d) v) (vl (nth (fst ik) states []))) (nth (snd ik) povms [])) scheds).
Proof. exact qpt_forward_op. Qed.
Print Assumptions C08_qpt_forward_operator.
Theorem C08_qmpt_forward_operator : forall (F : OF) d (B : nat -> cmat F) (para : bool) m (states : list (lvec F)) (povms : list (list (lvec F)))
    (scheds : list (nat * nat)),
  basis_orthonormal d B -> (0 < d)%nat -> ((if para then 2 else 1) <= m)%nat ->
  (forall ik, In ik scheds -> length (nth (fst ik) states []) = (d * d)%nat /\ forall pv, In pv (nth (snd ik) povms []) -> length pv = (d * d)%nat) ->
  exists dct, qmpt_coeffs F para (d * d) m states povms scheds = Some dct /\
    forall v : rvec F, affine (calc_matA dct) (calc_vecB dct) v
      = concat (map (fun ik => flat_map (fun x => map (fun pv => op_born_gate F d B (vl pv) (hss_of_var F para (d * d) m v x) (vl (nth (fst ik) states [])))
                                                   (nth (snd ik) povms [])) (seq O m)) scheds).
Proof. exact qmpt_forward_op. Qed.
Print Assumptions C08_qmpt_forward_operator.
(* the basis hypothesis is satisfiable in every dimension and over every field (matrix units) *)
Example C08_example_orthonormal_basis : forall (F : OF) d, basis_orthonormal d (QV.Model.C02_Conv.comp_basis (F := F) d).
Proof. intros F d. exact (QV.Proofs.C02_Conv.comp_basis_orthonormal F d). Qed.

(* ---- full column rank.
   (a) the executable exact elimination DECIDES triviality of the kernel (this is what the harness runs on the rational
       pre-image of A);
   (b) for every tomography type: kernel trivial <=> the unknown's variables are identified by the predicted statistics
       (instantiate [stat] with the right-hand sides of the four forward theorems);
   (c) QST without the constraint: <=> the scheduled effects separate coefficient vectors (informational completeness). *)
Theorem C08_fullcolrank_dec_spec : forall (F : OF) n (A : list (lvec F)),
  (forall r, In r A -> length r = n) -> (fullcolrank_dec F n A = true <-> kernel_trivial F n A).
Proof. exact fullcolrank_dec_spec. Qed.
Print Assumptions C08_fullcolrank_dec_spec.

(* full column rank <=> the unknown's variables are identified by the predicted statistics (any A, b, stat) *)
Theorem C08_fullrank_iff_identifiable : forall (F : OF) n (A : list (lvec F)) (b : list F) (stat : rvec F -> list F),
  length A = length b -> (forall v, affine A b v = stat v) ->
  (kernel_trivial F n A <-> identifiable F n stat).
Proof. exact fullrank_iff_identifiable. Qed.
Print Assumptions C08_fullrank_iff_identifiable.

(* ---- "it has full column rank whenever the tester set is informationally complete": all four types, both flags, any
   dimension / outcome counts / schedule list. Informationally complete = the scheduled effects (QST), the scheduled states
   (POVMT) separate coefficient vectors (span the operator space); for QPT / QMPT: index sets I (states), K (POVMs) whose
   states resp. effects separate and every pair (i, k) of I x K is scheduled (further / repeated schedules are allowed).
   The CONVERSE (full column rank => informationally complete) is not part of the property text; it is proved below for QST
   without the equality constraint only (C08_qst_fullrank_iff_ic). "matrix_rank" of the code is an oracle: these theorems are
   about the exact rank / kernel. *)
Theorem C08_qst_fullrank_of_ic : forall (F : OF) d para sd (povms : list (list (lvec F))) (scheds : list nat),
  sd <> c0 F ->
  (forall i, In i scheds -> forall pv, In pv (nth i povms []) -> length pv = (d * d)%nat) ->
  separating F (d * d) (concat (map (fun i => nth i povms []) scheds)) ->
  kernel_trivial F (qst_num_variables para d) (calc_matA (qst_coeffs F para sd povms scheds)).
Proof. exact qst_fullrank_of_ic. Qed.
Print Assumptions C08_qst_fullrank_of_ic.
Theorem C08_povmt_fullrank_of_ic : forall (F : OF) d para sd m (states : list (lvec F)) (scheds : list nat),
  (0 < d)%nat ->
  (forall i, In i scheds -> length (nth i states []) = (d * d)%nat) ->
  separating F (d * d) (map (fun i => nth i states []) scheds) ->
  kernel_trivial F (povmt_num_variables para d m) (calc_matA (povmt_coeffs F para sd m states scheds)).
Proof. exact povmt_fullrank_of_ic. Qed.
Print Assumptions C08_povmt_fullrank_of_ic.
Theorem C08_qpt_fullrank_of_ic : forall (F : OF) d para (I K : list nat) (states : list (lvec F)) (povms : list (list (lvec F)))
    (scheds : list (nat * nat)),
  (0 < d)%nat ->
  (forall ik, In ik scheds -> length (nth (fst ik) states []) = (d * d)%nat /\
                              forall pv, In pv (nth (snd ik) povms []) -> length pv = (d * d)%nat) ->
  (forall i k, In i I -> In k K -> In (i, k) scheds) ->
  separating F (d * d) (map (fun i => nth i states []) I) ->
  separating F (d * d) (concat (map (fun k => nth k povms []) K)) ->
  kernel_trivial F (qpt_num_variables para d) (calc_matA (qpt_coeffs F para states povms scheds)).
Proof. exact qpt_fullrank_of_ic. Qed.
Print Assumptions C08_qpt_fullrank_of_ic.
Theorem C08_qmpt_fullrank_of_ic : forall (F : OF) d (para : bool) m (I K : list nat) (states : list (lvec F))
    (povms : list (list (lvec F))) (scheds : list (nat * nat)),
  (0 < d)%nat -> ((if para then 2 else 1) <= m)%nat ->
  (forall ik, In ik scheds -> length (nth (fst ik) states []) = (d * d)%nat /\
                              forall pv, In pv (nth (snd ik) povms []) -> length pv = (d * d)%nat) ->
  (forall i k, In i I -> In k K -> In (i, k) scheds) ->
  separating F (d * d) (map (fun i => nth i states []) I) ->
  separating F (d * d) (concat (map (fun k => nth k povms []) K)) ->
  exists dct, qmpt_coeffs F para (d * d) m states povms scheds = Some dct /\
              kernel_trivial F (qmpt_num_variables para d m) (calc_matA dct).
Proof. exact qmpt_fullrank_of_ic. Qed.
Print Assumptions C08_qmpt_fullrank_of_ic.

(* both directions for QST without the equality constraint (rows of A = the scheduled effects) *)
Theorem C08_qst_fullrank_iff_ic : forall (F : OF) d sd (povms : list (list (lvec F))) (scheds : list nat),
  (forall i, In i scheds -> forall pv, In pv (nth i povms []) -> length pv = (d * d)%nat) ->
  (kernel_trivial F (d * d) (calc_matA (qst_coeffs F false sd povms scheds))
   <-> separating F (d * d) (concat (map (fun i => nth i povms []) scheds))).
Proof. exact qst_fullrank_iff_ic. Qed.
Print Assumptions C08_qst_fullrank_iff_ic.
(* "separating" is decidable by the exact elimination: a family of effects / states separates <=> full column rank *)
Theorem C08_separating_dec : forall (F : OF) n (effects : list (lvec F)),
  (forall r, In r effects -> length r = n) -> (fullcolrank_dec F n effects = true <-> separating F n effects).
Proof. exact separating_dec_spec. Qed.
Print Assumptions C08_separating_dec.

(* ---- the two-step ensemble path quara takes for compose(povm, mprocess, state) gives the joint Born probability *)
Theorem C08_ensemble_path : forall (F : OF) d sd (pv : lvec F) (HS : rmat F) (s : lvec F),
  cmul F sd (mv (d * d) HS (vl s) O) <> c0 F ->
  ensemble_path F d sd pv HS s = born d (vl pv) (mv (d * d) HS (vl s)).
Proof. exact ensemble_path_ok. Qed.
Print Assumptions C08_ensemble_path.

(* ---- calc_prob_dists (code after fix calc-prob-dists-mixed-outcome-counts: np.split at the cumulative num_outcomes(j), then
   truncate_and_normalize per schedule). For ANY outcome counts -- equal or mixed -- it returns the schedules' distributions
   (for valid distributions: entries 0 or >= eps, sum 1; without that hypothesis: their truncate_and_normalize images). *)
Theorem C08_calc_prob_dists : forall (F : OF) eps (A : list (lvec F)) (b : list F) (v : rvec F) (borns : list (list F)),
  affine A b v = concat borns -> borns <> [] -> (forall p, In p borns -> valid_dist F eps p) ->
  calc_prob_dists F eps A b v (map (@length F) borns) = borns.
Proof. exact calc_prob_dists_ok. Qed.
Print Assumptions C08_calc_prob_dists.
Theorem C08_calc_prob_dists_rows : forall (F : OF) eps (A : list (lvec F)) (b : list F) (v : rvec F) (borns : list (list F)),
  affine A b v = concat borns -> borns <> [] ->
  calc_prob_dists F eps A b v (map (@length F) borns) = map (trunc_norm F eps) borns.
Proof. exact calc_prob_dists_rows. Qed.
Print Assumptions C08_calc_prob_dists_rows.

(* end to end from the coefficient dictionaries, counts = num_outcomes(j) as the four classes define it *)
Theorem C08_qst_calc_prob_dists : forall (F : OF) d para sd eps (povms : list (list (lvec F))) (scheds : list nat) (v : rvec F),
  sd <> c0 F -> scheds <> [] ->
  (forall i, In i scheds -> forall pv, In pv (nth i povms []) -> length pv = (d * d)%nat) ->
  (forall i, In i scheds -> valid_dist F eps (qst_born F d para sd (nth i povms []) v)) ->
  let dct := qst_coeffs F para sd povms scheds in
  calc_prob_dists F eps (calc_matA dct) (calc_vecB dct) v (qst_counts F povms scheds)
  = map (fun i => qst_born F d para sd (nth i povms []) v) scheds.
Proof. exact qst_calc_prob_dists. Qed.
Print Assumptions C08_qst_calc_prob_dists.
Theorem C08_povmt_calc_prob_dists : forall (F : OF) d para sd eps m (states : list (lvec F)) (scheds : list nat) (v : rvec F),
  (0 < d)%nat -> scheds <> [] ->
  (forall i, In i scheds -> length (nth i states []) = (d * d)%nat) ->
  (forall i, In i scheds -> valid_dist F eps (povmt_born F d para sd m (nth i states []) v)) ->
  let dct := povmt_coeffs F para sd m states scheds in
  calc_prob_dists F eps (calc_matA dct) (calc_vecB dct) v (povmt_counts m scheds)
  = map (fun i => povmt_born F d para sd m (nth i states []) v) scheds.
Proof. exact povmt_calc_prob_dists. Qed.
Print Assumptions C08_povmt_calc_prob_dists.
Theorem C08_qpt_calc_prob_dists : forall (F : OF) d para eps (states : list (lvec F)) (povms : list (list (lvec F)))
    (scheds : list (nat * nat)) (v : rvec F),
  (0 < d)%nat -> scheds <> [] ->
  (forall ik, In ik scheds -> length (nth (fst ik) states []) = (d * d)%nat /\
                              forall pv, In pv (nth (snd ik) povms []) -> length pv = (d * d)%nat) ->
  (forall ik, In ik scheds -> valid_dist F eps (qpt_born F d para (nth (fst ik) states []) (nth (snd ik) povms []) v)) ->
  let dct := qpt_coeffs F para states povms scheds in
  calc_prob_dists F eps (calc_matA dct) (calc_vecB dct) v (qpt_counts F povms scheds)
  = map (fun ik => qpt_born F d para (nth (fst ik) states []) (nth (snd ik) povms []) v) scheds.
Proof. exact qpt_calc_prob_dists. Qed.
Print Assumptions C08_qpt_calc_prob_dists.
Theorem C08_qmpt_calc_prob_dists : forall (F : OF) d (para : bool) eps m (states : list (lvec F)) (povms : list (list (lvec F)))
    (scheds : list (nat * nat)),
  (0 < d)%nat -> ((if para then 2 else 1) <= m)%nat -> scheds <> [] ->
  (forall ik, In ik scheds -> length (nth (fst ik) states []) = (d * d)%nat /\
                              forall pv, In pv (nth (snd ik) povms []) -> length pv = (d * d)%nat) ->
  exists dct, qmpt_coeffs F para (d * d) m states povms scheds = Some dct /\
    forall v : rvec F,
      (forall ik, In ik scheds -> valid_dist F eps (qmpt_born F d para m (nth (fst ik) states []) (nth (snd ik) povms []) v)) ->
      calc_prob_dists F eps (calc_matA dct) (calc_vecB dct) v (qmpt_counts F m povms scheds)
      = map (fun ik => qmpt_born F d para m (nth (fst ik) states []) (nth (snd ik) povms []) v) scheds.
Proof. exact qmpt_calc_prob_dists. Qed.
Print Assumptions C08_qmpt_calc_prob_dists.

(* ---- calc_fisher_matrix's slice (code after fix calc-fisher-matrix-mixed-outcome-counts): the predicted distribution it uses
   for schedule j IS the forward model restricted to schedule j, for any outcome counts *)
Theorem C08_fisher_slice : forall (F : OF) (A : list (lvec F)) (b : list F) (v : rvec F) (borns : list (list F)) j,
  affine A b v = concat borns -> (j < length borns)%nat ->
  fisher_prob_dist F A b v (map (@length F) borns) j = nth j borns [].
Proof. exact fisher_slice_ok. Qed.
Print Assumptions C08_fisher_slice.
Theorem C08_qst_fisher_slice : forall (F : OF) d para sd (povms : list (list (lvec F))) (scheds : list nat) (v : rvec F) j,
  sd <> c0 F -> (j < length scheds)%nat ->
  (forall i, In i scheds -> forall pv, In pv (nth i povms []) -> length pv = (d * d)%nat) ->
  let dct := qst_coeffs F para sd povms scheds in
  fisher_prob_dist F (calc_matA dct) (calc_vecB dct) v (qst_counts F povms scheds) j
  = qst_born F d para sd (nth (nth j scheds O) povms []) v.
Proof. exact qst_fisher_slice. Qed.
Print Assumptions C08_qst_fisher_slice.
Theorem C08_qpt_fisher_slice : forall (F : OF) d para (states : list (lvec F)) (povms : list (list (lvec F)))
    (scheds : list (nat * nat)) (v : rvec F) j,
  (0 < d)%nat -> (j < length scheds)%nat ->
  (forall ik, In ik scheds -> length (nth (fst ik) states []) = (d * d)%nat /\
                              forall pv, In pv (nth (snd ik) povms []) -> length pv = (d * d)%nat) ->
  let dct := qpt_coeffs F para states povms scheds in
  fisher_prob_dist F (calc_matA dct) (calc_vecB dct) v (qpt_counts F povms scheds) j
  = qpt_born F d para (nth (fst (nth j scheds (O, O))) states []) (nth (snd (nth j scheds (O, O))) povms []) v.
Proof. exact qpt_fisher_slice. Qed.
Print Assumptions C08_qpt_fisher_slice.

Theorem C08_povmt_fisher_slice : forall (F : OF) d para sd m (states : list (lvec F)) (scheds : list nat) (v : rvec F) j,
  (0 < d)%nat -> (j < length scheds)%nat -> (forall i, In i scheds -> length (nth i states []) = (d * d)%nat) ->
  let dct := povmt_coeffs F para sd m states scheds in
  fisher_prob_dist F (calc_matA dct) (calc_vecB dct) v (povmt_counts m scheds) j = povmt_born F d para sd m (nth (nth j scheds O) states []) v.
Proof. exact povmt_fisher_slice. Qed.
Print Assumptions C08_povmt_fisher_slice.
Theorem C08_qmpt_fisher_slice : forall (F : OF) d (para : bool) m (states : list (lvec F)) (povms : list (list (lvec F))) (scheds : list (nat * nat)) j,
  (0 < d)%nat -> ((if para then 2 else 1) <= m)%nat -> (j < length scheds)%nat ->
  (forall ik, In ik scheds -> length (nth (fst ik) states []) = (d * d)%nat /\ forall pv, In pv (nth (snd ik) povms []) -> length pv = (d * d)%nat) ->
  exists dct, qmpt_coeffs F para (d * d) m states povms scheds = Some dct /\
    forall v : rvec F, fisher_prob_dist F (calc_matA dct) (calc_vecB dct) v (qmpt_counts F m povms scheds) j
      = qmpt_born F d para m (nth (fst (nth j scheds (O, O))) states []) (nth (snd (nth j scheds (O, O))) povms []) v.
Proof. exact qmpt_fisher_slice. Qed.
Print Assumptions C08_qmpt_fisher_slice.

(* ---- is_fullrank_matA (code after fix fullrank-guard-column-rank, owner C09: rank == number of columns), the rank being the
   exact elimination (np.linalg.matrix_rank is an oracle compared by the harness): true <=> trivial kernel *)
Theorem C08_is_fullrank_matA_spec : forall (F : OF) n (A : list (lvec F)),
  (forall r, In r A -> length r = n) -> (is_fullrank_matA F n A = true <-> kernel_trivial F n A).
Proof. exact is_fullrank_matA_spec. Qed.
Print Assumptions C08_is_fullrank_matA_spec.

(* ==== the code as it was BEFORE the fixes ([calc_prob_dists_reshape], [fisher_prob_dist_evenslice],
   [is_fullrank_matA_minshape] in Model/C08_Forward.v). Compatibility: on equal outcome counts / non-wide matrices the
   repaired code computes exactly what the old code computed. *)
Theorem C08_calc_prob_dists_compat : forall (F : OF) eps (A : list (lvec F)) (b : list F) (v : rvec F) S w,
  (0 < S)%nat -> (0 < w)%nat -> length (affine A b v) = (S * w)%nat ->
  calc_prob_dists_reshape F eps A b v S = Some (calc_prob_dists F eps A b v (repeat w S)).
Proof. exact calc_prob_dists_compat. Qed.
Print Assumptions C08_calc_prob_dists_compat.
Theorem C08_fisher_slice_compat : forall (F : OF) (A : list (lvec F)) (b : list F) (v : rvec F) S w j,
  (0 < S)%nat -> length A = (S * w)%nat -> (j < S)%nat ->
  fisher_prob_dist_evenslice F A b v S j = fisher_prob_dist F A b v (repeat w S) j.
Proof. exact fisher_slice_compat. Qed.
Print Assumptions C08_fisher_slice_compat.
Theorem C08_is_fullrank_matA_compat : forall (F : OF) n (A : list (lvec F)),
  (n <= length A)%nat -> is_fullrank_matA_minshape F n A = is_fullrank_matA F n A.
Proof. exact is_fullrank_matA_compat. Qed.
Print Assumptions C08_is_fullrank_matA_compat.

(* WITHOUT "equal outcome counts" the old code did not return the schedules' distributions (DESIGN section 4 #10); these
   refutations are about [calc_prob_dists_reshape] / [fisher_prob_dist_evenslice] = the code BEFORE the fixes; the same
   witnesses are replayed on the real code by the harness (sub-check witness) and must now give the right answer.
   Witnesses: one qubit, QST without constraint, coordinates w.r.t. the basis (I, X, Y, Z) scaled so that all entries are
   rational (effect a0 I + a.sigma -> (2 a0, 2 a), state (I + r.sigma)/2 -> (1/2, r/2)); state r = (0.3, 0.2, 0.5). *)
Definition q (n : Z) (d : positive) : Qc := Q2Qc (n # d).
Definition w_state : lvec Qc_OF := [q 1 2; q 3 20; q 1 10; q 1 4].
Definition w_povm3 : list (lvec Qc_OF) := [[q 1 2; q 0 1; q 0 1; q 1 2]; [q 1 2; q 1 2; q 0 1; q 0 1]; [q 1 1; q (-1) 2; q 0 1; q (-1) 2]].
Definition w_povm4 : list (lvec Qc_OF) :=
  [[q 1 2; q 0 1; q 0 1; q 1 2]; [q 1 2; q 0 1; q 0 1; q (-1) 2]; [q 1 2; q 1 2; q 0 1; q 0 1]; [q 1 2; q (-1) 2; q 0 1; q 0 1]].
Definition w_povm2 : list (lvec Qc_OF) := [[q 1 1; q 0 1; q 1 1; q 0 1]; [q 1 1; q 0 1; q (-1) 1; q 0 1]].
Definition w_eps : Qc := q 1 10000000000000.
Definition w_borns (povms : list (list (lvec Qc_OF))) : list (list Qc) :=
  map (fun i => qst_born Qc_OF 2 false 1%Qc (nth i povms []) (vl w_state)) [0; 1]%nat.

Lemma w_valid3 : forall p, In p (w_borns [w_povm3; w_povm2]) -> valid_dist Qc_OF w_eps p.
Proof. intros p Hp. cbn [w_borns map In] in Hp. destruct Hp as [<-|[<-|[]]]; (split;
  [ intros x Hx; vm_compute in Hx; right; repeat (destruct Hx as [<-|Hx]; [vm_compute; discriminate|]); destruct Hx
  | apply Qc_is_canon; vm_compute; reflexivity ]). Qed.
Lemma w_valid4 : forall p, In p (w_borns [w_povm4; w_povm2]) -> valid_dist Qc_OF w_eps p.
Proof. intros p Hp. cbn [w_borns map In] in Hp. destruct Hp as [<-|[<-|[]]]; (split;
  [ intros x Hx; vm_compute in Hx; right; repeat (destruct Hx as [<-|Hx]; [vm_compute; discriminate|]); destruct Hx
  | apply Qc_is_canon; vm_compute; reflexivity ]). Qed.

(* 3 + 2 outcomes: 5 is not a multiple of 2 schedules, the reshape raises; 4 + 2 outcomes: silently cut 3 + 3 *)
Theorem C08_calc_prob_dists_reshape_mixed_refuted :
  (exists (povms : list (list (lvec Qc_OF))) (v : rvec Qc_OF),
     let dct := qst_coeffs Qc_OF false 1%Qc povms [0; 1]%nat in
     let borns := map (fun i => qst_born Qc_OF 2 false 1%Qc (nth i povms []) v) [0; 1]%nat in
     affine (calc_matA dct) (calc_vecB dct) v = concat borns /\ (forall p, In p borns -> valid_dist Qc_OF w_eps p) /\
     calc_prob_dists_reshape Qc_OF w_eps (calc_matA dct) (calc_vecB dct) v (length borns) = None) /\
  (exists (povms : list (list (lvec Qc_OF))) (v : rvec Qc_OF) rows,
     let dct := qst_coeffs Qc_OF false 1%Qc povms [0; 1]%nat in
     let borns := map (fun i => qst_born Qc_OF 2 false 1%Qc (nth i povms []) v) [0; 1]%nat in
     affine (calc_matA dct) (calc_vecB dct) v = concat borns /\ (forall p, In p borns -> valid_dist Qc_OF w_eps p) /\
     calc_prob_dists_reshape Qc_OF w_eps (calc_matA dct) (calc_vecB dct) v (length borns) = Some rows /\
     map (@length Qc) rows = [3; 3]%nat /\ map (@length Qc) borns = [4; 2]%nat).
Proof. split.
  - exists [w_povm3; w_povm2], (vl w_state). cbv zeta. split; [|split].
    + apply (qst_forward Qc_OF 2 false 1%Qc); [discriminate|]. intros i Hi pv Hpv.
      destruct Hi as [<-|[<-|[]]]; cbn in Hpv; repeat (destruct Hpv as [<-|Hpv]; [reflexivity|]); destruct Hpv.
    + exact w_valid3.
    + vm_compute. reflexivity.
  - exists [w_povm4; w_povm2], (vl w_state). eexists. cbv zeta. split; [|split; [|split; [|split]]].
    + apply (qst_forward Qc_OF 2 false 1%Qc); [discriminate|]. intros i Hi pv Hpv.
      destruct Hi as [<-|[<-|[]]]; cbn in Hpv; repeat (destruct Hpv as [<-|Hpv]; [reflexivity|]); destruct Hpv.
    + exact w_valid4.
    + vm_compute. reflexivity.
    + vm_compute. reflexivity.
    + vm_compute. reflexivity. Qed.
Print Assumptions C08_calc_prob_dists_reshape_mixed_refuted.

(* the OLD calc_fisher_matrix slicing  rows [size*j, size*(j+1)), size = int(len(A)/num_schedules), with the 3 + 2 witness:
   for schedule 1 it uses rows 2..3 (the last outcome of schedule 0 and the first of schedule 1) instead of rows 3..4 *)
Theorem C08_fisher_evenslice_mixed_refuted :
  exists (povms : list (list (lvec Qc_OF))) (v : rvec Qc_OF),
    let dct := qst_coeffs Qc_OF false 1%Qc povms [0; 1]%nat in
    fisher_prob_dist_evenslice Qc_OF (calc_matA dct) (calc_vecB dct) v 2 1 = [q 3 10; q 3 5] /\
    qst_born Qc_OF 2 false 1%Qc (nth 1 povms []) v = [q 3 5; q 2 5].
Proof. exists [w_povm3; w_povm2], (vl w_state). cbv zeta. split.
  - vm_compute. repeat f_equal; apply Qc_is_canon; reflexivity.
  - vm_compute. repeat f_equal; apply Qc_is_canon; reflexivity. Qed.
Print Assumptions C08_fisher_evenslice_mixed_refuted.

(* ---- non-vacuity: the hypotheses of the forward theorems on a concrete, non-trivial instance over Qc
   (QPT, one qubit in the rational scaled basis, equality constraint on, two states x two POVMs with 3 and 2 outcomes,
   schedule list with a repetition and out of order), and the conclusion evaluated *)
Example C08_example_qpt :
  let states := [w_state; [q 1 2; q 0 1; q 0 1; q (-1) 2]] in
  let povms := [w_povm3; w_povm2] in
  let scheds := [(1, 1); (0, 0); (1, 1)]%nat in
  let v : rvec Qc_OF := fun i => q (Z.of_nat i) 7 in
  (forall ik, In ik scheds -> length (nth (fst ik) states []) = (2 * 2)%nat /\
                              forall pv, In pv (nth (snd ik) povms []) -> length pv = (2 * 2)%nat) /\
  length (calc_matA (qpt_coeffs Qc_OF true states povms scheds)) = 7%nat /\
  Forall (fun r => length r = 12%nat) (calc_matA (qpt_coeffs Qc_OF true states povms scheds)) /\
  affine (calc_matA (qpt_coeffs Qc_OF true states povms scheds)) (calc_vecB (qpt_coeffs Qc_OF true states povms scheds)) v
  = concat (map (fun ik => qpt_born Qc_OF 2 true (nth (fst ik) states []) (nth (snd ik) povms []) v) scheds).
Proof. cbv zeta. assert (H : forall ik, In ik [(1, 1); (0, 0); (1, 1)]%nat ->
    length (nth (fst ik) [w_state; [q 1 2; q 0 1; q 0 1; q (-1) 2]] []) = (2 * 2)%nat /\
    forall pv, In pv (nth (snd ik) [w_povm3; w_povm2] []) -> length pv = (2 * 2)%nat).
  { intros ik Hik. destruct Hik as [<-|[<-|[<-|[]]]]; (split; [reflexivity|]); intros pv Hpv; cbn in Hpv;
      repeat (destruct Hpv as [<-|Hpv]; [reflexivity|]); destruct Hpv. }
  split; [exact H|]. split; [vm_compute; reflexivity|]. split.
  - apply (proj1 (qpt_shape Qc_OF 2 true _ _ _ H)).
  - apply qpt_forward; [lia|exact H]. Qed.

(* the old guard on a wide matrix with independent rows (C09's smallest instance [[1, 0]]): "full rank" although the kernel is
   not trivial; the repaired guard says false *)
Theorem C08_is_fullrank_minshape_wide_refuted :
  exists A : list (lvec Qc_OF), (forall r, In r A -> length r = 2%nat) /\
    is_fullrank_matA_minshape Qc_OF 2 A = true /\ ~ kernel_trivial Qc_OF 2 A /\ is_fullrank_matA Qc_OF 2 A = false.
Proof. exists [[q 1 1; q 0 1]]. split; [|split; [|split]].
  - intros r [<-|[]]. reflexivity.
  - vm_compute. reflexivity.
  - intros Hk. apply (fullcolrank_dec_spec Qc_OF 2 [[q 1 1; q 0 1]]) in Hk.
    + vm_compute in Hk. discriminate.
    + intros r [<-|[]]. reflexivity.
  - vm_compute. reflexivity. Qed.
Print Assumptions C08_is_fullrank_minshape_wide_refuted.

(* the repaired calc_prob_dists / Fisher slice on the two witnesses: the schedules' own distributions *)
Example C08_example_calc_prob_dists_mixed :
  let v := vl w_state in
  (let dct := qst_coeffs Qc_OF false 1%Qc [w_povm3; w_povm2] [0; 1]%nat in
   calc_prob_dists Qc_OF w_eps (calc_matA dct) (calc_vecB dct) v (qst_counts Qc_OF [w_povm3; w_povm2] [0; 1]%nat)
     = [[q 3 8; q 13 40; q 3 10]; [q 3 5; q 2 5]] /\
   fisher_prob_dist Qc_OF (calc_matA dct) (calc_vecB dct) v (qst_counts Qc_OF [w_povm3; w_povm2] [0; 1]%nat) 1 = [q 3 5; q 2 5]) /\
  (let dct := qst_coeffs Qc_OF false 1%Qc [w_povm4; w_povm2] [0; 1]%nat in
   calc_prob_dists Qc_OF w_eps (calc_matA dct) (calc_vecB dct) v (qst_counts Qc_OF [w_povm4; w_povm2] [0; 1]%nat)
     = [[q 3 8; q 1 8; q 13 40; q 7 40]; [q 3 5; q 2 5]]).
Proof. cbv zeta. split; [split|].
  - vm_compute. repeat f_equal; apply Qc_is_canon; reflexivity.
  - vm_compute. repeat f_equal; apply Qc_is_canon; reflexivity.
  - vm_compute. repeat f_equal; apply Qc_is_canon; reflexivity. Qed.

(* the hypotheses of C08_qst_calc_prob_dists are satisfiable with MIXED outcome counts (3 and 2) *)
Example C08_example_qst_calc_prob_dists_hyps :
  (forall i, In i [0; 1]%nat -> forall pv, In pv (nth i [w_povm3; w_povm2] []) -> length pv = (2 * 2)%nat) /\
  (forall i, In i [0; 1]%nat -> valid_dist Qc_OF w_eps (qst_born Qc_OF 2 false 1%Qc (nth i [w_povm3; w_povm2] []) (vl w_state))) /\
  qst_counts Qc_OF [w_povm3; w_povm2] [0; 1]%nat = [3; 2]%nat.
Proof. split; [|split].
  - intros i Hi pv Hpv. destruct Hi as [<-|[<-|[]]]; cbn in Hpv; repeat (destruct Hpv as [<-|Hpv]; [reflexivity|]); destruct Hpv.
  - intros i Hi. apply w_valid3. destruct Hi as [<-|[<-|[]]]; [left|right; left]; reflexivity.
  - reflexivity. Qed.

(* the exact rank decision on a concrete complete / incomplete QST tester set (rows = effects of X-, Y-, Z-type POVMs) *)
Example C08_example_rank :
  fullcolrank_dec Qc_OF 4 (w_povm4 ++ w_povm2) = true /\ fullcolrank_dec Qc_OF 4 w_povm4 = false /\
  is_fullrank_matA_minshape Qc_OF 4 w_povm2 = true /\ is_fullrank_matA Qc_OF 4 w_povm2 = false.
Proof. repeat split; vm_compute; reflexivity. Qed.

(* the hypotheses of C08_qpt_fullrank_of_ic / C08_qmpt_fullrank_of_ic are satisfiable: one qubit (rational scaled basis), four
   states spanning the operator space, the X/Z 4-outcome POVM and the Y 2-outcome POVM (MIXED outcome counts), every pair
   scheduled once plus a repetition, out of order; and the conclusion in its decided form *)
Definition w_states4 : list (lvec Qc_OF) :=
  [[q 1 2; q 0 1; q 0 1; q 1 2]; [q 1 2; q 0 1; q 0 1; q (-1) 2]; [q 1 2; q 1 2; q 0 1; q 0 1]; [q 1 2; q 0 1; q 1 2; q 0 1]].
Definition w_scheds_ic : list (nat * nat) := [(3, 1); (0, 0); (0, 1); (1, 0); (1, 1); (2, 0); (2, 1); (3, 0); (0, 0)]%nat.
Example C08_example_ic_hyps :
  (forall ik, In ik w_scheds_ic -> length (nth (fst ik) w_states4 []) = (2 * 2)%nat /\
                                  forall pv, In pv (nth (snd ik) [w_povm4; w_povm2] []) -> length pv = (2 * 2)%nat) /\
  (forall i k, In i [0; 1; 2; 3]%nat -> In k [0; 1]%nat -> In (i, k) w_scheds_ic) /\
  separating Qc_OF (2 * 2) (map (fun i => nth i w_states4 []) [0; 1; 2; 3]%nat) /\
  separating Qc_OF (2 * 2) (concat (map (fun k => nth k [w_povm4; w_povm2] []) [0; 1]%nat)) /\
  fullcolrank_dec Qc_OF 12 (calc_matA (qpt_coeffs Qc_OF true w_states4 [w_povm4; w_povm2] w_scheds_ic)) = true.
Proof. split; [|split; [|split; [|split]]].
  - intros ik Hik. unfold w_scheds_ic in Hik. repeat (destruct Hik as [<-|Hik]; [split; [reflexivity|];
      intros pv Hpv; cbn in Hpv; repeat (destruct Hpv as [<-|Hpv]; [reflexivity|]); destruct Hpv|]). destruct Hik.
  - intros i k Hi Hk. repeat (destruct Hi as [<-|Hi]; [repeat (destruct Hk as [<-|Hk]; [vm_compute; tauto|]); destruct Hk|]). destruct Hi.
  - apply (separating_iff_kernel Qc_OF 4).
    + intros r Hr. cbn in Hr. repeat (destruct Hr as [<-|Hr]; [reflexivity|]). destruct Hr.
    + apply (fullcolrank_dec_spec Qc_OF 4).
      * intros r Hr. cbn in Hr. repeat (destruct Hr as [<-|Hr]; [reflexivity|]). destruct Hr.
      * vm_compute. reflexivity.
  - apply (separating_iff_kernel Qc_OF 4).
    + intros r Hr. cbn in Hr. repeat (destruct Hr as [<-|Hr]; [reflexivity|]). destruct Hr.
    + apply (fullcolrank_dec_spec Qc_OF 4).
      * intros r Hr. cbn in Hr. repeat (destruct Hr as [<-|Hr]; [reflexivity|]). destruct Hr.
      * vm_compute. reflexivity.
  - vm_compute. reflexivity. Qed.
