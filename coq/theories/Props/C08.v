(* C08 — the tomography forward model equals the circuit's Born-rule statistics: property theorems only.

   Vocabulary (Model/C08_Forward.v): tester vectors / coefficient rows are lists, the candidate variable vector
   v : nat -> F is ARBITRARY (every theorem is universal in v: nothing is discharged on a basis of variable space);
   [affine A b v] is  A v + b ;  [calc_matA], [calc_vecB] are the sorted stacking of the (schedule, outcome)-keyed
   dictionary built by the four _set_coeffs ; [qst_born] .. [qmpt_born] are the circuit semantics of ONE schedule
   (Born rule on coefficient vectors, HS matrix times state vector) with the unknown replaced by [object_of_var v]
   ([state_of_var], [povm_of_var], [hs_of_var], [hss_of_var]).  sqrt(dim) is the parameter [sd]; the theorems need
   only  sd <> 0  (weaker than sd * sd = d). All theorems hold for every ordered field F (executed: Qc; meant: R). *)
From Coq Require Import Arith List Bool Lia QArith Qcanon.
From QV.Core Require Import OF QcOF Sums Mat Cplx.
From QV.Model Require Import QObj C08_Forward.
From QV.Proofs Require Import C08_Forward.
Import ListNotations.

(* ---- forward model = Born statistics, whole stacked vector, schedule by schedule in schedule order, outcome by outcome.
   Any tester list, any schedule list (subsets, repetitions, permutations: [scheds] is an arbitrary list of tester
   indices), both flags, any dimension, any outcome counts, EVERY v. *)
Theorem C08_qst_forward : forall (F : OF) d para sd (povms : list (list (lvec F))) (scheds : list nat) (v : rvec F),
  sd <> c0 F ->
  (forall i, In i scheds -> forall pv, In pv (nth i povms []) -> length pv = (d * d)%nat) ->
  affine (calc_matA (qst_coeffs F para sd povms scheds)) (calc_vecB (qst_coeffs F para sd povms scheds)) v
  = concat (map (fun i => qst_born F d para sd (nth i povms []) v) scheds).
Proof. exact qst_forward. Qed.
Print Assumptions C08_qst_forward.

Theorem C08_povmt_forward : forall (F : OF) d para sd m (states : list (lvec F)) (scheds : list nat) (v : rvec F),
  (0 < d)%nat ->
  (forall i, In i scheds -> length (nth i states []) = (d * d)%nat) ->
  affine (calc_matA (povmt_coeffs F para sd m states scheds)) (calc_vecB (povmt_coeffs F para sd m states scheds)) v
  = concat (map (fun i => povmt_born F d para sd m (nth i states []) v) scheds).
Proof. exact povmt_forward. Qed.
Print Assumptions C08_povmt_forward.

Theorem C08_qpt_forward : forall (F : OF) d para (states : list (lvec F)) (povms : list (list (lvec F)))
    (scheds : list (nat * nat)) (v : rvec F),
  (0 < d)%nat ->
  (forall ik, In ik scheds -> length (nth (fst ik) states []) = (d * d)%nat /\
                              forall pv, In pv (nth (snd ik) povms []) -> length pv = (d * d)%nat) ->
  affine (calc_matA (qpt_coeffs F para states povms scheds)) (calc_vecB (qpt_coeffs F para states povms scheds)) v
  = concat (map (fun ik => qpt_born F d para (nth (fst ik) states []) (nth (snd ik) povms []) v) scheds).
Proof. exact qpt_forward. Qed.
Print Assumptions C08_qpt_forward.

(* QMPT: the constructor succeeds (no IndexError) for m >= 1 (m >= 2 with the equality constraint) and then ... *)
Theorem C08_qmpt_forward : forall (F : OF) d (para : bool) m (states : list (lvec F)) (povms : list (list (lvec F)))
    (scheds : list (nat * nat)),
  (0 < d)%nat -> ((if para then 2 else 1) <= m)%nat ->
  (forall ik, In ik scheds -> length (nth (fst ik) states []) = (d * d)%nat /\
                              forall pv, In pv (nth (snd ik) povms []) -> length pv = (d * d)%nat) ->
  exists dct, qmpt_coeffs F para (d * d) m states povms scheds = Some dct /\
    forall v : rvec F, affine (calc_matA dct) (calc_vecB dct) v
      = concat (map (fun ik => qmpt_born F d para m (nth (fst ik) states []) (nth (snd ik) povms []) v) scheds).
Proof. exact qmpt_forward. Qed.
Print Assumptions C08_qmpt_forward.

(* "restricted to schedule j, outcome x": entry offset_j + x of the stacked prediction, where offset_j is the sum of the
   outcome counts of the earlier schedules (generic in what the per-schedule distributions are) *)
Theorem C08_restrict_to_schedule : forall (F : OF) (l : list F) (borns : list (list F)) j x,
  l = concat borns -> (j < length borns)%nat -> (x < length (nth j borns []))%nat ->
  nth (offset (map (@length F) borns) j + x) l (c0 F) = nth x (nth j borns []) (c0 F).
Proof. exact restrict_to_schedule. Qed.
Print Assumptions C08_restrict_to_schedule.

(* sorted(dict.items()) stacking = rows in (schedule, outcome) insertion order, for ANY per-schedule row lists *)
Theorem C08_sorted_stacking : forall (F : OF) (ps : list (list (coeff F))),
  calc_matA (build_dict ps) = map fst (concat ps) /\ calc_vecB (build_dict ps) = map snd (concat ps).
Proof. intros F ps. split; [apply calc_matA_build|apply calc_vecB_build]. Qed.
Print Assumptions C08_sorted_stacking.

(* ---- A has num_variables columns, and one row per (schedule, outcome) *)
Theorem C08_qst_shape : forall (F : OF) d para sd (povms : list (list (lvec F))) (scheds : list nat),
  (forall i, In i scheds -> forall pv, In pv (nth i povms []) -> length pv = (d * d)%nat) ->
  let dct := qst_coeffs F para sd povms scheds in
  Forall (fun r => length r = qst_num_variables para d) (calc_matA dct) /\
  length (calc_matA dct) = natsum (qst_counts F povms scheds) /\ length (calc_vecB dct) = natsum (qst_counts F povms scheds).
Proof. exact qst_shape. Qed.
Print Assumptions C08_qst_shape.
Theorem C08_povmt_shape : forall (F : OF) d para sd m (states : list (lvec F)) (scheds : list nat),
  (forall i, In i scheds -> length (nth i states []) = (d * d)%nat) ->
  let dct := povmt_coeffs F para sd m states scheds in
  Forall (fun r => length r = povmt_num_variables para d m) (calc_matA dct) /\
  length (calc_matA dct) = (length scheds * m)%nat /\ length (calc_vecB dct) = (length scheds * m)%nat.
Proof. exact povmt_shape. Qed.
Print Assumptions C08_povmt_shape.
Theorem C08_qpt_shape : forall (F : OF) d para (states : list (lvec F)) (povms : list (list (lvec F))) (scheds : list (nat * nat)),
  (forall ik, In ik scheds -> length (nth (fst ik) states []) = (d * d)%nat /\
                              forall pv, In pv (nth (snd ik) povms []) -> length pv = (d * d)%nat) ->
  let dct := qpt_coeffs F para states povms scheds in
  Forall (fun r => length r = qpt_num_variables para d) (calc_matA dct) /\
  length (calc_matA dct) = natsum (qpt_counts F povms scheds) /\ length (calc_vecB dct) = natsum (qpt_counts F povms scheds).
Proof. exact qpt_shape. Qed.
Print Assumptions C08_qpt_shape.

(* ---- full column rank.
   (a) the executable exact elimination DECIDES triviality of the kernel (this is what the harness runs on the rational
       pre-image of A);
   (b) for every tomography type: kernel trivial <=> the unknown's variables are identified by the predicted statistics
       (instantiate [stat] with the right-hand sides of the four forward theorems);
   (c) QST without the constraint: <=> the scheduled effects separate coefficient vectors (informational completeness). *)
Theorem C08_fullcolrank_dec_spec : forall (F : OF) n (A : list (lvec F)),
  (forall r, In r A -> length r = n) -> (fullcolrank_dec F n A = true <-> kernel_trivial F n A).
Proof. exact fullcolrank_dec_spec. Qed.
Print Assumptions C08_fullcolrank_dec_spec.

(* FULL statement wanted: "A has full column rank <=> the tester set is informationally complete (states span and effects
   span the operator space)" for all four types. Proved: <=> identifiability of the variables from the schedules' Born
   statistics (all types); the span argument (tensor products of spanning sets span) for QPT/QMPT and the passage from
   identifiability to "spanning" are missing, as is "rank_elim = numerical matrix_rank" (is_fullrank_matA is compared by
   the harness only). *)
Theorem C08_fullrank_iff_identifiable_partial : forall (F : OF) n (A : list (lvec F)) (b : list F) (stat : rvec F -> list F),
  length A = length b -> (forall v, affine A b v = stat v) ->
  (kernel_trivial F n A <-> identifiable F n stat).
Proof. exact fullrank_iff_identifiable. Qed.
Print Assumptions C08_fullrank_iff_identifiable_partial.

Theorem C08_qst_fullrank_iff_ic : forall (F : OF) d sd (povms : list (list (lvec F))) (scheds : list nat),
  (forall i, In i scheds -> forall pv, In pv (nth i povms []) -> length pv = (d * d)%nat) ->
  (kernel_trivial F (d * d) (calc_matA (qst_coeffs F false sd povms scheds))
   <-> separating F (d * d) (concat (map (fun i => nth i povms []) scheds))).
Proof. exact qst_fullrank_iff_ic. Qed.
Print Assumptions C08_qst_fullrank_iff_ic.

(* ---- the two-step ensemble path quara takes for compose(povm, mprocess, state) gives the joint Born probability *)
Theorem C08_ensemble_path : forall (F : OF) d sd (pv : lvec F) (HS : rmat F) (s : lvec F),
  cmul F sd (mv (d * d) HS (vl s) O) <> c0 F ->
  ensemble_path F d sd pv HS s = born d (vl pv) (mv (d * d) HS (vl s)).
Proof. exact ensemble_path_ok. Qed.
Print Assumptions C08_ensemble_path.

(* ---- calc_prob_dists (as coded: reshape((num_schedules, -1)) + truncate_and_normalize).
   With EQUAL outcome counts it returns the schedules' distributions (for valid distributions: entries 0 or >= eps, sum 1) *)
Theorem C08_calc_prob_dists_equal_counts : forall (F : OF) eps (A : list (lvec F)) (b : list F) (v : rvec F) (borns : list (list F)) w,
  affine A b v = concat borns -> borns <> [] -> (0 < w)%nat -> (forall p, In p borns -> length p = w) ->
  (forall p, In p borns -> valid_dist F eps p) ->
  calc_prob_dists F eps A b v (length borns) = Some borns.
Proof. exact calc_prob_dists_equal_counts. Qed.
Print Assumptions C08_calc_prob_dists_equal_counts.

(* the same claim WITHOUT "equal outcome counts" is false of the code (DESIGN section 4 #10).
   Witnesses: one qubit, QST without constraint, coordinates w.r.t. the basis (I, X, Y, Z) scaled so that all entries are
   rational (effect a0 I + a.sigma -> (2 a0, 2 a), state (I + r.sigma)/2 -> (1/2, r/2)); state r = (0.3, 0.2, 0.5). *)
Definition q (n : Z) (d : positive) : Qc := Q2Qc (n # d).
Definition w_state : lvec Qc_OF := [q 1 2; q 3 20; q 1 10; q 1 4].
Definition w_povm3 : list (lvec Qc_OF) := [[q 1 2; q 0 1; q 0 1; q 1 2]; [q 1 2; q 1 2; q 0 1; q 0 1]; [q 1 1; q (-1) 2; q 0 1; q (-1) 2]].
Definition w_povm4 : list (lvec Qc_OF) :=
  [[q 1 2; q 0 1; q 0 1; q 1 2]; [q 1 2; q 0 1; q 0 1; q (-1) 2]; [q 1 2; q 1 2; q 0 1; q 0 1]; [q 1 2; q (-1) 2; q 0 1; q 0 1]].
Definition w_povm2 : list (lvec Qc_OF) := [[q 1 1; q 0 1; q 1 1; q 0 1]; [q 1 1; q 0 1; q (-1) 1; q 0 1]].
Definition w_eps : Qc := q 1 10000000000000.
Definition w_borns (povms : list (list (lvec Qc_OF))) : list (list Qc) :=
  map (fun i => qst_born Qc_OF 2 false 1%Qc (nth i povms []) (vl w_state)) [0; 1]%nat.

Lemma w_valid3 : forall p, In p (w_borns [w_povm3; w_povm2]) -> valid_dist Qc_OF w_eps p.
Proof. intros p Hp. cbn [w_borns map In] in Hp. destruct Hp as [<-|[<-|[]]]; (split;
  [ intros x Hx; vm_compute in Hx; right; repeat (destruct Hx as [<-|Hx]; [vm_compute; discriminate|]); destruct Hx
  | apply Qc_is_canon; vm_compute; reflexivity ]). Qed.
Lemma w_valid4 : forall p, In p (w_borns [w_povm4; w_povm2]) -> valid_dist Qc_OF w_eps p.
Proof. intros p Hp. cbn [w_borns map In] in Hp. destruct Hp as [<-|[<-|[]]]; (split;
  [ intros x Hx; vm_compute in Hx; right; repeat (destruct Hx as [<-|Hx]; [vm_compute; discriminate|]); destruct Hx
  | apply Qc_is_canon; vm_compute; reflexivity ]). Qed.

(* 3 + 2 outcomes: 5 is not a multiple of 2 schedules, the reshape raises; 4 + 2 outcomes: silently cut 3 + 3 *)
Theorem C08_calc_prob_dists_mixed_refuted :
  (exists (povms : list (list (lvec Qc_OF))) (v : rvec Qc_OF),
     let dct := qst_coeffs Qc_OF false 1%Qc povms [0; 1]%nat in
     let borns := map (fun i => qst_born Qc_OF 2 false 1%Qc (nth i povms []) v) [0; 1]%nat in
     affine (calc_matA dct) (calc_vecB dct) v = concat borns /\ (forall p, In p borns -> valid_dist Qc_OF w_eps p) /\
     calc_prob_dists Qc_OF w_eps (calc_matA dct) (calc_vecB dct) v (length borns) = None) /\
  (exists (povms : list (list (lvec Qc_OF))) (v : rvec Qc_OF) rows,
     let dct := qst_coeffs Qc_OF false 1%Qc povms [0; 1]%nat in
     let borns := map (fun i => qst_born Qc_OF 2 false 1%Qc (nth i povms []) v) [0; 1]%nat in
     affine (calc_matA dct) (calc_vecB dct) v = concat borns /\ (forall p, In p borns -> valid_dist Qc_OF w_eps p) /\
     calc_prob_dists Qc_OF w_eps (calc_matA dct) (calc_vecB dct) v (length borns) = Some rows /\
     map (@length Qc) rows = [3; 3]%nat /\ map (@length Qc) borns = [4; 2]%nat).
Proof. split.
  - exists [w_povm3; w_povm2], (vl w_state). cbv zeta. split; [|split].
    + apply (qst_forward Qc_OF 2 false 1%Qc); [discriminate|]. intros i Hi pv Hpv.
      destruct Hi as [<-|[<-|[]]]; cbn in Hpv; repeat (destruct Hpv as [<-|Hpv]; [reflexivity|]); destruct Hpv.
    + exact w_valid3.
    + vm_compute. reflexivity.
  - exists [w_povm4; w_povm2], (vl w_state). eexists. cbv zeta. split; [|split; [|split; [|split]]].
    + apply (qst_forward Qc_OF 2 false 1%Qc); [discriminate|]. intros i Hi pv Hpv.
      destruct Hi as [<-|[<-|[]]]; cbn in Hpv; repeat (destruct Hpv as [<-|Hpv]; [reflexivity|]); destruct Hpv.
    + exact w_valid4.
    + vm_compute. reflexivity.
    + vm_compute. reflexivity.
    + vm_compute. reflexivity. Qed.
Print Assumptions C08_calc_prob_dists_mixed_refuted.

(* calc_fisher_matrix's slicing  rows [size*j, size*(j+1)), size = int(len(A)/num_schedules), with the 3 + 2 witness:
   for schedule 1 it uses rows 2..3 (the last outcome of schedule 0 and the first of schedule 1) instead of rows 3..4 *)
Theorem C08_fisher_slice_mixed_refuted :
  exists (povms : list (list (lvec Qc_OF))) (v : rvec Qc_OF),
    let dct := qst_coeffs Qc_OF false 1%Qc povms [0; 1]%nat in
    fisher_prob_dist Qc_OF (calc_matA dct) (calc_vecB dct) v 2 1 = [q 3 10; q 3 5] /\
    qst_born Qc_OF 2 false 1%Qc (nth 1 povms []) v = [q 3 5; q 2 5].
Proof. exists [w_povm3; w_povm2], (vl w_state). cbv zeta. split.
  - vm_compute. repeat f_equal; apply Qc_is_canon; reflexivity.
  - vm_compute. repeat f_equal; apply Qc_is_canon; reflexivity. Qed.
Print Assumptions C08_fisher_slice_mixed_refuted.

(* ---- non-vacuity: the hypotheses of the forward theorems on a concrete, non-trivial instance over Qc
   (QPT, one qubit in the rational scaled basis, equality constraint on, two states x two POVMs with 3 and 2 outcomes,
   schedule list with a repetition and out of order), and the conclusion evaluated *)
Example C08_example_qpt :
  let states := [w_state; [q 1 2; q 0 1; q 0 1; q (-1) 2]] in
  let povms := [w_povm3; w_povm2] in
  let scheds := [(1, 1); (0, 0); (1, 1)]%nat in
  let v : rvec Qc_OF := fun i => q (Z.of_nat i) 7 in
  (forall ik, In ik scheds -> length (nth (fst ik) states []) = (2 * 2)%nat /\
                              forall pv, In pv (nth (snd ik) povms []) -> length pv = (2 * 2)%nat) /\
  length (calc_matA (qpt_coeffs Qc_OF true states povms scheds)) = 7%nat /\
  Forall (fun r => length r = 12%nat) (calc_matA (qpt_coeffs Qc_OF true states povms scheds)) /\
  affine (calc_matA (qpt_coeffs Qc_OF true states povms scheds)) (calc_vecB (qpt_coeffs Qc_OF true states povms scheds)) v
  = concat (map (fun ik => qpt_born Qc_OF 2 true (nth (fst ik) states []) (nth (snd ik) povms []) v) scheds).
Proof. cbv zeta. assert (H : forall ik, In ik [(1, 1); (0, 0); (1, 1)]%nat ->
    length (nth (fst ik) [w_state; [q 1 2; q 0 1; q 0 1; q (-1) 2]] []) = (2 * 2)%nat /\
    forall pv, In pv (nth (snd ik) [w_povm3; w_povm2] []) -> length pv = (2 * 2)%nat).
  { intros ik Hik. destruct Hik as [<-|[<-|[<-|[]]]]; (split; [reflexivity|]); intros pv Hpv; cbn in Hpv;
      repeat (destruct Hpv as [<-|Hpv]; [reflexivity|]); destruct Hpv. }
  split; [exact H|]. split; [vm_compute; reflexivity|]. split.
  - apply (proj1 (qpt_shape Qc_OF 2 true _ _ _ H)).
  - apply qpt_forward; [lia|exact H]. Qed.

(* the exact rank decision on a concrete complete / incomplete QST tester set (rows = effects of X-, Y-, Z-type POVMs) *)
Example C08_example_rank :
  fullcolrank_dec Qc_OF 4 (w_povm4 ++ w_povm2) = true /\ fullcolrank_dec Qc_OF 4 w_povm4 = false /\
  is_fullrank_matA Qc_OF 4 w_povm2 = true /\ fullcolrank_dec Qc_OF 4 w_povm2 = false.
Proof. repeat split; vm_compute; reflexivity. Qed.
