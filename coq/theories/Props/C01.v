(* C01 — physicality verdicts: property theorems only (proofs are in Proofs/C01_Verdicts.v, C01_Main.v, C01_Exec.v, C01_Examples.v,
   Core/C01_HermPsd.v).  Every theorem holds for every ordered field F (executed at Qc, meant at R), every dimension d, every
   outcome count m and every basis B satisfying the stated hypotheses; irrational constants (sd = sqrt d) are parameters.

   Model = Model/C01_Verdicts.v.  The verdicts are stated for rtol = 0 ("the absolute tolerance is the only slack"): this is quara
   AFTER the repairs fixes/C01-state-is-trace-one-rtol.diff and fixes/C01-povm-is-identity-sum-rtol.diff, and it is the model the
   harness compares the implementation with (the executed ops are proved equal to it: the C01_exec theorems).  The two [_refuted]
   theorems are about the same definitions at rtol = np_rtol = 1e-5, i.e. State.is_trace_one / Povm.is_identity_sum AS CODED
   BEFORE those repairs.

   Meaning of the words (spec level, DESIGN 2.9): "H + t*I positive semidefinite" is  forall x, 0 <= Re(x^dagger H x) + t*|x|^2
   ([hqf], [cnorm2]; equivalent to lambda_min(H) >= -t); "completely positive" is "Choi matrix positive semidefinite" (Choi's
   theorem is not re-proved); the Choi matrix is QObj.choi_of_hs = sum_ab HS_ab B_a (x) conj(B_b), the Choi matrix of the map
   for an orthonormal basis. *)
From Coq Require Import ZArith QArith Qcanon Arith Bool List.
From QV.Core Require Import OF QcOF Sums Mat Cplx Psd C01_HermPsd.
From QV.Exec Require Import Base Core_ops C01_ops.
From QV.Model Require Import QObj HermEmbed C01_Verdicts C01_History.
From QV.Proofs Require Import C01_Verdicts C01_Main C01_Exec C01_History C01_Examples.
Import ListNotations.

(* ================================================================== (a) the positive-semidefiniteness decision *)
(* the executable decision [herm_psd_dec n H t] decides  H + tI >= 0  for every Hermitian H, every dimension, every ordered field *)
Theorem C01_herm_psd_dec_spec : forall (F : OF) n (H : cmat F) (t : F), hermitian n H ->
  (herm_psd_dec F n H t = true <-> forall x : cvec F, kle F (c0 F) (cadd F (hqf n H x) (cmul F t (cnorm2 n x)))).
Proof. exact herm_psd_dec_spec. Qed.
Print Assumptions C01_herm_psd_dec_spec.

(* matrix_util.is_positive_semidefinite(H, atol) for ANY complex matrix: Hermitian within atol entrywise, and L + atol*I >= 0 for the
   lower-triangle Hermitian matrix L that eigvalsh reads *)
Theorem C01_mutil_is_psd_spec : forall (F : OF) n (H : cmat F) (atol : F),
  mutil_is_psd n H atol = true <->
  (mutil_is_hermitian n H atol = true /\
   forall x : cvec F, kle F (c0 F) (cadd F (hqf n (lowerherm H) x) (cmul F atol (cnorm2 n x)))).
Proof. exact mutil_is_psd_spec. Qed.
Print Assumptions C01_mutil_is_psd_spec.

(* ================================================================== (b) verdict = mathematical definition at the given tolerance *)
(* State.is_physical(atol_eq, atol_ineq): |Tr rho - 1| <= atol_eq  and  rho + atol_ineq*I >= 0 ; [None] = the global Settings value *)
Theorem C01_state_is_physical_iff : forall (F : OF) (st : F) d B (v : rvec F) aeq aineq,
  basis_hermitian d B -> kle F (c0 F) (resolve_atol st aineq) ->
  (state_is_physical st (c0 F) d B v aeq aineq = true <->
   kle F (kabs (csub F (re (state_trace d B v)) (c1 F))) (resolve_atol st aeq) /\
   forall x : cvec F, kle F (c0 F) (cadd F (hqf d (op_of_vec d B v) x) (cmul F (resolve_atol st aineq) (cnorm2 d x)))).
Proof. exact state_is_physical_iff. Qed.
Print Assumptions C01_state_is_physical_iff.

(* the equality sub-verdict alone (is_trace_one / is_eq_constraint_satisfied) *)
Theorem C01_state_trace_verdict_iff : forall (F : OF) d B (v : rvec F) (atol : F), basis_hermitian d B ->
  (state_is_trace_one d B v atol (c0 F) = true <-> kle F (kabs (csub F (re (state_trace d B v)) (c1 F))) atol).
Proof. exact state_trace_verdict_iff. Qed.
Print Assumptions C01_state_trace_verdict_iff.

(* the inequality sub-verdict alone *)
Theorem C01_state_is_psd_iff : forall (F : OF) d B (v : rvec F) (atol : F), basis_hermitian d B -> kle F (c0 F) atol ->
  (state_is_psd d B v atol = true <->
   forall x : cvec F, kle F (c0 F) (cadd F (hqf d (op_of_vec d B v) x) (cmul F atol (cnorm2 d x)))).
Proof. exact state_is_psd_iff. Qed.
Print Assumptions C01_state_is_psd_iff.

(* tolerance 0: exactly the unit-trace positive semidefinite operators *)
Theorem C01_state_physical_exact_iff : forall (F : OF) (st : F) d B (v : rvec F), basis_hermitian d B ->
  (state_is_physical st (c0 F) d B v (Some (c0 F)) (Some (c0 F)) = true <->
   state_trace d B v = c1 (CF F) /\ HPSD d (op_of_vec d B v)).
Proof. exact state_physical_exact_iff. Qed.
Print Assumptions C01_state_physical_exact_iff.

(* Povm.is_physical: max_ij |(sum_x Pi_x - I)_ij| <= atol_eq (squared complex modulus) and every element + atol_ineq*I >= 0 *)
Theorem C01_povm_is_physical_iff : forall (F : OF) (st : F) d B m (vs : nat -> rvec F) aeq aineq,
  (0 < d)%nat -> basis_hermitian d B -> kle F (c0 F) (resolve_atol st aineq) ->
  (povm_is_physical st (c0 F) d B m vs aeq aineq = true <->
   (kle F (c0 F) (resolve_atol st aeq) /\
    forall i j, (i < d)%nat -> (j < d)%nat ->
      kle F (znorm2 (zsub (povm_sum d B m vs i j) (cdelta i j))) (cmul F (resolve_atol st aeq) (resolve_atol st aeq))) /\
   forall k, (k < m)%nat -> forall x : cvec F,
     kle F (c0 F) (cadd F (hqf d (op_of_vec d B (vs k)) x) (cmul F (resolve_atol st aineq) (cnorm2 d x)))).
Proof. exact povm_is_physical_iff. Qed.
Print Assumptions C01_povm_is_physical_iff.

Theorem C01_povm_physical_exact_iff : forall (F : OF) (st : F) d B m (vs : nat -> rvec F), (0 < d)%nat -> basis_hermitian d B ->
  (povm_is_physical st (c0 F) d B m vs (Some (c0 F)) (Some (c0 F)) = true <->
   (forall i j, (i < d)%nat -> (j < d)%nat -> povm_sum d B m vs i j = cdelta i j) /\
   forall k, (k < m)%nat -> HPSD d (op_of_vec d B (vs k))).
Proof. exact povm_physical_exact_iff. Qed.
Print Assumptions C01_povm_physical_exact_iff.

(* Gate.is_physical, branch taken on an (orthonormal, Hermitian, identity-first) basis: first row of HS within atol_eq of e_0,
   Choi matrix + atol_ineq*I >= 0 *)
Theorem C01_gate_is_physical_row_iff : forall (F : OF) (st : F) d B (HS : rmat F) aeq aineq,
  basis_hermitian d B -> kle F (c0 F) (resolve_atol st aineq) ->
  (gate_is_physical st true d B HS aeq aineq = true <->
   (forall a, (a < d * d)%nat -> kle F (kabs (csub F (HS O a) (rdelta O a))) (resolve_atol st aeq)) /\
   forall x : cvec F,
     kle F (c0 F) (cadd F (hqf (d * d) (choi_of_hs d B HS) x) (cmul F (resolve_atol st aineq) (cnorm2 (d * d) x)))).
Proof. exact gate_is_physical_row_iff. Qed.
Print Assumptions C01_gate_is_physical_row_iff.

(* ... the basis-generic branch: |Tr G(B_a) - Tr B_a| <= atol_eq for every basis element *)
Theorem C01_gate_is_physical_trace_iff : forall (F : OF) (st : F) d B (HS : rmat F) aeq aineq,
  (0 < d)%nat -> basis_hermitian d B -> kle F (c0 F) (resolve_atol st aineq) ->
  (gate_is_physical st false d B HS aeq aineq = true <->
   (kle F (c0 F) (resolve_atol st aeq) /\
    forall a, (a < d * d)%nat ->
      kle F (znorm2 (zsub (gate_image_trace d B HS a) (mtrace d (B a)))) (cmul F (resolve_atol st aeq) (resolve_atol st aeq))) /\
   forall x : cvec F,
     kle F (c0 F) (cadd F (hqf (d * d) (choi_of_hs d B HS) x) (cmul F (resolve_atol st aineq) (cnorm2 (d * d) x)))).
Proof. exact gate_is_physical_trace_iff. Qed.
Print Assumptions C01_gate_is_physical_trace_iff.

(* ... hence the trace branch at tolerance sd*atol IS the first-row branch at tolerance atol *)
Theorem C01_gate_tp_branches_agree : forall (F : OF) d (sd : F) B (HS : rmat F) (atol : F),
  basis_orthonormal d B -> basis_0th_identity d sd B -> (0 < d)%nat -> kle F (c0 F) sd -> sd <> c0 F ->
  gate_is_tp_trace d B HS (cmul F sd atol) = gate_is_tp_row d HS atol.
Proof. exact gate_tp_branches_agree. Qed.
Print Assumptions C01_gate_tp_branches_agree.

(* tolerance 0, basis-generic branch, ANY basis (no orthonormality, no Hermiticity, no normalisation): true exactly when the map
   X = sum_a v_a B_a |-> sum_ab HS_ab v_b B_a preserves the trace of every X *)
Theorem C01_gate_tp_trace_exact_iff : forall (F : OF) d B (HS : rmat F), (0 < d)%nat ->
  (gate_is_tp_trace d B HS (c0 F) = true <->
   forall v : rvec F, mtrace d (op_of_vec d B (mv (d * d) HS v)) = mtrace d (op_of_vec d B v)).
Proof. exact gate_tp_trace_exact_iff. Qed.
Print Assumptions C01_gate_tp_trace_exact_iff.

(* tolerance 0, standard basis, either branch: trace preserving on all operators and Choi matrix positive semidefinite *)
Theorem C01_gate_physical_exact_iff : forall (F : OF) (st : F) flag d (sd : F) B (HS : rmat F),
  basis_orthonormal d B -> basis_hermitian d B -> basis_0th_identity d sd B -> (0 < d)%nat -> sd <> c0 F ->
  (gate_is_physical st flag d B HS (Some (c0 F)) (Some (c0 F)) = true <->
   (forall v : rvec F, mtrace d (op_of_vec d B (mv (d * d) HS v)) = mtrace d (op_of_vec d B v)) /\
   HPSD (d * d) (choi_of_hs d B HS)).
Proof. exact gate_physical_exact_iff. Qed.
Print Assumptions C01_gate_physical_exact_iff.

(* link to C06 (C06_kraus_form_is_cp: for every Kraus-form map, hermitian (Choi) /\ PSD (embed Choi)): the CP verdict is true for every such
   map at every tolerance >= 0, and at tolerance 0 the CP verdict IS "PSD (embed Choi)" *)
Theorem C01_gate_is_cp_of_embed_psd : forall (F : OF) d B (HS : rmat F) (atol : F), basis_hermitian d B -> kle F (c0 F) atol ->
  PSD F (d * d + d * d) (embed F (d * d) (choi_of_hs d B HS)) -> gate_is_cp d B HS atol = true.
Proof. exact gate_is_cp_of_embed_psd. Qed.
Print Assumptions C01_gate_is_cp_of_embed_psd.

Theorem C01_gate_is_cp_0_iff_embed_psd : forall (F : OF) d B (HS : rmat F), basis_hermitian d B ->
  (gate_is_cp d B HS (c0 F) = true <-> PSD F (d * d + d * d) (embed F (d * d) (choi_of_hs d B HS))).
Proof. exact gate_is_cp_0_iff_embed_psd. Qed.
Print Assumptions C01_gate_is_cp_0_iff_embed_psd.

(* MProcess.is_physical: the SUM of the outcome maps trace preserving within atol_eq, every outcome completely positive within atol_ineq *)
Theorem C01_mprocess_is_physical_iff : forall (F : OF) (st : F) d B m (hss : nat -> rmat F) aeq aineq,
  basis_hermitian d B -> kle F (c0 F) (resolve_atol st aineq) ->
  (mprocess_is_physical st true d B m hss aeq aineq = true <->
   (forall a, (a < d * d)%nat -> kle F (kabs (csub F (mprocess_sum_hs m hss O a) (rdelta O a))) (resolve_atol st aeq)) /\
   forall k, (k < m)%nat -> forall x : cvec F,
     kle F (c0 F) (cadd F (hqf (d * d) (choi_of_hs d B (hss k)) x) (cmul F (resolve_atol st aineq) (cnorm2 (d * d) x)))).
Proof. exact mprocess_is_physical_iff. Qed.
Print Assumptions C01_mprocess_is_physical_iff.

Theorem C01_mprocess_physical_exact_iff : forall (F : OF) (st : F) d (sd : F) B m (hss : nat -> rmat F),
  basis_orthonormal d B -> basis_hermitian d B -> basis_0th_identity d sd B -> (0 < d)%nat -> sd <> c0 F ->
  (mprocess_is_physical st true d B m hss (Some (c0 F)) (Some (c0 F)) = true <->
   (forall v : rvec F, mtrace d (op_of_vec d B (mv (d * d) (mprocess_sum_hs m hss) v)) = mtrace d (op_of_vec d B v)) /\
   forall k, (k < m)%nat -> HPSD (d * d) (choi_of_hs d B (hss k))).
Proof. exact mprocess_physical_exact_iff. Qed.
Print Assumptions C01_mprocess_physical_exact_iff.

(* ================================================================== (c) loosening a tolerance never turns a true verdict false *)
(* is_physical of the four types; for explicit tolerances and for the Settings default alike; holds for every rtol, in particular
   for the code before and after the repairs *)
Theorem C01_verdicts_monotone : forall (F : OF) (st st' rtol : F) flag d B (v : rvec F) m (vs : nat -> rvec F) (HS : rmat F) (hss : nat -> rmat F)
    aeq aeq' aineq aineq',
  kle F (resolve_atol st aeq) (resolve_atol st' aeq') -> kle F (resolve_atol st aineq) (resolve_atol st' aineq') ->
  (state_is_physical st rtol d B v aeq aineq = true -> state_is_physical st' rtol d B v aeq' aineq' = true) /\
  (povm_is_physical st rtol d B m vs aeq aineq = true -> povm_is_physical st' rtol d B m vs aeq' aineq' = true) /\
  (gate_is_physical st flag d B HS aeq aineq = true -> gate_is_physical st' flag d B HS aeq' aineq' = true) /\
  (mprocess_is_physical st flag d B m hss aeq aineq = true -> mprocess_is_physical st' flag d B m hss aeq' aineq' = true).
Proof. intros F st st' rtol flag d B v m vs HS hss aeq aeq' aineq aineq' H1 H2.
  split; [now apply state_is_physical_mono|]. split; [now apply povm_is_physical_mono|].
  split; [now apply gate_is_physical_mono|now apply mprocess_is_physical_mono]. Qed.
Print Assumptions C01_verdicts_monotone.

(* every equality / inequality sub-verdict by itself (the PSD verdict for every matrix, Hermitian or not) *)
Theorem C01_subverdicts_monotone : forall (F : OF) (rtol : F) flag d B (v : rvec F) m (vs : nat -> rvec F) (HS : rmat F) (hss : nat -> rmat F)
    n (H : cmat F) (atol atol' : F), kle F atol atol' ->
  (state_is_trace_one d B v atol rtol = true -> state_is_trace_one d B v atol' rtol = true) /\
  (state_is_psd d B v atol = true -> state_is_psd d B v atol' = true) /\
  (povm_is_identity_sum d B m vs atol rtol = true -> povm_is_identity_sum d B m vs atol' rtol = true) /\
  (povm_is_psd d B m vs atol = true -> povm_is_psd d B m vs atol' = true) /\
  (gate_is_tp flag d B HS atol = true -> gate_is_tp flag d B HS atol' = true) /\
  (gate_is_cp d B HS atol = true -> gate_is_cp d B HS atol' = true) /\
  (mprocess_is_sum_tp flag d B m hss atol = true -> mprocess_is_sum_tp flag d B m hss atol' = true) /\
  (mprocess_is_cp d B m hss atol = true -> mprocess_is_cp d B m hss atol' = true) /\
  (mutil_is_psd n H atol = true -> mutil_is_psd n H atol' = true).
Proof. intros F rtol flag d B v m vs HS hss n H atol atol' Ha.
  split; [now apply state_is_trace_one_mono|]. split; [now apply state_is_psd_mono|].
  split; [now apply povm_is_identity_sum_mono|]. split; [now apply povm_is_psd_mono|].
  split; [now apply gate_is_tp_mono|]. split; [now apply gate_is_cp_mono|].
  split; [now apply mprocess_is_sum_tp_mono|]. split; [now apply mprocess_is_cp_mono|now apply mutil_is_psd_mono]. Qed.
Print Assumptions C01_subverdicts_monotone.

(* ================================================================== (d) "the absolute tolerance is the only slack" *)
(* After the repairs this is (b) (the thresholds are exactly atol).  About the code AS IT WAS BEFORE the repairs (numpy's default
   rtol = 1e-5 in State.is_trace_one and Povm.is_identity_sum) the statement is false: *)
Theorem C01_state_trace_default_rtol_refuted :
  exists (d : nat) (sd : Qc) (B : nat -> cmat Qc_OF) (v : rvec Qc_OF) (atol : Qc),
    basis_orthonormal d B /\ basis_hermitian d B /\ @basis_0th_identity Qc_OF d sd B /\ kle Qc_OF (c0 Qc_OF) atol /\
    state_is_trace_one d B v atol np_rtol = true /\
    ~ kle Qc_OF (kabs (csub Qc_OF (re (state_trace d B v)) (c1 Qc_OF))) atol.
Proof. exact state_trace_verdict_refuted. Qed.
Print Assumptions C01_state_trace_default_rtol_refuted.

Theorem C01_povm_identity_sum_default_rtol_refuted :
  exists (d : nat) (sd : Qc) (B : nat -> cmat Qc_OF) (m : nat) (vs : nat -> rvec Qc_OF) (atol : Qc),
    basis_orthonormal d B /\ basis_hermitian d B /\ @basis_0th_identity Qc_OF d sd B /\ kle Qc_OF (c0 Qc_OF) atol /\
    povm_is_identity_sum d B m vs atol np_rtol = true /\
    exists i j, (i < d)%nat /\ (j < d)%nat /\
      ~ kle Qc_OF (znorm2 (zsub (povm_sum d B m vs i j) (cdelta i j))) (cmul Qc_OF atol atol).
Proof. exact povm_identity_sum_refuted. Qed.
Print Assumptions C01_povm_identity_sum_default_rtol_refuted.

(* the same two witnesses (trace / identity-sum defect 5e-6, atol = 1e-13) are rejected by the repaired verdicts and constructors *)
Theorem C01_witnesses_rejected_after_fix :
  state_is_trace_one 4 pauli2n w_state w_atol (c0 Qc_OF) = false /\ @state_ctor_raises Qc_OF w_atol (c0 Qc_OF) 4 pauli2n w_state true = true /\
  povm_is_identity_sum 4 pauli2n 2 w_povm w_atol (c0 Qc_OF) = false /\ @povm_ctor_raises Qc_OF w_atol (c0 Qc_OF) 4 pauli2n 2 w_povm true = true.
Proof. exact witnesses_rejected_after_fix. Qed.
Print Assumptions C01_witnesses_rejected_after_fix.

(* ================================================================== (e) constructors *)
(* Constructing with is_physicality_required=True succeeds exactly for the objects that are physical at the Settings tolerance *)
Theorem C01_ctor_accepts_iff : forall (F : OF) (st : F) flag d B (v : rvec F) m (vs : nat -> rvec F) (HS : rmat F) (hss : nat -> rmat F),
  (0 < d)%nat -> basis_hermitian d B -> kle F (c0 F) st ->
  (state_ctor_raises st (c0 F) d B v true = false <->
     kle F (kabs (csub F (re (state_trace d B v)) (c1 F))) st /\
     forall x : cvec F, kle F (c0 F) (cadd F (hqf d (op_of_vec d B v) x) (cmul F st (cnorm2 d x)))) /\
  (povm_ctor_raises st (c0 F) d B m vs true = false <->
     (kle F (c0 F) st /\ forall i j, (i < d)%nat -> (j < d)%nat ->
        kle F (znorm2 (zsub (povm_sum d B m vs i j) (cdelta i j))) (cmul F st st)) /\
     forall k, (k < m)%nat -> forall x : cvec F, kle F (c0 F) (cadd F (hqf d (op_of_vec d B (vs k)) x) (cmul F st (cnorm2 d x)))) /\
  (gate_ctor_raises st true d B HS true = false <->
     (forall a, (a < d * d)%nat -> kle F (kabs (csub F (HS O a) (rdelta O a))) st) /\
     forall x : cvec F, kle F (c0 F) (cadd F (hqf (d * d) (choi_of_hs d B HS) x) (cmul F st (cnorm2 (d * d) x)))) /\
  (* MProcess: additionally every CompositeSystem whose basis flag is False is rejected *)
  (mprocess_ctor_raises st flag d B m hss true = false <->
     flag = true /\
     (forall a, (a < d * d)%nat -> kle F (kabs (csub F (mprocess_sum_hs m hss O a) (rdelta O a))) st) /\
     forall k, (k < m)%nat -> forall x : cvec F,
       kle F (c0 F) (cadd F (hqf (d * d) (choi_of_hs d B (hss k)) x) (cmul F st (cnorm2 (d * d) x)))).
Proof. intros F st flag d B v m vs HS hss Hd HB Hs.
  split; [now apply state_ctor_accepts_iff|]. split; [now apply povm_ctor_accepts_iff|].
  split; [now apply gate_ctor_accepts_row_iff|now apply mprocess_ctor_accepts_iff]. Qed.
Print Assumptions C01_ctor_accepts_iff.

(* in general (any rtol, any flag): raise iff required and not physical *)
Theorem C01_ctor_raises_iff : forall (F : OF) (st rtol : F) flag d B (v : rvec F) m (vs : nat -> rvec F) (HS : rmat F) (hss : nat -> rmat F) required,
  (state_ctor_raises st rtol d B v required = true <-> (required = true /\ state_is_physical st rtol d B v None None = false)) /\
  (povm_ctor_raises st rtol d B m vs required = true <-> (required = true /\ povm_is_physical st rtol d B m vs None None = false)) /\
  (gate_ctor_raises st flag d B HS required = true <-> (required = true /\ gate_is_physical st flag d B HS None None = false)) /\
  (mprocess_ctor_raises st flag d B m hss required = true <->
     (flag = false \/ (required = true /\ mprocess_is_physical st flag d B m hss None None = false))).
Proof. intros. split; [apply state_ctor_raises_iff|]. split; [apply povm_ctor_raises_iff|].
  split; [apply gate_ctor_raises_iff|apply mprocess_ctor_raises_iff]. Qed.
Print Assumptions C01_ctor_raises_iff.

(* loosening the Settings tolerance never turns an accepted construction into a raise *)
Theorem C01_ctor_accept_mono : forall (F : OF) (st st' rtol : F) flag d B (v : rvec F) m (vs : nat -> rvec F) (HS : rmat F) (hss : nat -> rmat F) required,
  kle F st st' ->
  (state_ctor_raises st rtol d B v required = false -> state_ctor_raises st' rtol d B v required = false) /\
  (povm_ctor_raises st rtol d B m vs required = false -> povm_ctor_raises st' rtol d B m vs required = false) /\
  (gate_ctor_raises st flag d B HS required = false -> gate_ctor_raises st' flag d B HS required = false) /\
  (mprocess_ctor_raises st flag d B m hss required = false -> mprocess_ctor_raises st' flag d B m hss required = false).
Proof. intros F st st' rtol flag d B v m vs HS hss required H.
  split; [now apply state_ctor_accept_mono|]. split; [now apply povm_ctor_accept_mono|].
  split; [now apply gate_ctor_accept_mono|now apply mprocess_ctor_accept_mono]. Qed.
Print Assumptions C01_ctor_accept_mono.

(* ================================================================== (f) origin and zero objects *)
(* for every dimension, every outcome count, every basis with B_0 = I/sd (sd*sd = d), every non-negative tolerance
   (gate / instrument under the basis-generic TP branch: the basis moreover orthonormal) *)
Theorem C01_origin_objects_physical : forall (F : OF) (st rtol : F) flag d (sd : F) B m aeq aineq,
  (flag = false -> basis_orthonormal d B) -> basis_0th_identity d sd B -> cmul F sd sd = knat d -> kle F (c0 F) sd ->
  (0 < d)%nat -> (0 < m)%nat ->
  kle F (c0 F) (resolve_atol st aeq) -> kle F (c0 F) (resolve_atol st aineq) -> kle F (c0 F) rtol ->
  state_is_physical st rtol d B (state_origin sd) aeq aineq = true /\
  povm_is_physical st rtol d B m (povm_origin sd m) aeq aineq = true /\
  gate_is_physical st flag d B (@gate_origin F) aeq aineq = true /\
  mprocess_is_physical st flag d B m (mprocess_origin m) aeq aineq = true.
Proof. intros F st rtol flag d sd B m aeq aineq Ho H0 Hsd Hs Hd Hm Ha1 Ha2 Hr.
  split; [now apply state_origin_physical|]. split; [now apply povm_origin_physical|].
  split; [now apply (gate_origin_physical F st flag d sd)|now apply (mprocess_origin_physical F st flag d sd)]. Qed.
Print Assumptions C01_origin_objects_physical.

(* the zero objects denote the zero operator (density matrix / POVM elements / Choi matrices and image of every operator), ANY basis *)
Theorem C01_zero_objects_are_zero : forall (F : OF) d B (v : rvec F) x i j,
  op_of_vec d B (@state_zero F) i j = c0 (CF F) /\
  op_of_vec d B (@povm_zero F x) i j = c0 (CF F) /\
  choi_of_hs d B (@gate_zero F) i j = c0 (CF F) /\ op_of_vec d B (mv (d * d) (@gate_zero F) v) i j = c0 (CF F) /\
  choi_of_hs d B (@mprocess_zero F x) i j = c0 (CF F).
Proof. intros F d B v x i j. split; [apply state_zero_is_zero_operator|]. split; [apply povm_zero_is_zero_operator|].
  split; [apply (gate_zero_is_zero_operator F d B v i j)|]. split; [apply (gate_zero_is_zero_operator F d B v i j)|apply mprocess_zero_is_zero_operator]. Qed.
Print Assumptions C01_zero_objects_are_zero.

(* ================================================================== (g) histories of queries on one object *)
(* Model/C01_History.v: an object is an immutable value, the only mutable thing a verdict sees is the global Settings atol; a history is a
   sequence of Settings.set_atol(x) and queries (equality / inequality / is_physical, each tolerance optional).  The answer to a query
   after ANY history h1, whatever follows, is the pure verdict at the tolerance in force at that call: the explicit argument, else the
   value set last in h1 (else the initial one) -- independent of earlier queries and earlier settings.  [veq], [vineq] : the pure verdicts
   of the object as functions of the tolerance, any object type (instances: C01_history_instances). *)
Theorem C01_history_answer : forall (F : OF) (veq vineq : F -> bool) (st : F) (h1 : list (hop F)) q a b (h2 : list (hop F)),
  nth (length (run_history veq vineq st h1)) (run_history veq vineq st (h1 ++ HQuery q a b :: h2)) false
  = hanswer veq vineq (final_settings st h1) q a b.
Proof. exact history_answer. Qed.
Print Assumptions C01_history_answer.

(* the whole answer list: queries are inert (no memo, no side effect), only set_atol changes what later atol=None queries see *)
Theorem C01_history_queries_inert : forall (F : OF) (veq vineq : F -> bool) (st : F) (h1 : list (hop F)) q a b (h2 : list (hop F)),
  run_history veq vineq st (h1 ++ HQuery q a b :: h2)
  = run_history veq vineq st h1 ++ hanswer veq vineq (final_settings st h1) q a b :: run_history veq vineq (final_settings st h1) h2.
Proof. exact history_queries_inert. Qed.
Print Assumptions C01_history_queries_inert.

(* for the four object types the is_physical answer of a history step is the model's is_physical at the setting in force *)
Theorem C01_history_instances : forall (F : OF) (st rtol : F) flag d B (v : rvec F) m (vs : nat -> rvec F) (HS : rmat F) (hss : nat -> rmat F) a b,
  hanswer (fun t => state_is_trace_one d B v t rtol) (state_is_psd d B v) st QPhys a b = state_is_physical st rtol d B v a b /\
  hanswer (fun t => povm_is_identity_sum d B m vs t rtol) (povm_is_psd d B m vs) st QPhys a b = povm_is_physical st rtol d B m vs a b /\
  hanswer (gate_is_tp flag d B HS) (gate_is_cp d B HS) st QPhys a b = gate_is_physical st flag d B HS a b /\
  hanswer (mprocess_is_sum_tp flag d B m hss) (mprocess_is_cp d B m hss) st QPhys a b = mprocess_is_physical st flag d B m hss a b.
Proof. intros. split; [apply hanswer_state|]. split; [apply hanswer_povm|]. split; [apply hanswer_gate|apply hanswer_mprocess]. Qed.
Print Assumptions C01_history_instances.

(* ================================================================== tie: the executed ops ARE the model *)
(* what the harness obtains from the extracted driver for a request is exactly the model's verdicts on the decoded request *)
Theorem C01_exec_state : forall (dz en inn rq : Z) (st aeq aineq rtol : Qc) (l : list Qc),
  let d := Z.to_nat dz in let B := dec_basis d l in let v := vec_of_list 0%Qc (dec_data d l) in
  let a1 := @resolve_atol Qc_OF st (opt en aeq) in let a2 := @resolve_atol Qc_OF st (opt inn aineq) in
  op_state [dz; en; inn; rq] (st :: aeq :: aineq :: rtol :: l) =
  Ok [re (state_trace d B v); im (state_trace d B v); qb (state_is_trace_one d B v a1 rtol);
      qb (state_is_hermitian d B v a2); qb (state_is_psd d B v a2);
      qb (@state_is_physical Qc_OF st rtol d B v (opt en aeq) (opt inn aineq));
      qb (@state_ctor_raises Qc_OF st rtol d B v (zb rq))].
Proof. exact op_state_spec. Qed.
Print Assumptions C01_exec_state.

Theorem C01_exec_povm : forall (dz mz en inn rq : Z) (st aeq aineq rtol : Qc) (l : list Qc),
  let d := Z.to_nat dz in let m := Z.to_nat mz in let B := dec_basis d l in let vs := vecs_of_flat (d * d) m (dec_data d l) in
  let a1 := @resolve_atol Qc_OF st (opt en aeq) in let a2 := @resolve_atol Qc_OF st (opt inn aineq) in
  op_povm [dz; mz; en; inn; rq] (st :: aeq :: aineq :: rtol :: l) =
  Ok ([qb (povm_is_identity_sum d B m vs a1 rtol); qb (povm_is_psd d B m vs a2);
       qb (@povm_is_physical Qc_OF st rtol d B m vs (opt en aeq) (opt inn aineq));
       qb (@povm_ctor_raises Qc_OF st rtol d B m vs (zb rq))] ++ flat_of_cmat d d (povm_sum d B m vs)).
Proof. exact op_povm_spec. Qed.
Print Assumptions C01_exec_povm.

Theorem C01_exec_gate : forall (dz fl en inn rq wc : Z) (st aeq aineq : Qc) (l : list Qc),
  let d := Z.to_nat dz in let B := dec_basis d l in let HS := rmat_of_flat (d * d) (d * d) (dec_data d l) in
  let a1 := @resolve_atol Qc_OF st (opt en aeq) in let a2 := @resolve_atol Qc_OF st (opt inn aineq) in
  op_gate [dz; fl; en; inn; rq; wc] (st :: aeq :: aineq :: l) =
  Ok ([qb (gate_is_tp_row d HS a1); qb (gate_is_tp_trace d B HS a1); qb (gate_is_tp (zb fl) d B HS a1);
       qb (mutil_is_hermitian (d * d) (choi_of_hs d B HS) a2); qb (gate_is_cp d B HS a2);
       qb (@gate_is_physical Qc_OF st (zb fl) d B HS (opt en aeq) (opt inn aineq));
       qb (@gate_ctor_raises Qc_OF st (zb fl) d B HS (zb rq))]
      ++ (if zb wc then flat_of_cmat (d * d) (d * d) (choi_of_hs d B HS) else [])).
Proof. exact op_gate_spec. Qed.
Print Assumptions C01_exec_gate.

Theorem C01_exec_gate_tp : forall (dz : Z) (a_row a_trace : Qc) (l : list Qc),
  let d := Z.to_nat dz in let B := dec_basis d l in let HS := rmat_of_flat (d * d) (d * d) (dec_data d l) in
  op_gate_tp [dz] (a_row :: a_trace :: l) = Ok [qb (gate_is_tp_row d HS a_row); qb (gate_is_tp_trace d B HS a_trace)].
Proof. exact op_gate_tp_spec. Qed.
Print Assumptions C01_exec_gate_tp.

Theorem C01_exec_origin : forall (dz mz : Z) (sd : Qc),
  let d := Z.to_nat dz in let m := Z.to_nat mz in let n := (d * d)%nat in
  op_origin [0%Z; dz; mz] [sd] = Ok (list_of_vec n (@state_origin Qc_OF sd) ++ list_of_vec n (@state_zero Qc_OF)) /\
  op_origin [1%Z; dz; mz] [sd] = Ok (concat (map (fun x => list_of_vec n (@povm_origin Qc_OF sd m x)) (seq 0 m))
                                     ++ concat (map (fun x => list_of_vec n (@povm_zero Qc_OF x)) (seq 0 m))) /\
  op_origin [2%Z; dz; mz] [sd] = Ok (flat_of_rmat n n (@gate_origin Qc_OF) ++ flat_of_rmat n n (@gate_zero Qc_OF)) /\
  op_origin [3%Z; dz; mz] [sd] = Ok (concat (map (fun x => flat_of_rmat n n (@mprocess_origin Qc_OF m x)) (seq 0 m))
                                     ++ concat (map (fun x => flat_of_rmat n n (@mprocess_zero Qc_OF x)) (seq 0 m))).
Proof. exact op_origin_spec. Qed.
Print Assumptions C01_exec_origin.

Theorem C01_exec_mprocess : forall (dz mz fl en inn rq : Z) (st aeq aineq : Qc) (l : list Qc),
  let d := Z.to_nat dz in let m := Z.to_nat mz in let B := dec_basis d l in let hss := mats_of_flat (d * d) m (dec_data d l) in
  (0 < d)%nat ->
  op_mprocess [dz; mz; fl; en; inn; rq] (st :: aeq :: aineq :: l) =
  Ok [qb (mprocess_is_sum_tp (zb fl) d B m hss (@resolve_atol Qc_OF st (opt en aeq)));
      qb (mprocess_is_cp d B m hss (@resolve_atol Qc_OF st (opt inn aineq)));
      qb (@mprocess_is_physical Qc_OF st (zb fl) d B m hss (opt en aeq) (opt inn aineq));
      qb (@mprocess_ctor_raises Qc_OF st (zb fl) d B m hss (zb rq))].
Proof. exact op_mprocess_spec. Qed.
Print Assumptions C01_exec_mprocess.

(* ================================================================== Examples: the hypotheses are satisfiable, the verdicts are not constant *)
(* the exactly rational 2-qubit normalised Pauli basis (entries 0, +-1/2, +-i/2) is orthonormal, Hermitian, B_0 = I/2, 2*2 = 4 *)
Example C01_example_basis :
  basis_orthonormal 4 pauli2n /\ basis_hermitian 4 pauli2n /\ @basis_0th_identity Qc_OF 4 q2 pauli2n /\
  cmul Qc_OF q2 q2 = @knat Qc_OF 4 /\ kle Qc_OF (c0 Qc_OF) q2 /\ q2 <> c0 Qc_OF.
Proof. split; [exact pauli2n_orthonormal|]. split; [exact pauli2n_hermitian|]. split; [exact pauli2n_identity0|exact sd2]. Qed.
(* a pure state (rank 1: on the boundary) is physical at tolerance 0 and its constructor does not raise under Settings atol 0 *)
Example C01_example_pure_state : @state_is_physical Qc_OF q0 q0 4 pauli2n ex_pure (Some q0) (Some q0) = true
                              /\ @state_ctor_raises Qc_OF q0 q0 4 pauli2n ex_pure true = false.
Proof. exact ex_pure_physical. Qed.
(* ... hence, by C01_state_physical_exact_iff, it has unit trace and is positive semidefinite *)
Example C01_example_pure_state_meaning : state_trace 4 pauli2n ex_pure = c1 (CF Qc_OF) /\ HPSD 4 (op_of_vec 4 pauli2n ex_pure).
Proof. exact (proj1 (C01_state_physical_exact_iff Qc_OF q0 4 pauli2n ex_pure pauli2n_hermitian) (proj1 ex_pure_physical)). Qed.
(* a unit-trace operator with smallest eigenvalue -1/4: PSD verdict false at atol 1/5, true at atol 1/4; the constructor raises iff required *)
Example C01_example_nonphysical_state :
  state_is_trace_one 4 pauli2n ex_neg q0 q0 = true
  /\ @state_is_physical Qc_OF q0 q0 4 pauli2n ex_neg (Some q0) (Some (qc 1 5)) = false
  /\ @state_is_physical Qc_OF q0 q0 4 pauli2n ex_neg (Some q0) (Some (qc 1 4)) = true
  /\ @state_ctor_raises Qc_OF (qc 1 5) q0 4 pauli2n ex_neg true = true
  /\ @state_ctor_raises Qc_OF (qc 1 5) q0 4 pauli2n ex_neg false = false.
Proof. exact ex_neg_verdicts. Qed.
(* a projective two-outcome measurement *)
Example C01_example_projective_povm : @povm_is_physical Qc_OF q0 q0 4 pauli2n 2 ex_proj (Some q0) (Some q0) = true
                                   /\ @povm_ctor_raises Qc_OF q0 q0 4 pauli2n 2 ex_proj true = false.
Proof. exact ex_proj_physical. Qed.
(* the identity gate (unitary) under both TP branches; transposition: TP but not CP (Choi eigenvalue -1); 2*id: CP but not TP (defect 1, resp. sd*1) *)
Example C01_example_gates :
  (@gate_is_physical Qc_OF q0 true 4 pauli2n hs_id (Some q0) (Some q0) = true
   /\ @gate_is_physical Qc_OF q0 false 4 pauli2n hs_id (Some q0) (Some q0) = true
   /\ @gate_ctor_raises Qc_OF q0 true 4 pauli2n hs_id true = false) /\
  (gate_is_tp true 4 pauli2n hs_transpose q0 = true /\ gate_is_tp false 4 pauli2n hs_transpose q0 = true
   /\ gate_is_cp 4 pauli2n hs_transpose (qc 1 2) = false /\ gate_is_cp 4 pauli2n hs_transpose 1%Qc = true
   /\ @gate_ctor_raises Qc_OF (qc 1 2) true 4 pauli2n hs_transpose true = true) /\
  (gate_is_cp 4 pauli2n hs_twice q0 = true
   /\ gate_is_tp true 4 pauli2n hs_twice (qc 1 2) = false /\ gate_is_tp false 4 pauli2n hs_twice (qc 1 2) = false
   /\ gate_is_tp true 4 pauli2n hs_twice 1%Qc = true /\ gate_is_tp false 4 pauli2n hs_twice (qc 2 1) = true).
Proof. split; [exact hs_id_physical|]. split; [exact hs_transpose_verdicts|exact hs_twice_verdicts]. Qed.
(* a two-outcome instrument (physical; rejected outright on a basis whose flag is False) and one whose sum is off by 1/3 *)
Example C01_example_instruments :
  @mprocess_is_physical Qc_OF q0 true 4 pauli2n 2 ex_instr (Some q0) (Some q0) = true
  /\ @mprocess_ctor_raises Qc_OF q0 true 4 pauli2n 2 ex_instr true = false
  /\ @mprocess_ctor_raises Qc_OF q0 false 4 pauli2n 2 ex_instr false = true
  /\ @mprocess_is_physical Qc_OF q0 true 4 pauli2n 2 ex_instr_bad (Some (qc 1 4)) (Some q0) = false
  /\ @mprocess_is_physical Qc_OF q0 true 4 pauli2n 2 ex_instr_bad (Some (qc 1 3)) (Some q0) = true.
Proof. exact ex_instr_physical. Qed.
(* the origin-object theorems apply to the example basis *)
Example C01_example_origin : forall st : Qc, kle Qc_OF (c0 Qc_OF) st ->
  @state_is_physical Qc_OF st (c0 Qc_OF) 4 pauli2n (@state_origin Qc_OF q2) None None = true /\
  @povm_is_physical Qc_OF st (c0 Qc_OF) 4 pauli2n 3 (@povm_origin Qc_OF q2 3) None None = true /\
  @gate_is_physical Qc_OF st false 4 pauli2n (@gate_origin Qc_OF) None None = true /\
  @mprocess_is_physical Qc_OF st false 4 pauli2n 3 (@mprocess_origin Qc_OF 3) None None = true.
Proof. intros st Hst. destruct sd2 as [S1 [S2 S3]].
  exact (C01_origin_objects_physical Qc_OF st (c0 Qc_OF) false 4 q2 pauli2n 3 None None (fun _ => pauli2n_orthonormal) pauli2n_identity0 S1 S2
           (le_S _ _ (le_S _ _ (le_S _ _ (le_n 1)))) (le_S _ _ (le_S _ _ (le_n 1))) Hst Hst (k_refl Qc_OF _)). Qed.
(* one object, a history: Settings 1/5 -> is_physical() False; Settings 1/4 -> True; Settings 1/5 again -> PSD verdict False again;
   explicit atol 1/4 while Settings is 1/5 -> True; trace verdict True throughout *)
Example C01_example_history :
  @run_history Qc_OF (fun t => state_is_trace_one 4 pauli2n ex_neg t q0) (state_is_psd 4 pauli2n ex_neg) q0
    [@HSet Qc_OF (qc 1 5); HQuery QPhys None None; @HSet Qc_OF (qc 1 4); HQuery QPhys None None; @HSet Qc_OF (qc 1 5); HQuery QIneq None None;
     @HQuery Qc_OF QIneq None (Some (qc 1 4)); HQuery QEq None None]
  = [false; true; false; true; true].
Proof. exact ex_neg_history. Qed.
