(* C01 — physicality verdicts: property theorems only. *)
From Coq Require Import Arith Bool List.
From QV.Core Require Import OF Sums Mat Cplx Psd C01_HermPsd.
From QV.Model Require Import QObj HermEmbed C01_Verdicts.
From QV.Proofs Require Import C01_Verdicts.

(* the executable decision [herm_psd_dec n H t] decides  H + tI >= 0  for every Hermitian H, every dimension, every ordered field *)
Theorem C01_herm_psd_dec_spec : forall (F : OF) n (H : cmat F) (t : F), hermitian n H ->
  (herm_psd_dec F n H t = true <-> forall x : cvec F, kle F (c0 F) (cadd F (hqf n H x) (cmul F t (cnorm2 n x)))).
Proof. exact herm_psd_dec_spec. Qed.
Print Assumptions C01_herm_psd_dec_spec.
