(* C18 — Lindbladian generators decompose, recompose and exponentiate correctly: property theorems only.

   The model (Model/C18_Lindblad.v) is quara/objects/effective_lindbladian.py AS REPAIRED by
   fixes/c18-calc-j-mat-identity-component.diff and fixes/c18-jump-operators-cdagger-c.diff; the harness compares the
   implementation with THIS model.  The two `_refuted` theorems are about [calc_j_mat_prefix] / [jump_d_prefix], the routines
   AS CODED BEFORE those fixes (kept so that the recorded defects stay documented and are recognised if they return).

   Conventions: d = dimension, B = matrix basis (d*d elements, B 0 = I/sd with sd*sd = d), K = (d*d-1) x (d*d-1) coefficient
   matrix indexed from 0 (K a b belongs to B (S a), B (S b)); superoperators in the computational basis act on row-major
   vectorisations ([apply_cb]); [chs_of_cb] = gate.convert_hs (comp basis -> B).  All theorems hold for every ordered field
   F (executed instance: Qc; also R), every dimension d > 0 and every basis with the stated properties. *)
From Coq Require Import ZArith Arith List Bool.
From QV.Core Require Import OF QcOF Sums Mat Cplx Psd.
From QV.Model Require Import QObj HermEmbed C18_Lindblad.
From QV.Proofs Require Import C18_Algebra C18_Misc C18_Action C18_Extract C18_Rebuild C18_Verdict C18_Convert C18_Physical
  C18_Hermitian C18_JumpHK C18_JumpPSD C18_TaylorHP C18_TaylorTail C18_Bundle C18_Witness C18_ExecEq.
From QV.Exec Require Import C18_ops.
Import ListNotations.

(* ================================================================ 1. GKSL action *)
(* generate_hs_from_hk / _from_h / _from_k: for EVERY family B, Hermitian H and Hermitian K (PSD or not) the generator acts on
   every matrix rho as  -i[H,rho] + sum_ab K_ab (B_a rho B_b^dagger - 1/2 {B_b^dagger B_a, rho}) *)
Theorem C18_gksl_action_hk : forall (F : OF) (d : nat), (0 < d)%nat ->
  forall (B : nat -> cmat F) (H K rho : cmat F), hermitian d H -> hermitian (d * d - 1) K ->
  forall i j, (i < d)%nat -> (j < d)%nat -> apply_cb d (lcb_hk d B H K) rho i j = gksl d B H K rho i j.
Proof. exact apply_lcb_hk_gksl. Qed.
Print Assumptions C18_gksl_action_hk.

(* generate_hs_from_hjk (J given independently): X |-> -i(HX - XH^dagger) + JX + XJ^dagger + sum K_ab B_a X B_b^dagger, no hypotheses *)
Theorem C18_action_hjk : forall (F : OF) (d : nat), (0 < d)%nat ->
  forall (B : nat -> cmat F) (H J K X : cmat F) i j, (i < d)%nat -> (j < d)%nat ->
  apply_cb d (lcb_hjk d B H J K) X i j = gen_hjk_map F d B H J K X i j.
Proof. exact apply_lcb_hjk. Qed.
Print Assumptions C18_action_hjk.

(* jump operators (any number of arbitrary d x d matrices):  sum_c  c rho c^dagger - 1/2 {c^dagger c, rho} *)
Theorem C18_gksl_action_jump : forall (F : OF) (d : nat), (0 < d)%nat ->
  forall (cs : list (cmat F)) (rho : cmat F) i j, (i < d)%nat -> (j < d)%nat ->
  apply_cb d (jump_d d cs) rho i j = gksl_jump d cs rho i j.
Proof. exact apply_jump_gksl. Qed.
Print Assumptions C18_gksl_action_jump.

(* the jump-operator generator in (H, K) form: for jump operators given as c = a I + sum_b g_b B_{b+1} (any family B; for an orthonormal
   basis with B_0 = I/sd: a = tr c / d, g_b = <B_{b+1}, c>) the generator equals, entry by entry, the generator of
   K = sum_c g g^dagger and H_eff = sum_c (i/2)(conj a c' - a c'^dagger), c' = c - a I; H_eff and K are Hermitian; and the two forms
   of the GKSL right-hand side agree on every matrix.  (So the identity component of a jump operator matters: it is H_eff.) *)
Theorem C18_jump_hk_form : forall (F : OF) (d : nat), (0 < d)%nat ->
  forall (B : nat -> cmat F) (l : list (CF F * (nat -> CF F))),
  meq (d * d) (d * d) (jump_d d (jumps_ops d B l)) (lcb_hk d B (jumps_H d B l) (jumps_K l)) /\
  hermitian d (jumps_H d B l) /\ hermitian (d * d - 1) (jumps_K l) /\
  (forall (rho : cmat F) i j, (i < d)%nat -> (j < d)%nat ->
     gksl_jump d (jumps_ops d B l) rho i j = gksl d B (jumps_H d B l) (jumps_K l) rho i j).
Proof. exact jump_hk_form. Qed.
Print Assumptions C18_jump_hk_form.

(* consequently (K = sum g g^dagger is PSD: sum of squares): the stored generator of EVERY set of jump operators is judged physical,
   for every tolerance atol >= 0 (orthonormal Hermitian complete basis with B_0 = I/sd) *)
Theorem C18_jump_generator_physical : forall (F : OF) (d : nat), (0 < d)%nat ->
  forall (B : nat -> cmat F) (sd : F), basis_orthonormal d B -> basis_hermitian d B -> basis_0th_identity d sd B ->
  cmul F sd sd = ofnat d -> basis_complete d B ->
  forall (l : list (CF F * (nat -> CF F))) (atol : F), kle F (c0 F) atol ->
  is_physical_dec F d B atol (cre (chs_of_cb d B (jump_d d (jumps_ops d B l)))) = true.
Proof. exact jump_generator_physical. Qed.
Print Assumptions C18_jump_generator_physical.

(* the routine AS CODED BEFORE FIX c18-jump-operators-cdagger-c (c in place of c^dagger c) violates the GKSL equation and trace
   preservation: c = |0><1|, rho = |1><1| on one qubit *)
Theorem C18_jump_prefix_refuted :
  apply_cb 2 (jump_d_prefix 2 [w_c]) w_rho 1%nat 1%nat <> gksl_jump 2 [w_c] w_rho 1%nat 1%nat /\
  mtrace 2 (apply_cb 2 (jump_d_prefix 2 [w_c]) w_rho) <> c0 (CF Qc_OF).
Proof. exact jump_prefix_witness. Qed.
Print Assumptions C18_jump_prefix_refuted.

(* the generator annihilates the trace of every matrix, its HS matrix has a vanishing first row, and that matrix is REAL (so the
   "imaginary part left" error branch of generate_hs_from_hk is unreachable in exact arithmetic) *)
Theorem C18_generator_tp_real : forall (F : OF) (d : nat), (0 < d)%nat ->
  forall (B : nat -> cmat F) (sd : F), basis_hermitian d B -> basis_0th_identity d sd B -> cmul F sd sd = ofnat d ->
  forall H K : cmat F, hermitian d H -> hermitian (d * d - 1) K ->
  (forall rho : cmat F, mtrace d (apply_cb d (lcb_hk d B H K) rho) = c0 (CF F)) /\
  (forall b, chs_of_cb d B (lcb_hk d B H K) 0%nat b = c0 (CF F)) /\
  (forall a b, (a < d * d)%nat -> (b < d * d)%nat -> im (chs_of_cb d B (lcb_hk d B H K) a b) = c0 F).
Proof. exact generator_tp_real. Qed.
Print Assumptions C18_generator_tp_real.

(* ================================================================ 2. extraction, rebuild, parts *)
(* for all Hermitian H, J and EVERY coefficient matrix K: calc_j_mat gives J, calc_k_mat gives K, calc_h_mat gives H minus its
   identity component (which generates nothing) *)
Theorem C18_extract : forall (F : OF) (d : nat), (0 < d)%nat ->
  forall (B : nat -> cmat F) (sd : F), basis_orthonormal d B -> basis_hermitian d B -> basis_0th_identity d sd B ->
  cmul F sd sd = ofnat d -> basis_complete d B ->
  forall H J K : cmat F, hermitian d H -> hermitian d J ->
  meq d d (calc_j_mat d B (lcb_hjk d B H J K)) J /\
  meq (d * d - 1) (d * d - 1) (calc_k_mat d B (lcb_hjk d B H J K)) K /\
  meq d d (calc_h_mat d B (lcb_hjk d B H J K))
    (fun i j => csub (CF F) (H i j) (cmul (CF F) (zof (vec_of_op d B H 0%nat)) (B 0%nat i j))).
Proof. exact extract_hjk. Qed.
Print Assumptions C18_extract.

(* for a GKSL generator (generate_hs_from_hk) the extracted anti-commutator matrix is J(K) = -1/2 sum K_ab B_b^dagger B_a *)
Theorem C18_extract_hk : forall (F : OF) (d : nat), (0 < d)%nat ->
  forall (B : nat -> cmat F) (sd : F), basis_orthonormal d B -> basis_hermitian d B -> basis_0th_identity d sd B ->
  cmul F sd sd = ofnat d -> basis_complete d B ->
  forall H K : cmat F, hermitian d H -> hermitian (d * d - 1) K ->
  meq d d (calc_j_mat d B (lcb_hk d B H K)) (j_of_k d B K) /\
  meq (d * d - 1) (d * d - 1) (calc_k_mat d B (lcb_hk d B H K)) K /\
  meq d d (calc_h_mat d B (lcb_hk d B H K))
    (fun i j => csub (CF F) (H i j) (cmul (CF F) (zof (vec_of_op d B H 0%nat)) (B 0%nat i j))).
Proof. exact extract_hk. Qed.
Print Assumptions C18_extract_hk.

(* extract-then-rebuild is the identity, for generate_hs_from_hjk(H, J, K) and for generate_hs_from_hk(H, K)
   (computational basis; conversion to the basis B is injective: C18_convert_roundtrip) *)
Theorem C18_extract_rebuild : forall (F : OF) (d : nat), (0 < d)%nat ->
  forall (B : nat -> cmat F) (sd : F), basis_orthonormal d B -> basis_hermitian d B -> basis_0th_identity d sd B ->
  cmul F sd sd = ofnat d -> basis_complete d B ->
  (forall H J K : cmat F, hermitian d H -> hermitian d J ->
     meq (d * d) (d * d) (rebuild_cb d B (lcb_hjk d B H J K)) (lcb_hjk d B H J K)) /\
  (forall H K : cmat F, hermitian d H -> hermitian (d * d - 1) K ->
     meq (d * d) (d * d) (rebuild_cb d B (lcb_hk d B H K)) (lcb_hk d B H K)).
Proof. exact rebuild_both. Qed.
Print Assumptions C18_extract_rebuild.

(* h part + j part + k part = whole, in the computational basis and in the matrix basis B *)
Theorem C18_parts_sum : forall (F : OF) (d : nat), (0 < d)%nat ->
  forall (B : nat -> cmat F) (sd : F), basis_orthonormal d B -> basis_hermitian d B -> basis_0th_identity d sd B ->
  cmul F sd sd = ofnat d -> basis_complete d B ->
  forall H J K : cmat F, hermitian d H -> hermitian d J ->
  let L := lcb_hjk d B H J K in
  meq (d * d) (d * d)
    (madd (madd (h_part d (calc_h_mat d B L)) (j_part d (calc_j_mat d B L))) (k_part d B (calc_k_mat d B L))) L /\
  (forall a b,
     cadd (CF F) (cadd (CF F) (chs_of_cb d B (h_part d (calc_h_mat d B L)) a b) (chs_of_cb d B (j_part d (calc_j_mat d B L)) a b))
                 (chs_of_cb d B (k_part d B (calc_k_mat d B L)) a b) = chs_of_cb d B L a b).
Proof. exact parts_sum_both. Qed.
Print Assumptions C18_parts_sum.

(* calc_j_mat AS CODED BEFORE FIX c18-calc-j-mat-identity-component (loop over basis[1:]) returns a wrong matrix, and extract-then-
   rebuild changes the generator, for EVERY generator whose anti-commutator matrix has a non-zero identity component
   (tr J <> 0: every generator with a non-zero dissipator) *)
Theorem C18_calc_j_mat_prefix_refuted : forall (F : OF) (d : nat), (0 < d)%nat ->
  forall (B : nat -> cmat F) (sd : F), basis_orthonormal d B -> basis_hermitian d B -> basis_0th_identity d sd B ->
  cmul F sd sd = ofnat d ->
  forall (hv jv : rvec F) (K : cmat F), jv 0%nat <> c0 F ->
  let L := lcb_hjk d B (op_of_vec d B hv) (op_of_vec d B jv) K in
  ~ meq d d (calc_j_mat_prefix d B L) (op_of_vec d B jv) /\ ~ meq (d * d) (d * d) (rebuild_cb_prefix d B L) L.
Proof. exact prefix_refuted. Qed.
Print Assumptions C18_calc_j_mat_prefix_refuted.

(* conversion comp basis -> B -> comp basis is the identity (gate.convert_hs there and back) *)
Theorem C18_convert_roundtrip : forall (F : OF) (d : nat), (0 < d)%nat ->
  forall B : nat -> cmat F, basis_complete d B ->
  forall L : cmat F, meq (d * d) (d * d) (cb_of_chs d B (chs_of_cb d B L)) L.
Proof. exact cb_of_chs_of_cb. Qed.
Print Assumptions C18_convert_roundtrip.

(* the sparse tables of CompositeSystem compute the slow formulas *)
Theorem C18_sparse_tables : forall (F : OF) (d : nat) (B : nat -> cmat F) (K : cmat F),
  (forall s t, (t < d * d)%nat -> k_part_sparse d B K s t = k_part d B K s t) /\
  (forall i j, (j < d)%nat -> j_of_k_sparse d B K i j = j_of_k d B K i j).
Proof. exact sparse_tables_eq. Qed.
Print Assumptions C18_sparse_tables.

(* ================================================================ 3. verdicts *)
(* is_tp(atol): first row within atol of zero (atol = 0: exactly zero); is_cp(atol): the extracted k matrix is Hermitian within
   atol and its Hermitian part + atol I is positive semidefinite (complex PSD through the real embedding);
   is_physical = is_tp and is_cp *)
Theorem C18_verdict_spec : forall (F : OF) (d : nat) (B : nat -> cmat F) (atol : F) (HS : rmat F),
  let K := calc_k_mat d B (cb_of_hs d B HS) in let k := (d * d - 1)%nat in
  (is_tp_dec F (d * d) atol HS = true <-> (forall j, (j < d * d)%nat -> kle F (HS 0%nat j) atol /\ kle F (copp F atol) (HS 0%nat j))) /\
  (is_tp_dec F (d * d) (c0 F) HS = true <-> row0_zero F (d * d) HS) /\
  (is_cp_dec F d B atol HS = true <->
     (forall i j, (i < k)%nat -> (j < k)%nat -> kle F (znorm2 (csub (CF F) (K i j) (zconj (K j i)))) (cmul F atol atol)) /\
     PSD F (k + k) (shiftI F atol (embed F k (herm_part K)))) /\
  (is_physical_dec F d B atol HS = true <-> is_tp_dec F (d * d) atol HS = true /\ is_cp_dec F d B atol HS = true).
Proof. exact verdict_spec. Qed.
Print Assumptions C18_verdict_spec.

(* end to end: the stored HS matrix of generate_hs_from_hk(H, K) is judged physical  iff  K + atol I is positive semidefinite;
   its first row vanishes identically, so the TP half always holds *)
Theorem C18_physical_iff_dissipator_psd : forall (F : OF) (d : nat), (0 < d)%nat ->
  forall (B : nat -> cmat F) (sd : F), basis_orthonormal d B -> basis_hermitian d B -> basis_0th_identity d sd B ->
  cmul F sd sd = ofnat d -> basis_complete d B ->
  forall (H K : cmat F) (atol : F), hermitian d H -> hermitian (d * d - 1) K -> kle F (c0 F) atol ->
  (is_physical_dec F d B atol (cre (chs_of_cb d B (lcb_hk d B H K))) = true <->
   PSD F (d * d - 1 + (d * d - 1)) (shiftI F atol (embed F (d * d - 1) K))).
Proof. exact generated_physical_iff. Qed.
Print Assumptions C18_physical_iff_dissipator_psd.

(* ================================================================ 4. projections *)
(* equality projection: zeroes exactly the first row, identity on generators with zero first row, idempotent, and the nearest
   point (Pythagoras) of the set { first row = 0 } *)
Theorem C18_proj_eq : forall (F : OF) n (X : rmat F),
  row0_zero F n (proj_eq X) /\ (forall i j, i <> 0%nat -> proj_eq X i j = X i j) /\
  (row0_zero F n X -> meq n n (proj_eq X) X) /\ (forall i j, proj_eq (proj_eq X) i j = proj_eq X i j) /\
  (forall Z : rmat F, row0_zero F n Z ->
     dist2 F n X Z = cadd F (dist2 F n X (proj_eq X)) (dist2 F n (proj_eq X) Z) /\
     kle F (dist2 F n X (proj_eq X)) (dist2 F n X Z)).
Proof. exact proj_eq_all. Qed.
Print Assumptions C18_proj_eq.

(* inequality projection = rebuild with K replaced by K' (K' comes from numpy's eig: an oracle, certificate-checked per run):
   the result has dissipator matrix K' (so a physical dissipator whenever K' is PSD), keeps the Hamiltonian and anti-commutator
   matrices, and IS the input when K' = K *)
Theorem C18_proj_ineq_spec : forall (F : OF) (d : nat), (0 < d)%nat ->
  forall (B : nat -> cmat F) (sd : F), basis_orthonormal d B -> basis_hermitian d B -> basis_0th_identity d sd B ->
  cmul F sd sd = ofnat d -> basis_complete d B ->
  forall H J K : cmat F, hermitian d H -> hermitian d J -> forall K' : cmat F,
  meq (d * d - 1) (d * d - 1) (calc_k_mat d B (proj_ineq_cb d B (lcb_hjk d B H J K) K')) K' /\
  meq d d (calc_h_mat d B (proj_ineq_cb d B (lcb_hjk d B H J K) K')) (calc_h_mat d B (lcb_hjk d B H J K)) /\
  meq d d (calc_j_mat d B (proj_ineq_cb d B (lcb_hjk d B H J K) K')) (calc_j_mat d B (lcb_hjk d B H J K)) /\
  (meq (d * d - 1) (d * d - 1) K' K -> meq (d * d) (d * d) (proj_ineq_cb d B (lcb_hjk d B H J K) K') (lcb_hjk d B H J K)).
Proof. exact proj_ineq_hjk. Qed.
Print Assumptions C18_proj_ineq_spec.

(* the step between the eigen-decomposition (oracle) and the rebuild: the clipped eigenvalue list is non-negative for EVERY input list, is the
   input when that is non-negative (physical generators unchanged) and is all zeros when every eigenvalue is negative; the source's clipping
   loop is proved equal to [clip_neg] on every run (coq/gen/C18_Equiv.v, C18_gen_proj_ineq) *)
Theorem C18_proj_ineq_clip : forall (F : OF) (l : list F),
  Forall (fun x => kle F (c0 F) x) (clip_neg l) /\ (Forall (fun x => kle F (c0 F) x) l -> clip_neg l = l) /\
  (Forall (fun x => kle F x (c0 F) /\ x <> c0 F) l -> clip_neg l = map (fun _ => c0 F) l) /\ length (clip_neg l) = length l.
Proof. exact clip_neg_spec. Qed.
Print Assumptions C18_proj_ineq_clip.

(* the certificate the check evaluates on K' (real symmetric embedding): X = output, Y = input.  With slack eps, delta it bounds
   the distance to every PSD Z; exact form: X is THE nearest PSD point, and a PSD input is left unchanged (X = Y) *)
Theorem C18_psd_certificate : forall (F : OF) k (X Y : rmat F), symmetric F k X -> symmetric F k Y ->
  (forall (Z : rmat F) eps delta, symmetric F k Z -> PSD F k (shiftI F eps (msub X Y)) ->
     kle F (inner k k (msub X Y) X) delta -> PSD F k Z ->
     kle F (csub F (csub F (cadd F (dist2 F k Y X) (dist2 F k X Z)) (cadd F delta delta))
                   (cadd F (cmul F eps (mtrace k Z)) (cmul F eps (mtrace k Z)))) (dist2 F k Y Z)) /\
  (PSD F k (msub X Y) -> inner k k (msub X Y) X = c0 F ->
     (forall Z : rmat F, symmetric F k Z -> PSD F k Z -> kle F (cadd F (dist2 F k Y X) (dist2 F k X Z)) (dist2 F k Y Z)) /\
     (PSD F k Y -> meq k k X Y)).
Proof. exact psd_certificate_all. Qed.
Print Assumptions C18_psd_certificate.

(* ================================================================ 5. exponential *)
(* FULL statement wanted: "the gate exp(L) of a physical generator is physical (TP and CP)".  PROVED PART: the recurrence the
   model executes is the exponential series; every Taylor partial sum of exp(L) — and every polynomial in L — of a generator with
   zero first row has first row e_0 (the gate is trace preserving).  NOT proved: complete positivity of exp(L) for K >= 0
   (Lindblad's theorem) and convergence; CP of the implementation's gate is checked per run by an exact PSD decision on its Choi matrix. *)
Theorem C18_to_gate_tp_partial : forall (F : OF) (frz : rmat F -> rmat F) n,
  (forall M i j, (i < n)%nat -> (j < n)%nat -> frz M i j = M i j) ->
  forall (L : rmat F) N,
  meq n n (texp frz n L N) (poly_sum n (fun k => kdiv F (c1 F) (ffact F k)) L N) /\
  (row0_zero F n L -> forall j, (j < n)%nat -> texp frz n L N 0%nat j = (if Nat.eqb 0 j then c1 F else c0 F)) /\
  (row0_zero F n L -> forall (c : nat -> F) j, poly_sum n c L N 0%nat j = cmul F (c 0%nat) (if Nat.eqb 0 j then c1 F else c0 F)).
Proof. exact taylor_all. Qed.
Print Assumptions C18_to_gate_tp_partial.

(* the same at the level of the MAP denoted by the computational-basis superoperator: Hermiticity-preserving maps are closed under
   real polynomials; a trace-annihilating generator gives trace-preserving polynomials; the GKSL generator (Hermitian H, K) is both,
   hence EVERY Taylor partial sum of exp(L) maps Hermitian matrices to Hermitian matrices and preserves the trace.
   Still NOT proved: complete positivity (Lindblad) and convergence. *)
Theorem C18_to_gate_hp_tp_partial : forall (F : OF) (d : nat), (0 < d)%nat -> forall (B : nat -> cmat F),
  (forall (c : nat -> F) (L : cmat F) N, hp_sup d L -> hp_sup d (cpoly_sum (d * d) c L N)) /\
  (forall (c : nat -> F) (L X : cmat F) N, ta_sup d L ->
     mtrace d (apply_cb d (cpoly_sum (d * d) c L N) X) = cmul (CF F) (zof (c 0%nat)) (mtrace d X)) /\
  (forall (H K : cmat F) N, hermitian d H -> hermitian (d * d - 1) K ->
     let T := cpoly_sum (d * d) (fun k => kdiv F (c1 F) (ffact F k)) (lcb_hk d B H K) N in
     hp_sup d (lcb_hk d B H K) /\ ta_sup d (lcb_hk d B H K) /\
     hp_sup d T /\ (forall X : cmat F, mtrace d (apply_cb d T X) = mtrace d X)).
Proof. exact taylor_cb_all. Qed.
Print Assumptions C18_to_gate_hp_tp_partial.

(* the rational Taylor ENCLOSURE: for ||L||_inf (max absolute row sum, [rs]) <= x and x < N + 2, every later Taylor partial sum is
   entrywise within  R_N = x^(N+1)/(N+1)! * (N+2)/(N+2-x)  ([tk x (S N)] = x^(N+1)/(N+1)!) of T_N — so is their limit exp(L)
   (the limit is not formalised).  The check evaluates T_N and R_N exactly and tests scipy's expm against them. *)
Theorem C18_taylor_tail_bound : forall (F : OF) (frz : rmat F -> rmat F) (n : nat),
  (forall M i j, (i < n)%nat -> (j < n)%nat -> frz M i j = M i j) ->
  forall (L : rmat F) (x : F), kle F (c0 F) x -> (forall i, (i < n)%nat -> kle F (rs F n L i) x) ->
  forall N : nat, let c := @ofnat F (S (S N)) in kle F x c -> x <> c ->
  forall p i j, (i < n)%nat -> (j < n)%nat ->
  kle F (fabs F (csub F (texp frz n L (N + p) i j) (texp frz n L N i j))) (cmul F (tk F x (S N)) (kdiv F c (csub F c x))).
Proof. exact taylor_tail. Qed.
Print Assumptions C18_taylor_tail_bound.

(* ================================================================ executed ops = model definitions *)
(* the wrappers of Exec/C18_ops.v materialise intermediate matrices with [freeze]; on the index range the harness reads they compute the
   model definitions: change of basis both ways (ops c18.gen / extract / parts / jump / proj_ineq), the generator in the modes hk and k
   (c18.lcb / c18.gen; modes hjk and h are the model terms themselves), the rebuilt generator of c18.proj_ineq.  (c18.texp: texp_fast_eq
   in Exec/C18_ops.v.)  Instantiated at the executed field Qc. *)
Theorem C18_exec_ops_eq : forall (d : nat), (0 < d)%nat -> forall (B : nat -> cmat Qc_OF),
  (forall (L : cmat Qc_OF) a b, (a < d * d)%nat -> (b < d * d)%nat -> conv_to_B d B L a b = chs_of_cb d B L a b) /\
  (forall (HS : cmat Qc_OF) s t, (s < d * d)%nat -> (t < d * d)%nat -> conv_to_cb d B HS s t = cb_of_chs d B HS s t) /\
  (forall H K : cmat Qc_OF, meq (d * d) (d * d) (lcb_hjk d B H (cfrz d d (j_of_k d B K)) K) (lcb_hk d B H K)) /\
  (forall K : cmat Qc_OF, meq (d * d) (d * d) (madd (j_part d (cfrz d d (j_of_k d B K))) (k_part d B K)) (lcb_k d B K)) /\
  (forall L K' : cmat Qc_OF, meq (d * d) (d * d)
     (cfrz (d * d) (d * d) (lcb_hjk d B (cfrz d d (calc_h_mat d B L)) (cfrz d d (calc_j_mat d B L)) K')) (proj_ineq_cb d B L K')).
Proof. exact exec_ops_eq. Qed.
Print Assumptions C18_exec_ops_eq.

(* ================================================================ non-vacuity *)
(* the 2-qubit normalised Pauli basis over Qc (sd = 2) satisfies every basis hypothesis exactly; H = w_H (complex, non-diagonal)
   and K = E_00 (rank one, PSD) are Hermitian; w_L = generator of the single jump operator (I (x) X)/2 *)
Example C18_example_basis :
  (0 < 4)%nat /\ basis_orthonormal 4 pauli2 /\ basis_hermitian 4 pauli2 /\ @basis_0th_identity Qc_OF 4 (qz 2%Z) pauli2 /\
  cmul Qc_OF (qz 2%Z) (qz 2%Z) = @ofnat Qc_OF 4 /\ basis_complete 4 pauli2 /\ hermitian 4 w_H /\ hermitian (4 * 4 - 1) w_K.
Proof. exact (conj (Nat.lt_0_succ 3) (conj pauli2_orthonormal (conj pauli2_hermitian (conj pauli2_0th (conj pauli2_sd
  (conj pauli2_complete (conj w_H_herm w_K_herm))))))). Qed.
(* the refutation hypothesis jv 0 <> 0 holds for the physical generator of K = E_00, and the defect is visible on it *)
Example C18_example_prefix_witness :
  w_jv 0%nat <> c0 Qc_OF /\ meq 4 4 (op_of_vec 4 pauli2 w_jv) (j_of_k 4 pauli2 w_K) /\
  ~ meq 4 4 (calc_j_mat_prefix 4 pauli2 w_L) (op_of_vec 4 pauli2 w_jv) /\ ~ meq 16 16 (rebuild_cb_prefix 4 pauli2 w_L) w_L.
Proof. exact (conj w_jv0 (conj w_J_is_J_of_K calc_j_mat_witness)). Qed.
(* row0_zero / proj_eq on a concrete non-TP matrix *)
Example C18_example_proj_eq : ~ row0_zero Qc_OF 2 w_X /\ row0_zero Qc_OF 2 (proj_eq w_X) /\ proj_eq w_X 1%nat 1%nat = qz 4%Z.
Proof. exact proj_eq_example. Qed.
