(* C18 — Lindbladian generators decompose, recompose and exponentiate correctly: property theorems only. *)
From Coq Require Import Arith List Bool.
From QV.Core Require Import OF QcOF Sums Mat Cplx Psd.
From QV.Model Require Import QObj HermEmbed C18_Lindblad.
From QV.Proofs Require Import C18_Misc.
Import ListNotations.

(* ---- equality projection: zeroes exactly the first row, fixes the constraint set, is the nearest point (Pythagoras) *)
Theorem C18_proj_eq_exact : forall (F : OF) n (X : rmat F),
  row0_zero F n (proj_eq X) /\ (forall i j, i <> 0%nat -> proj_eq X i j = X i j) /\
  (row0_zero F n X -> meq n n (proj_eq X) X).
Proof. intros F n X. split; [apply proj_eq_row0|split; [intros; now apply proj_eq_other|apply proj_eq_fix]]. Qed.
Print Assumptions C18_proj_eq_exact.

Theorem C18_proj_eq_nearest : forall (F : OF) n (X Z : rmat F), row0_zero F n Z ->
  dist2 F n X Z = cadd F (dist2 F n X (proj_eq X)) (dist2 F n (proj_eq X) Z) /\
  kle F (dist2 F n X (proj_eq X)) (dist2 F n X Z).
Proof. intros F n X Z H. split; [now apply proj_eq_pythagoras|now apply proj_eq_nearest]. Qed.
Print Assumptions C18_proj_eq_nearest.

(* ---- trace preservation of every Taylor partial sum of exp(L) (and of every polynomial in L) *)
Theorem C18_taylor_tp : forall (F : OF) (frz : rmat F -> rmat F) n,
  (forall M i j, (i < n)%nat -> (j < n)%nat -> frz M i j = M i j) ->
  forall (L : rmat F) N j, row0_zero F n L -> (j < n)%nat ->
  texp frz n L N 0%nat j = (if Nat.eqb 0 j then c1 F else c0 F).
Proof. intros F frz n Hf L N j. now apply texp_row0. Qed.
Print Assumptions C18_taylor_tp.

Theorem C18_poly_tp : forall (F : OF) n (c : nat -> F) (L : rmat F) N j, row0_zero F n L ->
  poly_sum n c L N 0%nat j = cmul F (c 0%nat) (if Nat.eqb 0 j then c1 F else c0 F).
Proof. intros F n c L N j. now apply poly_sum_row0. Qed.
Print Assumptions C18_poly_tp.
