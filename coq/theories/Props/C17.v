(* C17 — every catalogued object is physical and self-consistent: property theorems only.
   The catalogues are finite; the theorems are about the TABLES of Model/C17_Tables.v (the textbook meaning of the names,
   entries in Z[i, sqrt 2] with one common factor 1/sqrt n per object), which the harness compares entry by entry with what
   quara generates under each name.  Finite tables are decided by vm_compute (dimension and table explicit in the statement);
   tensor products of arbitrary length by induction. *)
From Coq Require Import String.
From Coq Require Import ZArith List Bool Arith Sorting.Sorted Sorting.Permutation.
From QV.Core Require Import OF Sums Mat C17_Z8.
From QV.Model Require Import C17_Tables C17_Permute C17_Names C17_Ham3q.
From QV.Proofs Require Import C17_Tables C17_Bases9 C17_Eval C17_Permute C17_Names C17_Ham3q C17_ProjExp.
Import ListNotations.

(* every textbook action triple (gate, input state, output state) holds in the table algebra, as equality of density operators:
   130 triples over the 1-qubit, 2-qubit (both id orders), 3-qubit (all six id orders) and 1-qutrit gates *)
Theorem C17_triples_hold : Forall triple_holds triples_all.
Proof. exact triples_hold. Qed.
Print Assumptions C17_triples_hold.

(* every table unitary is unitary ( m^dagger m = n I , U = m / sqrt n ): the 258 named gates *)
Theorem C17_named_gates_unitary : Forall (fun g => gate_unitary (gate_tbl g)) named_gates.
Proof. exact named_gates_unitary. Qed.
Print Assumptions C17_named_gates_unitary.

(* every named state vector is normalised; tensor-product names of ANY length are normalised *)
Theorem C17_special_states_normalised : Forall (fun s => state_normalised (state_tbl s)) special_states.
Proof. exact special_states_normalised. Qed.
Print Assumptions C17_special_states_normalised.

Theorem C17_product_states_normalised :
  (forall ks, state_normalised (state_tbl (SQ ks))) /\
  (forall ks, Forall (fun k => (k < 18)%nat) ks -> state_normalised (state_tbl (ST ks))).
Proof. exact product_states_normalised. Qed.
Print Assumptions C17_product_states_normalised.

(* the named matrix bases (30 instances, dimension explicit): d^2 elements, pairwise orthogonal, complete, and - by kind -
   normalised, Hermitian, identity-first and traceless otherwise *)
Theorem C17_named_bases_ok : Forall basis_ok basis_instances.
Proof. exact named_bases_ok. Qed.
Print Assumptions C17_named_bases_ok.

Theorem C17_unnormalised_norms :
  tb_norm2 2 2 (basis_tbl 2 1 2) /\ tb_norm2 4 4 (basis_tbl 2 2 2) /\ tb_norm2 8 8 (basis_tbl 2 3 2) /\
  tb_norm2 3 2 (basis_tbl 6 1 3) /\ tb_norm2 3 2 (basis_tbl 8 1 3) /\ tb_norm2 9 4 (basis_tbl 8 2 3).
Proof. exact unnormalised_norms. Qed.
Print Assumptions C17_unnormalised_norms.

(* POVM tables sum to the identity (14 single names incl. the 2-qubit parity POVMs, all 2-fold product names of the 1-qubit
   and of the 1-qutrit names); measurement-process tables are trace preserving *)
Theorem C17_povm_tables_complete : Forall povm_sums_to_identity (seq 0 14) /\ Forall povm2_sums_to_identity povm_pairs.
Proof. exact (conj povm_tables_complete povm_product_tables_complete). Qed.
Print Assumptions C17_povm_tables_complete.

Theorem C17_mproc_tables_trace_preserving : Forall mproc_trace_preserving (seq 0 13).
Proof. exact mproc_tables_trace_preserving. Qed.
Print Assumptions C17_mproc_tables_trace_preserving.

(* Kraus sets and POVMs agree: each of the 13 measurement-process tables induces, outcome by outcome (sum_k K^dagger K), the
   POVM table of the POVM name it stands for (x-type1, x-type2 -> x; ...; xxparity-type1 -> xxparity; zzparity-type1 -> zzparity) *)
Theorem C17_mproc_tables_induce_povm_tables : Forall mproc_induces_povm (seq 0 13).
Proof. exact mproc_tables_induce_povm_tables. Qed.
Print Assumptions C17_mproc_tables_induce_povm_tables.

(* the tables mean the same in EVERY ordered field with a square root of 2: evaluation is a ring morphism, so table
   unitarity / normalisation / triples transfer to complex matrices over F (and so to R) *)
Theorem C17_eval_morphism : forall (F : OF) (s2 : F), cmul F s2 s2 = cadd F (c1 F) (c1 F) -> ev8_morphism F s2.
Proof. exact ev8_is_morphism. Qed.
Print Assumptions C17_eval_morphism.

Theorem C17_gate_unitary_in_any_field : forall (F : OF) (s2 : F) (g : tgate),
  cmul F s2 s2 = cadd F (c1 F) (c1 F) -> gate_unitary g -> gate_unitary_over F s2 g.
Proof. exact gate_unitary_transfer. Qed.
Print Assumptions C17_gate_unitary_in_any_field.

(* ---- id bookkeeping of the multi-qubit gates (Model/C17_Permute.v: get_permutation_matrix_from_ascending_order, permute_pauli_symbol).
   "ids[k] is for role k" (toffoli: control control target; fredkin: control swapped swapped) and the composite system orders its
   elemental systems by ascending id.  For EVERY number of qubits, EVERY list of ids and EVERY symbol the repaired code
   (fix toffoli-fredkin-cyclic-ids-inverted: matP^T @ indices) returns a symbol whose letter at ascending position p is the letter of
   the role whose id is the p-th smallest; sorted(ids) is ascending and a permutation of ids; for pairwise different ids this
   determines the output uniquely. *)
Theorem C17_permute_fixed_spec : forall ids v, permute_spec ids v (permute_fixed ids v).
Proof. exact permute_fixed_spec. Qed.
Print Assumptions C17_permute_fixed_spec.

Theorem C17_sorted_ids_ascending_permutation : forall ids, Sorted le (sorted_ids ids) /\ Permutation (sorted_ids ids) ids.
Proof. exact (fun ids => conj (sorted_ids_sorted ids) (sorted_ids_perm ids)). Qed.
Print Assumptions C17_sorted_ids_ascending_permutation.

Theorem C17_permute_spec_unique : forall ids v out1 out2, NoDup ids ->
  permute_spec ids v out1 -> permute_spec ids v out2 -> out1 = out2.
Proof. exact permute_spec_unique. Qed.
Print Assumptions C17_permute_spec_unique.

(* [permute_coded] is permute_pauli_symbol AS CODED BEFORE fix toffoli-fredkin-cyclic-ids-inverted (matP @ indices, the inverse
   permutation); it is NOT what the harness compares the implementation with.  It violates the specification (witness: ids [1; 2; 0],
   symbol "iix": toffoli's target letter lands on ascending position 1 instead of 0); among the six orders of three ids it differs
   from the repaired code exactly on the two cyclic ones. *)
Theorem C17_permute_coded_refuted : exists ids v, NoDup ids /\ length v = length ids /\ ~ permute_spec ids v (permute_coded ids v).
Proof. exact permute_coded_refuted. Qed.
Print Assumptions C17_permute_coded_refuted.

(* ---- the NAMED catalogues (Model/C17_Names.v: every name is printed from its table code; the harness compares these name lists with
   quara's get_*_names* functions and every generated object with the table stored next to its name).  Names of one catalogue are pairwise
   different; every named state (749) is normalised; every named POVM (all 114, incl. the 27 three-qubit products) sums to the identity. *)
Theorem C17_catalogue_names_distinct :
  (forall sys, (sys < 5)%nat -> NoDup (map fst (cat_states sys))) /\
  (forall sys, (sys < 5)%nat -> NoDup (map fst (cat_povms sys))) /\
  (forall sys, (sys < 4)%nat -> NoDup (map fst (cat_gates sys))) /\
  NoDup (map fst cat_mprocs) /\ NoDup (map fst cat_gates_2qutrit_single).
Proof. exact catalogue_names_distinct. Qed.
Print Assumptions C17_catalogue_names_distinct.

Theorem C17_named_states_normalised : forall sys, (sys < 5)%nat -> Forall (fun e => state_normalised (state_tbl (snd e))) (cat_states sys).
Proof. exact named_states_normalised. Qed.
Print Assumptions C17_named_states_normalised.

Theorem C17_named_povms_complete : forall sys, (sys < 5)%nat -> Forall povm_name_complete (cat_povms sys).
Proof. exact named_povms_complete. Qed.
Print Assumptions C17_named_povms_complete.

(* formal Hamiltonians of the translated name parser (coq/gen/C17_Equiv.v) denote the 2-qutrit tables: if the literal base matrices of a
   method table are the tables base3, the formal sum  sum_k (k pi/4) B(b0) (x) B(b1)  over ANY list of terms denotes (pi/4) * ham2t terms *)
Theorem C17_formal_hamiltonian_denotes_table : forall tbl, lits_are_tables tbl ->
  forall terms, Forall good_term terms -> meq 9 9 (denote4 tbl (map expected_term terms)) (ham2t terms).
Proof. exact denote4_expected. Qed.
Print Assumptions C17_formal_hamiltonian_denotes_table.

(* toffoli / fredkin, all six id orders: the role-ordered Pauli sum M = 8 H / pi satisfies M M = -8 M, M = M^dagger and 4 U = 4 I + M with U the
   table gate, i.e. H = -pi P for a projector P and U = I - 2 P.  _partial: the step exp(-iH) = exp(i pi P) = I - 2 P (true for every projector)
   is analysis and is NOT proved; the harness compares exp(-iH) with U numerically. *)
Theorem C17_toffoli_fredkin_hamiltonians_partial : forall k ids, (k < 2)%nat -> In ids perms3 -> ham3q_ok k ids.
Proof. exact toffoli_fredkin_hamiltonians_are_projectors. Qed.
Print Assumptions C17_toffoli_fredkin_hamiltonians_partial.

(* Taylor partial sums of exp(c Q) for Q Q = a Q (a = 1: a projector), ANY commutative ring, dimension, c and N, division-free
   (T_N = N! * sum_{n<=N} (cQ)^n / n!, t_N = N! * sum_{n<=N} (ac)^n / n!, f_N = N!):   T_N = f_N I + u_N Q   and   a u_N = t_N - f_N.
   For toffoli / fredkin (Q = M = 8H/pi, a = -8, c = -i pi/8, ac = i pi) the partial sums of exp(-iH) are therefore I + ((s_N(i pi) - 1)/(-8)) M, whose limit
   I + M/4 is the table gate by C17_toffoli_fredkin_hamiltonians_partial.  What remains unproved of "exp(-iH) = U": convergence of the scalar series
   s_N(i pi), Euler's identity e^{i pi} = -1, and writing out the matrix version of the transfer of M M = -8 M from Z[i, sqrt 2] to C (C17_eval_morphism). *)
Theorem C17_quasi_projector_exp_partial_sums : forall (R : CR) (d : nat) (Q : @mat R) (a c : R),
  meq d d (mmul d Q Q) (mscale a Q) ->
  forall n, meq d d (Tsum d Q c n) (madd (mscale (fact_r n) mid) (mscale (usum a c n) Q)) /\ cmul R a (usum a c n) = csub R (tsum a c n) (fact_r n).
Proof. intros R d Q a c H n. split; [now apply quasi_projector_exp_partial_sums|apply usum_scalar_series]. Qed.
Print Assumptions C17_quasi_projector_exp_partial_sums.

(* the instance: the toffoli / fredkin Pauli sums M (all six id orders) over Z[i, sqrt 2], any scalar c of that ring, any N *)
Theorem C17_toffoli_fredkin_exp_partial_sums : forall k ids, (k < 2)%nat -> In ids perms3 -> forall (c : Z8R) n,
  @meq Z8R 8 8 (Tsum (R := Z8R) 8 (ham3q k ids) c n)
               (madd (mscale (fact_r (R := Z8R) n) mid) (mscale (usum (R := Z8R) (z8z (-8)) c n) (ham3q k ids))).
Proof. intros k ids Hk Hin c n. apply (quasi_projector_exp_partial_sums (R := Z8R)). intros i j Hi Hj.
  exact (proj1 (toffoli_fredkin_hamiltonians_are_projectors k ids Hk Hin) i j Hi Hj). Qed.
Print Assumptions C17_toffoli_fredkin_exp_partial_sums.

(* non-vacuity: the Hadamard table maps the table z0 to the table x0; the T gate (entries outside Q[i]) is unitary;
   the 2-qutrit normalised generalized Gell-Mann basis is one of the instances *)
Example C17_example :
  triple_holds (G1 13, SQ [4], SQ [0])%nat /\ gate_unitary (gate_tbl (G1 11)) /\ In (9, 2, 3)%nat basis_instances /\
  state_normalised (state_tbl (SQ [6; 3; 0; 5]))%nat.
Proof. split; [apply triple_holdsb_spec; vm_compute; reflexivity|]. split; [apply gate_unitaryb_spec; vm_compute; reflexivity|].
  split; [cbn; tauto|]. apply (proj1 C17_product_states_normalised). Qed.
(* the repaired permute_pauli_symbol on toffoli's "iix" with ids [1; 2; 0] (controls on systems 1 and 2, target on system 0)
   gives "xii"; with the non-contiguous ids [7; 2; 5] the target letter goes to the middle (5 is the second smallest) *)
Example C17_permute_example :
  permute_fixed [1; 2; 0]%nat [0; 0; 1]%nat = [1; 0; 0]%nat /\ permute_fixed [7; 2; 5]%nat [3; 0; 1]%nat = [0; 1; 3]%nat.
Proof. split; reflexivity. Qed.
(* the catalogue really contains the names; the cross-shaped part used by the quick tier contains unequal-angle names *)
Example C17_names_example :
  find (fun e => String.eqb (fst e) "x0_y1_a"%string) (cat_states 2) = Some ("x0_y1_a"%string, SQ [0; 3; 6]%nat) /\
  find (fun e => String.eqb (fst e) "01x3_z2"%string) (cat_povms 4) = Some ("01x3_z2"%string, [4; 7]%nat) /\
  find (fun e => String.eqb (fst e) "01xi90_i12y180"%string) cat_gates_2qutrit = Some ("01xi90_i12y180"%string, [(1, 0, 1); (0, 5, 2)]%nat) /\
  find (fun e => String.eqb (fst e) "i01x90_12y12y180"%string) cat_gates_2qutrit_quick = Some ("i01x90_12y12y180"%string, [(0, 1, 1); (5, 5, 2)]%nat).
Proof. repeat split; vm_compute; reflexivity. Qed.
