(* C14 — sampled data and empirical distributions are valid and reproducible: property theorems only.
   The models (Model/C14_DataGen.v, Model/C14_Streams.v) are the code AS REPAIRED by /verif/fixes/C14-*.diff — the model the
   harness executes and compares with the implementation.  `..._before_fix_refuted` theorems are about the separately
   labelled definitions of Model/C14_BeforeFix.v ("as coded before the fix"). *)
From Coq Require Import Reals ZArith QArith Qcanon List Lia.
From QV.Core Require Import OF QcOF.
From QV.Model Require Import Multinomial C14_DataGen C14_Streams C14_BeforeFix C14_ExpHist.
From QV.Proofs Require Import C14_DataGen C14_Streams C14_BeforeFix C14_ExpHist C14_Binary64.
From QV.Core Require Import ROF.
From Flocq Require Import IEEE754.BinarySingleNaN.
Import ListNotations.

(* ---------------------------------------------------------------- inversion sampling (_random_number_to_data) *)

(* for 0 <= r < sum(p) the returned index i is in range, r lies in [cum_i, cum_{i+1}) and p_i > 0;
   no sign condition on p is needed; any ordered field, any length *)
Theorem C14_inversion_sampling_sound : forall (F : OF) (ps : list F) (r : F),
  kle F (c0 F) r -> klt F r (total F ps) ->
  exists i : nat, rn2data F ps r = Z.of_nat i /\ (i < length ps)%nat /\ klt F (c0 F) (nth i ps (c0 F)) /\
                  kle F (cum F ps i) r /\ klt F r (cum F ps (S i)) /\
                  cum F ps (S i) = cadd F (cum F ps i) (nth i ps (c0 F)).
Proof. exact rn2data_sound. Qed.
Print Assumptions C14_inversion_sampling_sound.

(* for a non-negative vector the pre-image of index i is EXACTLY the interval [cum_i, cum_{i+1}) of length p_i:
   inversion sampling reproduces the requested distribution exactly in exact arithmetic *)
Theorem C14_inversion_sampling_exact : forall (F : OF) (ps : list F) (r : F) (i : nat),
  Forall (kle F (c0 F)) ps -> (i < length ps)%nat ->
  kle F (cum F ps i) r -> klt F r (cum F ps (S i)) -> rn2data F ps r = Z.of_nat i.
Proof. exact rn2data_exact. Qed.
Print Assumptions C14_inversion_sampling_exact.

(* r >= sum(p) (reachable only through rounding): the fallback value is last_positive ... *)
Theorem C14_fallback_returns_last_positive_index : forall (F : OF) (ps : list F) (r : F),
  Forall (kle F (c0 F)) ps -> kle F (total F ps) r -> rn2data F ps r = last_positive F ps.
Proof. exact rn2data_fallback. Qed.
Print Assumptions C14_fallback_returns_last_positive_index.

(* ... which is the LARGEST index of positive probability whenever the vector has a positive entry (len - 1 otherwise) *)
Theorem C14_last_positive_is_largest_positive_index : forall (F : OF) (ps : list F),
  (has_pos F ps -> exists n : nat, last_positive F ps = Z.of_nat n /\ (n < length ps)%nat /\ klt F (c0 F) (nth n ps (c0 F)) /\
                                   forall j, (n < j < length ps)%nat -> ~ klt F (c0 F) (nth j ps (c0 F))) /\
  (~ has_pos F ps -> last_positive F ps = (Z.of_nat (length ps) - 1)%Z).
Proof. exact last_positive_spec. Qed.
Print Assumptions C14_last_positive_is_largest_positive_index.

(* "GENERATED DATA CONTAIN ONLY OUTCOMES OF NON-ZERO PROBABILITY WITHIN RANGE" — for exact AND rounded accumulation:
   rn2data_r add is the single-loop transcription of _random_number_to_data whose `cumulative_sum += prob` is performed by
   an ARBITRARY operation add with  p <= 0 -> add c p <= c  (exact addition; any monotone rounding of it, such as IEEE
   round-to-nearest on finite values).  For EVERY r >= 0 — also r >= the accumulated sum — and EVERY vector with a positive
   entry (entries may be negative, any sum, any length) the returned outcome is in range and has positive probability. *)
Theorem C14_only_positive_probability_outcomes : forall (F : OF) (add : F -> F -> F),
  (forall c p, kle F p (c0 F) -> kle F (add c p) c) ->
  forall (ps : list F) (r : F), kle F (c0 F) r -> has_pos F ps ->
  exists n : nat, rn2data_r F add ps r = Z.of_nat n /\ (n < length ps)%nat /\ klt F (c0 F) (nth n ps (c0 F)).
Proof. exact rn2data_r_valid. Qed.
Print Assumptions C14_only_positive_probability_outcomes.

(* the same with the monotonicity fact required only on a set rep of "representable" accumulator values that contains 0 and
   is closed under add (what a floating-point format provides) *)
Theorem C14_only_positive_probability_outcomes_representable : forall (F : OF) (add : F -> F -> F) (rep : F -> Prop),
  rep (c0 F) -> (forall c p, rep c -> rep (add c p)) -> (forall c p, rep c -> kle F p (c0 F) -> kle F (add c p) c) ->
  forall (ps : list F) (r : F), kle F (c0 F) r -> has_pos F ps ->
  exists n : nat, rn2data_r F add ps r = Z.of_nat n /\ (n < length ps)%nat /\ klt F (c0 F) (nth n ps (c0 F)).
Proof. exact rn2data_r_valid_rep. Qed.
Print Assumptions C14_only_positive_probability_outcomes_representable.

(* THE BINARY64 FACT (Flocq): c a binary64 number, p <= 0  ==>  round-to-nearest-even(c + p) <= c, and the result is a binary64
   number again (format FLT(-1074,53): subnormals included, exponent unbounded above) ... *)
Theorem C14_binary64_rounded_addition_monotone : forall c p : R,
  (format64 c -> (p <= 0)%R -> (add64 c p <= c)%R) /\ format64 (add64 c p) /\ format64 0%R.
Proof. intros c p. split; [exact (add64_nonpos c p)|]. split; [exact (format64_add64 c p)|exact format64_0]. Qed.
Print Assumptions C14_binary64_rounded_addition_monotone.

(* ... and for the IEEE-754 addition itself on finite binary64 values (Flocq's Bplus, round to nearest even): with 0 <= c and
   p <= 0 it cannot overflow, its value is add64 and does not exceed c *)
Theorem C14_ieee_binary64_addition_monotone : forall c p : b64,
  is_finite c = true -> is_finite p = true -> (0 <= B2R c)%R -> (B2R p <= 0)%R ->
  is_finite (b64_plus c p) = true /\ B2R (b64_plus c p) = add64 (B2R c) (B2R p) /\ (B2R (b64_plus c p) <= B2R c)%R.
Proof. exact b64_plus_nonpos. Qed.
Print Assumptions C14_ieee_binary64_addition_monotone.

(* hence, with BINARY64-ROUNDED accumulation (`cumulative_sum += prob` in double precision): every r >= 0, every vector of reals
   with a positive entry -> the outcome is in range and has positive probability.  (Comparisons are exact in binary64; what is
   NOT in this statement: overflow / NaN / infinities, which validate_prob_dist excludes, and that numpy's float64 `+` is this
   IEEE operation - hardware, an oracle.) *)
Theorem C14_only_positive_probability_outcomes_binary64 : forall (ps : list R) (r : R),
  (0 <= r)%R -> has_pos R_OF ps ->
  exists n : nat, rn2data_r R_OF add64 ps r = Z.of_nat n /\ (n < length ps)%nat /\ klt R_OF 0%R (nth n ps 0%R).
Proof. exact rn2data_binary64_valid. Qed.
Print Assumptions C14_only_positive_probability_outcomes_binary64.

(* the single-loop transcription with exact addition IS the model rn2data (the function the harness executes, and the one
   the Python text is proved equal to on every run, coq/gen/C14_Equiv.v) *)
Theorem C14_single_loop_is_model : forall (F : OF) (ps : list F) (r : F), rn2data_r F (cadd F) ps r = rn2data F ps r.
Proof. exact rn2data_r_exact_add. Qed.
Print Assumptions C14_single_loop_is_model.

(* generate_data_from_prob_dist: whenever validate_prob_dist accepts the vector (atol < 1) and the random numbers are >= 0,
   there is one datum per random number and every datum is an in-range outcome of positive probability *)
Theorem C14_generated_data_valid : forall (F : OF) (atol : F) (ps rs : list F) (l : list Z),
  klt F atol (c1 F) -> Forall (kle F (c0 F)) rs -> gen_data F atol ps rs = MOk l ->
  length l = length rs /\ Forall (posidx F ps) l.
Proof. exact gen_data_valid. Qed.
Print Assumptions C14_generated_data_valid.

(* AS CODED BEFORE fix C14-rn2data-fallback-zero-probability the statement was FALSE (DESIGN section 4 #18): a vector
   accepted by validate_prob_dist and a random number in [0,1) that yield an outcome of probability exactly 0.  Exact
   arithmetic over the executed field; the binary64 witness ([0.1]*10+[0.0], r = 1-2^-53) is Proofs/C14_Float.v; both are
   replayed on the real code by the sub-check `fallback` (violation on the unpatched tree, outcome 9 / 0 on the patched). *)
Theorem C14_only_positive_probability_outcomes_before_fix_refuted :
  exists (atol : Qc) (ps : list Qc) (r : Qc) (i : nat),
    gen_data_before_fix Qc_OF atol ps [r] = MOk [Z.of_nat i] /\ nth i ps 1%Qc = 0%Qc /\ kle Qc_OF 0%Qc r /\ klt Qc_OF r 1%Qc.
Proof. exists wit_eps, wit_ps, wit_r, 1%nat. exact zero_probability_outcome_reachable_before_fix. Qed.
Print Assumptions C14_only_positive_probability_outcomes_before_fix_refuted.

(* ---------------------------------------------------------------- calc_empi_dist_sequence *)

(* on a well-formed request (measurement_num >= 0; sample sizes positive, strictly increasing, within the data;
   consumed data in range) the k-th output is (n_k, counts(first n_k data) / n_k); any lengths *)
Theorem C14_empi_seq_is_prefix_counts : forall (F : OF) (m : Z) (data ns : list Z),
  empi_pre m data ns -> empi_seq F m data ns = EOk (map (empi_spec F m data) ns).
Proof. exact empi_seq_spec. Qed.
Print Assumptions C14_empi_seq_is_prefix_counts.

(* errors exactly for malformed requests: success <-> well-formed (and then the output is the specified one) *)
Theorem C14_empi_seq_success_iff_wellformed : forall (F : OF) (m : Z) (data ns : list Z),
  (exists o, empi_seq F m data ns = EOk o) <-> empi_pre m data ns.
Proof. intros F m data ns. split.
  - intros [o Ho]. exact (empi_seq_ok_inv F m data ns o Ho).
  - intros Hp. eexists. exact (empi_seq_spec F m data ns Hp). Qed.
Print Assumptions C14_empi_seq_success_iff_wellformed.

(* a successful call returns exactly one member per requested sample size, in the requested order *)
Theorem C14_empi_seq_one_member_per_request : forall (F : OF) (m : Z) (data ns : list Z) (out : list (Z * list F)),
  empi_seq F m data ns = EOk out -> map fst out = ns.
Proof. exact empi_seq_one_member_per_request. Qed.
Print Assumptions C14_empi_seq_one_member_per_request.

Theorem C14_empi_seq_negative_measurement_num : forall (F : OF) (m : Z) (data ns : list Z),
  (m < 0)%Z -> empi_seq F m data ns = EErr 1.
Proof. exact empi_seq_negative_measurement_num. Qed.
Print Assumptions C14_empi_seq_negative_measurement_num.

(* a first sample size <= 0 is rejected (num_sums must increase from 0) *)
Theorem C14_empi_seq_nonpositive_first_sample_size_rejected : forall (F : OF) (m : Z) (data : list Z) (n0 : Z) (rest : list Z),
  (0 <= m)%Z -> (n0 <= 0)%Z -> empi_seq F m data (n0 :: rest) = EErr 4.
Proof. exact empi_seq_nonpositive_first. Qed.
Print Assumptions C14_empi_seq_nonpositive_first_sample_size_rejected.

(* AS CODED BEFORE fix C14-empi-seq-nonpositive-first-num-sum: the request [0; 2] on data [0; 1] succeeded with NO member at
   all - the valid request 2 was silently dropped (the repaired model returns error 4) *)
Theorem C14_empi_seq_one_member_per_request_before_fix_refuted :
  exists (m : Z) (data ns : list Z) (out : list (Z * list Qc)),
    empi_seq_before_fix Qc_OF m data ns = EOk out /\ map fst out <> ns /\ empi_seq Qc_OF m data ns = EErr 4.
Proof. exists 2%Z, [0; 1]%Z, [0; 2]%Z, []. destruct nonpositive_first_num_sum_dropped_before_fix as [A B].
  split; [exact A|]. split; [discriminate|exact B]. Qed.
Print Assumptions C14_empi_seq_one_member_per_request_before_fix_refuted.

(* every specified member is a probability vector: right length, entries >= 0, sum 1 *)
Theorem C14_empi_dist_valid : forall (F : OF) (m : Z) (data : list Z) (n : Z),
  (0 <= m)%Z -> (0 < n <= Z.of_nat (length data))%Z ->
  Forall (fun d => (0 <= d < m)%Z) (firstn (Z.to_nat n) data) ->
  length (snd (empi_spec F m data n)) = Z.to_nat m /\ Forall (kle F (c0 F)) (snd (empi_spec F m data n)) /\
  lsum F (snd (empi_spec F m data n)) = c1 F.
Proof. exact empi_spec_valid. Qed.
Print Assumptions C14_empi_dist_valid.

(* members of one sequence are consistent: n_k * e_k <= n_k' * e_k' pointwise for n_k <= n_k' *)
Theorem C14_empi_seq_consistent : forall (F : OF) (m : Z) (data : list Z) (n n' : Z) (x : nat),
  (0 < n <= n')%Z ->
  kle F (cmul F (fz F n) (nth x (snd (empi_spec F m data n)) (c0 F)))
        (cmul F (fz F n') (nth x (snd (empi_spec F m data n')) (c0 F))).
Proof. exact empi_spec_consistent. Qed.
Print Assumptions C14_empi_seq_consistent.

(* multinomial counts divided by the sample size: a probability vector that is zero wherever the count is zero *)
Theorem C14_multinomial_empi_valid : forall (F : OF) (n : Z) (cnt : list Z),
  (0 < n)%Z -> Forall (fun c => (0 <= c)%Z) cnt -> fold_right Z.add 0%Z cnt = n ->
  fst (multi_to_empi F n cnt) = n /\ length (snd (multi_to_empi F n cnt)) = length cnt /\
  Forall (kle F (c0 F)) (snd (multi_to_empi F n cnt)) /\ lsum F (snd (multi_to_empi F n cnt)) = c1 F /\
  (forall i, nth i cnt 0%Z = 0%Z -> nth i (snd (multi_to_empi F n cnt)) (c0 F) = c0 F).
Proof. exact multi_to_empi_valid. Qed.
Print Assumptions C14_multinomial_empi_valid.

(* ---------------------------------------------------------------- random streams (abstract generator) *)
Section Streams.
Context {G V : Type} (draw : G -> req -> V * G) (mkgen gseed : Z -> G).

(* to_stream: None -> global state; int -> a FRESH generator in state mkgen z (global state untouched); anything that
   already is a stream -> itself *)
Theorem C14_to_stream_cases : forall (w : @world G),
  to_stream mkgen SNone w = (RefGlobal, w) /\
  (forall z, fst (to_stream mkgen (SInt z) w) = RefGen (length (gens w)) /\
             sel mkgen (fst (to_stream mkgen (SInt z) w)) (snd (to_stream mkgen (SInt z) w)) = mkgen z /\
             glob (snd (to_stream mkgen (SInt z) w)) = glob w) /\
  (forall r, to_stream mkgen (as_arg r) w = (r, w)).
Proof. exact (to_stream_cases mkgen). Qed.

(* REFINEMENT: every data-generation entry point of data_generator, Experiment, MultinomialDistribution and the tomography
   classes — modelled with its whole call chain, nested to_stream calls and loops — equals its normal form: (copy the
   experiment,) raise the argument error, else run ONE pure function of the arguments on the ONE generator state selected
   by to_stream and write the final state back.  All argument values, list lengths and worlds. *)
Theorem C14_entry_points_use_one_stream : forall (c : call) (s : sog) (w : @world G),
  single_stream c s -> valid_sog s w ->
  run_call draw mkgen gseed c s w = call_nf draw mkgen gseed c s w.
Proof. exact (run_call_nf draw mkgen gseed). Qed.

(* INT SEED: the output is a function of the arguments and the seed only (int_seed_output), whatever the global state, the
   existing generators and the earlier calls; the call changes neither the global state, nor any existing generator, nor
   any existing object *)
Theorem C14_int_seed_output_function_of_seed_and_arguments : forall (c : call) (z : Z) (w : @world G),
  single_stream c (SInt z) ->
  fst (run_call draw mkgen gseed c (SInt z) w) = int_seed_output draw mkgen c z /\
  glob (snd (run_call draw mkgen gseed c (SInt z) w)) = glob w /\
  (exists extra, gens (snd (run_call draw mkgen gseed c (SInt z) w)) = gens w ++ extra) /\
  (forall k, (k < nobj w)%nat -> objs (snd (run_call draw mkgen gseed c (SInt z) w)) k = objs w k).
Proof. exact (int_seed_function_of_seed draw mkgen gseed). Qed.

(* ... for ALL session histories (any interleaving of np.random.seed, unrelated draws, constructors with seed_data,
   reset_seed, other calls) before the call *)
Theorem C14_int_seed_history_independent : forall (c : call) (z : Z) (hs1 hs2 : list hop) (w1 w2 : @world G),
  single_stream c (SInt z) ->
  fst (run_call draw mkgen gseed c (SInt z) (snd (exec draw mkgen gseed hs1 w1))) =
  fst (run_call draw mkgen gseed c (SInt z) (snd (exec draw mkgen gseed hs2 w2))).
Proof. exact (int_seed_history_independent draw mkgen gseed). Qed.

(* SHARED GENERATOR: the call consumes from the generator's current state and leaves it where the body stopped *)
Theorem C14_shared_generator_advances : forall (c : call) (h : nat) (w : @world G),
  single_stream c (SGen h) -> (h < length (gens w))%nat -> call_pre c = None ->
  run_call draw mkgen gseed c (SGen h) w =
  (fst (call_body draw c (nth h (gens w) (mkgen 0%Z))),
   set_gen h (snd (call_body draw c (nth h (gens w) (mkgen 0%Z)))) (after_copy gseed c w)).
Proof. exact (shared_generator_advances draw mkgen gseed). Qed.

(* two consecutive calls on one shared generator consume consecutive, disjoint segments: the second continues exactly
   where the first stopped; the global state is not involved *)
Theorem C14_shared_generator_consecutive_segments : forall (c1 c2 : call) (h : nat) (w : @world G),
  single_stream c1 (SGen h) -> single_stream c2 (SGen h) -> (h < length (gens w))%nat ->
  call_pre c1 = None -> call_pre c2 = None ->
  let g0 := nth h (gens w) (mkgen 0%Z) in
  let g1 := snd (call_body draw c1 g0) in
  let w1 := snd (run_call draw mkgen gseed c1 (SGen h) w) in
  fst (run_call draw mkgen gseed c1 (SGen h) w) = fst (call_body draw c1 g0) /\
  fst (run_call draw mkgen gseed c2 (SGen h) w1) = fst (call_body draw c2 g1) /\
  nth h (gens (snd (run_call draw mkgen gseed c2 (SGen h) w1))) (mkgen 0%Z) = snd (call_body draw c2 g1) /\
  glob (snd (run_call draw mkgen gseed c2 (SGen h) w1)) = glob w.
Proof. exact (shared_generator_sequential draw mkgen gseed). Qed.

(* within one call: a multinomial sequence for n_1..n_k is the concatenation of its consecutive segments *)
Theorem C14_empi_seq_consecutive_segments : forall (pd : nat) (ns1 ns2 : list Z) (g : G),
  p_empi_seq draw pd (ns1 ++ ns2) g =
  (fst (p_empi_seq draw pd ns1 g) ++ fst (p_empi_seq draw pd ns2 (snd (p_empi_seq draw pd ns1 g))),
   snd (p_empi_seq draw pd ns2 (snd (p_empi_seq draw pd ns1 g)))).
Proof. exact (empi_seq_segments draw). Qed.

(* NONE: the output is the pure body run on the GLOBAL state (so it depends on everything that touched it) ... *)
Theorem C14_none_uses_global_state : forall (c : call) (w : @world G),
  single_stream c SNone -> call_pre c = None ->
  run_call draw mkgen gseed c SNone w =
  (fst (call_body draw c (glob w)), set_glob (snd (call_body draw c (glob w))) (after_copy gseed c w)).
Proof. exact (none_uses_global_state draw mkgen gseed). Qed.
(* ... and is reproducible by seeding the global state (np.random.seed / seed_data) *)
Theorem C14_global_seed_then_none_reproducible : forall (c : call) (z : Z) (w : @world G),
  single_stream c SNone -> call_pre c = None ->
  fst (run_call draw mkgen gseed c SNone (set_glob (gseed z) w)) = fst (call_body draw c (gseed z)).
Proof. exact (global_seed_then_none draw mkgen gseed). Qed.

(* reset_seed(z) re-seeds the global state for EVERY integer z, 0 included ... *)
Theorem C14_reset_seed_honoured : forall (o : nat) (z : Z) (w : @world G),
  glob (snd (tomo_reset_seed gseed o (Some z) w)) = gseed z /\ objs (snd (tomo_reset_seed gseed o (Some z) w)) o = Some z.
Proof. exact (reset_seed_honoured gseed). Qed.
(* ... so a None-seeded generation right after reset_seed(z) is a function of z and the arguments only, whatever the world
   (global state, generators, objects, earlier calls) was before *)
Theorem C14_reset_seed_then_output_function_of_seed : forall (o : nat) (z : Z) (c : call) (w : @world G),
  single_stream c SNone -> call_pre c = None ->
  fst (run_call draw mkgen gseed c SNone (snd (tomo_reset_seed gseed o (Some z) w))) = fst (call_body draw c (gseed z)).
Proof. exact (reset_seed_then_none draw mkgen gseed). Qed.

(* a numpy integer seed (np.int64(5)) IS an integer seed: same value, same final world, for every entry point — hence all
   int-seed theorems above hold for numpy integers too *)
Theorem C14_numpy_integer_seed_is_int_seed : forall (c : call) (z : Z) (w : @world G),
  run_call draw mkgen gseed c (SNpInt z) w = run_call draw mkgen gseed c (SInt z) w.
Proof. exact (npint_seed_is_int_seed draw mkgen gseed). Qed.

(* the data path: stream.random(n+m) is stream.random(n) followed by stream.random(m) — consecutive segments *)
Theorem C14_uniform_draws_consecutive_segments : forall {X : Type} (next : G -> X * G) (n m : nat) (g : G),
  unif next (n + m) g =
  (fst (unif next n g) ++ fst (unif next m (snd (unif next n g))), snd (unif next m (snd (unif next n g)))).
Proof. intros X next. exact (unif_app next). Qed.
End Streams.
Print Assumptions C14_to_stream_cases.
Print Assumptions C14_entry_points_use_one_stream.
Print Assumptions C14_int_seed_output_function_of_seed_and_arguments.
Print Assumptions C14_int_seed_history_independent.
Print Assumptions C14_shared_generator_advances.
Print Assumptions C14_shared_generator_consecutive_segments.
Print Assumptions C14_empi_seq_consecutive_segments.
Print Assumptions C14_none_uses_global_state.
Print Assumptions C14_global_seed_then_none_reproducible.
Print Assumptions C14_reset_seed_honoured.
Print Assumptions C14_reset_seed_then_output_function_of_seed.
Print Assumptions C14_numpy_integer_seed_is_int_seed.
Print Assumptions C14_uniform_draws_consecutive_segments.

(* AS CODED BEFORE fix C14-reset-seed-zero (`if seed:`), "with an explicit seed the output is a function of the seed" was
   FALSE for reset_seed(0): two sessions that differ only in an EARLIER np.random.seed value, each followed by constructing a
   tomography object, reset_seed(0) and a None-seeded generate_empi_dists, returned different draws (free generator: outputs
   name their draws) *)
Theorem C14_reset_seed_zero_before_fix_refuted :
  exists (z1 z2 : Z) (c : call),
    fst (run_call fdraw fmkgen fgseed c SNone (after_reset0_before_fix z1)) <> fst (run_call fdraw fmkgen fgseed c SNone (after_reset0_before_fix z2)).
Proof. exists 1%Z, 2%Z, (CTomoEmpiDists 2 5%Z). exact reset_seed_zero_ignored_before_fix. Qed.
Print Assumptions C14_reset_seed_zero_before_fix_refuted.

(* ---------------------------------------------------------------- Experiment objects used over a history *)
Section ExpHist.
Context {G V : Type} (draw : G -> req -> V * G) (mkgen gseed : Z -> G).

(* the value of a seeded Experiment.generate_* call: the object's CURRENT lists and schedules, the circuit every schedule
   denotes NOW, and int_seed_output (arguments and seed only) — nothing else of the world enters *)
Theorem C14_experiment_seeded_call_value : forall (o : nat) (e : ecall) (z : Z) (w : @xworld G),
  fst (xstep draw mkgen gseed (XCall o e (SInt z)) w) =
  if ecall_attr_error (conts w o) e then XErr 18       (* a needed schedule ends in an mprocess: calc_prob_dist raises AttributeError *)
  else XOut (conts w o) (circuits (conts w o)) (int_seed_output draw mkgen (to_call (conts w o) e) z).
Proof. exact (xcall_int_seed_value draw mkgen gseed). Qed.

(* for ALL histories (generate_* / calc_prob_dist calls, in-place replacement of list elements, whole-list and schedule
   assignment, copy(), reset_seed_data, np.random.seed, unrelated draws; on this or other objects): two objects whose
   current lists and schedules agree return the same value for the same seeded call *)
Theorem C14_experiment_seeded_call_function_of_current_contents :
  forall (hs1 hs2 : list xhop) (o1 o2 : nat) (e : ecall) (z : Z) (w1 w2 : @xworld G),
  conts (snd (xexec draw mkgen gseed hs1 w1)) o1 = conts (snd (xexec draw mkgen gseed hs2 w2)) o2 ->
  fst (xstep draw mkgen gseed (XCall o1 e (SInt z)) (snd (xexec draw mkgen gseed hs1 w1))) =
  fst (xstep draw mkgen gseed (XCall o2 e (SInt z)) (snd (xexec draw mkgen gseed hs2 w2))).
Proof. exact (xcall_int_seed_history_independent draw mkgen gseed). Qed.

(* in particular it equals the value returned by a FRESH Experiment built from the object's current lists *)
Theorem C14_experiment_seeded_call_equals_fresh_experiment :
  forall (o : nat) (e : ecall) (z : Z) (sd : option Z) (w w' : @xworld G),
  scheds_err (conts w o) (e_sched (conts w o)) = None ->
  exists o', fst (xstep draw mkgen gseed (XConstruct (conts w o) sd) w') = XObj o' /\
             fst (xstep draw mkgen gseed (XCall o' e (SInt z)) (snd (xstep draw mkgen gseed (XConstruct (conts w o) sd) w'))) =
             fst (xstep draw mkgen gseed (XCall o e (SInt z)) w).
Proof. exact (xcall_equals_fresh_experiment draw mkgen gseed). Qed.

(* `experiment.<list k>[i] = e` takes effect: entry i of that list of THAT object is e afterwards, everything else (other
   entries, schedules, other objects - copies included -, all random state) is unchanged *)
Theorem C14_experiment_in_place_replacement : forall (o k i e : nat) (w : @xworld G),
  (k < 4)%nat -> (i < length (elist k (conts w o)))%nat ->
  let w' := snd (xstep draw mkgen gseed (XSetItem o k i e) w) in
  fst (xstep draw mkgen gseed (XSetItem o k i e) w) = XUnit /\ base w' = base w /\
  nth_error (elist k (conts w' o)) i = Some e /\
  (forall j, j <> i -> nth_error (elist k (conts w' o)) j = nth_error (elist k (conts w o)) j) /\
  e_sched (conts w' o) = e_sched (conts w o) /\
  (forall o', o' <> o -> conts w' o' = conts w o').
Proof. exact (set_item_contents draw mkgen gseed). Qed.

(* copy(): a new object with the same contents; the original and every other object keep theirs *)
Theorem C14_experiment_copy_contents : forall (o : nat) (w : @xworld G),
  scheds_err (conts w o) (e_sched (conts w o)) = None ->
  exists o', fst (xstep draw mkgen gseed (XCopy o) w) = XObj o' /\ o' = nobj (base w) /\
             conts (snd (xstep draw mkgen gseed (XCopy o) w)) o' = conts w o /\
             (forall o'', o'' <> o' -> conts (snd (xstep draw mkgen gseed (XCopy o) w)) o'' = conts w o'').
Proof. exact (copy_contents draw mkgen gseed). Qed.
(* ALIASING: copy() copies the outer schedule list only - the copy shares the INNER lists with its original ... *)
Theorem C14_experiment_copy_shares_inner_schedule_lists : forall (o : nat) (w : @xworld G),
  scheds_err (conts w o) (e_sched (conts w o)) = None ->
  stags (snd (xstep draw mkgen gseed (XCopy o) w)) (nobj (base w)) = stags w o /\
  (forall o', o' <> nobj (base w) -> stags (snd (xstep draw mkgen gseed (XCopy o) w)) o' = stags w o').
Proof. exact (copy_shares_inner_schedule_lists draw mkgen gseed). Qed.
(* ... so `experiment.schedules[s][j] = item` changes entry j of that inner list in EVERY object sharing it (and nowhere else);
   element lists and random state are untouched *)
Theorem C14_experiment_in_place_schedule_item_is_shared : forall (o s j : nat) (it : nat * nat) (t : nat) (items : list (nat * nat)) (w : @xworld G),
  nth_error (stags w o) s = Some t -> nth_error (e_sched (conts w o)) s = Some items -> (j < length items)%nat ->
  let w' := snd (xstep draw mkgen gseed (XSetSchedItem o s j it) w) in
  fst (xstep draw mkgen gseed (XSetSchedItem o s j it) w) = XUnit /\ base w' = base w /\
  (forall o' s', length (stags w o') = length (e_sched (conts w o')) ->
     nth_error (e_sched (conts w' o')) s' =
     match nth_error (stags w o') s', nth_error (e_sched (conts w o')) s' with
     | Some t', Some items' => Some (if Nat.eqb t' t then set_nth j it items' else items')
     | _, _ => None
     end) /\
  (forall o' k, elist k (conts w' o') = elist k (conts w o')).
Proof. exact (set_sched_item_shared draw mkgen gseed). Qed.
End ExpHist.
Print Assumptions C14_experiment_copy_shares_inner_schedule_lists.
Print Assumptions C14_experiment_in_place_schedule_item_is_shared.
Print Assumptions C14_experiment_seeded_call_value.
Print Assumptions C14_experiment_seeded_call_function_of_current_contents.
Print Assumptions C14_experiment_seeded_call_equals_fresh_experiment.
Print Assumptions C14_experiment_in_place_replacement.
Print Assumptions C14_experiment_copy_contents.

(* the circuit a schedule denotes is read from the CURRENT lists: position j is the element its j-th item (k, i) refers to now *)
Theorem C14_circuit_reads_current_lists : forall (c : econt) (s : nat) (items : list (nat * nat)) (r : circ) (j k i : nat),
  nth_error (e_sched c) s = Some items -> circuit c s = Some r -> nth_error items j = Some (k, i) ->
  exists e, nth_error (elist k c) i = Some e /\ nth_error r j = Some (k, e).
Proof. exact circuit_reads_current_lists. Qed.
Print Assumptions C14_circuit_reads_current_lists.

(* ---------------------------------------------------------------- non-vacuity *)
Local Open Scope Qc_scope.
Definition q (a : Z) (b : positive) : Qc := Q2Qc (a # b).
(* p = (1/2, 0, 1/4, 1/4), r = 5/8 lies in [1/2, 3/4) -> index 2 (skipping the zero entry) *)
Example C14_example_inversion :
  rn2data Qc_OF [q 1 2; q 0 1; q 1 4; q 1 4] (q 5 8) = 2%Z /\
  rn2data Qc_OF [q 1 2; q 0 1; q 1 4; q 1 4] (q 1 2) = 2%Z /\
  rn2data Qc_OF [q 1 2; q 0 1; q 1 4; q 1 4] (q 1 1) = 3%Z.
Proof. vm_compute. repeat split. Qed.
(* the fallback skips trailing zeros: p = (1/2, 1/2, 0, 0), r = 1 -> index 1 (the last positive entry), and the hypotheses of
   C14_only_positive_probability_outcomes / C14_generated_data_valid are satisfiable *)
Example C14_example_fallback :
  rn2data Qc_OF [q 1 2; q 1 2; q 0 1; q 0 1] (q 1 1) = 1%Z /\ rn2data_r Qc_OF (cadd Qc_OF) [q 1 2; q 1 2; q 0 1; q 0 1] (q 1 1) = 1%Z /\
  gen_data Qc_OF (q 1 100) [q 1 2; q 1 2; q 0 1; q 0 1] [q 1 1; q 0 1; q 3 4] = MOk [1; 0; 1]%Z.
Proof. vm_compute. repeat split. Qed.
Example C14_example_has_pos : has_pos Qc_OF [q 1 2; q 1 2; q 0 1; q 0 1].
Proof. exists 1%nat. split; [cbn; lia|]. split; [apply (proj1 (k_leb Qc_OF _ _)); vm_compute; reflexivity|]. intros H. discriminate H. Qed.
(* the docstring example of calc_empi_dist_sequence is well-formed and gives (5,[2/5,3/5]) ... *)
Example C14_example_empi_pre :
  empi_pre 2 [1;1;1;0;0;1;1;1;0;1;1;1;1;1;0;0;1;1;0;1]%Z [5;10;20]%Z.
Proof. unfold empi_pre. cbn. repeat split; try lia; repeat constructor; lia. Qed.
Definition unq (r : eres (list (Z * list Qc))) : option (list (Z * list Q)) :=
  match r with EOk l => Some (map (fun p => (fst p, map (fun x : Qc => this x) (snd p))) l) | EErr _ => None end.
Example C14_example_empi_seq :
  unq (empi_seq Qc_OF 2 [1;1;1;0;0;1;1;1;0;1;1;1;1;1;0;0;1;1;0;1]%Z [5;10;20]%Z) =
  Some [(5%Z, [2#5; 3#5]%Q); (10%Z, [3#10; 7#10]%Q); (20%Z, [3#10; 7#10]%Q)].
Proof. vm_compute. reflexivity. Qed.

(* Experiment history on the free generator: states [7], povms [3;4], schedules [[state 0; povm 0]; [state 0; povm 1]]; generate, then
   experiment.states[0] = 9, then the same seeded call: the circuit table names element 9, the draws are the same named draws *)
Definition ex_cont : econt := {| e_states := [7%nat]; e_povms := [3%nat; 4%nat]; e_gates := []; e_mps := [];
                                 e_sched := [[(0, 0); (1, 0)]; [(0, 0); (1, 1)]]%nat |}.
Example C14_example_experiment_history :
  map (fun r => match r with XOut _ t _ => t | _ => [] end)
      (fst (xexec fdraw fmkgen fgseed [XConstruct ex_cont None; XCall 0 (EData 1 5%Z) (SInt 11%Z); XSetItem 0 0 0 9;
                                       XCall 0 (EData 1 5%Z) (SInt 11%Z)] {| base := fworld0; conts := fun _ => econt0; stags := fun _ => []; ntag := O |}))
  = [[]; [Some [(0, 7); (1, 3)]; Some [(0, 7); (1, 4)]]; []; [Some [(0, 9); (1, 3)]; Some [(0, 9); (1, 4)]]]%nat
  /\ scheds_err ex_cont (e_sched ex_cont) = None.
Proof. vm_compute. split; reflexivity. Qed.

(* aliasing: construct, copy, then `copy.schedules[1][1] = (povm, 0)`: the ORIGINAL's schedule 1 changes too; after
   `copy.schedules = ...` a further in-place change of the copy leaves the original alone *)
Example C14_example_schedule_aliasing :
  let w := snd (xexec fdraw fmkgen fgseed [XConstruct ex_cont None; XCopy 0; XSetSchedItem 1 1 1 (1, 0); XSetSched 1 [[(0, 0); (1, 1)]];
                                           XSetSchedItem 1 0 1 (1, 0)]%nat
                      {| base := fworld0; conts := fun _ => econt0; stags := fun _ => []; ntag := O |}) in
  e_sched (conts w 0) = [[(0, 0); (1, 0)]; [(0, 0); (1, 0)]]%nat /\ e_sched (conts w 1) = [[(0, 0); (1, 0)]]%nat.
Proof. vm_compute. split; reflexivity. Qed.

(* stream theorems are non-vacuous: on the free generator a QST-like object with 3 schedules, sample sizes [5;10], int seed 7:
   the row for n=5 holds draws 0,2,4 and the row for n=10 draws 1,3,5 of the fresh generator of seed 7 (draws are made schedule-major, the output is K x S) *)
Example C14_example_flow :
  int_seed_output fdraw fmkgen (CTomoEmpiDistsSeq 3 [5;10]%Z) 7%Z =
  EOk [[(5%Z, ((1%Z, 7%Z, 0%nat), RMulti 5 0)); (5%Z, ((1%Z, 7%Z, 2%nat), RMulti 5 1)); (5%Z, ((1%Z, 7%Z, 4%nat), RMulti 5 2))];
       [(10%Z, ((1%Z, 7%Z, 1%nat), RMulti 10 0)); (10%Z, ((1%Z, 7%Z, 3%nat), RMulti 10 1)); (10%Z, ((1%Z, 7%Z, 5%nat), RMulti 10 2))]]
  /\ single_stream (CTomoEmpiDistsSeq 3 [5;10]%Z) (SInt 7%Z) /\ call_pre (CTomoEmpiDistsSeq 3 [5;10]%Z) = None.
Proof. vm_compute. repeat split. Qed.
