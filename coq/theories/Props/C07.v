(* C07 — tensor products and embeddings respect subsystem structure: property theorems only.
   Model/C07_Tensor.v has two modes.  [Fixed] is quara AFTER the repairs fixes/C07-left-permutation-matrix-size-product and
   fixes/C07-mprocess-tensor-outcome-layout; it is the model the harness executes ([eval_fast], [calc_perm_map], [mp_slot Fixed])
   and compares with the implementation, and every positive theorem below covers it for ANY number of subsystems.
   [Coded] is the code AS IT WAS BEFORE those repairs; the positive theorems cover it only up to three subsystems (where sum and
   product of the neighbouring sizes coincide) and the [..._refuted] theorems show that it fails from four subsystems on /
   for the measurement-process outcome layout. *)
From Coq Require Import Arith List ZArith Lia.
From QV.Core Require Import OF Sums Mat QcOF.
From QV.Model Require Import C07_Tensor.
From QV.Proofs Require Import C07_Kron.
Import ListNotations.

(* the commutation matrix _K(d1,d2) of the code (closed form; [C07_K_is_sum_of_units] ties it to the literal sum)
   swaps the factors of a Kronecker product: K (a (x) b) = b (x) a, |a| = d2, |b| = d1 *)
Theorem C07_K_swaps : forall (R : CR) d1 d2 (a b : @vec R) i, (i < d1 * d2)%nat ->
  mv (d2 * d1) (Kmat d1 d2) (kronv d1 a b) i = kronv d2 b a i.
Proof. intros R. exact (@Kmat_swaps R). Qed.
Print Assumptions C07_K_swaps.

Theorem C07_K_is_sum_of_units : forall (R : CR) d1 d2,
  @meq R (d1 * d2) (d2 * d1) (Kmat_sum d1 d2) (Kmat d1 d2).
Proof. intros R. exact (@Kmat_sum_eq R). Qed.
Print Assumptions C07_K_is_sum_of_units.

From Coq Require Import Permutation Sorted.
From QV.Proofs Require Import C07_Perm C07_Loop C07_Main.

(* np.kron(np.kron(I_h, K(dpos,dprev)), I_t) is the permutation matrix of the index map that the executed model uses *)
Theorem C07_left_perm_is_index_map : forall (R : CR) h t dpos dprev,
  @meq R (h * (dpos * dprev) * t) (h * (dpos * dprev) * t) (lpm t dpos dprev) (pmat (lpm_map t dpos dprev)).
Proof. intros R. exact (@lpm_pmat R). Qed.
Print Assumptions C07_left_perm_is_index_map.

(* adjacent swap, corrected sizes: with h, t the PRODUCTS of the neighbouring sizes,
   (I_h (x) K (x) I_t) . (x)(pre ++ a :: b :: post) . (I_h' (x) K' (x) I_t')^T = (x)(pre ++ b :: a :: post)
   for rectangular factors (rows x cols); vectors are the single-column case [C07_adjacent_swap_vec] *)
Theorem C07_adjacent_swap : forall (R : CR) (pre : list (@rfac R)) a b post,
  Forall fpos pre -> fpos a -> fpos b -> Forall fpos post ->
  let fs := pre ++ a :: b :: post in
  meq (rsize fs) (csize fs)
    (mmul (csize fs) (mmul (rsize fs) (lpm (rsize post) (frows b) (frows a)) (tensm fs)) (mT (lpm (csize post) (fcols b) (fcols a))))
    (tensm (pre ++ b :: a :: post)).
Proof. intros R. exact (@swap_rect R). Qed.
Print Assumptions C07_adjacent_swap.

Theorem C07_adjacent_swap_vec : forall (R : CR) (pre : list (@rfac R)) a b post,
  Forall fpos pre -> fpos a -> fpos b -> Forall fpos post ->
  Forall onecol pre -> onecol a -> onecol b -> Forall onecol post ->
  let fs := pre ++ a :: b :: post in
  meq (rsize fs) 1 (mmul (rsize fs) (lpm (rsize post) (frows b) (frows a)) (tensm fs)) (tensm (pre ++ b :: a :: post)).
Proof. intros R. exact (@swap_col R). Qed.
Print Assumptions C07_adjacent_swap_vec.

(* the model of the code AS CODED BEFORE fix C07-left-permutation-matrix-size-product (mode [Coded]: head / tail sizes = SUMS of
   the neighbouring sizes) is refuted:
   (a) four subsystems of size 4 with names 1 2 3 0: the matrix has dimension 128 instead of 256 and the matmul raises, for every fuel,
       while the corrected sizes give a matrix;
   (b) sizes 1,2,2,2,3,3 swapped at position 3: the coded dimension is right (3*4*6 = 72) and the matrix is a wrong permutation:
       it does not swap the adjacent factors of a concrete Kronecker product, the corrected one does. *)
Theorem C07_left_permutation_matrix_refuted :
  (forall (R : CR) fuel, @calc_perm_matrix R Coded (S fuel) [1; 2; 3; 0]%Z [4; 4; 4; 4]%nat = PErr 1) /\
  (forall R : CR, exists Q, @calc_perm_matrix R Fixed 16 [1; 2; 3; 0]%Z [4; 4; 4; 4]%nat = POk Q) /\
  (left_perm_dim Coded 3 w_sizes = prodn w_sizes /\
   mv 72 (@left_perm_matrix Qc_CR Coded 3 w_sizes) (tens w_fs) 6%nat <> tens (swap_at 3 w_fs) 6%nat /\
   mv 72 (@left_perm_matrix Qc_CR Fixed 3 w_sizes) (tens w_fs) 6%nat = tens (swap_at 3 w_fs) 6%nat).
Proof. split; [exact coded_crash|]. split; [exact fixed_no_crash|exact coded_wrong]. Qed.
Print Assumptions C07_left_permutation_matrix_refuted.

(* calc_permutation_matrix, corrected sizes (any number of subsystems) or coded sizes with at most three subsystems:
   if the loop returns Q (row sizes) and P (column sizes) then Q . (x)fs . P^T is the Kronecker product of the SAME factors
   (a permutation of the (name, factor) pairs) with names ascending *)
Theorem C07_perm_sorts_rect : forall (R : CR) (T : Type) (tofac : T -> @rfac R) md fuel names (ts : list T) Q P,
  let fs := map tofac ts in
  length names = length ts -> Forall fpos fs -> (md = Fixed \/ length names <= 3)%nat ->
  calc_perm_matrix md fuel names (map frows fs) = POk Q ->
  calc_perm_matrix md fuel names (map fcols fs) = POk P ->
  exists names' ts', Permutation (combine names ts) (combine names' ts') /\ length names' = length ts' /\
    Sorted Z.le names' /\
    meq (rsize fs) (csize fs) (mmul (csize fs) (mmul (rsize fs) Q (tensm fs)) (mT P)) (tensm (map tofac ts')).
Proof. intros R T. exact (@perm_rect_sorts R T). Qed.
Print Assumptions C07_perm_sorts_rect.

Theorem C07_perm_sorts_vec : forall (R : CR) md fuel names (fs : list (@vfac R)) Q,
  length names = length fs -> Forall (fun f => 0 < fst f)%nat fs -> (md = Fixed \/ length names <= 3)%nat ->
  calc_perm_matrix md fuel names (map fst fs) = POk Q ->
  exists names' fs', Permutation (combine names fs) (combine names' fs') /\ length names' = length fs' /\
    Sorted Z.le names' /\ veq (vsize fs) (mv (vsize fs) Q (tens fs)) (tens fs').
Proof. intros R. exact (@perm_vec_sorts R). Qed.
Print Assumptions C07_perm_sorts_vec.

(* termination: the bubble loop performs exactly one swap per inversion; with that much fuel it returns a matrix
   (never the dimension error) — inversions <= n^2 *)
Theorem C07_perm_terminates : forall (R : CR) md fuel names sizes,
  length names = length sizes -> (inversions names <= fuel)%nat -> (md = Fixed \/ length names <= 3)%nat ->
  exists Q, @calc_perm_matrix R md fuel names sizes = POk Q.
Proof. intros R. exact (@perm_terminates R). Qed.
Print Assumptions C07_perm_terminates.
Theorem C07_inversions_bound : forall l, (inversions l <= length l * length l)%nat.
Proof. exact inversions_le. Qed.
Print Assumptions C07_inversions_bound.

(* the executed index-map version returns the same result (same error code / the index map of the same matrix), both modes *)
Theorem C07_perm_map_is_perm_matrix : forall (R : CR) memo md fuel names sizes, memo_ok memo ->
  perm_rel (prodn sizes) (@calc_perm_matrix R md fuel names sizes) (calc_perm_map memo md fuel names sizes).
Proof. intros R. exact (@calc_perm_map_correct R). Qed.
Print Assumptions C07_perm_map_is_perm_matrix.

(* first part of _tensor_product_hs_hs: reshape((I (x) K(d2,d1) (x) I)(|HS1>> (x) |HS2>>)) = HS1 (x) HS2 *)
Theorem C07_hs_reindex : forall (R : CR) d1 d2 (hs1 hs2 : @mat R),
  meq (d1 * d2) (d1 * d2) (hs_hs_core d1 d2 hs1 hs2) (kron d2 d2 hs1 hs2).
Proof. intros R. exact (@hs_hs_core_kron R). Qed.
Print Assumptions C07_hs_reindex.

From QV.Proofs Require Import C07_Products.

(* ---- the products.  [denotes o items]: the object's subsystem names are the (ascending, distinct) names of [items], its
   per-subsystem row / column sizes are those of the factors, and its matrix is the Kronecker product of the factors in that
   order (State: single-column factors = coefficient vectors; Povm: row x = vec of outcome x, rows = local outcome counts;
   Gate: HS matrices).  One product step keeps this, for all three kinds: *)
Theorem C07_tp_obj_sound : forall (R : CR) k md fuel (o1 o2 o : @robj R) items1 items2,
  denotes o1 items1 -> denotes o2 items2 -> kind_ok k (map snd (items1 ++ items2)) ->
  (md = Fixed \/ length (items1 ++ items2) <= 3)%nat ->
  tp_obj k md fuel o1 o2 = POk o ->
  exists items, Permutation (items1 ++ items2) items /\ denotes o items.
Proof. intros R. exact (@tp_obj_sound R). Qed.
Print Assumptions C07_tp_obj_sound.

(* ... hence for EVERY order and grouping of the arguments (expression tree [d], leaves denoting products of their own
   factors; tensor_product(a, b, c, ...) is the left-nested tree): the result denotes the Kronecker product of ALL the
   leaves' factors in ascending name order.  Corrected sizes: any number of subsystems; sizes as coded: at most three. *)
Theorem C07_eval_sound : forall (R : CR) k md fuel (d : @dtree R) o, dwf d -> kind_ok k (map snd (ditems d)) ->
  (md = Fixed \/ length (ditems d) <= 3)%nat ->
  eval k md fuel (erase d) = POk o -> exists items, Permutation (ditems d) items /\ denotes o items.
Proof. intros R. exact (@eval_sound R). Qed.
Print Assumptions C07_eval_sound.

(* ... and it does return a value (no dimension error, no fuel exhaustion with n^2 fuel) when the names are distinct *)
Theorem C07_eval_total : forall (R : CR) k md fuel (d : @dtree R), dwf d -> kind_ok k (map snd (ditems d)) ->
  NoDup (map fst (ditems d)) -> (md = Fixed \/ length (ditems d) <= 3)%nat ->
  (length (ditems d) * length (ditems d) <= fuel)%nat ->
  exists o, eval k md fuel (erase d) = POk o.
Proof. intros R. exact (@eval_total R). Qed.
Print Assumptions C07_eval_total.

(* ---- the EXECUTED model: the harness runs [eval_fast] (index maps instead of permutation matrices, closed form of the HS
   re-indexing, memoised with [vfreeze]).  One step returns the same error code / the same subsystem data and an entrywise
   equal matrix as the specification-level [tp_obj]; hence the two theorems above hold verbatim for [eval_fast]. *)
From QV.Exec Require Import Base.
From QV.Proofs Require Import C07_Fast.
Theorem C07_tp_obj_fast_agrees : forall (R : CR) memo k md fuel (o1 o2 : @robj R) items1 items2, memo_ok memo ->
  denotes o1 items1 -> denotes o2 items2 -> kind_ok k (map snd (items1 ++ items2)) ->
  prel (tp_obj k md fuel o1 o2) (tp_obj_fast memo k md fuel o1 o2).
Proof. intros R. exact (@tp_obj_fast_rel R). Qed.
Print Assumptions C07_tp_obj_fast_agrees.
Theorem C07_eval_fast_sound : forall (R : CR) k md fuel (d : @dtree R) o, dwf d -> kind_ok k (map snd (ditems d)) ->
  (md = Fixed \/ length (ditems d) <= 3)%nat ->
  eval_fast (vfreeze 0%nat) k md fuel (erase d) = POk o -> exists items, Permutation (ditems d) items /\ denotes o items.
Proof. intros R k md fuel. exact (@eval_fast_sound R (vfreeze 0%nat) k md fuel vfreeze_memo_ok). Qed.
Print Assumptions C07_eval_fast_sound.
Theorem C07_eval_fast_total : forall (R : CR) k md fuel (d : @dtree R), dwf d -> kind_ok k (map snd (ditems d)) ->
  NoDup (map fst (ditems d)) -> (md = Fixed \/ length (ditems d) <= 3)%nat ->
  (length (ditems d) * length (ditems d) <= fuel)%nat ->
  exists o, eval_fast (vfreeze 0%nat) k md fuel (erase d) = POk o.
Proof. intros R k md fuel. exact (@eval_fast_total R (vfreeze 0%nat) k md fuel vfreeze_memo_ok). Qed.
Print Assumptions C07_eval_fast_total.

(* product statistics: <a (x) b, c (x) d> = <a, c> <b, d> ; in general ((x) V_k)((x) x_k) evaluated at the row-major
   position of a multi-index (shape = the local outcome counts, as Povm.nums_local_outcomes reports) is the product of
   the local values (V_k x_k)[idx_k] *)
Theorem C07_dot_kron : forall (R : CR) n1 n2 (a b c d : @vec R), (0 < n2)%nat ->
  dot (n1 * n2) (kronv n2 a b) (kronv n2 c d) = cmul R (dot n1 a c) (dot n2 b d).
Proof. intros R. exact (@dot_kronv R). Qed.
Print Assumptions C07_dot_kron.
Theorem C07_product_statistics : forall (R : CR) (fs : list (@rfac R)) (xs : list (@vfac R)) idx,
  Forall fpos fs -> map fst xs = map fcols fs -> Forall2 (fun n x => (x < n)%nat) (map frows fs) idx ->
  mv (csize fs) (tensm fs) (tens xs) (rmaj (map frows fs) idx) = prodvals (apply_facs fs xs) idx.
Proof. intros R. exact (@product_statistics R). Qed.
Print Assumptions C07_product_statistics.

(* MProcess (x) MProcess: the reported shape is (n1, n2) (row-major access).  Repaired loop order (mode [Fixed], the executed
   model): the pair (i1, i2) sits where the reported shape says.  AS CODED BEFORE fix C07-mprocess-tensor-outcome-layout (mode
   [Coded]) the loops stored the pair (i1, i2) at i2*n1 + i1, the layout of shape (n2, n1): refuted for 3 x 2 outcomes at (0, 1);
   with equal counts the operands' outcomes were exchanged. *)
Theorem C07_mprocess_layout_fixed : forall n1 n2 i1 i2, (i1 < n1)%nat -> (i2 < n2)%nat ->
  mp_slot Fixed n1 n2 (rmaj [n1; n2] [i1; i2]) = (i1, i2).
Proof. exact mp_layout_fixed. Qed.
Print Assumptions C07_mprocess_layout_fixed.
Theorem C07_mprocess_layout_coded_is_column_major : forall n1 n2 i1 i2, (i1 < n1)%nat -> (i2 < n2)%nat ->
  mp_slot Coded n1 n2 (rmaj [n2; n1] [i2; i1]) = (i1, i2).
Proof. exact mp_layout_coded. Qed.
Print Assumptions C07_mprocess_layout_coded_is_column_major.
Theorem C07_mprocess_layout_refuted :
  exists n1 n2 i1 i2, (i1 < n1)%nat /\ (i2 < n2)%nat /\ mp_slot Coded n1 n2 (rmaj [n1; n2] [i1; i2]) <> (i1, i2).
Proof. exact mp_layout_refuted. Qed.
Print Assumptions C07_mprocess_layout_refuted.
Theorem C07_mprocess_layout_equal_counts_exchanged : forall n i1 i2, (i1 < n)%nat -> (i2 < n)%nat ->
  mp_slot Coded n n (rmaj [n; n] [i1; i2]) = (i2, i1).
Proof. exact mp_layout_equal_counts. Qed.
Print Assumptions C07_mprocess_layout_equal_counts_exchanged.

(* ---- embedding a qutrit operation into two qubits:  X |-> Pi (X (+) c I) Pi^T  with the permutation Pi built by
   _permutation_matrix_from_qutrits_to_qubits ([emb_perm]) and c = 0 (states), 1/m (POVM elements), 1/sqrt(#Kraus) (Kraus matrices).
   All statements hold for every block size n3, padding k and every bijection s (t its inverse); [emb_perm n] is one for EVERY
   number n of qutrits (C07_embed_perm_bijective). *)
From QV.Core Require Import Psd.
From QV.Model Require Import C07_Embed.
From QV.Proofs Require Import C07_Embed.

(* the literal  perm_matrix @ np.block(...) @ perm_matrix.T  is the index-map form that is executed *)
Theorem C07_embed_is_index_map : forall (R : CR) n4 n3 s t c (M : @mat R), bij n4 s t ->
  meq n4 n4 (embed_mat n4 n3 s c M) (embed_fast n3 s c M).
Proof. intros R. exact (@embed_fast_eq R). Qed.
Print Assumptions C07_embed_is_index_map.
(* multiplicative: emb_c1(A) emb_c2(B) = emb_(c1 c2)(A B) *)
Theorem C07_embed_multiplicative : forall (R : CR) n3 k s t c1 c2 (A B : @mat R), bij (n3 + k) s t ->
  meq (n3 + k) (n3 + k) (mmul (n3 + k) (embed_fast n3 s c1 A) (embed_fast n3 s c2 B)) (embed_fast n3 s (cmul R c1 c2) (mmul n3 A B)).
Proof. intros R. exact (@embed_mmul R). Qed.
Print Assumptions C07_embed_multiplicative.
(* trace: tr emb_c(A) = tr A + k c   (states: c = 0, trace preserved) *)
Theorem C07_embed_trace : forall (R : CR) n3 k s t c (A : @mat R), bij (n3 + k) s t ->
  mtrace (n3 + k) (embed_fast n3 s c A) = cadd R (mtrace n3 A) (sumn k (fun _ => c)).
Proof. intros R. exact (@embed_trace R). Qed.
Print Assumptions C07_embed_trace.
(* outcome statistics of embedded inputs: tr(emb_c(E) emb_0(rho)) = tr(E rho) for every padding coefficient c *)
Theorem C07_embed_statistics : forall (R : CR) n3 k s t cE (E rho : @mat R), bij (n3 + k) s t ->
  mtrace (n3 + k) (mmul (n3 + k) (embed_fast n3 s cE E) (embed_fast n3 s (c0 R) rho)) = mtrace n3 (mmul n3 E rho).
Proof. intros R. exact (@embed_statistics R). Qed.
Print Assumptions C07_embed_statistics.
(* an embedded Kraus pair acts on an embedded input as the original pair: emb_c(K) emb_0(rho) emb_c'(K') = emb_0(K rho K') *)
Theorem C07_embed_kraus_action : forall (R : CR) n3 k s t c c' (K rho K' : @mat R), bij (n3 + k) s t ->
  meq (n3 + k) (n3 + k)
    (mmul (n3 + k) (mmul (n3 + k) (embed_fast n3 s c K) (embed_fast n3 s (c0 R) rho)) (embed_fast n3 s c' K'))
    (embed_fast n3 s (c0 R) (mmul n3 (mmul n3 K rho) K')).
Proof. intros R. exact (@embed_kraus_action R). Qed.
Print Assumptions C07_embed_kraus_action.
(* trace preservation: sum_k A_k B_k = I (A_k = K_k^dagger, B_k = K_k) and m c' c = 1  ==>  the embedded set sums to I as well *)
Theorem C07_embed_tp : forall (R : CR) n3 k s t c' c (l : list (@mat R * @mat R)), bij (n3 + k) s t ->
  meq n3 n3 (sum_prod n3 l) mid -> nsum (length l) (cmul R c' c) = c1 R ->
  meq (n3 + k) (n3 + k) (sum_prod (n3 + k) (map (fun p => (embed_fast n3 s c' (fst p), embed_fast n3 s c (snd p))) l)) mid.
Proof. intros R. exact (@embed_tp R). Qed.
Print Assumptions C07_embed_tp.
(* instruments: one Kraus list PER OUTCOME, of any (possibly different) lengths: it is the TOTAL number of Kraus operators over all
   outcomes that enters the condition  m c' c = 1  (MProcess._embed...: c' = c = 1 / sqrt(total Kraus count)) ... *)
Theorem C07_embed_tp_instrument : forall (R : CR) n3 k s t c' c (ls : list (list (@mat R * @mat R))), bij (n3 + k) s t ->
  meq n3 n3 (sum_prod n3 (concat ls)) mid -> nsum (list_sum (map (@length _) ls)) (cmul R c' c) = c1 R ->
  meq (n3 + k) (n3 + k)
    (sum_prod (n3 + k) (concat (map (map (fun p => (embed_fast n3 s c' (fst p), embed_fast n3 s c (snd p)))) ls))) mid.
Proof. intros R. exact (@embed_tp_instrument R). Qed.
Print Assumptions C07_embed_tp_instrument.
(* ... and the condition is necessary: with at least one padded dimension, an embedded Kraus set that sums to the identity forces
   m c' c = 1 (so a coefficient computed from the number of OUTCOMES instead of the number of Kraus operators is not trace
   preserving as soon as some outcome has Kraus rank >= 2) *)
Theorem C07_embed_tp_only_if : forall (R : CR) n3 k s t c' c (l : list (@mat R * @mat R)), bij (n3 + k) s t -> (0 < k)%nat ->
  meq (n3 + k) (n3 + k) (sum_prod (n3 + k) (map (fun p => (embed_fast n3 s c' (fst p), embed_fast n3 s c (snd p))) l)) mid ->
  nsum (length l) (cmul R c' c) = c1 R.
Proof. intros R. exact (@embed_tp_only_if R). Qed.
Print Assumptions C07_embed_tp_only_if.
(* POVMs: the embedded elements sum to the identity when the elements do and m c = 1 (Povm._embed...: c = 1 / m) *)
Theorem C07_embed_povm_identity_sum : forall (R : CR) n3 k s t c (l : list (@mat R)), bij (n3 + k) s t ->
  meq n3 n3 (sum_mats l) mid -> nsum (length l) c = c1 R ->
  meq (n3 + k) (n3 + k) (sum_mats (map (embed_fast n3 s c) l)) mid.
Proof. intros R. exact (@embed_povm_identity_sum R). Qed.
Print Assumptions C07_embed_povm_identity_sum.
(* positive semidefiniteness: block diagonal + permutation congruence preserves PSD when the padding coefficient c is real and
   non-negative (0 for states, 1/m for POVM elements).  [C07_embed_psd]: complex Hermitian matrices, PSD through the real
   symmetric embedding [[A, -B], [B, A]] of Model/HermEmbed.v (the definition all physicality verdicts use);
   [C07_embed_psd_real]: the real symmetric case. *)
From QV.Core Require Import Cplx.
From QV.Model Require Import HermEmbed.
From QV.Proofs Require Import C07_EmbedHerm.
Theorem C07_embed_psd : forall (F : OF) n3 k s t c (M : @mat (CF F)), bij (n3 + k) s t ->
  PSD F (n3 + n3) (embed F n3 M) -> kle F (c0 F) c ->
  PSD F ((n3 + k) + (n3 + k)) (embed F (n3 + k) (@embed_fast (CF F) n3 s (zof c) M)).
Proof. exact embed_psd_herm. Qed.
Print Assumptions C07_embed_psd.
Theorem C07_embed_psd_real : forall (F : OF) n3 k s t c (M : @mat F), bij (n3 + k) s t -> PSD F n3 M -> kle F (c0 F) c ->
  PSD F (n3 + k) (embed_fast n3 s c M).
Proof. exact embed_psd. Qed.
Print Assumptions C07_embed_psd_real.
(* the permutation built by _permutation_matrix_from_qutrits_to_qubits, for EVERY number n of qutrits: closed form of the loop with
   its two counters, bijection of [0, 4^n) (also in the block form n3 + k = 3^n + (4^n - 3^n) the theorems above use), and it sends
   the qubit basis states without a digit 3 to the qutrit basis states in order (base-3 reading of the base-4 digits), all others
   into [3^n, 4^n) *)
From QV.Proofs Require Import C07_EmbedPerm.
Theorem C07_embed_perm_closed_form : forall n a, (a < 4 ^ n)%nat ->
  emb_perm n a = if has3 n a then (3 ^ n + cnt (has3 n) 0 a)%nat else cnt (non3 n) 0 a.
Proof. exact emb_perm_char. Qed.
Print Assumptions C07_embed_perm_closed_form.
Theorem C07_embed_perm_bijective : forall n, bij (4 ^ n) (emb_perm n) (emb_inv n) /\ bij (3 ^ n + (4 ^ n - 3 ^ n)) (emb_perm n) (emb_inv n).
Proof. intros n. split; [apply emb_perm_bij|apply emb_perm_bij_blocks]. Qed.
Print Assumptions C07_embed_perm_bijective.
Theorem C07_embed_perm_qutrit_states : forall n a, (a < 4 ^ n)%nat ->
  (emb_perm n a < 4 ^ n)%nat /\
  (if has3 n a then (3 ^ n <= emb_perm n a)%nat else emb_perm n a = base3 n a /\ (emb_perm n a < 3 ^ n)%nat).
Proof. exact emb_perm_range. Qed.
Print Assumptions C07_embed_perm_qutrit_states.

(* ---- list-level layout of the product functions and of the list permutation (static part; the functions REGENERATED from
   operators.py / matrix_util.py are proved equal to these list expressions on every run, coq/gen/C07_Equiv2.v):
   the list [list_prod l1 l2] built by `for a in l1: for b in l2: append` holds at position s the pair the slot function of the
   repaired model names (row-major w.r.t. shape (n1, n2)); "P @ list" for a permutation matrix given by its index map *)
From QV.Model Require Import C07_PySym.
From QV.Proofs Require Import C07_PyLemmas.
Theorem C07_product_list_layout : forall (A B : Type) (d1 : A) (d2 : B) (l1 : list A) (l2 : list B) s, (s < length l1 * length l2)%nat ->
  nth s (list_prod l1 l2) (d1, d2) =
  (nth (fst (mp_slot Fixed (length l1) (length l2) s)) l1 d1, nth (snd (mp_slot Fixed (length l1) (length l2) s)) l2 d2).
Proof. exact @list_prod_slot. Qed.
Print Assumptions C07_product_list_layout.
Theorem C07_convert_list_is_P_times_list : forall (old : list BinNums.Z) (s : nat -> nat) m r, (s r < m)%nat ->
  conv_row old (fun a b => if BinInt.Z.eqb b (BinInt.Z.of_nat (s (BinInt.Z.to_nat a))) then BinNums.Zpos BinNums.xH else BinNums.Z0)
    (map BinInt.Z.of_nat (seq 0 m)) (BinInt.Z.of_nat r) = Some (nth (s r) old BinNums.Z0).
Proof. exact conv_row_perm. Qed.
Print Assumptions C07_convert_list_is_P_times_list.

(* ================================================================== Examples: the hypotheses are satisfiable *)
From QV.Proofs Require Import C07_Examples.
(* four coefficient vectors of length 3 named 1, 2, 3, 0 in argument order, grouped (1 (x) 2) (x) (3 (x) 0): every hypothesis of
   C07_eval_fast_sound / C07_eval_fast_total (and of C07_eval_sound / C07_eval_total) holds, the names are NOT ascending ... *)
Example C07_example_tree_hypotheses :
  dwf ex_tree /\ kind_ok KVec (map snd (ditems ex_tree)) /\ NoDup (map fst (ditems ex_tree)) /\
  map fst (ditems ex_tree) = [1; 2; 3; 0]%Z /\ (length (ditems ex_tree) * length (ditems ex_tree) <= 16)%nat.
Proof. exact ex_tree_hyps. Qed.
(* ... the repaired model returns the object on subsystems 0 1 2 3 ... *)
Example C07_example_tree_repaired : exists o, eval_fast (vfreeze 0%nat) KVec Fixed 16 (erase ex_tree) = POk o /\ o_names o = [0; 1; 2; 3]%Z.
Proof. exact ex_tree_fixed_names. Qed.
(* ... and the model of the code as it was before fix C07-left-permutation-matrix-size-product raises on the same call *)
Example C07_example_tree_before_fix_raises : @eval Qc_CR KVec Coded 16 (erase ex_tree) = PErr 1.
Proof. exact ex_tree_coded_raises. Qed.
(* C07_perm_sorts_vec / C07_perm_terminates: names 1 2 3 0, sizes 4 4 4 4, corrected sizes, fuel 16 *)
Example C07_example_perm : (inversions [1; 2; 3; 0]%Z <= 16)%nat /\ exists Q, @calc_perm_matrix Qc_CR Fixed 16 [1; 2; 3; 0]%Z [4; 4; 4; 4]%nat = POk Q.
Proof. split; [vm_compute; lia|exact (fixed_no_crash Qc_CR)]. Qed.
(* embedding: [emb_perm 1] is a bijection of [0, 4); the identity on a qutrit is PSD and 1/3 >= 0, so its embedding with
   padding 1/3 is PSD; the one-element Kraus set {I} with c' = c = 1 satisfies the trace-preservation hypotheses *)
Example C07_example_embed_psd : PSD Qc_OF (3 + 1) (@embed_fast Qc_CR 3 (emb_perm 1) ex_third (@mid Qc_CR)).
Proof. exact (C07_embed_psd_real Qc_OF 3 1 (emb_perm 1) (emb_inv 1) ex_third mid
               (proj2 (C07_embed_perm_bijective 1)) ex_psd_id3 ex_third_nonneg). Qed.
(* ... and a Hermitian PSD qutrit operator with non-zero imaginary part satisfies the hypotheses of C07_embed_psd *)
Example C07_example_embed_psd_herm :
  PSD Qc_OF ((3 + 1) + (3 + 1)) (embed Qc_OF (3 + 1) (@embed_fast (CF Qc_OF) 3 (emb_perm 1) (@zof Qc_OF ex_third) ex_herm)).
Proof. exact (C07_embed_psd Qc_OF 3 1 (emb_perm 1) (emb_inv 1) ex_third ex_herm
               (proj2 (C07_embed_perm_bijective 1)) ex_herm_psd ex_third_nonneg). Qed.
Example C07_example_embed_tp :
  meq 3 3 (@sum_prod Qc_CR 3 [(mid, mid)]) mid /\ @nsum Qc_CR (length [(@mid Qc_CR, @mid Qc_CR)]) (cmul Qc_CR (c1 Qc_CR) (c1 Qc_CR)) = c1 Qc_CR.
Proof. exact ex_tp_hyps. Qed.
