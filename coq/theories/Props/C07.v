(* C07 — tensor products and embeddings respect subsystem structure: property theorems only. *)
From Coq Require Import Arith List ZArith Lia.
From QV.Core Require Import OF Sums Mat QcOF.
From QV.Model Require Import C07_Tensor.
From QV.Proofs Require Import C07_Kron.
Import ListNotations.

(* the commutation matrix _K(d1,d2) of the code (closed form; [C07_K_is_sum_of_units] ties it to the literal sum)
   swaps the factors of a Kronecker product: K (a (x) b) = b (x) a, |a| = d2, |b| = d1 *)
Theorem C07_K_swaps : forall (R : CR) d1 d2 (a b : @vec R) i, (i < d1 * d2)%nat ->
  mv (d2 * d1) (Kmat d1 d2) (kronv d1 a b) i = kronv d2 b a i.
Proof. intros R. exact (@Kmat_swaps R). Qed.
Print Assumptions C07_K_swaps.

Theorem C07_K_is_sum_of_units : forall (R : CR) d1 d2,
  @meq R (d1 * d2) (d2 * d1) (Kmat_sum d1 d2) (Kmat d1 d2).
Proof. intros R. exact (@Kmat_sum_eq R). Qed.
Print Assumptions C07_K_is_sum_of_units.

From Coq Require Import Permutation Sorted.
From QV.Proofs Require Import C07_Perm C07_Loop C07_Main.

(* np.kron(np.kron(I_h, K(dpos,dprev)), I_t) is the permutation matrix of the index map that the executed model uses *)
Theorem C07_left_perm_is_index_map : forall (R : CR) h t dpos dprev,
  @meq R (h * (dpos * dprev) * t) (h * (dpos * dprev) * t) (lpm t dpos dprev) (pmat (lpm_map t dpos dprev)).
Proof. intros R. exact (@lpm_pmat R). Qed.
Print Assumptions C07_left_perm_is_index_map.

(* adjacent swap, corrected sizes: with h, t the PRODUCTS of the neighbouring sizes,
   (I_h (x) K (x) I_t) . (x)(pre ++ a :: b :: post) . (I_h' (x) K' (x) I_t')^T = (x)(pre ++ b :: a :: post)
   for rectangular factors (rows x cols); vectors are the single-column case [C07_adjacent_swap_vec] *)
Theorem C07_adjacent_swap : forall (R : CR) (pre : list (@rfac R)) a b post,
  Forall fpos pre -> fpos a -> fpos b -> Forall fpos post ->
  let fs := pre ++ a :: b :: post in
  meq (rsize fs) (csize fs)
    (mmul (csize fs) (mmul (rsize fs) (lpm (rsize post) (frows b) (frows a)) (tensm fs)) (mT (lpm (csize post) (fcols b) (fcols a))))
    (tensm (pre ++ b :: a :: post)).
Proof. intros R. exact (@swap_rect R). Qed.
Print Assumptions C07_adjacent_swap.

Theorem C07_adjacent_swap_vec : forall (R : CR) (pre : list (@rfac R)) a b post,
  Forall fpos pre -> fpos a -> fpos b -> Forall fpos post ->
  Forall onecol pre -> onecol a -> onecol b -> Forall onecol post ->
  let fs := pre ++ a :: b :: post in
  meq (rsize fs) 1 (mmul (rsize fs) (lpm (rsize post) (frows b) (frows a)) (tensm fs)) (tensm (pre ++ b :: a :: post)).
Proof. intros R. exact (@swap_col R). Qed.
Print Assumptions C07_adjacent_swap_vec.

(* the faithful model (head / tail sizes = SUMS of the neighbouring sizes, as coded) is refuted:
   (a) four subsystems of size 4 with names 1 2 3 0: the matrix has dimension 128 instead of 256 and the matmul raises, for every fuel,
       while the corrected sizes give a matrix;
   (b) sizes 1,2,2,2,3,3 swapped at position 3: the coded dimension is right (3*4*6 = 72) and the matrix is a wrong permutation:
       it does not swap the adjacent factors of a concrete Kronecker product, the corrected one does. *)
Theorem C07_left_permutation_matrix_refuted :
  (forall (R : CR) fuel, @calc_perm_matrix R Coded (S fuel) [1; 2; 3; 0]%Z [4; 4; 4; 4]%nat = PErr 1) /\
  (forall R : CR, exists Q, @calc_perm_matrix R Fixed 16 [1; 2; 3; 0]%Z [4; 4; 4; 4]%nat = POk Q) /\
  (left_perm_dim Coded 3 w_sizes = prodn w_sizes /\
   mv 72 (@left_perm_matrix Qc_CR Coded 3 w_sizes) (tens w_fs) 6%nat <> tens (swap_at 3 w_fs) 6%nat /\
   mv 72 (@left_perm_matrix Qc_CR Fixed 3 w_sizes) (tens w_fs) 6%nat = tens (swap_at 3 w_fs) 6%nat).
Proof. split; [exact coded_crash|]. split; [exact fixed_no_crash|exact coded_wrong]. Qed.
Print Assumptions C07_left_permutation_matrix_refuted.

(* calc_permutation_matrix, corrected sizes (any number of subsystems) or coded sizes with at most three subsystems:
   if the loop returns Q (row sizes) and P (column sizes) then Q . (x)fs . P^T is the Kronecker product of the SAME factors
   (a permutation of the (name, factor) pairs) with names ascending *)
Theorem C07_perm_sorts_rect : forall (R : CR) (T : Type) (tofac : T -> @rfac R) md fuel names (ts : list T) Q P,
  let fs := map tofac ts in
  length names = length ts -> Forall fpos fs -> (md = Fixed \/ length names <= 3)%nat ->
  calc_perm_matrix md fuel names (map frows fs) = POk Q ->
  calc_perm_matrix md fuel names (map fcols fs) = POk P ->
  exists names' ts', Permutation (combine names ts) (combine names' ts') /\ length names' = length ts' /\
    Sorted Z.le names' /\
    meq (rsize fs) (csize fs) (mmul (csize fs) (mmul (rsize fs) Q (tensm fs)) (mT P)) (tensm (map tofac ts')).
Proof. intros R T. exact (@perm_rect_sorts R T). Qed.
Print Assumptions C07_perm_sorts_rect.

Theorem C07_perm_sorts_vec : forall (R : CR) md fuel names (fs : list (@vfac R)) Q,
  length names = length fs -> Forall (fun f => 0 < fst f)%nat fs -> (md = Fixed \/ length names <= 3)%nat ->
  calc_perm_matrix md fuel names (map fst fs) = POk Q ->
  exists names' fs', Permutation (combine names fs) (combine names' fs') /\ length names' = length fs' /\
    Sorted Z.le names' /\ veq (vsize fs) (mv (vsize fs) Q (tens fs)) (tens fs').
Proof. intros R. exact (@perm_vec_sorts R). Qed.
Print Assumptions C07_perm_sorts_vec.

(* termination: the bubble loop performs exactly one swap per inversion; with that much fuel it returns a matrix
   (never the dimension error) — inversions <= n^2 *)
Theorem C07_perm_terminates : forall (R : CR) md fuel names sizes,
  length names = length sizes -> (inversions names <= fuel)%nat -> (md = Fixed \/ length names <= 3)%nat ->
  exists Q, @calc_perm_matrix R md fuel names sizes = POk Q.
Proof. intros R. exact (@perm_terminates R). Qed.
Print Assumptions C07_perm_terminates.
Theorem C07_inversions_bound : forall l, (inversions l <= length l * length l)%nat.
Proof. exact inversions_le. Qed.
Print Assumptions C07_inversions_bound.

(* the executed index-map version returns the same result (same error code / the index map of the same matrix), both modes *)
Theorem C07_perm_map_is_perm_matrix : forall (R : CR) memo md fuel names sizes, memo_ok memo ->
  perm_rel (prodn sizes) (@calc_perm_matrix R md fuel names sizes) (calc_perm_map memo md fuel names sizes).
Proof. intros R. exact (@calc_perm_map_correct R). Qed.
Print Assumptions C07_perm_map_is_perm_matrix.

(* first part of _tensor_product_hs_hs: reshape((I (x) K(d2,d1) (x) I)(|HS1>> (x) |HS2>>)) = HS1 (x) HS2 *)
Theorem C07_hs_reindex : forall (R : CR) d1 d2 (hs1 hs2 : @mat R),
  meq (d1 * d2) (d1 * d2) (hs_hs_core d1 d2 hs1 hs2) (kron d2 d2 hs1 hs2).
Proof. intros R. exact (@hs_hs_core_kron R). Qed.
Print Assumptions C07_hs_reindex.

From QV.Proofs Require Import C07_Products.

(* ---- the products.  [denotes o items]: the object's subsystem names are the (ascending, distinct) names of [items], its
   per-subsystem row / column sizes are those of the factors, and its matrix is the Kronecker product of the factors in that
   order (State: single-column factors = coefficient vectors; Povm: row x = vec of outcome x, rows = local outcome counts;
   Gate: HS matrices).  One product step keeps this, for all three kinds: *)
Theorem C07_tp_obj_sound : forall (R : CR) k md fuel (o1 o2 o : @robj R) items1 items2,
  denotes o1 items1 -> denotes o2 items2 -> kind_ok k (map snd (items1 ++ items2)) ->
  (md = Fixed \/ length (items1 ++ items2) <= 3)%nat ->
  tp_obj k md fuel o1 o2 = POk o ->
  exists items, Permutation (items1 ++ items2) items /\ denotes o items.
Proof. intros R. exact (@tp_obj_sound R). Qed.
Print Assumptions C07_tp_obj_sound.

(* ... hence for EVERY order and grouping of the arguments (expression tree [d], leaves denoting products of their own
   factors; tensor_product(a, b, c, ...) is the left-nested tree): the result denotes the Kronecker product of ALL the
   leaves' factors in ascending name order.  Corrected sizes: any number of subsystems; sizes as coded: at most three. *)
Theorem C07_eval_sound : forall (R : CR) k md fuel (d : @dtree R) o, dwf d -> kind_ok k (map snd (ditems d)) ->
  (md = Fixed \/ length (ditems d) <= 3)%nat ->
  eval k md fuel (erase d) = POk o -> exists items, Permutation (ditems d) items /\ denotes o items.
Proof. intros R. exact (@eval_sound R). Qed.
Print Assumptions C07_eval_sound.

(* ... and it does return a value (no dimension error, no fuel exhaustion with n^2 fuel) when the names are distinct *)
Theorem C07_eval_total : forall (R : CR) k md fuel (d : @dtree R), dwf d -> kind_ok k (map snd (ditems d)) ->
  NoDup (map fst (ditems d)) -> (md = Fixed \/ length (ditems d) <= 3)%nat ->
  (length (ditems d) * length (ditems d) <= fuel)%nat ->
  exists o, eval k md fuel (erase d) = POk o.
Proof. intros R. exact (@eval_total R). Qed.
Print Assumptions C07_eval_total.

(* product statistics: <a (x) b, c (x) d> = <a, c> <b, d> ; in general ((x) V_k)((x) x_k) evaluated at the row-major
   position of a multi-index (shape = the local outcome counts, as Povm.nums_local_outcomes reports) is the product of
   the local values (V_k x_k)[idx_k] *)
Theorem C07_dot_kron : forall (R : CR) n1 n2 (a b c d : @vec R), (0 < n2)%nat ->
  dot (n1 * n2) (kronv n2 a b) (kronv n2 c d) = cmul R (dot n1 a c) (dot n2 b d).
Proof. intros R. exact (@dot_kronv R). Qed.
Print Assumptions C07_dot_kron.
Theorem C07_product_statistics : forall (R : CR) (fs : list (@rfac R)) (xs : list (@vfac R)) idx,
  Forall fpos fs -> map fst xs = map fcols fs -> Forall2 (fun n x => (x < n)%nat) (map frows fs) idx ->
  mv (csize fs) (tensm fs) (tens xs) (rmaj (map frows fs) idx) = prodvals (apply_facs fs xs) idx.
Proof. intros R. exact (@product_statistics R). Qed.
Print Assumptions C07_product_statistics.

(* MProcess (x) MProcess: the reported shape is (n1, n2) (row-major access), the loops store the pair (i1, i2) at i2*n1 + i1.
   With the corrected loop order the layout is the reported one; as coded it is the layout of shape (n2, n1); refuted for
   3 x 2 outcomes at (0, 1); with equal counts the operands' outcomes are exchanged. *)
Theorem C07_mprocess_layout_fixed : forall n1 n2 i1 i2, (i1 < n1)%nat -> (i2 < n2)%nat ->
  mp_slot Fixed n1 n2 (rmaj [n1; n2] [i1; i2]) = (i1, i2).
Proof. exact mp_layout_fixed. Qed.
Print Assumptions C07_mprocess_layout_fixed.
Theorem C07_mprocess_layout_coded_is_column_major : forall n1 n2 i1 i2, (i1 < n1)%nat -> (i2 < n2)%nat ->
  mp_slot Coded n1 n2 (rmaj [n2; n1] [i2; i1]) = (i1, i2).
Proof. exact mp_layout_coded. Qed.
Print Assumptions C07_mprocess_layout_coded_is_column_major.
Theorem C07_mprocess_layout_refuted :
  exists n1 n2 i1 i2, (i1 < n1)%nat /\ (i2 < n2)%nat /\ mp_slot Coded n1 n2 (rmaj [n1; n2] [i1; i2]) <> (i1, i2).
Proof. exact mp_layout_refuted. Qed.
Print Assumptions C07_mprocess_layout_refuted.
Theorem C07_mprocess_layout_equal_counts_exchanged : forall n i1 i2, (i1 < n)%nat -> (i2 < n)%nat ->
  mp_slot Coded n n (rmaj [n; n] [i1; i2]) = (i2, i1).
Proof. exact mp_layout_equal_counts. Qed.
Print Assumptions C07_mprocess_layout_equal_counts_exchanged.
