(* C16 — outcome-probability bookkeeping: property theorems only. *)
From Coq Require Import ZArith List Lia.
From QV.Model Require Import IndexUtil.
From QV.Proofs Require Import IndexUtil.
Import ListNotations.
Local Open Scope Z_scope.

(* serial -> multi -> serial is the identity, the multi index is in range; any shape, any rank *)
Theorem C16_serial_multi_inverse : forall shape k,
  positive_shape shape -> (0 <= k < prodz shape) ->
  in_range shape (multi_from_serial shape k) /\
  serial_from_multi shape (multi_from_serial shape k) = Some k.
Proof. exact serial_multi_inverse. Qed.
Print Assumptions C16_serial_multi_inverse.

(* multi -> serial -> multi is the identity, the serial index is in range and is the row-major one *)
Theorem C16_multi_serial_inverse : forall shape idx, in_range shape idx ->
  exists k, serial_from_multi shape idx = Some k /\ (0 <= k < prodz shape) /\
            k = row_major shape idx /\ multi_from_serial shape k = idx.
Proof. exact multi_serial_inverse. Qed.
Print Assumptions C16_multi_serial_inverse.

(* the error branch: raised exactly on a length mismatch *)
Theorem C16_serial_from_multi_error_iff : forall shape idx,
  serial_from_multi shape idx = None <-> length shape <> length idx.
Proof. exact serial_from_multi_error_iff. Qed.
Print Assumptions C16_serial_from_multi_error_iff.

(* non-vacuity: a 2 x 3 x 2 shape, index 7 = (1,0,1) *)
Example C16_example : positive_shape [2;3;2] /\ 0 <= 7 < prodz [2;3;2] /\ in_range [2;3;2] [1;0;1]
  /\ multi_from_serial [2;3;2] 7 = [1;0;1] /\ serial_from_multi [2;3;2] [1;0;1] = Some 7.
Proof. repeat split; try (repeat constructor; lia); try reflexivity; cbn; lia. Qed.

(* ---- MultinomialDistribution (model in Model/Multinomial.v), any ordered field *)
From QV.Core Require Import OF QcOF.
From QV.Model Require Import Multinomial.
From QV.Proofs Require Import C16_Multinomial.
From Coq Require Import Permutation QArith Qcanon.

(* accepted, non-zero distributions are entrywise non-negative and normalised (within the validation
   tolerance; exactly when sub-threshold entries were zeroed and the rest renormalised) *)
Theorem C16_construct_normalised : forall (F : OF) tol eps ps shape d,
  kle F (c0 F) eps -> eps <> c0 F ->
  construct F tol eps ps shape = MOk d -> d_zero F d = false ->
  Forall (fun p => kle F (c0 F) p) (d_ps F d) /\
  kle F (absF F (csub F (lsum F (d_ps F d)) (c1 F))) tol /\
  (existsb (fun p => ltb F p eps) ps = true -> lsum F (d_ps F d) = c1 F).
Proof. exact construct_normalised. Qed.
Print Assumptions C16_construct_normalised.

(* the marginal depends only on the set of retained variables, not on the order they are listed in *)
Theorem C16_marginalize_order_irrelevant : forall (F : OF) tol d rem rem',
  Permutation rem rem' -> marginalize F tol d rem = marginalize F tol d rem'.
Proof. exact marginalize_order_irrelevant. Qed.
Print Assumptions C16_marginalize_order_irrelevant.

(* marginalisation preserves total mass: the raw marginal, summed over all retained multi-indices, equals the
   sum of the whole tensor — every shape of positive sizes, every retained set (given as a mask over the axes) *)
From QV.Proofs Require Import C16_Marginal.
Theorem C16_marginal_mass : forall (F : OF) shape ps keep, posn shape ->
  lsum F (marg_raw F shape ps keep) = lsum F (map (fun k => nth k ps (c0 F)) (seq 0 (prodn shape))).
Proof. exact marg_raw_mass. Qed.
Print Assumptions C16_marginal_mass.

(* nat-level layout facts used above: row-major index and digits are mutually inverse on the index box *)
Theorem C16_rowmajor_digits_nat : forall shape, posn shape ->
  (forall k, (k < prodn shape)%nat -> in_rangen shape (digitsn shape k) /\ rowmajorn shape (digitsn shape k) = k) /\
  (forall idx, in_rangen shape idx -> (rowmajorn shape idx < prodn shape)%nat /\ digitsn shape (rowmajorn shape idx) = idx).
Proof. intros shape H. split.
  - intros k Hk. split; [now apply digitsn_in_range|now apply rowmajorn_digitsn].
  - intros idx Hi. split; [now apply rowmajorn_bound|now apply digitsn_rowmajorn]. Qed.
Print Assumptions C16_rowmajor_digits_nat.

(* joint = marginal x conditional: the normalising constant of a conditional slice is the marginal probability of
   the conditioning event (marginal over exactly the conditioned axes, at the conditioning values), so that
   conditional * marginal = joint whenever the marginal is non-zero — every shape, every assignment *)
From QV.Proofs Require Import C16_Conditional.
From QV.Core Require Import Sums.
Theorem C16_slice_total_is_marginal : forall (F : OF) sh ps fixed, posn sh -> fixed_ok sh fixed ->
  sumn (prodn (select (map is_none fixed) sh)) (slice F sh ps fixed) =
  nth (rowmajorn (select (map is_some fixed) sh) (somes fixed)) (marg_raw F sh ps (map is_some fixed)) (c0 F).
Proof. exact slice_total_is_marginal. Qed.
Print Assumptions C16_slice_total_is_marginal.

Theorem C16_joint_is_marginal_times_conditional : forall (F : OF) sh ps fixed k', posn sh -> fixed_ok sh fixed ->
  let tot := sumn (prodn (select (map is_none fixed) sh)) (slice F sh ps fixed) in
  let marginal := nth (rowmajorn (select (map is_some fixed) sh) (somes fixed)) (marg_raw F sh ps (map is_some fixed)) (c0 F) in
  tot <> c0 F ->
  cmul F (kdiv F (slice F sh ps fixed k') tot) marginal = slice F sh ps fixed k'.
Proof. exact joint_is_marginal_times_conditional. Qed.
Print Assumptions C16_joint_is_marginal_times_conditional.

(* non-vacuity over Qc: a 2x2 tensor with a sub-threshold entry is accepted, zeroed and renormalised *)
Example C16_construct_example :
  let tol := Q2Qc (1 # 100000000) in
  match construct Qc_OF tol tol [Q2Qc (1#2); Q2Qc (1#4); Q2Qc (1#4); Q2Qc (1#10000000000)] (Some [2;2]%nat) with
  | MOk d => d_zero Qc_OF d = false /\ lsum Qc_OF (d_ps Qc_OF d) = 1%Qc /\ nth 3 (d_ps Qc_OF d) 1%Qc = 0%Qc
  | MErr _ => False
  end.
Proof. vm_compute. repeat split; reflexivity. Qed.
