(* C16 — outcome-probability bookkeeping: property theorems only. *)
From Coq Require Import ZArith List Lia.
From QV.Model Require Import IndexUtil.
From QV.Proofs Require Import IndexUtil.
Import ListNotations.
Local Open Scope Z_scope.

(* serial -> multi -> serial is the identity, the multi index is in range; any shape, any rank *)
Theorem C16_serial_multi_inverse : forall shape k,
  positive_shape shape -> (0 <= k < prodz shape) ->
  in_range shape (multi_from_serial shape k) /\
  serial_from_multi shape (multi_from_serial shape k) = Some k.
Proof. exact serial_multi_inverse. Qed.
Print Assumptions C16_serial_multi_inverse.

(* multi -> serial -> multi is the identity, the serial index is in range and is the row-major one *)
Theorem C16_multi_serial_inverse : forall shape idx, in_range shape idx ->
  exists k, serial_from_multi shape idx = Some k /\ (0 <= k < prodz shape) /\
            k = row_major shape idx /\ multi_from_serial shape k = idx.
Proof. exact multi_serial_inverse. Qed.
Print Assumptions C16_multi_serial_inverse.

(* the error branch: raised exactly on a length mismatch *)
Theorem C16_serial_from_multi_error_iff : forall shape idx,
  serial_from_multi shape idx = None <-> length shape <> length idx.
Proof. exact serial_from_multi_error_iff. Qed.
Print Assumptions C16_serial_from_multi_error_iff.

(* non-vacuity: a 2 x 3 x 2 shape, index 7 = (1,0,1) *)
Example C16_example : positive_shape [2;3;2] /\ 0 <= 7 < prodz [2;3;2] /\ in_range [2;3;2] [1;0;1]
  /\ multi_from_serial [2;3;2] 7 = [1;0;1] /\ serial_from_multi [2;3;2] [1;0;1] = Some 7.
Proof. repeat split; try (repeat constructor; lia); try reflexivity; cbn; lia. Qed.

(* ---- MultinomialDistribution (model in Model/Multinomial.v), any ordered field *)
From QV.Core Require Import OF QcOF.
From QV.Model Require Import Multinomial.
From QV.Proofs Require Import C16_Multinomial.
From Coq Require Import Permutation QArith Qcanon.

(* accepted, non-zero distributions are entrywise non-negative and normalised (within the validation
   tolerance; exactly when sub-threshold entries were zeroed and the rest renormalised) *)
Theorem C16_construct_normalised : forall (F : OF) tol eps ps shape d,
  kle F (c0 F) eps -> eps <> c0 F ->
  construct F tol eps ps shape = MOk d -> d_zero F d = false ->
  Forall (fun p => kle F (c0 F) p) (d_ps F d) /\
  kle F (absF F (csub F (lsum F (d_ps F d)) (c1 F))) tol /\
  (existsb (fun p => ltb F p eps) ps = true -> lsum F (d_ps F d) = c1 F).
Proof. exact construct_normalised. Qed.
Print Assumptions C16_construct_normalised.

(* the marginal depends only on the SET of retained variables, not on the order they are listed in: a valid listing and any
   permutation of it give the identical distribution; an invalid listing stays invalid (same_outcome: MOk x / MOk x, or error / error —
   WHICH error, ValueError or KeyError, is decided by the first offending entry, see the next theorem) *)
Theorem C16_marginalize_order_irrelevant : forall (F : OF) tol d rem rem',
  Permutation rem rem' -> same_outcome F (marginalize F tol d rem) (marginalize F tol d rem').
Proof. exact marginalize_order_irrelevant. Qed.
Print Assumptions C16_marginalize_order_irrelevant.

(* the error branch of marginalize, exactly: either the sequential check stops with code 4 (ValueError: index out of range) or
   5 (KeyError: index listed twice), or every listed index is in range and none is repeated *)
Theorem C16_marginalize_error_branch : forall (F : OF) (d : dist F) rem,
  (exists c, (c = 4 \/ c = 5)%nat /\ remain_check (length (d_shape F d)) [] rem = Some c) \/
  (remain_check (length (d_shape F d)) [] rem = None /\
   Forall (fun i => (0 <= i < Z.of_nat (length (d_shape F d)))%Z) rem /\ has_dup (map Z.to_nat rem) = false).
Proof. exact marginalize_valid_iff. Qed.
Print Assumptions C16_marginalize_error_branch.

(* marginalisation preserves total mass: the raw marginal, summed over all retained multi-indices, equals the
   sum of the whole tensor — every shape of positive sizes, every retained set (given as a mask over the axes) *)
From QV.Proofs Require Import C16_Marginal.
Theorem C16_marginal_mass : forall (F : OF) shape ps keep, posn shape ->
  lsum F (marg_raw F shape ps keep) = lsum F (map (fun k => nth k ps (c0 F)) (seq 0 (prodn shape))).
Proof. exact marg_raw_mass. Qed.
Print Assumptions C16_marginal_mass.

(* nat-level layout facts used above: row-major index and digits are mutually inverse on the index box *)
Theorem C16_rowmajor_digits_nat : forall shape, posn shape ->
  (forall k, (k < prodn shape)%nat -> in_rangen shape (digitsn shape k) /\ rowmajorn shape (digitsn shape k) = k) /\
  (forall idx, in_rangen shape idx -> (rowmajorn shape idx < prodn shape)%nat /\ digitsn shape (rowmajorn shape idx) = idx).
Proof. intros shape H. split.
  - intros k Hk. split; [now apply digitsn_in_range|now apply rowmajorn_digitsn].
  - intros idx Hi. split; [now apply rowmajorn_bound|now apply digitsn_rowmajorn]. Qed.
Print Assumptions C16_rowmajor_digits_nat.

(* joint = marginal x conditional: the normalising constant of a conditional slice is the marginal probability of
   the conditioning event (marginal over exactly the conditioned axes, at the conditioning values), so that
   conditional * marginal = joint whenever the marginal is non-zero — every shape, every assignment *)
From QV.Proofs Require Import C16_Conditional.
From QV.Core Require Import Sums.
Theorem C16_slice_total_is_marginal : forall (F : OF) sh ps fixed, posn sh -> fixed_ok sh fixed ->
  sumn (prodn (select (map is_none fixed) sh)) (slice F sh ps fixed) =
  nth (rowmajorn (select (map is_some fixed) sh) (somes fixed)) (marg_raw F sh ps (map is_some fixed)) (c0 F).
Proof. exact slice_total_is_marginal. Qed.
Print Assumptions C16_slice_total_is_marginal.

Theorem C16_joint_is_marginal_times_conditional : forall (F : OF) sh ps fixed k', posn sh -> fixed_ok sh fixed ->
  let tot := sumn (prodn (select (map is_none fixed) sh)) (slice F sh ps fixed) in
  let marginal := nth (rowmajorn (select (map is_some fixed) sh) (somes fixed)) (marg_raw F sh ps (map is_some fixed)) (c0 F) in
  tot <> c0 F ->
  cmul F (kdiv F (slice F sh ps fixed k') tot) marginal = slice F sh ps fixed k'.
Proof. exact joint_is_marginal_times_conditional. Qed.
Print Assumptions C16_joint_is_marginal_times_conditional.

(* ---- layout: Z-level index maps (translated code) = nat-level row-major index of the tensor theorems; accessors as coded;
        ensembles produced by measurements; marginals / conditionals stay normalised *)
From QV.Model Require Import C16_Ensemble.
From QV.Proofs Require Import C16_Layout.

Theorem C16_index_maps_agree : forall sh idx k,
  prodz (map Z.of_nat sh) = Z.of_nat (prodn sh) /\
  row_major (map Z.of_nat sh) (map Z.of_nat idx) = Z.of_nat (rowmajorn sh idx) /\
  digits (map Z.of_nat sh) (Z.of_nat k) = map Z.of_nat (digitsn sh k).
Proof. intros sh idx k. split; [apply prodz_of_nat|split; [apply row_major_of_nat|apply digits_of_nat]]. Qed.
Print Assumptions C16_index_maps_agree.

(* __getitem__ / state with an int argument: Python's sequence index (negative counts from the end, IndexError = 9 outside) *)
Theorem C16_index_get_int : forall (A : Type) (l : list A) shape i,
  ((0 <= i < Z.of_nat (length l))%Z -> index_get l shape (AInt i) = match nth_error l (Z.to_nat i) with Some v => MOk v | None => MErr 9 end) /\
  ((- Z.of_nat (length l) <= i < 0)%Z -> index_get l shape (AInt i) = match nth_error l (length l - Z.to_nat (- i)) with Some v => MOk v | None => MErr 9 end) /\
  ((i < - Z.of_nat (length l) \/ Z.of_nat (length l) <= i)%Z -> index_get l shape (AInt i) = MErr 9).
Proof. exact @index_get_int. Qed.
Print Assumptions C16_index_get_int.

(* ... with a tuple whose components are all in range: the row-major entry — every shape, every index *)
Theorem C16_index_get_tuple_in_range : forall (A : Type) (l : list A) sh idx dflt, in_rangen sh idx -> length l = prodn sh ->
  index_get l (map Z.of_nat sh) (ATuple (map Z.of_nat idx)) = MOk (nth (rowmajorn sh idx) l dflt).
Proof. exact @index_get_tuple_in_range. Qed.
Print Assumptions C16_index_get_tuple_in_range.

Theorem C16_index_get_tuple_rank_mismatch : forall (A : Type) (l : list A) shape t,
  length shape <> length t -> index_get l shape (ATuple t) = MErr 2.
Proof. exact @index_get_tuple_rank_mismatch. Qed.
Print Assumptions C16_index_get_tuple_rank_mismatch.

(* states and probabilities of an ensemble are addressed through the SAME position, whatever the argument *)
Theorem C16_ensemble_same_position : forall (A B : Type) (states : list A) (ps : list B) shape a, length states = length ps ->
  match resolve_index (Z.of_nat (length ps)) shape a with
  | MOk k => exists s p, index_get states shape a = MOk s /\ nth_error states k = Some s /\ index_get ps shape a = MOk p /\ nth_error ps k = Some p
  | MErr c => index_get states shape a = MErr c /\ index_get ps shape a = MErr c
  end.
Proof. exact @ensemble_same_position. Qed.
Print Assumptions C16_ensemble_same_position.

(* measuring an ensemble (any old shape, any outcome shape of the instrument): the new table has prod(old_shape ++ mshape)
   entries, and its entry at (old multi-index ++ outcome multi-index) is entry (outcome multi-index) of the block produced from
   old entry (old multi-index) — earlier measurement first, nothing shifts whatever the probabilities are *)
Theorem C16_measure_all_layout : forall (E : Type) (meas : E -> list E) old old_shape mshape idx j dflt,
  (forall e, length (meas e) = prodn mshape) -> length old = prodn old_shape ->
  in_rangen old_shape idx -> in_rangen mshape j ->
  length (measure_all meas old) = prodn (measured_shape old_shape mshape) /\
  in_rangen (measured_shape old_shape mshape) (idx ++ j) /\
  nth (rowmajorn (measured_shape old_shape mshape) (idx ++ j)) (measure_all meas old) dflt =
  nth (rowmajorn mshape j) (meas (nth (rowmajorn old_shape idx) old dflt)) dflt.
Proof. exact @measure_all_layout. Qed.
Print Assumptions C16_measure_all_layout.

(* every history of measurements keeps the invariant (table length = product of the shape) the one-step theorem needs,
   and the shape is the concatenation of the outcome shapes, earliest first *)
Theorem C16_measure_chain_invariant : forall (E : Type) (chain : list ((E -> list E) * list nat)) entries shape,
  Forall (fun ms => forall e, length (fst ms e) = prodn (snd ms)) chain -> length entries = prodn shape ->
  length (fst (measure_chain chain entries shape)) = prodn (snd (measure_chain chain entries shape)) /\
  snd (measure_chain chain entries shape) = shape ++ concat (map snd chain).
Proof. intros E chain entries shape H1 H2. split; [now apply measure_chain_length|apply measure_chain_shape]. Qed.
Print Assumptions C16_measure_chain_invariant.

(* ---- _compose_qoperations_MProcess_StateEnsemble as coded (Model/C16_Compose.v; the per-state measurement is an oracle that may raise):
        the collected table IS measure_all of the old table, the first raising measurement (in order) aborts with its exception *)
From QV.Model Require Import C16_PySem C16_Compose.
From QV.Proofs Require Import C16_Compose.
Theorem C16_collect_is_measure_all : forall (F : OF) (St : Type) (meas : St -> F -> pyres (list St * list F)) (M : nat) old ss pp,
  collect F St meas old = PRet (ss, pp) -> blocks_ok F St meas M old ->
  length ss = length pp /\ combine ss pp = measure_all (block_of F St meas) old /\ length ss = (length old * M)%nat.
Proof. exact collect_is_measure_all. Qed.
Print Assumptions C16_collect_is_measure_all.

Theorem C16_collect_first_raise : forall (F : OF) (St : Type) (meas : St -> F -> pyres (list St * list F)) pre s p post exc,
  (forall s0 p0, In (s0, p0) pre -> exists r, meas s0 p0 = PRet r) -> meas s p = PRaise exc ->
  collect F St meas (pre ++ (s, p) :: post) = PRaise exc.
Proof. exact collect_first_raise. Qed.
Print Assumptions C16_collect_first_raise.

(* the new ensemble: states = first components of the measured table, the probabilities handed to the new distribution's constructor
   (default threshold) = second components, as many entries as old entries x outcomes, eps_zero = max of the two *)
Theorem C16_compose_ens_table : forall (F : OF) (tol : F) (St : Type) meas zero_obj mshape mp_eps old_shape (e e' : ensemble F St),
  compose_ens F tol St meas zero_obj mshape mp_eps old_shape e = PRet e' ->
  md_is_zero_dist F (ens_prob_dist e) = false ->
  blocks_ok F St meas (prodn mshape) (combine (ens_states e) (md_ps F (ens_prob_dist e))) ->
  let T := measure_all (block_of F St meas) (combine (ens_states e) (md_ps F (ens_prob_dist e))) in
  ens_states e' = map fst T /\
  md_new F tol (map snd T) (old_shape ++ mshape) = PRet (ens_prob_dist e') /\
  length T = (length (combine (ens_states e) (md_ps F (ens_prob_dist e))) * prodn mshape)%nat /\
  ens_eps_zero e' = py_max F mp_eps (ens_eps_zero e).
Proof. exact compose_ens_table. Qed.
Print Assumptions C16_compose_ens_table.

(* one state measured by an instrument of ANY outcome shape (_compose_qoperations_MProcess_State as coded): the ensemble carries the
   instrument's outcome shape, so a composite instrument B o A (shape m1 ++ m2) keeps the multi-index structure ... *)
Theorem C16_compose_state_table : forall (F : OF) (tol : F) (St : Type) (meas : St -> F -> pyres (list St * list F)) mshape mp_eps s (e' : ensemble F St),
  compose_state F tol St meas mshape mp_eps s = PRet e' ->
  exists ss pp, meas s (c1 F) = PRet (ss, pp) /\ ens_states e' = ss /\ md_new F tol pp mshape = PRet (ens_prob_dist e') /\
                md_shape F (ens_prob_dist e') = map Z.of_nat mshape /\ length ss = length pp /\ ens_eps_zero e' = mp_eps.
Proof. exact compose_state_table. Qed.
Print Assumptions C16_compose_state_table.

(* ... and both routes to a twice-measured ensemble — composite instrument on the state, or second instrument on the ensemble of the
   first — give the same shape m1 ++ m2 *)
Theorem C16_compose_routes_same_shape : forall (F : OF) (tol : F) (St : Type) measC measB zero_obj m1 m2 eps1 eps2 s (e1 e12 ec : ensemble F St),
  compose_state F tol St measC (m1 ++ m2) eps1 s = PRet ec ->
  compose_ens F tol St measB zero_obj m2 eps2 m1 e1 = PRet e12 ->
  md_shape F (ens_prob_dist ec) = md_shape F (ens_prob_dist e12) /\ md_shape F (ens_prob_dist ec) = map Z.of_nat (m1 ++ m2).
Proof. exact compose_routes_same_shape. Qed.
Print Assumptions C16_compose_routes_same_shape.

(* conditioning selects an order-preserving sub-grid: the increasing enumeration of the serial indices whose conditioned digits carry
   the conditioning values IS k' |-> rowmajor (fill fixed (digits of k' in the free shape)) — NumPy's boolean-mask / np.ix_ selection
   (translated code) and the model's slice indexed by the free multi-index are the same list, for every shape and assignment *)
From QV.Proofs Require Import C16_Enumerate.
Theorem C16_subgrid_enumeration : forall sh fixed, posn sh -> fixed_ok sh fixed ->
  filter (fun k => matchp fixed (digitsn sh k)) (seq 0 (prodn sh)) =
  map (fun k' => rowmajorn sh (fill fixed (digitsn (select (map is_none fixed) sh) k'))) (seq 0 (prodn (select (map is_none fixed) sh))).
Proof. exact subgrid_enumeration. Qed.
Print Assumptions C16_subgrid_enumeration.

(* accepted, non-zero marginals and conditionals are entrywise non-negative and sum to 1 within the validation tolerance *)
Theorem C16_marginalize_normalised : forall (F : OF) tol d rem d', kle F (c0 F) tol -> tol <> c0 F ->
  marginalize F tol d rem = MOk d' -> d_zero F d' = false -> normalised F tol d'.
Proof. exact marginalize_normalised. Qed.
Print Assumptions C16_marginalize_normalised.

Theorem C16_conditionalize_normalised : forall (F : OF) tol d idxs vals d', kle F (c0 F) tol -> tol <> c0 F ->
  conditionalize F tol d idxs vals = MOk d' -> d_zero F d' = false -> normalised F tol d'.
Proof. exact conditionalize_normalised. Qed.
Print Assumptions C16_conditionalize_normalised.

(* non-vacuity: a 2 x 3 table measured with a 2-outcome instrument; entry ((1,2),(1)) is the second entry of the block of old entry 5 *)
Example C16_measure_example :
  let meas := fun e : nat => [(10 * e)%nat; (10 * e + 1)%nat] in
  nth (rowmajorn (measured_shape [2;3]%nat [2]%nat) ([1;2] ++ [1])%nat) (measure_all meas [0;1;2;3;4;5]%nat) 0%nat = 51%nat
  /\ index_get [0;1;2;3;4;5]%nat [2;3]%Z (ATuple [1;2]%Z) = MOk 5%nat /\ index_get [0;1;2;3;4;5]%nat [2;3]%Z (AInt (-1)%Z) = MOk 5%nat
  /\ index_get [0;1;2;3;4;5]%nat [2;3]%Z (ATuple [0;4]%Z) = MOk 4%nat   (* components are not range-checked by the code *)
  /\ index_get [0;1;2;3;4;5]%nat [2;3]%Z (AInt 6%Z) = MErr 9.
Proof. vm_compute. repeat split; reflexivity. Qed.

(* ---- joint = marginal x conditional for the MODEL FUNCTIONS the translated code is proved equal to (cond_precheck / cond_fixed /
        cond_sel / conditionalize), every shape of positive sizes, every argument lists (a variable may be listed twice) *)
From QV.Proofs Require Import C16_CondModel.
Theorem C16_cond_fixed_ok : forall sh idxs vals, cond_precheck sh idxs vals = None -> fixed_ok sh (cond_fixed sh idxs vals).
Proof. exact cond_fixed_ok. Qed.
Print Assumptions C16_cond_fixed_ok.

Theorem C16_conditionalize_unfold : forall (F : OF) tol (d : dist F) idxs vals,
  cond_precheck (d_shape F d) idxs vals = None ->
  let fixed := cond_fixed (d_shape F d) idxs vals in
  let newshape := select (cond_freemask fixed) (d_shape F d) in
  let sel := cond_sel F (d_shape F d) (d_ps F d) fixed in
  newshape <> [] -> lsum F sel <> c0 F ->
  conditionalize F tol d idxs vals = construct F tol tol (map (fun p => kdiv F p (lsum F sel)) sel) (Some newshape).
Proof. exact conditionalize_unfold. Qed.
Print Assumptions C16_conditionalize_unfold.

Theorem C16_conditionalize_joint : forall (F : OF) sh ps idxs vals, posn sh -> cond_precheck sh idxs vals = None ->
  let fixed := cond_fixed sh idxs vals in
  let newshape := select (cond_freemask fixed) sh in
  let sel := cond_sel F sh ps fixed in
  let marginal := nth (rowmajorn (select (map is_some fixed) sh) (somes fixed)) (marg_raw F sh ps (map is_some fixed)) (c0 F) in
  lsum F sel = marginal /\
  (lsum F sel <> c0 F -> forall k', (k' < prodn newshape)%nat ->
     cmul F (nth k' (map (fun p => kdiv F p (lsum F sel)) sel) (c0 F)) marginal = nth (rowmajorn sh (fill fixed (digitsn newshape k'))) ps (c0 F)).
Proof. exact conditionalize_joint. Qed.
Print Assumptions C16_conditionalize_joint.

(* non-vacuity: a 2 x 3 table conditioned on variable 1 = 2 (listed twice, the later value decides): checks pass, total = 1/8 + 1/4 <> 0,
   the conditional is (1/3, 2/3) and conditional x marginal gives back the joint entries 1/8 and 1/4 *)
Example C16_conditionalize_joint_example :
  let e := Q2Qc (1 # 8) in let f := Q2Qc (1 # 4) in
  let ps := [e; e; e; e; f; f]%list in
  posn [2;3]%nat /\ cond_precheck [2;3]%nat [1;1]%Z [0;2]%Z = None /\
  cond_sel Qc_OF [2;3]%nat ps (cond_fixed [2;3]%nat [1;1]%Z [0;2]%Z) = [e; f]%list /\
  Qc_eq_bool (lsum Qc_OF (cond_sel Qc_OF [2;3]%nat ps (cond_fixed [2;3]%nat [1;1]%Z [0;2]%Z))) (Q2Qc (3 # 8)) = true.
Proof. split; [repeat constructor|]. vm_compute. split; [reflexivity|]. split; reflexivity. Qed.

(* ---- legacy ProbDist.__getitem__ (objects/prob_dist.py: successive indexing of the reshaped array), model probdist_get = the
        translated code: same row-major entry as MultinomialDistribution.__getitem__ for every shape and in-range multi-index *)
From QV.Proofs Require Import C16_ProbDist.
From Coq Require Import String.
Theorem C16_probdist_same_layout : forall (F : OF) sh idx ps, in_rangen sh idx -> List.length ps = prodn sh ->
  exists v, probdist_get F (mk_pd F ps (Some (map Z.of_nat sh))) (ATuple (map Z.of_nat idx)) = PRet (nd_scalar F v) /\
            index_get ps (map Z.of_nat sh) (ATuple (map Z.of_nat idx)) = MOk v /\ v = nth (rowmajorn sh idx) ps (c0 F).
Proof. intros F sh idx ps Hr Hl. exists (nth (rowmajorn sh idx) ps (c0 F)).
  split; [now apply probdist_get_in_range|]. split; [now apply index_get_tuple_in_range|reflexivity]. Qed.
Print Assumptions C16_probdist_same_layout.

Theorem C16_probdist_get_branches : forall (F : OF) (p : probdist F),
  (pd_shape F p = None -> forall t, probdist_get F p (ATuple t) = PRaise "ValueError"%string) /\
  probdist_get F p AOther = PRaise "TypeError"%string /\
  (forall i, probdist_get F p (AInt i) = pbind (py_getitem (pd_ps F p) i) (fun x => PRet (nd_scalar F x))).
Proof. exact probdist_get_branches. Qed.
Print Assumptions C16_probdist_get_branches.

(* non-vacuity over Qc: a 2x2 tensor with a sub-threshold entry is accepted, zeroed and renormalised *)
Example C16_construct_example :
  let tol := Q2Qc (1 # 100000000) in
  match construct Qc_OF tol tol [Q2Qc (1#2); Q2Qc (1#4); Q2Qc (1#4); Q2Qc (1#10000000000)] (Some [2;2]%nat) with
  | MOk d => d_zero Qc_OF d = false /\ lsum Qc_OF (d_ps Qc_OF d) = 1%Qc /\ nth 3 (d_ps Qc_OF d) 1%Qc = 0%Qc
  | MErr _ => False
  end.
Proof. vm_compute. repeat split; reflexivity. Qed.
