(* C16 — outcome-probability bookkeeping: property theorems only. *)
From Coq Require Import ZArith List Lia.
From QV.Model Require Import IndexUtil.
From QV.Proofs Require Import IndexUtil.
Import ListNotations.
Local Open Scope Z_scope.

(* serial -> multi -> serial is the identity, the multi index is in range; any shape, any rank *)
Theorem C16_serial_multi_inverse : forall shape k,
  positive_shape shape -> (0 <= k < prodz shape) ->
  in_range shape (multi_from_serial shape k) /\
  serial_from_multi shape (multi_from_serial shape k) = Some k.
Proof. exact serial_multi_inverse. Qed.
Print Assumptions C16_serial_multi_inverse.

(* multi -> serial -> multi is the identity, the serial index is in range and is the row-major one *)
Theorem C16_multi_serial_inverse : forall shape idx, in_range shape idx ->
  exists k, serial_from_multi shape idx = Some k /\ (0 <= k < prodz shape) /\
            k = row_major shape idx /\ multi_from_serial shape k = idx.
Proof. exact multi_serial_inverse. Qed.
Print Assumptions C16_multi_serial_inverse.

(* the error branch: raised exactly on a length mismatch *)
Theorem C16_serial_from_multi_error_iff : forall shape idx,
  serial_from_multi shape idx = None <-> length shape <> length idx.
Proof. exact serial_from_multi_error_iff. Qed.
Print Assumptions C16_serial_from_multi_error_iff.

(* non-vacuity: a 2 x 3 x 2 shape, index 7 = (1,0,1) *)
Example C16_example : positive_shape [2;3;2] /\ 0 <= 7 < prodz [2;3;2] /\ in_range [2;3;2] [1;0;1]
  /\ multi_from_serial [2;3;2] 7 = [1;0;1] /\ serial_from_multi [2;3;2] [1;0;1] = Some 7.
Proof. repeat split; try (repeat constructor; lia); try reflexivity; cbn; lia. Qed.
