(* C19 — analytical error formulas equal exact expectations: property theorems only.
   All theorems hold for every ordered field F (executed instance Qc, real numbers R), every number of
   outcomes, every number of shots n >= 1 and every list of independent schedules; no bounds. *)
From Coq Require Import List Arith Lia QArith Qcanon.
From QV.Core Require Import OF Sums Mat QcOF Cplx.
From QV.Model Require Import Multinomial C19_Expect C19_ErrFormulas.
From QV.Proofs Require Import C19_Expect C19_ErrFormulas.
From QV.Exec Require Import C19_ops.
Import ListNotations.
Local Open Scope nat_scope.

(* ---- exact moments of the empirical distribution of n i.i.d. draws ---- *)
(* E[f_x] = p_x *)
Theorem C19_empirical_mean_exact : forall (F : OF) (m : nat) (p : nat -> F) (n x : nat),
  sumn m p = c1 F -> (x < m)%nat -> (1 <= n)%nat ->
  expect F m p n (fun s => freq F n s x) = p x.
Proof. exact expect_freq. Qed.
Print Assumptions C19_empirical_mean_exact.

(* E[(f_x - p_x)(f_y - p_y)] = (delta_xy p_x - p_x p_y)/n : calc_covariance_mat is the exact covariance *)
Theorem C19_covariance_exact : forall (F : OF) (m : nat) (p : nat -> F) (n x y : nat),
  sumn m p = c1 F -> (x < m)%nat -> (y < m)%nat -> (1 <= n)%nat ->
  expect F m p n (fun s => cmul F (dev F n p s x) (dev F n p s y)) = cov_mat F (of_nat F n) p x y.
Proof. exact cov_mat_exact. Qed.
Print Assumptions C19_covariance_exact.

(* independent schedules: the stacked empirical distributions are unbiased ... *)
Theorem C19_unbiased_total : forall (F : OF) (ss : list (sched F)) (i : nat),
  Forall (valid_sched F) ss -> expectL F ss (fun obs => dev_total F ss obs i) = c0 F.
Proof. exact expectL_dev. Qed.
Print Assumptions C19_unbiased_total.

(* ... and their covariance is the direct sum (block diagonal) computed by calc_covariance_mat_total *)
Theorem C19_covariance_total_exact : forall (F : OF) (ss : list (sched F)),
  Forall (valid_sched F) ss -> forall i j,
  expectL F ss (fun obs => cmul F (dev_total F ss obs i) (dev_total F ss obs j))
  = cov_total F (map (fun s : sched F => let '(m, p, n) := s in (m, of_nat F n, p)) ss) i j.
Proof. exact cov_total_exact. Qed.
Print Assumptions C19_covariance_total_exact.

(* direct sum: the blocks sit on the diagonal, everything else is zero *)
Theorem C19_direct_sum_block : forall (F : OF) bs1 s (M : @mat F) bs2 i j, (i < s)%nat -> (j < s)%nat ->
  dsum F (bs1 ++ (s, M) :: bs2) (dsum_size F bs1 + i) (dsum_size F bs1 + j) = M i j.
Proof. exact dsum_block. Qed.
Print Assumptions C19_direct_sum_block.
Theorem C19_direct_sum_offblock : forall (F : OF) bs1 s (M : @mat F) bs2 i j, (i < s)%nat ->
  (j < dsum_size F bs1 \/ dsum_size F bs1 + s <= j)%nat ->
  dsum F (bs1 ++ (s, M) :: bs2) (dsum_size F bs1 + i) j = c0 F /\
  dsum F (bs1 ++ (s, M) :: bs2) j (dsum_size F bs1 + i) = c0 F.
Proof. exact dsum_offblock. Qed.
Print Assumptions C19_direct_sum_offblock.

(* ---- E |M (f - p)|^2 = tr (M Sigma M^T) for EVERY matrix M (every affine estimator) ---- *)
Theorem C19_mse_linear_exact : forall (F : OF) (ss : list (sched F)) (k nr : nat) (M : @mat F),
  Forall (valid_sched F) ss ->
  expectL F ss (fun obs => dot k (mv nr M (dev_total F ss obs)) (mv nr M (dev_total F ss obs)))
  = mtrace k (conjugate F nr M (cov_of_scheds F ss)).
Proof. exact mse_linear_exact. Qed.
Print Assumptions C19_mse_linear_exact.

(* the linear estimate v^ = L (f - b) with the certificate L A = I, true probabilities A v + b:
   tr(L Sigma L^T) is the exact MSE of the estimated variables *)
Theorem C19_mse_var_exact : forall (F : OF) (nv nr : nat) (A L : @mat F) (b v : @vec F) (ss : list (sched F)),
  Forall (valid_sched F) ss -> meq nv nv (mmul nr L A) mid -> veq nr (p_total F ss) (affine F nv A b v) ->
  expectL F ss (fun obs => sqdist F nv (est F nr L b ss obs) v) = mse_var F nv nr L (cov_of_scheds F ss).
Proof. exact mse_var_exact. Qed.
Print Assumptions C19_mse_var_exact.

(* object parametrisation: entries implied by the variables as  c - S var  add  tr(S V S^T) *)
Theorem C19_mse_object_exact : forall (F : OF) (nv nr : nat) (A L : @mat F) (b v : @vec F) (ss : list (sched F)),
  Forall (valid_sched F) ss -> meq nv nv (mmul nr L A) mid -> veq nr (p_total F ss) (affine F nv A b v) ->
  forall (d2 : nat) (S : @mat F),
  expectL F ss (fun obs => object_sqerr F d2 nv S (vsub (est F nr L b ss obs) v))
  = mse_object_exact F d2 nv nr S L (cov_of_scheds F ss).
Proof. exact mse_object_exact_thm. Qed.
Print Assumptions C19_mse_object_exact.

(* ---- what the StandardQTomography methods compute (model of the repaired code) ----
   ms = numbers of outcomes of the schedules (they may DIFFER), sizes_sum ms = number of rows of A; the hypothesis pieces_ok says
   that piece j of A v + b (rows  sizes_sum (firstn j ms) ..  + nth j ms 0) sums to one and has entries 0 or >= eps. *)
(* calc_covariance_mat_total is the exact covariance of the stacked empirical distributions *)
Theorem C19_tomo_cov_total_exact : forall (F : OF) (eps : F) (nv : nat) (ms : list nat) (A : @mat F) (b v : @vec F) (n : nat -> nat),
  pieces_ok F eps (affine F nv A b v) ms ->
  (forall j, (j < length ms)%nat -> (1 <= n j)%nat) ->
  forall i j,
  expectL F (tomo_scheds F eps nv ms A b v n)
     (fun obs => cmul F (dev_total F (tomo_scheds F eps nv ms A b v n) obs i) (dev_total F (tomo_scheds F eps nv ms A b v n) obs j))
  = tomo_cov_total F eps nv ms A b v (fun j => of_nat F (n j)) i j.
Proof. exact tomo_cov_total_exact. Qed.
Print Assumptions C19_tomo_cov_total_exact.
(* mode = "var": exact for all four tomography types and both parametrisations *)
Theorem C19_tomo_mse_var_exact : forall (F : OF) (eps : F) (nv : nat) (ms : list nat) (A L : @mat F) (b v : @vec F) (n : nat -> nat),
  pieces_ok F eps (affine F nv A b v) ms ->
  (forall j, (j < length ms)%nat -> (1 <= n j)%nat) ->
  meq nv nv (mmul (sizes_sum ms) L A) mid ->
  forall (ty : ttype) (on_eq : bool) (d2 mo : nat),
  mse_linear_analytical F ty false on_eq d2 mo nv (sizes_sum ms) L (tomo_cov_total F eps nv ms A b v (fun j => of_nat F (n j)))
  = expectL F (tomo_scheds F eps nv ms A b v n)
      (fun obs => sqdist F nv (est F (sizes_sum ms) L b (tomo_scheds F eps nv ms A b v n) obs) v).
Proof. exact tomo_mse_var_exact. Qed.
Print Assumptions C19_tomo_mse_var_exact.

(* mode = "qoperation": exact for all four tomography types in both parametrisations (POVMT with the S = [I ... I] correction,
   QMPT with the first-row correction added by fix qmpt-mse-linear-analytical-qoperation).  implied_S is the specification of
   which entries of the object are implied by the variables; the harness ties it to quara's to_stacked_vector /
   convert_var_to_qoperation (sub-check object_err). *)
Theorem C19_tomo_mse_qoperation_exact : forall (F : OF) (eps : F) (nv : nat) (ms : list nat) (A L : @mat F) (b v : @vec F) (n : nat -> nat),
  pieces_ok F eps (affine F nv A b v) ms ->
  (forall j, (j < length ms)%nat -> (1 <= n j)%nat) ->
  meq nv nv (mmul (sizes_sum ms) L A) mid ->
  forall (ty : ttype) (on_eq : bool) (d2 mo : nat),
  mse_linear_analytical F ty true on_eq d2 mo nv (sizes_sum ms) L (tomo_cov_total F eps nv ms A b v (fun j => of_nat F (n j)))
  = expectL F (tomo_scheds F eps nv ms A b v n)
      (fun obs => object_sqerr F d2 nv (implied_S F ty on_eq d2 mo)
                    (vsub (est F (sizes_sum ms) L b (tomo_scheds F eps nv ms A b v n) obs) v)).
Proof. exact tomo_mse_qoperation_exact. Qed.
Print Assumptions C19_tomo_mse_qoperation_exact.

(* the analytical value depends on V = L Sigma L^T only through its nv x nv entries (justifies evaluating it on a materialised V) *)
Theorem C19_mse_analytical_of_cov_ext : forall (F : OF) ty mode on_eq d2 mo nv (V V' : @mat F), meq nv nv V V' ->
  mse_analytical_of_cov F ty mode on_eq d2 mo nv V = mse_analytical_of_cov F ty mode on_eq d2 mo nv V'.
Proof. exact mse_analytical_of_cov_ext. Qed.
Print Assumptions C19_mse_analytical_of_cov_ext.

(* The code AS IT WAS BEFORE fix qmpt-mse-linear-analytical-qoperation ([mse_linear_analytical_before_fix], not executed by the
   harness any more) agrees with the repaired code except for QMPT / qoperation mode / equality constraint ... *)
Theorem C19_before_fix_agrees_elsewhere : forall (F : OF) ty mode on_eq d2 mo nv nr (L Sg : @mat F),
  (ty = QMPT -> mode = true -> on_eq = true -> False) ->
  mse_linear_analytical_before_fix F ty mode on_eq d2 nv nr L Sg = mse_linear_analytical F ty mode on_eq d2 mo nv nr L Sg.
Proof. exact mse_analytical_before_fix_agrees. Qed.
Print Assumptions C19_before_fix_agrees_elsewhere.
(* ... and there it was NOT the exact expectation: StandardQmpt did not override _calc_mse_linear_analytical_mode_qoperation,
   so the variance of the implied first row of the last HS matrix was missing.  Witness: the one-dimensional instance (d2 = 1)
   with two outcomes, one schedule, one shot: analytical 1/4, exact expectation 1/2.  (A statement about the labelled
   before-fix definition only; if the defect returns the harness reports it against the repaired model.) *)
Definition w_A : @mat Qc_OF := fun i _ => match i with O => 1%Qc | _ => (- (1))%Qc end.
Definition w_b : @vec Qc_OF := fun i => match i with O => 0%Qc | _ => 1%Qc end.
Definition w_v : @vec Qc_OF := fun _ => Q2Qc (1 # 2)%Q.
Definition w_L : @mat Qc_OF := fun _ j => match j with O => Q2Qc (1 # 2)%Q | _ => Q2Qc (- 1 # 2)%Q end.
Definition w_eps : Qc := Q2Qc (1 # 10000000000000)%Q.
Theorem C19_qmpt_qoperation_mse_before_fix_refuted :
  exists (eps : Qc) (nv d2 mo : nat) (ms : list nat) (A L : @mat Qc_OF) (b v : @vec Qc_OF) (n : nat -> nat),
  pieces_ok Qc_OF eps (affine Qc_OF nv A b v) ms /\
  (forall j, (j < length ms)%nat -> (1 <= n j)%nat) /\
  meq nv nv (mmul (sizes_sum ms) L A) mid /\
  mse_linear_analytical_before_fix Qc_OF QMPT true true d2 nv (sizes_sum ms) L (tomo_cov_total Qc_OF eps nv ms A b v (fun j => of_nat Qc_OF (n j)))
  <> expectL Qc_OF (tomo_scheds Qc_OF eps nv ms A b v n)
       (fun obs => object_sqerr Qc_OF d2 nv (implied_S Qc_OF QMPT true d2 mo)
                     (vsub (est Qc_OF (sizes_sum ms) L b (tomo_scheds Qc_OF eps nv ms A b v n) obs) v)).
Proof. exists w_eps, 1%nat, 1%nat, 2%nat, [2%nat], w_A, w_L, w_b, w_v, (fun _ => 1%nat).
  split. { intros j Hj. cbn [length] in Hj. assert (j = O) by lia. subst. split.
           - apply Qc_is_canon. vm_compute. reflexivity.
           - intros x Hx. cbn [nth] in Hx. right. destruct x as [|[|x]]; [| |lia]; apply Qcleb_spec; vm_compute; reflexivity. }
  split; [intros; lia|].
  split. { intros i j Hi Hj. assert (i = O) by lia. assert (j = O) by lia. subst. apply Qc_is_canon. vm_compute. reflexivity. }
  intros H. apply (f_equal (fun q : Qc => Qeq_bool (this q) (1 # 4)%Q)) in H. vm_compute in H. discriminate H. Qed.
Print Assumptions C19_qmpt_qoperation_mse_before_fix_refuted.
(* the same witness with the repaired model: both sides are 1/2 *)
Example C19_qmpt_witness_repaired :
  mse_linear_analytical Qc_OF QMPT true true 1 2 1 2 w_L (tomo_cov_total Qc_OF w_eps 1 [2%nat] w_A w_b w_v (fun j => of_nat Qc_OF 1))
  = Q2Qc (1 # 2)%Q.
Proof. apply Qc_is_canon. vm_compute. reflexivity. Qed.

(* ---- MSE of the empirical distributions ---- *)
(* calc_mse_empi_dists_analytical = E sum_j |f_j - p_j|^2 ... *)
Theorem C19_tomo_mse_empi_exact : forall (F : OF) (eps : F) (nv : nat) (ms : list nat) (A : @mat F) (b v : @vec F) (n : nat -> nat),
  pieces_ok F eps (affine F nv A b v) ms ->
  (forall j, (j < length ms)%nat -> (1 <= n j)%nat) ->
  mse_empi F eps nv ms A b v (fun j => of_nat F (n j))
  = expectL F (tomo_scheds F eps nv ms A b v n)
      (fun obs => dot (sizes_sum ms) (dev_total F (tomo_scheds F eps nv ms A b v n) obs)
                                (dev_total F (tomo_scheds F eps nv ms A b v n) obs)).
Proof. exact tomo_mse_empi_exact. Qed.
Print Assumptions C19_tomo_mse_empi_exact.
(* ... = sum_j (1 - |p_j|^2) / n_j *)
Theorem C19_mse_empi_closed_form : forall (F : OF) eps nv ms (A : @mat F) (b v : @vec F) (ns : nat -> F),
  Forall (fun mp : nat * @vec F => sumn (fst mp) (snd mp) = c1 F) (tomo_pds F eps nv ms A b v) ->
  mse_empi F eps nv ms A b v ns = mse_empi_closed F eps nv ms A b v ns.
Proof. exact mse_empi_closed_eq. Qed.
Print Assumptions C19_mse_empi_closed_form.
Theorem C19_mse_empi_exact : forall (F : OF) (ss : list (sched F)), Forall (valid_sched F) ss ->
  expectL F ss (fun obs => dot (total_size F ss) (dev_total F ss obs) (dev_total F ss obs)) = mse_empi_scheds F ss.
Proof. exact mse_empi_exact. Qed.
Print Assumptions C19_mse_empi_exact.

(* ---- Fisher matrix ---- *)
(* replace_prob_dist changes nothing when every probability is at least eps (below eps it differs by design) *)
Theorem C19_replace_prob_dist_identity : forall (F : OF) (eps : F) (m : nat) (p : nat -> F) (x : nat),
  (forall y, (y < m)%nat -> kle F eps (p y)) -> (x < m)%nat -> replace_prob_dist F eps m p x = p x.
Proof. exact replace_id. Qed.
Print Assumptions C19_replace_prob_dist_identity.
(* the loop of calc_fisher_matrix = sum_x p_x s_x s_x^T = E[s s^T], s_x = grad p_x / p_x *)
Theorem C19_fisher_is_expected_score : forall (F : OF) (eps : F) (m : nat) (p : nat -> F) (G : @mat F) (a b : nat),
  (forall x, (x < m)%nat -> kle F eps (p x)) -> (forall x, (x < m)%nat -> p x <> c0 F) ->
  fisher_core F m (replace_prob_dist F eps m p) G a b
  = expect F m p 1 (fun s => cmul F (score F p G a (hd O s)) (score F p G b (hd O s))).
Proof. exact fisher_is_expected_score. Qed.
Print Assumptions C19_fisher_is_expected_score.
(* Fisher information of n independent shots = n x single-shot matrix (gradients of a normalised model sum to 0) *)
Theorem C19_fisher_n_draws : forall (F : OF) (m : nat) (p : nat -> F) (G : nat -> nat -> F) (a b n : nat),
  sumn m p = c1 F -> (forall x, (x < m)%nat -> p x <> c0 F) ->
  sumn m (fun x => G x a) = c0 F -> sumn m (fun x => G x b) = c0 F ->
  expect F m p n (fun s => cmul F (score_sum F p G a s) (score_sum F p G b s))
  = cmul F (of_nat F n) (fisher_core F m p G a b).
Proof. exact fisher_n_draws. Qed.
Print Assumptions C19_fisher_n_draws.
(* Fisher information of the WHOLE experiment: independent schedules with different distributions, outcome counts, gradients and
   shot numbers.  The covariance of the total score is  sum_j n_j F_j  (what N * calc_fisher_matrix_total(weights n_j / N) is,
   C19_cr_weights_total_information) *)
Theorem C19_fisher_info_additive : forall (F : OF) (a b : nat) (ssG : list (sched F * @mat F)),
  Forall (sched_ok F a b) ssG ->
  expectL F (map fst ssG) (fun obs => cmul F (score_total F ssG a obs) (score_total F ssG b obs)) = fisher_info F ssG a b.
Proof. exact fisher_info_additive. Qed.
Print Assumptions C19_fisher_info_additive.
(* non-vacuity: a 2-outcome schedule (2 shots) and a 3-outcome schedule (1 shot), one parameter; both sides are 2*4 + 1*6 = 14 *)
Definition fi_ex : list (sched Qc_OF * @mat Qc_OF) :=
  [ ((2%nat, (fun _ => Q2Qc (1 # 2)%Q) : @vec Qc_OF, 2%nat), (fun x _ => match x with O => 1%Qc | _ => (- (1))%Qc end) : @mat Qc_OF);
    ((3%nat, (fun _ => Q2Qc (1 # 3)%Q) : @vec Qc_OF, 1%nat), (fun x _ => match x with O => 1%Qc | 1%nat => 0%Qc | _ => (- (1))%Qc end) : @mat Qc_OF) ].
Example C19_fisher_info_example_hypotheses : Forall (sched_ok Qc_OF 0 0) fi_ex.
Proof. constructor; [|constructor; [|constructor]].
  - split; [apply Qc_is_canon; vm_compute; reflexivity|]. split; [lia|]. split; [intros x _ H; discriminate H|].
    split; apply Qc_is_canon; vm_compute; reflexivity.
  - split; [apply Qc_is_canon; vm_compute; reflexivity|]. split; [lia|]. split; [intros x _ H; discriminate H|].
    split; apply Qc_is_canon; vm_compute; reflexivity. Qed.
Example C19_fisher_info_example_value : fisher_info Qc_OF fi_ex 0 0 = Q2Qc (14 # 1)%Q /\
  expectL Qc_OF (map fst fi_ex) (fun obs => cmul Qc_OF (score_total Qc_OF fi_ex 0 obs) (score_total Qc_OF fi_ex 0 obs)) = Q2Qc (14 # 1)%Q.
Proof. split; apply Qc_is_canon; vm_compute; reflexivity. Qed.
(* matrix_util.calc_fisher_matrix on valid input returns that matrix *)
Theorem C19_mu_fisher_ok : forall (F : OF) eps m (p : nat -> F) (G : @mat F),
  validate F eps true (map p (seq 0 m)) = MOk tt -> kleb F eps (c0 F) = false ->
  mu_fisher F eps m m p G = MOk (fisher_core F m (replace_prob_dist F eps m p) G).
Proof. exact mu_fisher_ok. Qed.
Print Assumptions C19_mu_fisher_ok.
(* matrix_util.calc_fisher_matrix_total (after fix calc-fisher-matrix-total-size) returns sum_j w_j F_j, an nv x nv matrix,
   on every valid input (non-negative weights, valid distributions), for any number of outcomes m and variables nv *)
Theorem C19_mu_fisher_total_ok : forall (F : OF) eps m nv (items : list (F * @vec F * @mat F)),
  Forall (item_ok F eps m) items -> kleb F eps (c0 F) = false ->
  exists M, mu_fisher_total F eps m nv items = MOk (nv, M) /\ forall a b, M a b = fisher_total_def F eps m items a b.
Proof. exact mu_fisher_total_ok. Qed.
Print Assumptions C19_mu_fisher_total_ok.
(* The code AS IT WAS BEFORE that fix ([mu_fisher_total_before_fix], not executed by the harness any more) allocated the accumulator
   with the size of the distribution, so 3 outcomes / 2 variables raised on valid input. *)
Definition w_G : @mat Qc_OF := fun x a => match x, a with O, O => 1%Qc | 1%nat, 1%nat => 1%Qc | 2%nat, _ => (- (1))%Qc | _, _ => 0%Qc end.
Definition w_p : @vec Qc_OF := fun _ => Q2Qc (1 # 3)%Q.
Theorem C19_fisher_total_util_before_fix_refuted :
  exists (eps : Qc) (m nv : nat) (items : list (Qc * @vec Qc_OF * @mat Qc_OF)),
    mu_fisher_total_before_fix Qc_OF eps m nv items = MErr 7 /\
    Forall (fun it => let '(w, p, G) := it in
              kle Qc_OF (c0 Qc_OF) w /\ exists M, mu_fisher Qc_OF eps m m p G = MOk M) items.
Proof. exists (Q2Qc (1 # 100000000)%Q), 3%nat, 2%nat, [(1%Qc, w_p, w_G)]. split; [vm_compute; reflexivity|].
  constructor; [|constructor]. split; [apply Qcleb_spec; vm_compute; reflexivity|].
  assert (E : match mu_fisher Qc_OF (Q2Qc (1 # 100000000)%Q) 3 3 w_p w_G with MOk _ => true | MErr _ => false end = true)
    by (vm_compute; reflexivity).
  destruct (mu_fisher Qc_OF (Q2Qc (1 # 100000000)%Q) 3 3 w_p w_G) as [M|c]; [now exists M|discriminate E]. Qed.
Print Assumptions C19_fisher_total_util_before_fix_refuted.
(* the hypotheses of C19_mu_fisher_total_ok hold on that witness *)
Example C19_fisher_total_witness_valid : Forall (item_ok Qc_OF (Q2Qc (1 # 100000000)%Q) 3) [(1%Qc, w_p, w_G)].
Proof. constructor; [|constructor]. split; [apply Qcleb_spec; vm_compute; reflexivity|vm_compute; reflexivity]. Qed.

(* ---- Cramer-Rao bound and left inverse: the numerical kernels are pinned down by their certificates ---- *)
Theorem C19_inverse_unique : forall (F : OF) (n : nat) (Fm M M' : @mat F),
  meq n n (mmul n Fm M) mid -> meq n n (mmul n M' Fm) mid -> meq n n M' M.
Proof. exact inverse_unique. Qed.
Print Assumptions C19_inverse_unique.
Theorem C19_cr_bound_determined : forall (F : OF) (n : nat) (N : F) (Fm M M' : @mat F),
  meq n n (mmul n Fm M) mid -> meq n n (mmul n M' Fm) mid -> cr_var F n N M' = cr_var F n N M.
Proof. exact cr_var_unique. Qed.
Print Assumptions C19_cr_bound_determined.
(* textbook form of calc_cramer_rao_bound: the code forms F_w = sum_j (n_j/N) F_j, inverts it and returns tr(F_w^-1)/N.
   N F_w is the total Fisher information sum_j n_j F_j of the experiment, M/N is its inverse, and the returned value is tr(M/N). *)
Theorem C19_cr_weights_total_information : forall (F : OF) (N : F) (ns : nat -> F) (js : list nat) (Fs : list (@mat F)) a b,
  N <> c0 F ->
  cmul F N (wsum_mats F (combine (map (cr_weights F N ns) js) Fs) a b) = wsum_mats F (combine (map ns js) Fs) a b.
Proof. exact wsum_weights_scale. Qed.
Print Assumptions C19_cr_weights_total_information.
Theorem C19_cr_bound_textbook : forall (F : OF) (n : nat) (N : F) (Fw M : @mat F), N <> c0 F ->
  meq n n (mmul n Fw M) mid ->
  meq n n (mmul n (mscale N Fw) (mscale (kinv F N) M)) mid /\ cr_var F n N M = mtrace n (mscale (kinv F N) M).
Proof. exact cr_bound_textbook. Qed.
Print Assumptions C19_cr_bound_textbook.
Theorem C19_left_inv_normal_eq : forall (F : OF) (nv nr : nat) (A L : @mat F),
  meq nv nv (mmul nr L A) mid -> meq nr nr (mmul nv A L) (mT (mmul nv A L)) ->
  meq nv nr (mmul nr (mT A) (mmul nv A L)) (mT A).
Proof. exact left_inv_normal_eq. Qed.
Print Assumptions C19_left_inv_normal_eq.

(* ---- squared error of complex arrays (calc_se on density / Choi matrices): np.vdot(x - y, x - y), real part ----
   = sum of the squared moduli of the entry differences; non-negative; the real squared distance on real data *)
Theorem C19_se_complex_is_sum_sqr_moduli : forall (F : OF) n (x y : nat -> cplx F),
  csqdist F n x y = sumn n (fun k => znorm2 (zsub (x k) (y k))).
Proof. exact csqdist_is_sum_sqr_moduli. Qed.
Print Assumptions C19_se_complex_is_sum_sqr_moduli.
Theorem C19_se_complex_nonneg : forall (F : OF) n (x y : nat -> cplx F), kle F (c0 F) (csqdist F n x y).
Proof. exact csqdist_nonneg. Qed.
Print Assumptions C19_se_complex_nonneg.
Theorem C19_se_complex_real_case : forall (F : OF) n (x y : @vec F),
  csqdist F n (fun k => zof (x k)) (fun k => zof (y k)) = sqdist F n x y.
Proof. exact csqdist_real. Qed.
Print Assumptions C19_se_complex_real_case.

(* ---- the executed driver op c19.tomo_mse evaluates the formulas on materialised (list-backed) matrices; these values ARE the
   model functions of the theorems above (h = the parsed request: type, flags, sizes ms, A, b, v) ---- *)
Theorem C19_exec_analytical_is_model : forall (h : hdr) (eps : Qc) (nsv : rvec) (L : rmat) (mode : bool), sizes_ok h = true ->
  tomo_ana h eps nsv L mode
  = mse_linear_analytical Qc_OF (h_ty h) mode (h_eq h) (h_d2 h) (h_mo h) (h_nv h) (h_nr h) L
      (tomo_cov_total Qc_OF eps (h_nv h) (h_ms h) (h_A h) (h_b h) (h_v h) nsv).
Proof. exact tomo_ana_spec. Qed.
Print Assumptions C19_exec_analytical_is_model.
Theorem C19_exec_exact_is_model : forall (h : hdr) (eps : Qc) (nsv : rvec) (L : rmat), sizes_ok h = true ->
  tomo_exact h eps nsv L
  = mse_object_exact Qc_OF (h_d2 h) (h_nv h) (h_nr h) (implied_S Qc_OF (h_ty h) (h_eq h) (h_d2 h) (h_mo h)) L
      (tomo_cov_total Qc_OF eps (h_nv h) (h_ms h) (h_A h) (h_b h) (h_v h) nsv).
Proof. exact tomo_exact_spec. Qed.
Print Assumptions C19_exec_exact_is_model.
Theorem C19_exec_empi_is_model : forall (h : hdr) (eps : Qc) (nsv : rvec), sizes_ok h = true ->
  mse_empi_pds Qc_OF nsv O (pd_rows h eps) = mse_empi Qc_OF eps (h_nv h) (h_ms h) (h_A h) (h_b h) (h_v h) nsv /\
  mse_empi_closed_pds Qc_OF nsv O (pd_rows h eps) = mse_empi_closed Qc_OF eps (h_nv h) (h_ms h) (h_A h) (h_b h) (h_v h) nsv.
Proof. exact tomo_empi_spec. Qed.
Print Assumptions C19_exec_empi_is_model.

(* the materialised probability rows (op c19.prob_dists and the rows every other tomography op starts from) and the materialised
   total covariance are, entry by entry, the model's calc_prob_dists / calc_covariance_mat_total *)
Theorem C19_exec_prob_dists_is_model : forall (h : hdr) (eps : Qc), sizes_ok h = true ->
  pds_eq Qc_OF (pd_rows h eps) (tomo_pds Qc_OF eps (h_nv h) (h_ms h) (h_A h) (h_b h) (h_v h)).
Proof. exact pd_rows_eq. Qed.
Print Assumptions C19_exec_prob_dists_is_model.
Theorem C19_exec_cov_total_is_model : forall (h : hdr) (eps : Qc) (nsv : rvec), sizes_ok h = true ->
  meq (h_nr h) (h_nr h) (sigma_of h eps nsv) (tomo_cov_total Qc_OF eps (h_nv h) (h_ms h) (h_A h) (h_b h) (h_v h) nsv).
Proof. exact sigma_of_eq. Qed.
Print Assumptions C19_exec_cov_total_is_model.
Theorem C19_exec_fisher_is_model : forall (h : hdr) (eps8 : Qc) (w : rvec), sizes_ok h = true ->
  mres_mat_eq Qc_OF (fisher_total_of_raw Qc_OF eps8 (raw_frozen h) (h_A h) (h_ms h) w)
                    (tomo_fisher_total Qc_OF eps8 (h_nv h) (h_ms h) (h_A h) (h_b h) (h_v h) w).
Proof. exact exec_fisher_total_spec. Qed.
Print Assumptions C19_exec_fisher_is_model.

(* ---- non-vacuity: a two-outcome and a THREE-outcome schedule, one variable, unequal shot numbers ---- *)
Definition ex_A : @mat Qc_OF := fun i _ => match i with O => 1%Qc | 1%nat => (- (1))%Qc | 2%nat => Q2Qc (1 # 2)%Q | 3%nat => Q2Qc (- 1 # 4)%Q | _ => Q2Qc (- 1 # 4)%Q end.
Definition ex_b : @vec Qc_OF := fun i => match i with O => 0%Qc | 1%nat => 1%Qc | 2%nat => Q2Qc (1 # 4)%Q | 3%nat => Q2Qc (1 # 4)%Q | _ => Q2Qc (1 # 2)%Q end.
Definition ex_v : @vec Qc_OF := fun _ => Q2Qc (1 # 3)%Q.
(* L = (A^T A)^-1 A^T,  A^T A = 19/8 *)
Definition ex_L : @mat Qc_OF := fun _ j => match j with O => Q2Qc (8 # 19)%Q | 1%nat => Q2Qc (- 8 # 19)%Q | 2%nat => Q2Qc (4 # 19)%Q | 3%nat => Q2Qc (- 2 # 19)%Q | _ => Q2Qc (- 2 # 19)%Q end.
Definition ex_n : nat -> nat := fun j => match j with O => 2%nat | _ => 3%nat end.
Definition ex_ms : list nat := [2%nat; 3%nat].
Example C19_example_hypotheses :
  pieces_ok Qc_OF w_eps (affine Qc_OF 1 ex_A ex_b ex_v) ex_ms /\
  (forall j, (j < length ex_ms)%nat -> (1 <= ex_n j)%nat) /\
  meq 1 1 (mmul (sizes_sum ex_ms) ex_L ex_A) mid.
Proof. split. { intros j Hj. cbn [length ex_ms] in Hj. destruct j as [|[|j]]; [| |lia]; (split; [apply Qc_is_canon; vm_compute; reflexivity|]);
                intros x Hx; cbn [nth ex_ms] in Hx; right.
                - destruct x as [|[|x]]; [| |lia]; apply Qcleb_spec; vm_compute; reflexivity.
                - destruct x as [|[|[|x]]]; [| | |lia]; apply Qcleb_spec; vm_compute; reflexivity. }
  split. { intros j Hj. destruct j as [|[|j]]; cbn; lia. }
  intros i j Hi Hj. assert (i = O) by lia. assert (j = O) by lia. subst. apply Qc_is_canon. vm_compute. reflexivity. Qed.
(* on this instance both sides are computed and agree (2 * 2 * 3 * 3 * 3 = 108 outcome sequences enumerated) *)
Example C19_example_value :
  mse_linear_analytical Qc_OF QST false true 4 0 1 (sizes_sum ex_ms) ex_L (tomo_cov_total Qc_OF w_eps 1 ex_ms ex_A ex_b ex_v (fun j => of_nat Qc_OF (ex_n j)))
  = expectL Qc_OF (tomo_scheds Qc_OF w_eps 1 ex_ms ex_A ex_b ex_v ex_n)
      (fun obs => sqdist Qc_OF 1 (est Qc_OF (sizes_sum ex_ms) ex_L ex_b (tomo_scheds Qc_OF w_eps 1 ex_ms ex_A ex_b ex_v ex_n) obs) ex_v).
Proof. apply Qc_is_canon. vm_compute. reflexivity. Qed.
